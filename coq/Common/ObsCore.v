(* Common/ObsCore.v — the observer-graph core shared by C08 / C16 (and usable by C09 / C12).

   Objects are [oid]s; a slot [(x, f)] of the heap holds the LIST of next objects:
   0/1 object for an Instance trait, the container object for a List/Dict/Set trait,
   and the items for the pseudo-field of a container object.  An observer graph is
   [G f notify children] (ObserverGraph(node=..., children=[...]),
   traits/observation/_observer_graph.py); named traits and list/dict/set item
   observers are one node kind because both have exactly one observable (the slot)
   and yield the slot's content as next objects (IObserver.iter_observables /
   iter_objects).

   A notifier is identified by the key (handler, target) — TraitEventNotifier.equals /
   ObserverChangeNotifier.equals (_trait_event_notifier.py l.206, _observer_change_notifier.py l.163).
   The hook state is a flat list of [(x, f, kind)]: the notifier list of observable (x, f)
   is the sub-list of entries with that slot (same relative order); the reference count
   of a user notifier is the number of its [KUser] entries.

   Contents: expected / visits / occ, frame and substitution theorems, the maintainers
   found on a slot, invariant preservation for one change ([inv_preserved_all]), the
   executable hook list ([remove1], [remove_all]) with soundness and completeness.
   Grown from notes/feasibility/ObsList.v, ObsInv.v, ObsExec.v. *)
From Coq Require Import List Arith Lia Bool PeanoNat Permutation.
Import ListNotations.

Definition oid := nat.
Definition fname := nat.
Definition hkey := (nat * oid)%type.          (* (handler id, target object) *)
Inductive graph := G (f : fname) (notify : bool) (children : list graph).
Definition heap := oid -> fname -> list oid.
Definition slot_eqb (x : oid) (f : fname) (o : oid) (fo : fname) := (Nat.eqb x o && Nat.eqb f fo)%bool.
Definition upd (h : heap) (o : oid) (f : fname) (v : list oid) : heap :=
  fun o' f' => if slot_eqb o' f' o f then v else h o' f'.
Inductive kind := KUser (k : hkey) | KMaint (k : hkey) (c : graph).
Notation hook := (oid * fname * kind)%type (only parsing).
Definition reg := (hkey * graph)%type.        (* observe(handler, graph) on root = target = snd key *)

Lemma slot_eqb_true x f o fo : slot_eqb x f o fo = true <-> x = o /\ f = fo.
Proof. unfold slot_eqb. rewrite andb_true_iff, !Nat.eqb_eq. tauto. Qed.
Lemma slot_eqb_refl o fo : slot_eqb o fo o fo = true.
Proof. apply slot_eqb_true. split; reflexivity. Qed.
Lemma upd_same h o f v : upd h o f v o f = v.
Proof. unfold upd. rewrite slot_eqb_refl. reflexivity. Qed.

(* The hooks that must be present for (key k, graph g) applied to object x in heap h. *)
Fixpoint expected (h : heap) (k : hkey) (g : graph) (x : oid) {struct g} : list hook :=
  match g with
  | G f notify cs =>
      (if notify then [(x, f, KUser k)] else []) ++
      map (fun c => (x, f, KMaint k c)) cs ++
      flat_map (fun y => flat_map (fun c => expected h k c y) cs) (h x f)
  end.

(* does the walk of g from x pass through slot (o, fo)? *)
Fixpoint visits (h : heap) (g : graph) (x o : oid) (fo : fname) {struct g} : bool :=
  match g with
  | G f _ cs =>
      slot_eqb x f o fo ||
      existsb (fun y => existsb (fun c => visits h c y o fo) cs) (h x f)
  end.

(* the child graphs hanging below each visit of slot (o, fo) *)
Fixpoint occ (h : heap) (g : graph) (x o : oid) (fo : fname) {struct g} : list graph :=
  match g with
  | G f _ cs =>
      (if slot_eqb x f o fo then cs else []) ++
      flat_map (fun y => flat_map (fun c => occ h c y o fo) cs) (h x f)
  end.

(* is slot (o, fo) matched by a NOTIFYING node of g from x?  (the from-scratch
   reachability semantics of an expression; what the law recomputes) *)
Fixpoint matched (h : heap) (g : graph) (x o : oid) (fo : fname) {struct g} : bool :=
  match g with
  | G f n cs =>
      (n && slot_eqb x f o fo) ||
      existsb (fun y => existsb (fun c => matched h c y o fo) cs) (h x f)
  end.

Lemma graph_ind' (P : graph -> Prop) :
  (forall f n cs, Forall P cs -> P (G f n cs)) -> forall g, P g.
Proof.
  intros H. fix IH 1. intros [f n cs]. apply H.
  induction cs as [|c cs IHcs]; constructor; [apply IH|apply IHcs].
Qed.

(* ---- list lemmas ---- *)
Lemma flat_map_ext_In {A B} (f g : A -> list B) l :
  (forall a, In a l -> f a = g a) -> flat_map f l = flat_map g l.
Proof. induction l; simpl; intros H; [reflexivity|]. rewrite H, IHl; auto. Qed.
Lemma flat_map_nil_In {A B} (f : A -> list B) l : (forall a, In a l -> f a = []) -> flat_map f l = [].
Proof. induction l; simpl; intros H; [reflexivity|]. rewrite H, IHl; auto. Qed.
Lemma existsb_false_In {A} (p : A -> bool) l : existsb p l = false -> forall a, In a l -> p a = false.
Proof.
  intros H a Ha. destruct (p a) eqn:E; [|reflexivity].
  assert (existsb p l = true) by (apply existsb_exists; eauto). congruence.
Qed.
Lemma interleave {A B C} (P : A -> list B) (O : A -> list C) (F : C -> list B) cs :
  Permutation (flat_map P cs ++ flat_map F (flat_map O cs))
              (flat_map (fun c => P c ++ flat_map F (O c)) cs).
Proof.
  induction cs as [|c cs IH]; [reflexivity|]. cbn [flat_map].
  rewrite flat_map_app. rewrite <- !app_assoc. apply Permutation_app_head.
  rewrite app_assoc. rewrite (Permutation_app_comm (flat_map P cs)).
  rewrite <- app_assoc. apply Permutation_app_head. exact IH.
Qed.
Lemma Permutation_flat_map_In {A B} (P Q : A -> list B) cs :
  (forall c, In c cs -> Permutation (P c) (Q c)) -> Permutation (flat_map P cs) (flat_map Q cs).
Proof.
  induction cs as [|c cs IH]; intros H; [reflexivity|]. cbn [flat_map].
  apply Permutation_app; [apply H; left; reflexivity|apply IH; intros; apply H; right; assumption].
Qed.
Lemma flat_map_swap {A B C} (e : A -> B -> list C) (xs : list A) (ys : list B) :
  Permutation (flat_map (fun x => flat_map (fun y => e x y) ys) xs)
              (flat_map (fun y => flat_map (fun x => e x y) xs) ys).
Proof.
  induction xs as [|x xs IH]; cbn [flat_map].
  - symmetry. rewrite flat_map_nil_In; auto.
  - rewrite IH. clear IH. induction ys as [|y ys IHy]; cbn [flat_map]; [reflexivity|].
    rewrite <- !app_assoc. apply Permutation_app_head.
    rewrite <- IHy. rewrite !app_assoc. apply Permutation_app_tail. apply Permutation_app_comm.
Qed.
Lemma flat_map_perm {A B} (f : A -> list B) l l' :
  Permutation l l' -> Permutation (flat_map f l) (flat_map f l').
Proof.
  induction 1; cbn [flat_map]; auto.
  - apply Permutation_app_head; assumption.
  - rewrite !app_assoc. apply Permutation_app_tail. apply Permutation_app_comm.
  - etransitivity; eassumption.
Qed.
Lemma ffm {A B C} (f : B -> list C) (g : A -> list B) l :
  flat_map f (flat_map g l) = flat_map (fun x => flat_map f (g x)) l.
Proof. induction l; cbn [flat_map]; [reflexivity|]. rewrite flat_map_app, IHl. reflexivity. Qed.
Lemma flat_map_map {A B C} (f : B -> list C) (g : A -> B) l :
  flat_map f (map g l) = flat_map (fun x => f (g x)) l.
Proof. induction l; cbn; [reflexivity|]. rewrite IHl. reflexivity. Qed.

Lemma map_flat_map {A B C} (f : B -> C) (g : A -> list B) l :
  map f (flat_map g l) = flat_map (fun y => map f (g y)) l.
Proof. induction l; cbn; [reflexivity|]. rewrite map_app, IHl. reflexivity. Qed.

(* ---- frame ---- *)
Lemma expected_frame h k g : forall x o fo v,
  visits h g x o fo = false -> expected (upd h o fo v) k g x = expected h k g x.
Proof.
  induction g as [f n cs IH] using graph_ind'. intros x o fo v Hv.
  cbn [expected visits] in *. rewrite Forall_forall in IH.
  apply orb_false_iff in Hv. destruct Hv as [Hslot Hrest].
  do 2 f_equal.
  change (upd h o fo v x f) with (if slot_eqb x f o fo then v else h x f). rewrite Hslot.
  apply flat_map_ext_In. intros y Hy. apply flat_map_ext_In. intros c Hc.
  apply IH; [exact Hc|].
  pose proof (existsb_false_In _ _ Hrest y Hy) as E. cbv beta in E.
  exact (existsb_false_In _ _ E c Hc).
Qed.

Lemma matched_frame h g : forall x o fo v a fa,
  visits h g x o fo = false -> matched (upd h o fo v) g x a fa = matched h g x a fa.
Proof.
  induction g as [f n cs IH] using graph_ind'. intros x o fo v a fa Hv.
  cbn [matched visits] in *. rewrite Forall_forall in IH.
  apply orb_false_iff in Hv. destruct Hv as [Hslot Hrest].
  f_equal.
  change (upd h o fo v x f) with (if slot_eqb x f o fo then v else h x f). rewrite Hslot.
  induction (h x f) as [|y ys IHy]; [reflexivity|]. cbn [existsb] in *.
  apply orb_false_iff in Hrest. destruct Hrest as [Hy Hys].
  rewrite (IHy Hys). f_equal.
  clear IHy Hys. induction cs as [|c cs IHc]; [reflexivity|]. cbn [existsb] in *.
  apply orb_false_iff in Hy. destruct Hy as [Hc Hcs].
  rewrite (IH c (or_introl eq_refl) y o fo v a fa Hc).
  rewrite IHc; [reflexivity| |exact Hcs]. intros c' Hc'. apply IH. right. exact Hc'.
Qed.

Lemma occ_nil_of_not_visits h o fo g : forall x, visits h g x o fo = false -> occ h g x o fo = [].
Proof.
  induction g as [f n cs IH] using graph_ind'. intros x V. cbn [visits occ] in *.
  rewrite Forall_forall in IH.
  apply orb_false_iff in V. destruct V as [V1 V2]. rewrite V1. cbn [app].
  apply flat_map_nil_In. intros y Hy. apply flat_map_nil_In. intros c Hc.
  apply IH; [exact Hc|].
  pose proof (existsb_false_In _ _ V2 y Hy) as E. cbv beta in E.
  exact (existsb_false_In _ _ E c Hc).
Qed.

(* Σ_{y ∈ ys} Σ_{c ∈ cs} expected h k c y *)
Definition sumexp (h : heap) (k : hkey) (cs : list graph) (ys : list oid) : list hook :=
  flat_map (fun y => flat_map (fun c => expected h k c y) cs) ys.

Lemma sumexp_app h k cs ys zs : sumexp h k cs (ys ++ zs) = sumexp h k cs ys ++ sumexp h k cs zs.
Proof. unfold sumexp. apply flat_map_app. Qed.

(* ---- the substitution theorem ---- *)
Section Subst.
  Variables (h : heap) (k : hkey) (o : oid) (fo : fname) (news : list oid).
  Let olds := h o fo.
  Let h' := upd h o fo news.

  (* edge-acyclicity relative to the graph walked: below the old and new content of the
     slot, the residual graphs found at the slot do not come back to the slot *)
  Definition acyc_on (g : graph) (x : oid) : Prop :=
    forall c, In c (occ h g x o fo) -> forall y, In y olds \/ In y news -> visits h c y o fo = false.

  Theorem expected_subst g : forall x, acyc_on g x ->
    Permutation
      (expected h' k g x ++ flat_map (fun c => sumexp h k [c] olds) (occ h g x o fo))
      (expected h  k g x ++ flat_map (fun c => sumexp h k [c] news) (occ h g x o fo)).
  Proof.
    induction g as [f n cs IH] using graph_ind'. intros x acyc.
    unfold acyc_on in acyc. cbn [expected occ] in *. rewrite Forall_forall in IH.
    destruct (slot_eqb x f o fo) eqn:Hs.
    - apply slot_eqb_true in Hs. destruct Hs as [-> ->].
      assert (forall c, In c cs -> forall y, In y olds \/ In y news -> visits h c y o fo = false) as acyc'.
      { intros c Hc. apply acyc. apply in_or_app. left. exact Hc. }
      assert (h' o fo = news) as Hn by (unfold h'; apply upd_same).
      rewrite Hn. fold olds.
      assert (flat_map (fun y => flat_map (fun c => occ h c y o fo) cs) olds = []) as Hbelow.
      { apply flat_map_nil_In. intros y Hy. apply flat_map_nil_In. intros c Hc.
        apply occ_nil_of_not_visits. apply acyc'; [exact Hc|left; exact Hy]. }
      rewrite Hbelow, app_nil_r.
      assert (flat_map (fun y => flat_map (fun c => expected h' k c y) cs) news = sumexp h k cs news) as Hfr.
      { unfold sumexp. apply flat_map_ext_In. intros y Hy. apply flat_map_ext_In. intros c Hc.
        apply expected_frame. apply acyc'; [exact Hc|right; exact Hy]. }
      rewrite Hfr.
      change (flat_map (fun y => flat_map (fun c => expected h k c y) cs) olds) with (sumexp h k cs olds).
      rewrite <- !app_assoc. do 2 apply Permutation_app_head.
      assert (forall ys, Permutation (flat_map (fun c => sumexp h k [c] ys) cs) (sumexp h k cs ys)) as SW.
      { intros ys. unfold sumexp.
        rewrite (flat_map_swap (fun c y => flat_map (fun c0 => expected h k c0 y) [c]) cs ys).
        apply Permutation_flat_map_In. intros y _.
        erewrite flat_map_ext_In; [reflexivity|]. intros c _. cbn [flat_map]. apply app_nil_r. }
      rewrite !SW. apply Permutation_app_comm.
    - assert (h' x f = h x f) as Hsame by (unfold h', upd; rewrite Hs; reflexivity).
      rewrite Hsame. cbn [app] in *.
      rewrite <- !app_assoc. do 2 apply Permutation_app_head.
      rewrite !interleave.
      apply Permutation_flat_map_In. intros y Hy.
      rewrite !interleave.
      apply Permutation_flat_map_In. intros c Hc. apply IH; [exact Hc|].
      intros c0 Hc0. apply acyc.
      apply in_flat_map. exists y. split; [exact Hy|]. apply in_flat_map. exists c. split; assumption.
  Qed.

  (* the set-valued reading: what is matched after the change, for slots other than below *)
  Lemma matched_slot_itself g : forall x, matched h' g x o fo = true -> visits h' g x o fo = true.
  Proof.
    induction g as [f n cs IH] using graph_ind'. intros x. cbn [matched visits]. rewrite Forall_forall in IH.
    rewrite !orb_true_iff. intros [A|A].
    - left. apply andb_true_iff in A. tauto.
    - right. apply existsb_exists in A. destruct A as [y [Hy A]]. apply existsb_exists in A.
      destruct A as [c [Hc A]]. apply existsb_exists. exists y. split; [exact Hy|].
      apply existsb_exists. exists c. split; [exact Hc|]. apply IH; assumption.
  Qed.
End Subst.

(* ---- maintainers found on a slot ---- *)
Definition maint_of (o : oid) (fo : fname) (hk : hook) : list (hkey * graph) :=
  let '(x, f, kd) := hk in
  if slot_eqb x f o fo then match kd with KMaint k c => [(k, c)] | KUser _ => [] end else [].
Definition maint_on (H : list hook) o fo : list (hkey * graph) := flat_map (maint_of o fo) H.
Definition user_of (o : oid) (fo : fname) (hk : hook) : list hkey :=
  let '(x, f, kd) := hk in
  if slot_eqb x f o fo then match kd with KUser k => [k] | KMaint _ _ => [] end else [].
Definition users_on (H : list hook) o fo : list hkey := flat_map (user_of o fo) H.

Lemma maint_of_user o fo x f k : maint_of o fo (x, f, KUser k) = [].
Proof. unfold maint_of. destruct (slot_eqb x f o fo); reflexivity. Qed.

Lemma maint_on_expected h k o fo g : forall x,
  Permutation (maint_on (expected h k g x) o fo) (map (pair k) (occ h g x o fo)).
Proof.
  induction g as [f n cs IH] using graph_ind'. intros x. rewrite Forall_forall in IH.
  cbn [expected occ]. unfold maint_on. rewrite !flat_map_app, map_app.
  assert (forall T, Permutation T (map (pair k) (if slot_eqb x f o fo then cs else []) ++
     map (pair k) (flat_map (fun y : oid => flat_map (fun c : graph => occ h c y o fo) cs) (h x f))) ->
     Permutation (flat_map (maint_of o fo) (if n then [(x, f, KUser k)] else []) ++ T)
       (map (pair k) (if slot_eqb x f o fo then cs else []) ++
     map (pair k) (flat_map (fun y : oid => flat_map (fun c : graph => occ h c y o fo) cs) (h x f)))) as U.
  { intros T HT. destruct n; cbn [flat_map]; rewrite ?maint_of_user; cbn [app]; exact HT. }
  apply U. clear U.
  apply Permutation_app.
  - destruct (slot_eqb x f o fo) eqn:Hs.
    + clear IH. induction cs as [|c cs IHcs]; cbn; [reflexivity|]. rewrite Hs. cbn. apply perm_skip. exact IHcs.
    + clear IH. induction cs as [|c cs IHcs]; cbn; [reflexivity|]. rewrite Hs. cbn. exact IHcs.
  - rewrite ffm, map_flat_map.
    apply Permutation_flat_map_In. intros y _.
    rewrite ffm, map_flat_map.
    apply Permutation_flat_map_In. intros c Hc. apply IH. exact Hc.
Qed.

Lemma users_on_expected h k o fo g : forall x,
  (exists u, In u (users_on (expected h k g x) o fo)) <-> matched h g x o fo = true.
Proof.
  induction g as [f n cs IH] using graph_ind'. intros x. rewrite Forall_forall in IH.
  cbn [expected matched]. unfold users_on. rewrite !flat_map_app.
  assert (forall l, l = map (fun c => (x, f, KMaint k c)) cs -> flat_map (user_of o fo) l = []) as Mn.
  { intros l ->. apply flat_map_nil_In. intros a Ha. apply in_map_iff in Ha. destruct Ha as [c [<- _]].
    cbn. destruct (slot_eqb x f o fo); reflexivity. }
  rewrite (Mn _ eq_refl). cbn [app]. rewrite orb_true_iff. split.
  - intros [u Hu]. apply in_app_or in Hu. destruct Hu as [Hu|Hu].
    + left. destruct n; [|destruct Hu]. cbn in Hu. destruct (slot_eqb x f o fo); [reflexivity|destruct Hu].
    + right. apply in_flat_map in Hu. destruct Hu as [hk [Hhk Hu]].
      apply in_flat_map in Hhk. destruct Hhk as [y [Hy Hhk]].
      apply in_flat_map in Hhk. destruct Hhk as [c [Hc Hhk]].
      apply existsb_exists. exists y. split; [exact Hy|]. apply existsb_exists. exists c. split; [exact Hc|].
      apply IH; [exact Hc|]. exists u. unfold users_on. apply in_flat_map. exists hk. split; assumption.
  - intros [A|A].
    + apply andb_true_iff in A. destruct A as [-> A]. exists k. apply in_or_app. left.
      cbn. rewrite A. left. reflexivity.
    + apply existsb_exists in A. destruct A as [y [Hy A]]. apply existsb_exists in A.
      destruct A as [c [Hc A]]. apply (IH c Hc y) in A. destruct A as [u Hu].
      exists u. apply in_or_app. right. unfold users_on in Hu.
      apply in_flat_map in Hu. destruct Hu as [hk [Hhk Hu]].
      apply in_flat_map. exists hk. split; [|exact Hu].
      apply in_flat_map. exists y. split; [exact Hy|]. apply in_flat_map. exists c. split; assumption.
Qed.

Lemma users_on_expected_key h k o fo g x u : In u (users_on (expected h k g x) o fo) -> u = k.
Proof.
  revert x. induction g as [f n cs IH] using graph_ind'. intros x. rewrite Forall_forall in IH.
  cbn [expected]. unfold users_on. rewrite !flat_map_app. intros Hu.
  apply in_app_or in Hu. destruct Hu as [Hu|Hu].
  - destruct n; [|destruct Hu]. cbn in Hu. destruct (slot_eqb x f o fo); cbn in Hu; [|destruct Hu].
    destruct Hu as [<-|[]]. reflexivity.
  - apply in_app_or in Hu. destruct Hu as [Hu|Hu].
    + apply in_flat_map in Hu. destruct Hu as [hk [Hhk Hu]]. apply in_map_iff in Hhk.
      destruct Hhk as [c [<- _]]. cbn in Hu. destruct (slot_eqb x f o fo); destruct Hu.
    + apply in_flat_map in Hu. destruct Hu as [hk [Hhk Hu]].
      apply in_flat_map in Hhk. destruct Hhk as [y [Hy Hhk]].
      apply in_flat_map in Hhk. destruct Hhk as [c [Hc Hhk]].
      apply (IH c Hc y). unfold users_on. apply in_flat_map. exists hk. split; assumption.
Qed.

(* ---- several registrations ---- *)
Definition expected_reg (h : heap) (r : reg) : list hook := expected h (fst r) (snd r) (snd (fst r)).
Definition expected_all (h : heap) (rs : list reg) : list hook := flat_map (expected_reg h) rs.
Definition occ_reg (h : heap) (o : oid) (fo : fname) (r : reg) : list (hkey * graph) :=
  map (pair (fst r)) (occ h (snd r) (snd (fst r)) o fo).
Definition occ_all (h : heap) (rs : list reg) (o : oid) (fo : fname) : list (hkey * graph) :=
  flat_map (occ_reg h o fo) rs.

Definition S_of (h : heap) (M : list (hkey * graph)) (ys : list oid) : list hook :=
  flat_map (fun kc => sumexp h (fst kc) [snd kc] ys) M.

Lemma S_of_app h M ys zs : Permutation (S_of h M (ys ++ zs)) (S_of h M ys ++ S_of h M zs).
Proof.
  unfold S_of. induction M as [|c M IH]; cbn [flat_map]; [reflexivity|].
  rewrite sumexp_app, IH. rewrite <- !app_assoc. apply Permutation_app_head.
  rewrite !app_assoc. apply Permutation_app_tail. apply Permutation_app_comm.
Qed.
Lemma S_of_perm_ys h M ys zs : Permutation ys zs -> Permutation (S_of h M ys) (S_of h M zs).
Proof.
  intros P. unfold S_of. apply Permutation_flat_map_In. intros c _.
  unfold sumexp. apply flat_map_perm. exact P.
Qed.
Lemma S_of_perm_M h M M' ys : Permutation M M' -> Permutation (S_of h M ys) (S_of h M' ys).
Proof. intros P. unfold S_of. apply flat_map_perm. exact P. Qed.

Lemma maint_on_expected_all h rs o fo :
  Permutation (maint_on (expected_all h rs) o fo) (occ_all h rs o fo).
Proof.
  unfold maint_on, expected_all, occ_all. rewrite ffm.
  apply Permutation_flat_map_In. intros [k g] _. apply maint_on_expected.
Qed.

Section Step.
  Variables (h : heap) (rs : list reg) (o : oid) (fo : fname).
  Variables (news removed added : list oid).
  Let olds := h o fo.
  Let h' := upd h o fo news.
  (* the change event is a faithful delta (C05/C06/C07 guarantee this for containers) *)
  Hypothesis delta : Permutation (news ++ removed) (olds ++ added).
  Hypothesis removed_old : incl removed olds.
  Hypothesis added_new : incl added news.
  (* edge-acyclicity: the residual graphs at the slot do not lead back to the slot from
     its old or new content *)
  Hypothesis acyc : forall kc, In kc (occ_all h rs o fo) ->
      forall y, In y olds \/ In y news -> visits h (snd kc) y o fo = false.

  Variables (H H' : list hook).
  Hypothesis inv : Permutation H (expected_all h rs).
  (* what the maintainers on the slot do, reading the heap AFTER the change *)
  Hypothesis step :
    Permutation (H' ++ S_of h' (maint_on H o fo) removed) (H ++ S_of h' (maint_on H o fo) added).

  Lemma S_of_frame M ys :
    (forall kc, In kc M -> In kc (occ_all h rs o fo)) ->
    (forall y, In y ys -> In y olds \/ In y news) -> S_of h' M ys = S_of h M ys.
  Proof.
    intros HM Hy. unfold S_of. apply flat_map_ext_In. intros kc Hkc. unfold sumexp.
    apply flat_map_ext_In. intros y Iy. cbn [flat_map]. f_equal.
    apply expected_frame. apply acyc; [apply HM; exact Hkc|apply Hy; exact Iy].
  Qed.

  Lemma subst_all :
    Permutation (expected_all h' rs ++ S_of h (occ_all h rs o fo) olds)
                (expected_all h rs ++ S_of h (occ_all h rs o fo) news).
  Proof.
    unfold expected_all, occ_all, S_of. rewrite !interleave.
    apply Permutation_flat_map_In. intros [k g] Hr. unfold expected_reg, occ_reg. cbn [fst snd].
    rewrite !flat_map_map. cbn [fst snd].
    apply (expected_subst h k o fo news g (snd k)).
    intros c Hc y Hy. apply (acyc (k, c)); [|exact Hy].
    apply in_flat_map. exists (k, g). split; [exact Hr|]. unfold occ_reg. cbn [fst snd].
    apply in_map. exact Hc.
  Qed.

  Theorem inv_preserved_all : Permutation H' (expected_all h' rs).
  Proof.
    set (M := maint_on H o fo) in *.
    set (O := occ_all h rs o fo) in *.
    assert (Permutation M O) as MO.
    { subst M O. rewrite <- maint_on_expected_all. unfold maint_on. apply flat_map_perm. exact inv. }
    assert (forall kc, In kc M -> In kc O) as MinO by (intros kc; apply Permutation_in; exact MO).
    rewrite (S_of_frame M removed MinO) in step by (intros y Iy; left; apply removed_old; exact Iy).
    rewrite (S_of_frame M added MinO) in step by (intros y Iy; right; apply added_new; exact Iy).
    pose proof subst_all as SUB. fold O in SUB.
    assert (Permutation (expected_all h' rs ++ S_of h O removed) (expected_all h rs ++ S_of h O added)) as KEY.
    { apply (Permutation_app_inv_r (S_of h O olds)).
      rewrite <- !app_assoc.
      rewrite (Permutation_app_comm (S_of h O removed)), (Permutation_app_comm (S_of h O added)).
      rewrite !app_assoc. rewrite SUB. rewrite <- !app_assoc.
      apply Permutation_app_head.
      rewrite <- !S_of_app. apply S_of_perm_ys. exact delta. }
    apply (Permutation_app_inv_r (S_of h O removed)).
    rewrite KEY. rewrite <- inv.
    rewrite <- (S_of_perm_M h M O removed MO), <- (S_of_perm_M h M O added MO).
    exact step.
  Qed.
End Step.

(* ---- decidable equality; the executable hook list ---- *)
Fixpoint graph_eqb (g1 g2 : graph) {struct g1} : bool :=
  match g1, g2 with
  | G f1 n1 cs1, G f2 n2 cs2 =>
      Nat.eqb f1 f2 && Bool.eqb n1 n2 &&
      (fix go (l1 l2 : list graph) : bool :=
         match l1, l2 with
         | [], [] => true
         | a :: l1', b :: l2' => graph_eqb a b && go l1' l2'
         | _, _ => false
         end) cs1 cs2
  end.

Lemma graph_eqb_spec g1 : forall g2, graph_eqb g1 g2 = true <-> g1 = g2.
Proof.
  induction g1 as [f1 n1 cs1 IH] using graph_ind'. intros [f2 n2 cs2]. cbn [graph_eqb].
  rewrite !andb_true_iff, Nat.eqb_eq, eqb_true_iff.
  assert ((fix go (l1 l2 : list graph) : bool :=
             match l1, l2 with
             | [], [] => true
             | a :: l1', b :: l2' => graph_eqb a b && go l1' l2'
             | _, _ => false
             end) cs1 cs2 = true <-> cs1 = cs2) as L.
  { revert cs2. induction cs1 as [|a cs1 IHcs]; intros [|b cs2]; try (split; [discriminate|discriminate]).
    - split; reflexivity.
    - inversion IH as [|? ? Ha Hcs]; subst. rewrite andb_true_iff, (Ha b), (IHcs Hcs cs2).
      split; [intros [-> ->]; reflexivity|intros [= -> ->]; split; reflexivity]. }
  rewrite L. split; [intros [[-> ->] ->]; reflexivity|intros [= -> -> ->]; repeat split].
Qed.

Definition hkey_eqb (a b : hkey) : bool := Nat.eqb (fst a) (fst b) && Nat.eqb (snd a) (snd b).
Lemma hkey_eqb_spec a b : hkey_eqb a b = true <-> a = b.
Proof.
  destruct a, b. unfold hkey_eqb. cbn. rewrite andb_true_iff, !Nat.eqb_eq.
  split; [intros [-> ->]; reflexivity|intros [= -> ->]; split; reflexivity].
Qed.
Definition kind_eqb (a b : kind) : bool :=
  match a, b with
  | KUser k, KUser k' => hkey_eqb k k'
  | KMaint k c, KMaint k' d => hkey_eqb k k' && graph_eqb c d
  | _, _ => false
  end.
Definition hook_eqb (a b : hook) : bool :=
  let '(x, f, k) := a in let '(y, g, k') := b in Nat.eqb x y && Nat.eqb f g && kind_eqb k k'.
Lemma hook_eqb_spec a b : hook_eqb a b = true <-> a = b.
Proof.
  destruct a as [[x f] k], b as [[y g] k']. cbn.
  rewrite !andb_true_iff, !Nat.eqb_eq.
  assert (kind_eqb k k' = true <-> k = k') as K.
  { destruct k, k'; cbn; try (split; [discriminate|discriminate]).
    - rewrite hkey_eqb_spec. split; [intros ->; reflexivity|intros [= ->]; reflexivity].
    - rewrite andb_true_iff, hkey_eqb_spec, graph_eqb_spec.
      split; [intros [-> ->]; reflexivity|intros [= -> ->]; split; reflexivity]. }
  rewrite K. split; [intros [[-> ->] ->]; reflexivity|intros [= -> -> ->]; repeat split].
Qed.

(* notifier.remove_from: remove the first equal notifier, NotifierNotFound (None) if absent *)
Fixpoint remove1 (x : hook) (H : list hook) : option (list hook) :=
  match H with
  | [] => None
  | y :: H' => if hook_eqb x y then Some H' else option_map (cons y) (remove1 x H')
  end.
Fixpoint remove_all (R H : list hook) : option (list hook) :=
  match R with
  | [] => Some H
  | x :: R' => match remove1 x H with Some H' => remove_all R' H' | None => None end
  end.

Lemma remove1_perm x H H' : remove1 x H = Some H' -> Permutation (x :: H') H.
Proof.
  revert H'. induction H as [|y H IH]; intros H' E; [discriminate|]. cbn in E.
  destruct (hook_eqb x y) eqn:Q.
  - apply hook_eqb_spec in Q. subst. inversion E; subst. reflexivity.
  - destruct (remove1 x H) as [H0|]; [|discriminate]. inversion E; subst.
    rewrite perm_swap. apply perm_skip. apply IH. reflexivity.
Qed.
Lemma remove_all_perm R : forall H H', remove_all R H = Some H' -> Permutation (H' ++ R) H.
Proof.
  induction R as [|x R IH]; intros H H' E; cbn in E.
  - inversion E; subst. rewrite app_nil_r. reflexivity.
  - destruct (remove1 x H) as [H0|] eqn:E1; [|discriminate].
    rewrite <- (remove1_perm _ _ _ E1). rewrite <- Permutation_middle. apply perm_skip. apply IH. exact E.
Qed.
Lemma remove1_complete x H : In x H -> exists H', remove1 x H = Some H'.
Proof.
  induction H as [|y H IH]; intros I; [destruct I|]. cbn.
  destruct (hook_eqb x y) eqn:Q; [eexists; reflexivity|].
  destruct I as [->|I].
  - assert (hook_eqb x x = true) by (apply hook_eqb_spec; reflexivity). congruence.
  - destruct (IH I) as [H' ->]. eexists. reflexivity.
Qed.
(* removal cannot fail when everything to be removed is present (as a multiset) *)
Lemma remove_all_complete R : forall H K, Permutation H (K ++ R) ->
  exists H', remove_all R H = Some H' /\ Permutation H' K.
Proof.
  induction R as [|x R IH]; intros H K P; cbn.
  - exists H. split; [reflexivity|]. rewrite app_nil_r in P. exact P.
  - assert (In x H) as I.
    { apply (Permutation_in x (Permutation_sym P)). apply in_or_app. right. left. reflexivity. }
    destruct (remove1_complete x H I) as [H1 E1]. rewrite E1.
    apply IH. apply remove1_perm in E1.
    apply (Permutation_cons_inv (a := x)). rewrite E1, P. symmetry. apply Permutation_middle.
Qed.
