(* C01/Proofs.v — lemmas behind C01/Props.v *)
From Coq Require Import ZArith List Bool Lia.
From TV Require Import Common.PyVal Common.Harness C03.Model C03.Law C03.Proofs C01.Model C01.Law.
Import ListNotations.
Open Scope Z_scope.

(* ---------- hypotheses of soundness (each a decidable condition) ---------- *)
(* F18: Instance(C, allow_none=False) / This(allow_none=False) with None an instance of C *)
Fixpoint none_sound (E : env) (d : desc) : bool :=
  match d with
  | DInstance cls false _ => negb (issub E cNONE cls)
  | DSelf false => negb (issub E cNONE (e_self E))
  | DTuple ds | DCompound ds | DUnion ds => forallb (none_sound E) ds
  | _ => true
  end.
(* adaptation results are whatever the adapter returns: outside the declared-domain statement *)
Fixpoint no_adapt (d : desc) : bool :=
  match d with
  | DAdapt _ _ _ _ => false
  | DTuple ds | DCompound ds | DUnion ds => forallb no_adapt ds
  | _ => true
  end.
Definition sound_hyp (E : env) (d : desc) : bool :=
  wf_desc d && none_sound E d && no_adapt d && bool_final E.

(* ---------- conversions yield the exact type ---------- *)
Lemma as_integer_int v w : as_integer v = Returns w -> exists z, w = PInt z.
Proof.
  unfold as_integer. destruct v; cbn; try discriminate;
    try (intros H; inversion H; eauto; fail);
    try (destruct c; cbn; intros H; inversion H; eauto).
Qed.
Lemma as_float_float v w : as_float v = Returns w -> exists f, w = PFloat f.
Proof.
  unfold as_float. destruct v; cbn; try discriminate; try (intros H; inversion H; eauto; fail);
    try (unfold conv_map; match goal with |- context [match ?c with _ => _ end] => destruct c end;
         intros H; inversion H; eauto).
Qed.
Lemma as_complex_complex v w : as_complex v = Returns w -> exists r i, w = PComplex r i.
Proof.
  unfold as_complex. destruct v; cbn; try discriminate; try (intros H; inversion H; eauto; fail);
    try (unfold conv_map; match goal with |- context [match ?c with _ => _ end] => destruct c end;
         intros H; inversion H; eauto).
Qed.

Lemma cast_fn_class E t v w : cast_fn E t v = Returns w -> class_of w = cast_cls t.
Proof.
  destruct t; cbn.
  - unfold cast_int, conv_map. destruct v; try discriminate; try (intros H; inversion H; reflexivity);
      try (match goal with |- context [match ?c with _ => _ end] => destruct c end; intros H; inversion H; reflexivity).
  - unfold cast_float, conv_map. destruct v; try discriminate;
      repeat (match goal with |- context [match ?c with _ => _ end] => destruct c end);
      try discriminate; intros H; inversion H; reflexivity.
  - unfold cast_complex, conv_map. destruct v; try discriminate;
      repeat (match goal with |- context [match ?c with _ => _ end] => destruct c end);
      try discriminate; intros H; inversion H; reflexivity.
  - destruct v; try (intros H; inversion H; reflexivity);
      repeat (match goal with |- context [match ?c with _ => _ end] => destruct c end);
      try discriminate; intros H; inversion H; reflexivity.
  - destruct v; try (intros H; inversion H; reflexivity);
      repeat (match goal with |- context [match ?c with _ => _ end] => destruct c end);
      try discriminate; intros H; inversion H; reflexivity.
  - intros H; inversion H; reflexivity.
Qed.

(* ---------- validate_sound ---------- *)
Fixpoint forall2b {A B} (f : A -> B -> bool) (l : list A) (m : list B) : bool :=
  match l, m with
  | [], [] => true
  | a :: l', b :: m' => f a b && forall2b f l' m'
  | _, _ => false
  end.

Lemma dom_go_forall2b E l ws :
  (fix go (ds : list desc) (ws : list pv) : bool :=
     match ds, ws with
     | [], [] => true
     | a :: ds', x :: ws' => dom E a x && go ds' ws'
     | _, _ => false
     end) l ws = forall2b (dom E) l ws.
Proof.
  revert ws. induction l as [|x l IH]; intros [|y ws]; try reflexivity.
  cbn [forall2b]. now rewrite <- IH.
Qed.

Lemma dom_tuple E a ds w :
  dom E (DTuple (a :: ds)) w =
  match tuple_items w with Some ws => forall2b (dom E) (a :: ds) ws | None => false end.
Proof.
  change (dom E (DTuple (a :: ds)) w) with
    (match tuple_items w with
     | Some ws =>
         (fix go (ds : list desc) (ws : list pv) : bool :=
            match ds, ws with
            | [], [] => true
            | a :: ds', x :: ws' => dom E a x && go ds' ws'
            | _, _ => false
            end) (a :: ds) ws
     | None => false
     end).
  destruct (tuple_items w) as [ws|]; [|reflexivity].
  destruct ws as [|x ws']; [reflexivity|]. cbn [forall2b]. f_equal. apply dom_go_forall2b.
Qed.

Definition sound_at (E : env) (d : desc) : Prop :=
  wf_desc d = true -> none_sound E d = true -> no_adapt d = true ->
  forall v w, c_validate E d v = Accept w -> dom E d w = true.

Lemma members_dom E ds : Forall (sound_at E) ds ->
  forallb wf_desc ds = true -> forallb (none_sound E) ds = true -> forallb no_adapt ds = true ->
  forall vs ws, members (c_validate E) ds vs = TOk ws -> forall2b (dom E) ds ws = true.
Proof.
  induction 1 as [|d ds Hd _ IH]; cbn; intros Hw Hn Ha [|v vs] ws; try discriminate.
  - intros H; inversion H; reflexivity.
  - apply andb_prop in Hw as [Hw1 Hw2]. apply andb_prop in Hn as [Hn1 Hn2]. apply andb_prop in Ha as [Ha1 Ha2].
    destruct (c_validate E d v) as [w| |e] eqn:Hv; try discriminate.
    destruct (members (c_validate E) ds vs) as [ws'| |e] eqn:Hm; try discriminate.
    intros H; inversion H; subst. cbn. rewrite (Hd Hw1 Hn1 Ha1 v w Hv). cbn. now apply (IH Hw2 Hn2 Ha2 vs).
Qed.

Lemma in_effective_order a ds : In a (effective_order ds) -> In a ds.
Proof.
  unfold effective_order. rewrite in_app_iff, !filter_In. tauto.
Qed.

Lemma forallb_in {A} (p : A -> bool) l a : forallb p l = true -> In a l -> p a = true.
Proof. rewrite forallb_forall. auto. Qed.

Lemma complete_value_in keys v s w :
  str_of v = Some s -> complete_value keys v s = Some w -> str_in keys w = true.
Proof.
  unfold complete_value, str_in. intros Hs.
  destruct (existsb (zlist_eqb s) keys) eqn:He.
  - intros H; inversion H; subst. now rewrite Hs.
  - destruct (filter (fun k => is_prefix s k) keys) as [|k [|k' r]] eqn:Hf; try discriminate.
    intros H; inversion H; subst. cbn.
    assert (Hin : In k (filter (fun k => is_prefix s k) keys)) by (rewrite Hf; left; reflexivity).
    apply filter_In in Hin as [Hin _]. apply existsb_exists. exists k. split; [assumption | apply zlist_eqb_refl].
Qed.

Lemma leaf_sound E d :
  bool_final E = true ->
  (forall ds, d <> DTuple ds /\ d <> DCompound ds /\ d <> DUnion ds) -> sound_at E d.
Proof.
  intros HB Hleaf Hwf Hn Ha v w.
  destruct d; cbn [c_validate]; cbn in Hn, Ha; try discriminate.
  - (* DAny *) reflexivity.
  - (* DInt *) unfold of_conv. destruct (as_integer v) as [x|[]] eqn:H; try discriminate.
    intros Hx; inversion Hx; subst. destruct (as_integer_int _ _ H) as [z ->]. reflexivity.
  - (* DFloat *) unfold of_conv. destruct (as_float v) as [x|[]] eqn:H; try discriminate.
    intros Hx; inversion Hx; subst. destruct (as_float_float _ _ H) as [f ->]. reflexivity.
  - (* DComplex *) unfold of_conv. destruct (as_complex v) as [x|[]] eqn:H; try discriminate.
    intros Hx; inversion Hx; subst. destruct (as_complex_complex _ _ H) as (r & i & ->). reflexivity.
  - (* DStr *) unfold c_coerce; cbn. destruct (typecheck E v cSTR) eqn:H; [|discriminate].
    intros Hx; inversion Hx; subst. now apply typecheck_isinstance.
  - (* DBytes *) unfold c_coerce; cbn. destruct (typecheck E v cBYTES) eqn:H; [|discriminate].
    intros Hx; inversion Hx; subst. now apply typecheck_isinstance.
  - (* DBool *) unfold c_coerce; cbn. destruct (typecheck E v cBOOL) eqn:H.
    + intros Hx; inversion Hx; subst. destruct (typecheck_bool E w HB H) as [b ->]. reflexivity.
    + destruct (typecheck E v cNPBOOL); [|discriminate]. intros Hx; inversion Hx; reflexivity.
  - (* DModule *) unfold c_coerce; cbn. destruct (typecheck E v cMODULE) eqn:H; [|discriminate].
    intros Hx; inversion Hx; subst. now apply typecheck_isinstance.
  - (* DCast *) destruct (class_of v =? cast_cls t) eqn:Hc.
    + intros Hx; inversion Hx; subst. exact Hc.
    + destruct (cast_fn E t v) as [x|e] eqn:Hf; [|discriminate]. intros Hx; inversion Hx; subst.
      cbn. apply Z.eqb_eq. eapply cast_fn_class; eauto.
  - (* DRangeF *) destruct (as_float v) as [[]|[]]; try discriminate.
    destruct (in_float_range f lo hi mask =? 1) eqn:Hr; [|discriminate].
    intros Hx; inversion Hx; subst. cbn. now rewrite <- in_float_range_spec.
  - (* DRangeI *) unfold py_rangei. destruct (as_integer v) as [[]|[]]; try discriminate.
    destruct (py_int_in_range z lo hi mask) eqn:Hr; [|discriminate].
    intros Hx; inversion Hx; subst. cbn. now rewrite <- py_int_in_range_spec.
  - (* DEnum *) unfold py_in. destruct (existsb (py_eq v) vals) eqn:H; [|discriminate].
    intros Hx; inversion Hx; subst. exact H.
  - (* DMap *) destruct (hashable v) eqn:Hh; [|discriminate]. destruct (dict_get m v) eqn:Hg; [|discriminate].
    intros Hx; inversion Hx; subst. cbn. rewrite Hh. cbn. rewrite <- dict_get_existsb. now rewrite Hg.
  - (* DTuple *) exfalso. destruct (Hleaf ds) as [H _]. now apply H.
  - (* DInstance *)
    assert (Hii : (if tc then typecheck E v cls else isinstance E v cls) = true -> isinstance E v cls = true)
      by (destruct tc; [apply typecheck_isinstance | auto]).
    destruct ((allow_none && pv_eqb v PNone) || (if tc then typecheck E v cls else isinstance E v cls)) eqn:Hc;
      [|discriminate].
    intros Hx; inversion Hx; subst. cbn [dom]. destruct (is_none w) eqn:Hnone.
    + destruct w; try discriminate. destruct allow_none; [reflexivity|]. cbn in Hc. apply Hii in Hc.
      unfold isinstance in Hc. cbn in Hc. rewrite orb_false_r in Hc.
      apply negb_true_iff in Hn. fold cNONE in Hn. congruence.
    + apply orb_true_iff in Hc as [Hc|Hc]; [|now apply Hii].
      apply andb_prop in Hc as [_ Hc]. apply pv_eqb_none in Hc. subst. discriminate.
  - (* DSelf *)
    destruct ((allow_none && pv_eqb v PNone) || typecheck E v (e_self E)) eqn:Hc; [|discriminate].
    intros Hx; inversion Hx; subst. cbn [dom]. destruct (is_none w) eqn:Hnone.
    + destruct w; try discriminate. destruct allow_none; [reflexivity|]. cbn in Hc.
      unfold typecheck in Hc. cbn in Hc. apply negb_true_iff in Hn. fold cNONE in Hn. congruence.
    + apply orb_true_iff in Hc as [Hc|Hc]; [|now apply typecheck_isinstance].
      apply andb_prop in Hc as [_ Hc]. apply pv_eqb_none in Hc. subst. discriminate.
  - (* DCallable *) destruct v; cbn; try discriminate;
      try (destruct allow_none; [|discriminate]); intros Hx; inversion Hx; subst; reflexivity.
  - (* DType *) unfold py_type. destruct v; try discriminate.
    + destruct allow_none; [|discriminate]. intros Hx; inversion Hx; reflexivity.
    + destruct (issub E cls0 cls) eqn:Hi; [|discriminate]. intros Hx; inversion Hx; subst. exact Hi.
  - (* DString *) unfold py_string. destruct (strx E v) as [s|]; [|discriminate].
    match goal with |- context [if ?b then _ else _] => destruct b eqn:Hb end; [|discriminate].
    intros Hx; inversion Hx; subst. exact Hb.
  - (* DPrefixList *) unfold py_prefix. destruct (str_of v) as [s|] eqn:Hs; [|discriminate].
    destruct (complete_value vals v s) eqn:Hc; [|discriminate]. intros Hx; inversion Hx; subst.
    cbn. eapply complete_value_in; eauto.
  - (* DPrefixMap *) unfold py_prefix. destruct (str_of v) as [s|] eqn:Hs; [|discriminate].
    destruct (complete_value (map fst m) v s) eqn:Hc; [|discriminate]. intros Hx; inversion Hx; subst.
    cbn. eapply complete_value_in; eauto.
  - (* DCompound *) exfalso. destruct (Hleaf ds) as (_ & H & _). now apply H.
  - (* DUnion *) exfalso. destruct (Hleaf ds) as (_ & _ & H). now apply H.
  - (* DArray *) unfold py_array.
    match goal with |- match ?x with _ => _ end = _ -> _ => destruct x as [a0|] end; [|discriminate].
    match goal with |- match ?x with _ => _ end = _ -> _ => destruct x as [a1|] end; [|discriminate].
    destruct (arr_dtype_ok dt a1) eqn:H1; [|discriminate]. destruct (arr_shape_ok shape a1) eqn:H2; [|discriminate].
    intros Hx; inversion Hx; subst. destruct w; try discriminate. cbn in *. now rewrite H1, H2.
Qed.

Lemma tuple_sound E ds : Forall (sound_at E) ds -> sound_at E (DTuple ds).
Proof.
  intros HF Hwf Hn Ha v w. destruct ds as [|a ds].
  - cbn. unfold py_tuple0. destruct v; try discriminate; intros Hx; inversion Hx; reflexivity.
  - cbn [c_validate]. unfold tuple_check. rewrite dom_tuple.
    destruct (tuple_items v) as [vs|] eqn:Hv; [|discriminate].
    destruct (Nat.eqb (length (a :: ds)) (length vs)); [|discriminate].
    destruct (members (c_validate E) (a :: ds) vs) as [ws| |e] eqn:Hm; try discriminate.
    assert (Hd : forall2b (dom E) (a :: ds) ws = true).
    { cbn [wf_desc none_sound no_adapt] in Hwf, Hn, Ha. eapply members_dom; eauto. }
    destruct (pvs_eqb ws vs) eqn:He; intros Hx; inversion Hx; subst.
    + apply pvs_eqb_true in He. subst. now rewrite Hv.
    + cbn [tuple_items]. exact Hd.
Qed.

Lemma alts_sound E ds a v w :
  Forall (sound_at E) ds -> forallb wf_desc ds = true -> forallb (none_sound E) ds = true ->
  forallb no_adapt ds = true -> In a ds -> c_validate E a v = Accept w ->
  existsb (fun x => dom E x w) ds = true.
Proof.
  intros HF Hw Hn Ha Hin Hv. apply existsb_exists. exists a. split; [assumption|].
  rewrite Forall_forall in HF. specialize (HF a Hin). unfold sound_at in HF.
  apply HF with (v := v); eauto using forallb_in.
Qed.

Lemma compound_sound E ds : Forall (sound_at E) ds -> sound_at E (DCompound ds).
Proof.
  intros HF Hwf Hn Ha v w Hv.
  pose proof (wf_compound_alts ds Hwf) as Hok.
  destruct (compound_eq_single_lemma E ds v w Hok Hv) as (pre & a & post & Heo & Hav & _).
  assert (Hin : In a ds).
  { apply in_effective_order. rewrite Heo. apply in_or_app. right. left. reflexivity. }
  cbn [wf_desc] in Hwf. apply andb_prop in Hwf as [Hwf _]. apply andb_prop in Hwf as [Hwf _].
  cbn [dom]. eapply alts_sound; eauto.
Qed.

Lemma filter_true {A} (l : list A) : filter (fun _ => true) l = l.
Proof. induction l; cbn; congruence. Qed.

Lemma union_sound E ds : Forall (sound_at E) ds -> sound_at E (DUnion ds).
Proof.
  intros HF Hwf Hn Ha v w. cbn [c_validate]. rewrite first_sel_filter, filter_true. intros Hv.
  destruct (first_outcome_map_accept _ _ _ Hv) as (pre & a & post & -> & Hav & _).
  cbn [wf_desc] in Hwf. apply andb_prop in Hwf as [Hwf _].
  cbn [dom]. eapply alts_sound; eauto. apply in_or_app. right. left. reflexivity.
Qed.

Lemma validate_sound_lemma E d v w :
  sound_hyp E d = true -> validate E d v = Accept w -> dom E d w = true.
Proof.
  unfold sound_hyp, validate. intros H.
  apply andb_prop in H as [H HB]. apply andb_prop in H as [H Ha]. apply andb_prop in H as [Hwf Hn].
  revert Hwf Hn Ha v w. change (sound_at E d).
  induction d using desc_ind'.
  - now apply leaf_sound.
  - now apply tuple_sound.
  - now apply compound_sound.
  - now apply union_sound.
Qed.

(* F18 as a witness: without none_sound the statement is false *)
Lemma validate_sound_refuted_lemma :
  let E := mkEnv [(1, 0); (0, 0)] 110 [] [] in let d := DInstance 0 false false in
  wf_desc d = true /\ validate E d PNone = Accept PNone /\ dom E d PNone = false.
Proof. vm_compute. repeat split. Qed.

(* ---------- assignments: rejected => no effect ---------- *)
Definition has_post (d : desc) : bool :=
  match d with
  | DMap _ | DPrefixMap _ => true
  | DCompound ds => existsb is_mapped ds
  | _ => false
  end.

Lemma post_nopost d w : has_post d = false -> post_setattr d w = NoPost.
Proof.
  destruct d; cbn; try discriminate; try reflexivity.
  induction ds as [|a ds IH]; cbn; [reflexivity|]. intros H. apply orb_false_iff in H as [H1 H2].
  rewrite H1. now apply IH.
Qed.

Lemma post_raise_not_traiterror d w : post_setattr d w <> PostRaise ETraitError.
Proof.
  destruct d; cbn; try discriminate.
  - destruct (if hashable w then dict_get m w else None); discriminate.
  - destruct (match str_of w with Some s => str_get m s | None => None end); discriminate.
  - induction ds as [|a ds IH]; cbn; [discriminate|].
    destruct (is_mapped a); [|exact IH]. destruct (mapped_of a w); [discriminate|].
    destruct (hashable w); discriminate.
Qed.

Lemma setattr_traiterror_no_effect E c s n v s' :
  setattr E c s n v = (s', Raise ETraitError) -> s' = s.
Proof.
  unfold setattr. destruct (trait_of c n) as [[d dflt]|]; [|intros H; now inversion H].
  destruct (if is_undefined v then Accept v else validate E d v) as [w| |e]; try (intros H; now inversion H).
  pose proof (post_raise_not_traiterror d w) as Hw. pose proof (post_raise_not_traiterror d dflt) as Hd.
  destruct (post_setattr d w) as [|x|e] eqn:Hp; [intros H; inversion H|..].
  all: destruct (get s n) as [o|].
  all: try (destruct (pv_eqb o w); intros H; inversion H; subst; try congruence).
  all: destruct (post_setattr d dflt) as [|y|e']; try (destruct (pv_eqb dflt w)); intros H; inversion H; subst; congruence.
Qed.

(* ---------- the invariant: nothing out of the declared domain is readable ---------- *)
Definition Inv (E : env) (c : cls) (s : inst) : Prop :=
  forall n d dflt w, trait_of c n = Some (d, dflt) -> get s n = Some w -> dom E d w = true.

(* per attribute: soundness hypotheses of its trait, a name below the shadow range, and — for traits with a
   post_setattr, whose default is materialised by the first assignment — a default inside the domain *)
Definition class_ok (E : env) (c : cls) : bool :=
  forallb (fun e => let '(n, (d, dflt)) := e in
                    sound_hyp E d && (0 <=? n) && (n <? 1000) && (if has_post d then dom E d dflt else true)) c.

Lemma trait_of_in c n d dflt : trait_of c n = Some (d, dflt) -> In (n, (d, dflt)) c.
Proof.
  induction c as [|[m e] c IH]; cbn; [discriminate|]. destruct (m =? n) eqn:H.
  - apply Z.eqb_eq in H. intros Hx; inversion Hx; subst. now left.
  - intros Hx. right. now apply IH.
Qed.

Lemma class_ok_at E c n d dflt :
  class_ok E c = true -> trait_of c n = Some (d, dflt) ->
  sound_hyp E d = true /\ 0 <= n < 1000 /\ (has_post d = true -> dom E d dflt = true).
Proof.
  unfold class_ok. rewrite forallb_forall. intros H Ht. specialize (H _ (trait_of_in _ _ _ _ Ht)). cbn in H.
  apply andb_prop in H as [H H4]. apply andb_prop in H as [H H3]. apply andb_prop in H as [H1 H2].
  split; [assumption|]. split; [lia|]. intros Hp. now rewrite Hp in H4.
Qed.

Lemma trait_of_shadow E c n d dflt m :
  class_ok E c = true -> trait_of c n = Some (d, dflt) -> trait_of c (shadow m) = Some (d, dflt) -> 0 <= m -> False.
Proof.
  intros Hc _ Hs Hm. destruct (class_ok_at E c _ _ _ Hc Hs) as (_ & Hr & _). unfold shadow in Hr. lia.
Qed.

Lemma inv_set E c s m x :
  Inv E c s -> (forall d dflt, trait_of c m = Some (d, dflt) -> dom E d x = true) -> Inv E c (set s m x).
Proof.
  intros HI Hx n d dflt w Ht. unfold set. cbn. destruct (m =? n) eqn:Hmn.
  - apply Z.eqb_eq in Hmn. subst. intros H; inversion H; subst. eapply Hx; eauto.
  - intros Hg. eapply HI; eauto.
Qed.

Lemma inv_set_shadow E c s m x :
  class_ok E c = true -> 0 <= m -> Inv E c s -> Inv E c (set s (shadow m) x).
Proof.
  intros Hc Hm HI. apply inv_set; [assumption|]. intros d dflt Ht. exfalso.
  destruct (class_ok_at E c _ _ _ Hc Ht) as (_ & Hr & _). unfold shadow in Hr. lia.
Qed.

Lemma setattr_inv E c s n v :
  is_undefined v = false -> class_ok E c = true -> Inv E c s -> Inv E c (fst (setattr E c s n v)).
Proof.
  intros Hu Hc HI. unfold setattr. rewrite Hu. destruct (trait_of c n) as [[d dflt]|] eqn:Ht; [|exact HI].
  destruct (class_ok_at E c _ _ _ Hc Ht) as (Hs & Hr & Hd).
  destruct (validate E d v) as [w| |e] eqn:Hv; try exact HI.
  pose proof (validate_sound_lemma E d v w Hs Hv) as Hw.
  assert (Hsetw : forall s0, Inv E c s0 -> Inv E c (set s0 n w)).
  { intros s0 H0. apply inv_set; [assumption|]. intros d' dflt' Ht'. rewrite Ht in Ht'. now inversion Ht'; subst. }
  destruct (post_setattr d w) as [|x|e] eqn:Hp; cbn.
  - now apply Hsetw.
  - assert (Hpost : has_post d = true).
    { destruct (has_post d) eqn:Hh; [reflexivity|]. rewrite (post_nopost d w Hh) in Hp. discriminate. }
    assert (Hsetd : Inv E c (set s n dflt)).
    { apply inv_set; [assumption|]. intros d' dflt' Ht'. rewrite Ht in Ht'. inversion Ht'; subst. now apply Hd. }
    destruct (get s n) as [o|].
    + destruct (pv_eqb o w); cbn; [now apply Hsetw|]. apply inv_set_shadow; try assumption; try lia. now apply Hsetw.
    + destruct (post_setattr d dflt) as [|y|e']; cbn.
      * destruct (pv_eqb dflt w); cbn; [now apply Hsetw|].
        apply inv_set_shadow; try assumption; try lia. now apply Hsetw.
      * assert (H1 : Inv E c (set (set s n dflt) (shadow n) y)) by (apply inv_set_shadow; try assumption; lia).
        destruct (pv_eqb dflt w); cbn; [now apply Hsetw|].
        apply inv_set_shadow; try assumption; try lia. now apply Hsetw.
      * exact Hsetd.
  - assert (Hpost : has_post d = true).
    { destruct (has_post d) eqn:Hh; [reflexivity|]. rewrite (post_nopost d w Hh) in Hp. discriminate. }
    assert (Hsetd : Inv E c (set s n dflt)).
    { apply inv_set; [assumption|]. intros d' dflt' Ht'. rewrite Ht in Ht'. inversion Ht'; subst. now apply Hd. }
    destruct (get s n) as [o|].
    + destruct (pv_eqb o w); cbn; now apply Hsetw.
    + destruct (post_setattr d dflt) as [|y|e']; cbn.
      * destruct (pv_eqb dflt w); cbn; now apply Hsetw.
      * assert (H1 : Inv E c (set (set s n dflt) (shadow n) y)) by (apply inv_set_shadow; try assumption; lia).
        destruct (pv_eqb dflt w); cbn; now apply Hsetw.
      * exact Hsetd.
Qed.

(* the values assigned are ordinary values, not the Undefined sentinel (which bypasses validation: F22) *)
Definition kw_defined (kw : list (Z * pv)) : bool := forallb (fun p => negb (is_undefined (snd p))) kw.
Definition ops_defined (ops : list op) : bool := forallb (fun o => kw_defined (snd o)) ops.

Lemma assign_all_inv E c kw : forall s,
  kw_defined kw = true -> class_ok E c = true -> Inv E c s -> Inv E c (fst (assign_all E c s kw)).
Proof.
  induction kw as [|[n v] kw IH]; intros s Hd Hc HI; cbn; [exact HI|].
  cbn in Hd. apply andb_prop in Hd as [Hv Hd]. apply negb_true_iff in Hv.
  pose proof (setattr_inv E c s n v Hv Hc HI) as H1.
  destruct (setattr E c s n v) as [s1 [|e]]; cbn in *; [now apply IH | exact H1].
Qed.

Lemma inv_empty E c : Inv E c [].
Proof. intros n d dflt w _ H. discriminate. Qed.

Lemma step_inv E c s o :
  kw_defined (snd o) = true -> class_ok E c = true -> Inv E c s -> Inv E c (fst (step E c s o)).
Proof.
  intros Hd Hc HI. destruct o as [[| |] kw]; cbn in *.
  - now apply assign_all_inv.
  - now apply assign_all_inv.
  - pose proof (assign_all_inv E c kw [] Hd Hc (inv_empty E c)) as H1.
    destruct (assign_all E c [] kw) as [s1 [|e]]; cbn in *; assumption.
Qed.

Lemma run_inv E c ops : forall s,
  ops_defined ops = true -> class_ok E c = true -> Inv E c s -> Forall (fun r => Inv E c (fst r)) (run E c s ops).
Proof.
  induction ops as [|o ops IH]; intros s Hd Hc HI; cbn; [constructor|].
  cbn in Hd. apply andb_prop in Hd as [Ho Hd].
  pose proof (step_inv E c s o Ho Hc HI) as H1. destruct (step E c s o) as [s1 out]; cbn in *.
  constructor; [exact H1 | now apply IH].
Qed.

(* ---------- any exception => no effect, unless a post_setattr can raise (F19) ---------- *)
Definition post_safe (c : cls) : bool :=
  forallb (fun e => let '(_, (d, dflt)) := e in
                    match d with
                    | DMap _ | DPrefixMap _ => match post_setattr d dflt with PostSet _ => true | _ => false end
                    | DCompound ds => negb (existsb is_mapped ds)
                    | _ => true
                    end) c.

Lemma str_get_in m k : In k (map fst m) -> exists x, str_get m k = Some x.
Proof.
  induction m as [|[k0 x0] m IH]; cbn; [tauto|]. intros [H|H].
  - subst. rewrite zlist_eqb_refl. eauto.
  - destruct (zlist_eqb k0 k); eauto.
Qed.

Lemma existsb_zlist_in s keys : existsb (zlist_eqb s) keys = true -> In s keys.
Proof.
  rewrite existsb_exists. intros (k & Hin & He). apply zlist_eqb_true in He. now subst.
Qed.

Lemma accepted_is_mapped E d v w :
  is_mapped d = true -> validate E d v = Accept w -> exists x, post_setattr d w = PostSet x.
Proof.
  unfold validate. destruct d; cbn; try discriminate; intros _.
  - destruct (hashable v) eqn:Hh; [|discriminate]. destruct (dict_get m v) eqn:Hg; [|discriminate].
    intros H; inversion H; subst. rewrite Hh, Hg. eauto.
  - unfold py_prefix. destruct (str_of v) as [s|] eqn:Hs; [|discriminate].
    unfold complete_value. destruct (existsb (zlist_eqb s) (map fst m)) eqn:He.
    + intros H; inversion H; subst. rewrite Hs.
      destruct (str_get_in m s (existsb_zlist_in _ _ He)) as [x ->]. eauto.
    + destruct (filter (fun k => is_prefix s k) (map fst m)) as [|k [|k' r]] eqn:Hf; try discriminate.
      intros H; inversion H; subst. cbn.
      assert (Hin : In k (filter (fun k => is_prefix s k) (map fst m))) by (rewrite Hf; now left).
      apply filter_In in Hin as [Hin _]. destruct (str_get_in m k Hin) as [x ->]. eauto.
Qed.

Lemma setattr_exception_no_effect E c s n v s' e :
  is_undefined v = false -> post_safe c = true -> setattr E c s n v = (s', Raise e) -> s' = s.
Proof.
  unfold post_safe. rewrite forallb_forall. intros Hu Hp. unfold setattr. rewrite Hu.
  destruct (trait_of c n) as [[d dflt]|] eqn:Ht; [|intros H; now inversion H].
  specialize (Hp _ (trait_of_in _ _ _ _ Ht)). cbn in Hp.
  destruct (validate E d v) as [w| |e0] eqn:Hv; try (intros H; now inversion H).
  destruct (has_post d) eqn:Hh.
  2:{ rewrite (post_nopost d w Hh). intros H; inversion H. }
  destruct d; cbn in Hh; try discriminate.
  - (* DMap *) destruct (accepted_is_mapped E (DMap m) v w eq_refl Hv) as [x Hx]. rewrite Hx.
    destruct (get s n) as [o|].
    + destruct (pv_eqb o w); intros H; inversion H.
    + destruct (post_setattr (DMap m) dflt) as [|y|e']; try discriminate.
      destruct (pv_eqb dflt w); intros H; inversion H.
  - (* DPrefixMap *) destruct (accepted_is_mapped E (DPrefixMap m) v w eq_refl Hv) as [x Hx]. rewrite Hx.
    destruct (get s n) as [o|].
    + destruct (pv_eqb o w); intros H; inversion H.
    + destruct (post_setattr (DPrefixMap m) dflt) as [|y|e']; try discriminate.
      destruct (pv_eqb dflt w); intros H; inversion H.
  - (* DCompound *) rewrite Hh in Hp. discriminate.
Qed.

Lemma step_failure_no_effect E c s h n v s' e :
  is_undefined v = false -> post_safe c = true -> step E c s (h, [(n, v)]) = (s', Raise e) -> s' = s.
Proof.
  intros Hu Hp. destruct h; cbn.
  1,2: destruct (setattr E c s n v) as [s1 [|e1]] eqn:Hs; intros H; inversion H; subst;
       eapply setattr_exception_no_effect; eauto.
  destruct (setattr E c [] n v) as [s1 [|e1]]; intros H; inversion H; reflexivity.
Qed.

Lemma ctor_failure_no_effect E c s kw s' e : step E c s (Ctor, kw) = (s', Raise e) -> s' = s.
Proof. cbn. destruct (assign_all E c [] kw) as [s1 [|e1]]; intros H; inversion H; reflexivity. Qed.

(* F19: Either(Map({'a': 1}), Int) <- 5 on a fresh instance *)
Lemma exception_no_effect_refuted_lemma :
  let E := mkEnv [(3, 3); (6, 6)] 110 [] [] in
  let c := [(0, (DCompound [DMap [(PStr [97], PInt 1)]; DInt], PNone))] in
  exists s' e, setattr E c [] 0 (PInt 5) = (s', Raise e) /\ e <> ETraitError /\ s' <> [].
Proof. eexists. eexists. vm_compute. repeat split; discriminate. Qed.

(* F22: the Undefined sentinel is stored without validation *)
Lemma undefined_bypass_lemma :
  let c := [(0, (DInt, PInt 0))] in
  class_ok E0 c = true /\ setattr E0 c [] 0 PUndefined = ([(0, PUndefined)], Ok) /\ dom E0 DInt PUndefined = false.
Proof. vm_compute. repeat split. Qed.

(* non-vacuity *)
Lemma class_ok_example :
  let E := E0 in
  let c := [(0, (DTuple [DInt; DRangeF (Some (FFin false 0)) None 1], PTuple [PInt 0; PFloat (FFin false 0)]));
            (1, (DMap [(PStr [97], PInt 1); (PInt 1, PInt 2)], PStr [97]));
            (2, (DUnion [DString 0 5 None; DCast CTInt], PStr []))] in
  class_ok E c = true /\ post_safe c = true /\
  map snd (run E c [] [(Attr, [(0, PTuple [PBool true; PInt 2])]); (TraitSet, [(1, PFloat (FFin false 1000)); (0, PNone)]);
                        (Ctor, [(2, PStr [49; 50])]); (Attr, [(2, PInt 7)])])
  = [Ok; Raise ETraitError; Ok; Ok].
Proof. vm_compute. repeat split. Qed.

(* ---------- the only exceptions validation lets through are the value's own ---------- *)
Lemma int_to_fl_raises z e : int_to_fl z = Raises e -> e = EOverflowError /\ (MAXF <=? Z.abs z) = true.
Proof.
  unfold int_to_fl. destruct (Z.abs z <? MAXF) eqn:H; [discriminate|]. intros Hx; inversion Hx; subst.
  split; [reflexivity|]. apply Z.ltb_ge in H. now apply Z.leb_le.
Qed.

Lemma float_as_double_raises v e :
  float_as_double v = Raises e -> e <> ETypeError -> raises_own v e = true.
Proof.
  destruct v; cbn -[MAXF int_to_fl]; try discriminate; try (intros H; inversion H; congruence).
  - (* PInt *) intros H _. apply int_to_fl_raises in H as [-> H]. now rewrite H.
  - (* PIntSub *) intros H _. apply int_to_fl_raises in H as [-> H]. now rewrite H.
  - (* PNpInt *) intros H _. apply int_to_fl_raises in H as [-> H]. now rewrite H.
  - (* PIndexObj *) destruct c as [z|x]; cbn -[MAXF int_to_fl].
    + intros H _. apply int_to_fl_raises in H as [-> H]. now rewrite H.
    + intros H _. inversion H; subst. apply exn_eqb_refl.
  - (* PFloatObj *) destruct c as [f|x]; [discriminate|]. intros H _. inversion H; subst. apply exn_eqb_refl.
Qed.

Lemma as_float_raises v e : as_float v = Raises e -> e <> ETypeError -> raises_own v e = true.
Proof.
  unfold as_float, conv_map. destruct v; try discriminate;
    match goal with |- context [float_as_double ?x] => destruct (float_as_double x) eqn:H end;
    try discriminate; intros Hx; inversion Hx; subst; now apply float_as_double_raises.
Qed.

Lemma as_integer_raises v e : as_integer v = Raises e -> e <> ETypeError -> raises_own v e = true.
Proof.
  unfold as_integer, conv_map. destruct v; cbn -[MAXF]; try discriminate;
    try (intros H; inversion H; congruence).
  destruct c as [z|x]; [discriminate|]. intros H _; inversion H; subst. apply exn_eqb_refl.
Qed.

Lemma as_complex_raises v e : as_complex v = Raises e -> e <> ETypeError -> raises_own v e = true.
Proof.
  unfold as_complex, conv_map. destruct v; try discriminate;
    try (match goal with |- context [float_as_double ?x] => destruct (float_as_double x) eqn:H end;
         try discriminate; intros Hx; inversion Hx; subst; now apply float_as_double_raises).
  destruct c as [p|x]; [discriminate|]. intros H _. inversion H; subst. apply exn_eqb_refl.
Qed.

Definition own_at (E : env) (d : desc) : Prop :=
  wf_desc d = true -> forall v e, c_validate E d v = Propagate e -> raises_own v e = true.

Lemma members_exn E ds : Forall (own_at E) ds -> forallb wf_desc ds = true ->
  forall vs e, members (c_validate E) ds vs = TExn e -> existsb (fun x => raises_own x e) vs = true.
Proof.
  induction 1 as [|d ds Hd _ IH]; cbn; intros Hw [|v vs] e; try discriminate.
  apply andb_prop in Hw as [Hw1 Hw2].
  destruct (c_validate E d v) as [w| |e0] eqn:Hv; try discriminate.
  - destruct (members (c_validate E) ds vs) as [ws| |e1] eqn:Hm; try discriminate.
    intros H; inversion H; subst. cbn. rewrite (IH Hw2 vs e Hm). apply orb_true_r.
  - intros H; inversion H; subst. cbn. now rewrite (Hd Hw1 v e Hv).
Qed.

Lemma first_outcome_map_propagate {A} (f : A -> vres) l e :
  first_outcome (map f l) = Propagate e -> exists a, In a l /\ f a = Propagate e.
Proof.
  induction l as [|a l IH]; cbn; [discriminate|]. destruct (f a) as [x| |e0] eqn:Hf; try discriminate.
  - intros H. destruct (IH H) as (b & Hb & Hfb). eauto.
  - intros H; inversion H; subst. eauto.
Qed.

Lemma leaf_own E d :
  (forall ds, d <> DTuple ds /\ d <> DCompound ds /\ d <> DUnion ds) -> own_at E d.
Proof.
  intros Hleaf _ v e. destruct d; cbn [c_validate]; try discriminate.
  - (* DInt *) unfold of_conv. destruct (as_integer v) as [x|[]] eqn:H; try discriminate;
      intros Hx; inversion Hx; subst; apply as_integer_raises; auto; discriminate.
  - (* DFloat *) unfold of_conv. destruct (as_float v) as [x|[]] eqn:H; try discriminate;
      intros Hx; inversion Hx; subst; apply as_float_raises; auto; discriminate.
  - (* DComplex *) unfold of_conv. destruct (as_complex v) as [x|[]] eqn:H; try discriminate;
      intros Hx; inversion Hx; subst; apply as_complex_raises; auto; discriminate.
  - unfold c_coerce; cbn. destruct (typecheck E v cSTR); discriminate.
  - unfold c_coerce; cbn. destruct (typecheck E v cBYTES); discriminate.
  - unfold c_coerce; cbn. destruct (typecheck E v cBOOL); [discriminate|]. destruct (typecheck E v cNPBOOL); discriminate.
  - unfold c_coerce; cbn. destruct (typecheck E v cMODULE); discriminate.
  - (* DCast *) destruct (class_of v =? cast_cls t); [discriminate|]. destruct (cast_fn E t v); discriminate.
  - (* DRangeF *) destruct (as_float v) as [[]|[]] eqn:H; try discriminate;
      try (destruct (in_float_range f lo hi mask =? 1); discriminate);
      intros Hx; inversion Hx; subst; apply as_float_raises; auto; discriminate.
  - (* DRangeI *) unfold py_rangei. destruct (as_integer v) as [[]|[]] eqn:H; try discriminate;
      try (destruct (py_int_in_range z lo hi mask); discriminate);
      intros Hx; inversion Hx; subst; apply as_integer_raises; auto; discriminate.
  - destruct (py_in v vals); discriminate.
  - destruct (hashable v); [|discriminate]. destruct (dict_get m v); discriminate.
  - exfalso. destruct (Hleaf ds) as [H _]. now apply H.
  - destruct ((allow_none && pv_eqb v PNone) || (if tc then typecheck E v cls else isinstance E v cls)); discriminate.
  - unfold c_adapt. destruct v; try (destruct allow_none; discriminate);
      destruct (mode =? 0); repeat (match goal with |- context [if ?b then _ else _] => destruct b
                                                  | |- context [match ?x with _ => _ end] => destruct x end); discriminate.
  - destruct ((allow_none && pv_eqb v PNone) || typecheck E v (e_self E)); discriminate.
  - destruct v; try (destruct allow_none; discriminate); cbn; discriminate.
  - unfold py_type. destruct v; try discriminate; [destruct allow_none | destruct (issub E cls0 cls)]; discriminate.
  - unfold py_string. destruct (strx E v); [|discriminate].
    match goal with |- context [if ?b then _ else _] => destruct b end; discriminate.
  - unfold py_prefix. destruct (str_of v); [|discriminate]. destruct (complete_value vals v l); discriminate.
  - unfold py_prefix. destruct (str_of v); [|discriminate]. destruct (complete_value (map fst m) v l); discriminate.
  - exfalso. destruct (Hleaf ds) as (_ & H & _). now apply H.
  - exfalso. destruct (Hleaf ds) as (_ & _ & H). now apply H.
  - (* DArray *) unfold py_array.
    match goal with |- match ?x with _ => _ end = _ -> _ => destruct x as [a0|] end; [|discriminate].
    match goal with |- match ?x with _ => _ end = _ -> _ => destruct x as [a1|] end; [|discriminate].
    destruct (arr_dtype_ok dt a1 && arr_shape_ok shape a1); discriminate.
Qed.

Lemma own_protocol_lemma E d v e :
  wf_desc d = true -> validate E d v = Propagate e -> raises_own v e = true.
Proof.
  unfold validate. intros Hwf. revert Hwf v e. change (own_at E d).
  induction d using desc_ind'.
  - now apply leaf_own.
  - (* DTuple *) intros Hwf v e. destruct ds as [|a ds].
    + cbn. unfold py_tuple0. destruct v; discriminate.
    + cbn [c_validate]. unfold tuple_check. destruct (tuple_items v) as [vs|] eqn:Hv; [|discriminate].
      destruct (Nat.eqb (length (a :: ds)) (length vs)); [|discriminate].
      destruct (members (c_validate E) (a :: ds) vs) as [ws| |e0] eqn:Hm; try discriminate.
      * destruct (pvs_eqb ws vs); discriminate.
      * intros Hx; inversion Hx; subst. cbn [wf_desc] in Hwf.
        pose proof (members_exn E (a :: ds) H Hwf vs e Hm) as Hex.
        destruct v; cbn in Hv; try discriminate; inversion Hv; subst; exact Hex.
  - (* DCompound *) intros Hwf v e Hv. pose proof (wf_compound_alts ds Hwf) as Hok.
    rewrite compound_first_accepting_lemma in Hv by exact Hok.
    destruct (first_outcome_map_propagate _ _ _ Hv) as (a & Hin & Ha). apply in_effective_order in Hin.
    rewrite Forall_forall in H. cbn [wf_desc] in Hwf. apply andb_prop in Hwf as [Hwf _]. apply andb_prop in Hwf as [Hwf _].
    apply (H a Hin (forallb_in _ _ _ Hwf Hin) v e Ha).
  - (* DUnion *) intros Hwf v e. cbn [c_validate]. rewrite first_sel_filter, filter_true. intros Hv.
    destruct (first_outcome_map_propagate _ _ _ Hv) as (a & Hin & Ha).
    rewrite Forall_forall in H. cbn [wf_desc] in Hwf. apply andb_prop in Hwf as [Hwf _].
    apply (H a Hin (forallb_in _ _ _ Hwf Hin) v e Ha).
Qed.

Lemma setattr_exception_class E c s n v s' e d dflt :
  is_undefined v = false -> post_safe c = true -> trait_of c n = Some (d, dflt) -> wf_desc d = true ->
  setattr E c s n v = (s', Raise e) -> e = ETraitError \/ raises_own v e = true.
Proof.
  intros Hu Hp Ht Hwf. pose proof (setattr_exception_no_effect E c s n v s' e Hu Hp) as Hne.
  unfold setattr in *. rewrite Hu, Ht in *.
  destruct (validate E d v) as [w| |e0] eqn:Hv.
  - (* accepted: an exception can only come from post_setattr, excluded by post_safe *)
    unfold post_safe in Hp. rewrite forallb_forall in Hp. specialize (Hp _ (trait_of_in _ _ _ _ Ht)). cbn in Hp.
    destruct (has_post d) eqn:Hh.
    2:{ rewrite (post_nopost d w Hh). intros H; inversion H. }
    destruct d; cbn in Hh; try discriminate.
    + destruct (accepted_is_mapped E (DMap m) v w eq_refl Hv) as [x Hx]. rewrite Hx.
      destruct (get s n) as [o|].
      * destruct (pv_eqb o w); intros H; inversion H.
      * destruct (post_setattr (DMap m) dflt) as [|y|e']; try discriminate.
        destruct (pv_eqb dflt w); intros H; inversion H.
    + destruct (accepted_is_mapped E (DPrefixMap m) v w eq_refl Hv) as [x Hx]. rewrite Hx.
      destruct (get s n) as [o|].
      * destruct (pv_eqb o w); intros H; inversion H.
      * destruct (post_setattr (DPrefixMap m) dflt) as [|y|e']; try discriminate.
        destruct (pv_eqb dflt w); intros H; inversion H.
    + rewrite Hh in Hp. discriminate.
  - intros H; inversion H; subst. now left.
  - intros H; inversion H; subst. right. eapply own_protocol_lemma; eauto.
Qed.

(* ---------- the stored value is the documented conversion ---------- *)
Fixpoint forall3b {A B C} (f : A -> B -> C -> bool) (l : list A) (m : list B) (n : list C) : bool :=
  match l, m, n with
  | [], [], [] => true
  | a :: l', b :: m', c :: n' => f a b c && forall3b f l' m' n'
  | _, _, _ => false
  end.

Lemma conv_go_forall3b E l vs ws :
  (fix go (ds : list desc) (vs ws : list pv) : bool :=
     match ds, vs, ws with
     | [], [], [] => true
     | a :: ds', x :: vs', y :: ws' => conv_ok E a x y && go ds' vs' ws'
     | _, _, _ => false
     end) l vs ws = forall3b (conv_ok E) l vs ws.
Proof.
  revert vs ws. induction l as [|x l IH]; intros [|y vs] [|z ws]; try reflexivity.
  cbn [forall3b]. now rewrite <- IH.
Qed.

Lemma conv_tuple E a ds v w :
  conv_ok E (DTuple (a :: ds)) v w =
  match tuple_items v, tuple_items w with
  | Some vs, Some ws => (pv_eqb w v || is_exact_tuple w) && forall3b (conv_ok E) (a :: ds) vs ws
  | _, _ => false
  end.
Proof.
  change (conv_ok E (DTuple (a :: ds)) v w) with
    (match tuple_items v, tuple_items w with
     | Some vs, Some ws =>
         (pv_eqb w v || is_exact_tuple w) &&
         (fix go (ds : list desc) (vs ws : list pv) : bool :=
            match ds, vs, ws with
            | [], [], [] => true
            | a :: ds', x :: vs', y :: ws' => conv_ok E a x y && go ds' vs' ws'
            | _, _, _ => false
            end) (a :: ds) vs ws
     | _, _ => false
     end).
  destruct (tuple_items v) as [vs|]; [|reflexivity]. destruct (tuple_items w) as [ws|]; [|reflexivity].
  f_equal. destruct vs as [|x vs]; [reflexivity|]. destruct ws as [|y ws]; [reflexivity|].
  cbn [forall3b]. f_equal. apply conv_go_forall3b.
Qed.

Definition conv_at (E : env) (d : desc) : Prop :=
  wf_desc d = true -> forall v w, c_validate E d v = Accept w -> conv_ok E d v w = true.

Lemma members_conv E ds : Forall (conv_at E) ds -> forallb wf_desc ds = true ->
  forall vs ws, members (c_validate E) ds vs = TOk ws -> forall3b (conv_ok E) ds vs ws = true.
Proof.
  induction 1 as [|d ds Hd _ IH]; cbn; intros Hw [|v vs] ws; try discriminate.
  - intros H; inversion H; reflexivity.
  - apply andb_prop in Hw as [Hw1 Hw2].
    destruct (c_validate E d v) as [w| |e] eqn:Hv; try discriminate.
    destruct (members (c_validate E) ds vs) as [ws'| |e] eqn:Hm; try discriminate.
    intros H; inversion H; subst. cbn. rewrite (Hd Hw1 v w Hv). cbn. now apply (IH Hw2 vs).
Qed.

Lemma as_integer_index v w : as_integer v = Returns w -> exists z, as_index v = Returns z /\ w = PInt z.
Proof.
  unfold as_integer. destruct v; cbn; try discriminate;
    try (intros H; inversion H; subst; eauto; fail);
    try (destruct c; cbn; intros H; inversion H; subst; eauto).
Qed.
Lemma as_float_double v w : as_float v = Returns w -> exists f, float_as_double v = Returns f /\ w = PFloat f.
Proof.
  unfold as_float, conv_map. destruct v; try discriminate;
    try (intros H; inversion H; subst; cbn; eauto; fail);
    match goal with |- context [float_as_double ?x] => destruct (float_as_double x) eqn:Hf end;
    try discriminate; intros H; inversion H; subst; eauto.
Qed.

Lemma alts_conv E ds a v w :
  Forall (conv_at E) ds -> forallb wf_desc ds = true -> In a ds -> c_validate E a v = Accept w ->
  existsb (fun x => conv_ok E x v w) ds = true.
Proof.
  intros HF Hw Hin Hv. apply existsb_exists. exists a. split; [assumption|].
  rewrite Forall_forall in HF. specialize (HF a Hin). unfold conv_at in HF. eauto using forallb_in.
Qed.

Lemma orc_find_in t f v w : orc_find t f v = Some w -> existsb (fun e => pv_eqb (snd e) w) t = true.
Proof.
  induction t as [|[[g x] y] t IH]; cbn; [discriminate|].
  destruct ((g =? f) && pv_eqb x v).
  - intros H; inversion H; subst. now rewrite pv_eqb_refl.
  - intros H. rewrite (IH H). apply orb_true_r.
Qed.

Lemma as_array_in E f v a : as_array (oracle E f v) = Some a -> existsb (fun e => pv_eqb (snd e) a) (e_orc E) = true.
Proof.
  unfold oracle. destruct (orc_find (e_orc E) f v) as [x|] eqn:H; [|discriminate].
  destruct x; try discriminate. cbn. intros Hx; inversion Hx; subst. eapply orc_find_in; eauto.
Qed.

Lemma py_array_conv E dt shape casting v w :
  py_array E dt shape casting v = Accept w -> conv_ok E (DArray dt shape casting) v w = true.
Proof.
  unfold py_array. cbn [conv_ok].
  destruct v; try discriminate.
  - (* tuple *) destruct (as_array (oracle E (match dt with Some t => 300 + t | None => 299 end) (PTuple l))) as [a0|] eqn:H0; [|discriminate].
    pose proof (as_array_in _ _ _ _ H0) as Hin0.
    destruct (arr_dtype_ok dt a0) eqn:Hd.
    + destruct (arr_dtype_ok dt a0 && arr_shape_ok shape a0); [|discriminate]. intros Hx; inversion Hx; now subst.
    + destruct dt as [t|]; [|discriminate].
      destruct (as_array (oracle E (400 + 10 * t + casting) a0)) as [a1|] eqn:H1; [|discriminate].
      destruct (arr_dtype_ok (Some t) a1 && arr_shape_ok shape a1); [|discriminate].
      intros Hx; inversion Hx; subst. eapply as_array_in; eauto.
  - (* tuple subclass *) destruct (as_array (oracle E (match dt with Some t => 300 + t | None => 299 end) (PTupleSub l))) as [a0|] eqn:H0; [|discriminate].
    pose proof (as_array_in _ _ _ _ H0) as Hin0.
    destruct (arr_dtype_ok dt a0) eqn:Hd.
    + destruct (arr_dtype_ok dt a0 && arr_shape_ok shape a0); [|discriminate]. intros Hx; inversion Hx; now subst.
    + destruct dt as [t|]; [|discriminate].
      destruct (as_array (oracle E (400 + 10 * t + casting) a0)) as [a1|] eqn:H1; [|discriminate].
      destruct (arr_dtype_ok (Some t) a1 && arr_shape_ok shape a1); [|discriminate].
      intros Hx; inversion Hx; subst. eapply as_array_in; eauto.
  - (* list *) destruct (as_array (oracle E (match dt with Some t => 300 + t | None => 299 end) (PList l))) as [a0|] eqn:H0; [|discriminate].
    pose proof (as_array_in _ _ _ _ H0) as Hin0.
    destruct (arr_dtype_ok dt a0) eqn:Hd.
    + destruct (arr_dtype_ok dt a0 && arr_shape_ok shape a0); [|discriminate]. intros Hx; inversion Hx; now subst.
    + destruct dt as [t|]; [|discriminate].
      destruct (as_array (oracle E (400 + 10 * t + casting) a0)) as [a1|] eqn:H1; [|discriminate].
      destruct (arr_dtype_ok (Some t) a1 && arr_shape_ok shape a1); [|discriminate].
      intros Hx; inversion Hx; subst. eapply as_array_in; eauto.
  - (* ndarray *) cbn [arr_dtype_ok].
    destruct (match dt with Some t => dt0 =? t | None => true end) eqn:Hd.
    + destruct (arr_dtype_ok dt (PArray dt0 shape0 cid) && arr_shape_ok shape (PArray dt0 shape0 cid)); [|discriminate].
      intros Hx; inversion Hx; subst. apply pv_eqb_refl.
    + destruct dt as [t|]; [|discriminate].
      destruct (as_array (oracle E (400 + 10 * t + casting) (PArray dt0 shape0 cid))) as [a1|] eqn:H1; [|discriminate].
      destruct (arr_dtype_ok (Some t) a1 && arr_shape_ok shape a1); [|discriminate].
      intros Hx; inversion Hx; subst. eapply as_array_in; eauto.
Qed.

Lemma leaf_conv E d :
  bool_final E = true ->
  (forall ds, d <> DTuple ds /\ d <> DCompound ds /\ d <> DUnion ds) -> conv_at E d.
Proof.
  intros HB Hleaf _ v w. destruct d; cbn [c_validate conv_ok].
  - (* DAny *) intros H; inversion H; apply pv_eqb_refl.
  - (* DInt *) unfold of_conv. destruct (as_integer v) as [x|[]] eqn:H; try discriminate.
    intros Hx; inversion Hx; subst. destruct (as_integer_index _ _ H) as (z & -> & ->). apply pv_eqb_refl.
  - (* DFloat *) unfold of_conv. destruct (as_float v) as [x|[]] eqn:H; try discriminate.
    intros Hx; inversion Hx; subst. destruct (as_float_double _ _ H) as (f & -> & ->). apply pv_eqb_refl.
  - (* DComplex *) unfold of_conv. destruct (as_complex v) as [x|[]] eqn:H; try discriminate.
    intros Hx; inversion Hx; subst. unfold as_complex, conv_map in H.
    destruct v; try (inversion H; subst; apply pv_eqb_refl);
      try (match type of H with context [float_as_double ?x] => destruct (float_as_double x) end;
           try discriminate; inversion H; subst; apply pv_eqb_refl).
    destruct c; inversion H; subst. apply pv_eqb_refl.
  - (* DStr *) unfold c_coerce; cbn. destruct (typecheck E v cSTR); [|discriminate].
    intros Hx; inversion Hx; apply pv_eqb_refl.
  - unfold c_coerce; cbn. destruct (typecheck E v cBYTES); [|discriminate].
    intros Hx; inversion Hx; apply pv_eqb_refl.
  - (* DBool *) unfold c_coerce; cbn. destruct (typecheck E v cBOOL) eqn:H.
    + intros Hx; inversion Hx; subst. destruct (typecheck_bool E w HB H) as [b ->]. cbn. apply Bool.eqb_reflx.
    + destruct (typecheck E v cNPBOOL); [|discriminate]. intros Hx; inversion Hx; apply pv_eqb_refl.
  - unfold c_coerce; cbn. destruct (typecheck E v cMODULE); [|discriminate].
    intros Hx; inversion Hx; apply pv_eqb_refl.
  - (* DCast *) destruct (class_of v =? cast_cls t) eqn:Hc.
    + intros Hx; inversion Hx; subst. apply Z.eqb_eq in Hc. rewrite (exact_class_cast E t w Hc). apply pv_eqb_refl.
    + destruct (cast_fn E t v) as [x|e]; [|discriminate]. intros Hx; inversion Hx; apply pv_eqb_refl.
  - (* DRangeF *) destruct (as_float v) as [x|[]] eqn:H; try discriminate.
    destruct (as_float_double _ _ H) as (f & Hf & ->). rewrite Hf.
    destruct (in_float_range f lo hi mask =? 1); [|discriminate]. intros Hx; inversion Hx; apply pv_eqb_refl.
  - (* DRangeI *) unfold py_rangei. destruct (as_integer v) as [x|[]] eqn:H; try discriminate.
    destruct (as_integer_index _ _ H) as (z & Hz & ->). rewrite Hz.
    destruct (py_int_in_range z lo hi mask); [|discriminate]. intros Hx; inversion Hx; apply pv_eqb_refl.
  - destruct (py_in v vals); [|discriminate]. intros Hx; inversion Hx; apply pv_eqb_refl.
  - destruct (hashable v); [|discriminate]. destruct (dict_get m v); [|discriminate].
    intros Hx; inversion Hx; apply pv_eqb_refl.
  - exfalso. destruct (Hleaf ds) as [H _]. now apply H.
  - destruct ((allow_none && pv_eqb v PNone) || (if tc then typecheck E v cls else isinstance E v cls)); [|discriminate].
    intros Hx; inversion Hx; apply pv_eqb_refl.
  - reflexivity.
  - destruct ((allow_none && pv_eqb v PNone) || typecheck E v (e_self E)); [|discriminate].
    intros Hx; inversion Hx; apply pv_eqb_refl.
  - destruct v; try (destruct allow_none; [|discriminate]); cbn; try discriminate;
      intros Hx; inversion Hx; apply pv_eqb_refl.
  - unfold py_type. destruct v; try discriminate.
    + destruct allow_none; [|discriminate]. intros Hx; inversion Hx; reflexivity.
    + destruct (issub E cls0 cls); [|discriminate]. intros Hx; inversion Hx; cbn. apply Z.eqb_refl.
  - unfold py_string. destruct (strx E v) as [s|]; [|discriminate].
    match goal with |- context [if ?b then _ else _] => destruct b end; [|discriminate].
    intros Hx; inversion Hx; cbn. apply zlist_eqb_refl.
  - (* DPrefixList *) unfold py_prefix, prefix_conv, complete_value, unique_completion.
    destruct (str_of v) as [s|]; [|discriminate].
    destruct (existsb (zlist_eqb s) vals).
    + intros Hx; inversion Hx; apply pv_eqb_refl.
    + destruct (filter (fun k => is_prefix s k) vals) as [|k [|k' r]]; try discriminate.
      intros Hx; inversion Hx; apply pv_eqb_refl.
  - unfold py_prefix, prefix_conv, complete_value, unique_completion.
    destruct (str_of v) as [s|]; [|discriminate].
    destruct (existsb (zlist_eqb s) (map fst m)).
    + intros Hx; inversion Hx; apply pv_eqb_refl.
    + destruct (filter (fun k => is_prefix s k) (map fst m)) as [|k [|k' r]]; try discriminate.
      intros Hx; inversion Hx; apply pv_eqb_refl.
  - exfalso. destruct (Hleaf ds) as (_ & H & _). now apply H.
  - exfalso. destruct (Hleaf ds) as (_ & _ & H). now apply H.
  - (* DArray *) apply py_array_conv.
Qed.

Lemma documented_conversion_lemma E d v w :
  wf_desc d = true -> bool_final E = true -> validate E d v = Accept w -> conv_ok E d v w = true.
Proof.
  unfold validate. intros Hwf HB. revert Hwf v w. change (conv_at E d).
  induction d using desc_ind'.
  - now apply leaf_conv.
  - (* DTuple *) intros Hwf v w. destruct ds as [|a ds].
    + cbn. unfold py_tuple0. destruct v; try discriminate; intros Hx; inversion Hx; apply pv_eqb_refl.
    + cbn [c_validate]. unfold tuple_check. rewrite conv_tuple.
      destruct (tuple_items v) as [vs|] eqn:Hv; [|discriminate].
      destruct (Nat.eqb (length (a :: ds)) (length vs)); [|discriminate].
      destruct (members (c_validate E) (a :: ds) vs) as [ws| |e0] eqn:Hm; try discriminate.
      cbn [wf_desc] in Hwf. pose proof (members_conv E (a :: ds) H Hwf vs ws Hm) as Hc.
      destruct (pvs_eqb ws vs) eqn:He; intros Hx; inversion Hx; subst.
      * apply pvs_eqb_true in He. subst. rewrite Hv, pv_eqb_refl. exact Hc.
      * cbn [tuple_items is_exact_tuple]. rewrite orb_true_r. exact Hc.
  - (* DCompound *) intros Hwf v w Hv. pose proof (wf_compound_alts ds Hwf) as Hok.
    destruct (compound_eq_single_lemma E ds v w Hok Hv) as (pre & a & post & Heo & Hav & _).
    assert (Hin : In a ds).
    { apply in_effective_order. rewrite Heo. apply in_or_app. right. now left. }
    cbn [wf_desc] in Hwf. apply andb_prop in Hwf as [Hwf _]. apply andb_prop in Hwf as [Hwf _].
    cbn [conv_ok]. eapply alts_conv; eauto.
  - (* DUnion *) intros Hwf v w. cbn [c_validate]. rewrite first_sel_filter, filter_true. intros Hv.
    destruct (first_outcome_map_accept _ _ _ Hv) as (pre & a & post & -> & Hav & _).
    cbn [wf_desc] in Hwf. apply andb_prop in Hwf as [Hwf _].
    cbn [conv_ok]. eapply alts_conv; eauto. apply in_or_app. right. now left.
Qed.

(* the Python path, too, only accepts values of the declared domain — for every trait type with a fast
   descriptor, as a corollary of fast_eq_slow and validate_sound *)
Lemma py_validate_sound_lemma E d v w :
  sound_hyp E d = true -> c03_scope d = true -> benign E d v = true ->
  py_validate E d v = Accept w -> dom E d w = true.
Proof.
  intros Hs Hc Hb Hp.
  assert (Hwf : wf_desc d = true).
  { unfold sound_hyp in Hs. apply andb_prop in Hs as [Hs _]. apply andb_prop in Hs as [Hs _].
    now apply andb_prop in Hs as [Hs _]. }
  pose proof (fast_eq_slow_lemma E d v Hwf Hc Hb) as Ha. rewrite Hp in Ha.
  unfold agrees, same_accept_set, same_value_and_type in Ha.
  destruct (c_validate E d v) as [x| |e] eqn:Hcv; cbn in Ha; try discriminate.
  apply andb_prop in Ha as [Ha _]. apply pv_eqb_true in Ha. subst.
  now apply (validate_sound_lemma E d v w Hs).
Qed.
