(* C01/Proofs.v — lemmas behind C01/Props.v *)
From Coq Require Import ZArith List Bool Lia.
From TV Require Import Common.PyVal Common.Harness C03.Model C03.Law C03.Proofs C01.Model C01.Law.
Import ListNotations.
Open Scope Z_scope.

(* ---------- hypotheses of soundness (each a decidable condition) ---------- *)
(* F18: Instance(C, allow_none=False) / This(allow_none=False) with None an instance of C *)
Fixpoint none_sound (E : env) (d : desc) : bool :=
  match d with
  | DInstance cls false _ => negb (issub E cNONE cls)
  | DSelf false => negb (issub E cNONE (e_self E))
  | DTuple ds | DCompound ds | DUnion ds | DVTuple ds _ => forallb (none_sound E) ds
  | DDict kd vd => none_sound E kd && none_sound E vd
  | DProperty d' | DList d' _ _ => none_sound E d'
  | _ => true
  end.
(* adaptation results are whatever the adapter returns: outside the declared-domain statement *)
Fixpoint no_adapt (d : desc) : bool :=
  match d with
  | DAdapt _ _ _ _ => false
  | DTuple ds | DCompound ds | DUnion ds | DVTuple ds _ => forallb no_adapt ds
  | DDict kd vd => no_adapt kd && no_adapt vd
  | DProperty d' | DList d' _ _ => no_adapt d'
  | _ => true
  end.
Definition sound_hyp (E : env) (d : desc) : bool :=
  wf_desc d && none_sound E d && no_adapt d && bool_final E.

(* ---------- conversions yield the exact type ---------- *)
Lemma as_integer_int v w : as_integer v = Returns w -> exists z, w = PInt z.
Proof.
  unfold as_integer. destruct v; cbn; try discriminate;
    try (intros H; inversion H; eauto; fail);
    try (destruct c; cbn; intros H; inversion H; eauto).
Qed.
Lemma as_float_float v w : as_float v = Returns w -> exists f, w = PFloat f.
Proof.
  unfold as_float. destruct v; cbn; try discriminate; try (intros H; inversion H; eauto; fail);
    try (unfold conv_map; match goal with |- context [match ?c with _ => _ end] => destruct c end;
         intros H; inversion H; eauto).
Qed.
Lemma as_complex_complex v w : as_complex v = Returns w -> exists r i, w = PComplex r i.
Proof.
  unfold as_complex. destruct v; cbn; try discriminate; try (intros H; inversion H; eauto; fail);
    try (unfold conv_map; match goal with |- context [match ?c with _ => _ end] => destruct c end;
         intros H; inversion H; eauto).
Qed.

Lemma cast_fn_class E t v w : cast_fn E t v = Returns w -> class_of w = cast_cls t.
Proof.
  destruct t; cbn.
  - unfold cast_int, conv_map. destruct v; try discriminate; try (intros H; inversion H; reflexivity);
      try (match goal with |- context [match ?c with _ => _ end] => destruct c end; intros H; inversion H; reflexivity).
  - unfold cast_float, conv_map. destruct v; try discriminate;
      repeat (match goal with |- context [match ?c with _ => _ end] => destruct c end);
      try discriminate; intros H; inversion H; reflexivity.
  - unfold cast_complex, conv_map. destruct v; try discriminate;
      repeat (match goal with |- context [match ?c with _ => _ end] => destruct c end);
      try discriminate; intros H; inversion H; reflexivity.
  - destruct v; try (intros H; inversion H; reflexivity);
      repeat (match goal with |- context [match ?c with _ => _ end] => destruct c end);
      try discriminate; intros H; inversion H; reflexivity.
  - destruct v; try (intros H; inversion H; reflexivity);
      repeat (match goal with |- context [match ?c with _ => _ end] => destruct c end);
      try discriminate; intros H; inversion H; reflexivity.
  - intros H; inversion H; reflexivity.
Qed.

(* ---------- validate_sound ---------- *)
Fixpoint forall2b {A B} (f : A -> B -> bool) (l : list A) (m : list B) : bool :=
  match l, m with
  | [], [] => true
  | a :: l', b :: m' => f a b && forall2b f l' m'
  | _, _ => false
  end.

Lemma dom_go_forall2b E l ws :
  (fix go (ds : list desc) (ws : list pv) : bool :=
     match ds, ws with
     | [], [] => true
     | a :: ds', x :: ws' => dom E a x && go ds' ws'
     | _, _ => false
     end) l ws = forall2b (dom E) l ws.
Proof.
  revert ws. induction l as [|x l IH]; intros [|y ws]; try reflexivity.
  cbn [forall2b]. now rewrite <- IH.
Qed.

Lemma dom_tuple E a ds w :
  dom E (DTuple (a :: ds)) w =
  match tuple_items w with Some ws => forall2b (dom E) (a :: ds) ws | None => false end.
Proof.
  change (dom E (DTuple (a :: ds)) w) with
    (match tuple_items w with
     | Some ws =>
         (fix go (ds : list desc) (ws : list pv) : bool :=
            match ds, ws with
            | [], [] => true
            | a :: ds', x :: ws' => dom E a x && go ds' ws'
            | _, _ => false
            end) (a :: ds) ws
     | None => false
     end).
  destruct (tuple_items w) as [ws|]; [|reflexivity].
  destruct ws as [|x ws']; [reflexivity|]. cbn [forall2b]. f_equal. apply dom_go_forall2b.
Qed.

Definition sound_at (E : env) (d : desc) : Prop :=
  wf_desc d = true -> none_sound E d = true -> no_adapt d = true ->
  forall v w, c_validate E d v = Accept w -> dom E d w = true.

Lemma members_dom E ds : Forall (sound_at E) ds ->
  forallb wf_desc ds = true -> forallb (none_sound E) ds = true -> forallb no_adapt ds = true ->
  forall vs ws, members (c_validate E) ds vs = TOk ws -> forall2b (dom E) ds ws = true.
Proof.
  induction 1 as [|d ds Hd _ IH]; cbn; intros Hw Hn Ha [|v vs] ws; try discriminate.
  - intros H; inversion H; reflexivity.
  - apply andb_prop in Hw as [Hw1 Hw2]. apply andb_prop in Hn as [Hn1 Hn2]. apply andb_prop in Ha as [Ha1 Ha2].
    destruct (c_validate E d v) as [w| |e] eqn:Hv; try discriminate.
    destruct (members (c_validate E) ds vs) as [ws'| |e] eqn:Hm; try discriminate.
    intros H; inversion H; subst. cbn. rewrite (Hd Hw1 Hn1 Ha1 v w Hv). cbn. now apply (IH Hw2 Hn2 Ha2 vs).
Qed.

Lemma in_effective_order a ds : In a (effective_order ds) -> In a ds.
Proof.
  unfold effective_order. rewrite in_app_iff, !filter_In. tauto.
Qed.

Lemma forallb_in {A} (p : A -> bool) l a : forallb p l = true -> In a l -> p a = true.
Proof. rewrite forallb_forall. auto. Qed.

Lemma complete_value_in keys v s w :
  str_of v = Some s -> complete_value keys v s = Some w -> str_in keys w = true.
Proof.
  unfold complete_value, str_in. intros Hs.
  destruct (existsb (zlist_eqb s) keys) eqn:He.
  - intros H; inversion H; subst. now rewrite Hs.
  - destruct (filter (fun k => is_prefix s k) keys) as [|k [|k' r]] eqn:Hf; try discriminate.
    intros H; inversion H; subst. cbn.
    assert (Hin : In k (filter (fun k => is_prefix s k) keys)) by (rewrite Hf; left; reflexivity).
    apply filter_In in Hin as [Hin _]. apply existsb_exists. exists k. split; [assumption | apply zlist_eqb_refl].
Qed.

Lemma leaf_sound E d :
  bool_final E = true ->
  (forall ds, d <> DTuple ds /\ d <> DCompound ds /\ d <> DUnion ds) -> (forall d', d <> DProperty d' /\ (forall ds fv, d <> DVTuple ds fv) /\ (forall mn mx, d <> DList d' mn mx) /\ forall d2, d <> DDict d' d2) -> sound_at E d.
Proof.
  intros HB Hleaf Hnp Hwf Hn Ha v w.
  destruct d; cbn [c_validate]; cbn in Hn, Ha; try discriminate.
  - (* DAny *) reflexivity.
  - (* DInt *) unfold of_conv. destruct (as_integer v) as [x|[]] eqn:H; try discriminate.
    intros Hx; inversion Hx; subst. destruct (as_integer_int _ _ H) as [z ->]. reflexivity.
  - (* DFloat *) unfold of_conv. destruct (as_float v) as [x|[]] eqn:H; try discriminate.
    intros Hx; inversion Hx; subst. destruct (as_float_float _ _ H) as [f ->]. reflexivity.
  - (* DComplex *) unfold of_conv. destruct (as_complex v) as [x|[]] eqn:H; try discriminate.
    intros Hx; inversion Hx; subst. destruct (as_complex_complex _ _ H) as (r & i & ->). reflexivity.
  - (* DStr *) unfold c_coerce; cbn. destruct (typecheck E v cSTR) eqn:H; [|discriminate].
    intros Hx; inversion Hx; subst. now apply typecheck_isinstance.
  - (* DBytes *) unfold c_coerce; cbn. destruct (typecheck E v cBYTES) eqn:H; [|discriminate].
    intros Hx; inversion Hx; subst. now apply typecheck_isinstance.
  - (* DBool *) unfold c_coerce; cbn. destruct (typecheck E v cBOOL) eqn:H.
    + intros Hx; inversion Hx; subst. destruct (typecheck_bool E w HB H) as [b ->]. reflexivity.
    + destruct (typecheck E v cNPBOOL); [|discriminate]. intros Hx; inversion Hx; reflexivity.
  - (* DModule *) unfold c_coerce; cbn. destruct (typecheck E v cMODULE) eqn:H; [|discriminate].
    intros Hx; inversion Hx; subst. now apply typecheck_isinstance.
  - (* DCast *) destruct (class_of v =? cast_cls t) eqn:Hc.
    + intros Hx; inversion Hx; subst. exact Hc.
    + destruct (cast_fn E t v) as [x|e] eqn:Hf; [|discriminate]. intros Hx; inversion Hx; subst.
      cbn. apply Z.eqb_eq. eapply cast_fn_class; eauto.
  - (* DRangeF *) destruct (as_float v) as [[]|[]]; try discriminate.
    destruct (in_float_range f lo hi mask =? 1) eqn:Hr; [|discriminate].
    intros Hx; inversion Hx; subst. cbn. now rewrite <- in_float_range_spec.
  - (* DRangeI *) unfold py_rangei. destruct (as_integer v) as [[]|[]]; try discriminate.
    destruct (py_int_in_range z lo hi mask) eqn:Hr; [|discriminate].
    intros Hx; inversion Hx; subst. cbn. now rewrite <- py_int_in_range_spec.
  - (* DEnum *) unfold py_in. destruct (existsb (py_eq v) vals) eqn:H; [|discriminate].
    intros Hx; inversion Hx; subst. exact H.
  - (* DMap *) destruct (hashable v) eqn:Hh; [|discriminate]. destruct (dict_get m v) eqn:Hg; [|discriminate].
    intros Hx; inversion Hx; subst. cbn. rewrite Hh. cbn. rewrite <- dict_get_existsb. now rewrite Hg.
  - (* DTuple *) exfalso. destruct (Hleaf ds) as [H _]. now apply H.
  - (* DInstance *)
    assert (Hii : (if tc then typecheck E v cls else isinstance E v cls) = true -> isinstance E v cls = true)
      by (destruct tc; [apply typecheck_isinstance | auto]).
    destruct ((allow_none && pv_eqb v PNone) || (if tc then typecheck E v cls else isinstance E v cls)) eqn:Hc;
      [|discriminate].
    intros Hx; inversion Hx; subst. cbn [dom]. destruct (is_none w) eqn:Hnone.
    + destruct w; try discriminate. destruct allow_none; [reflexivity|]. cbn in Hc. apply Hii in Hc.
      unfold isinstance in Hc. cbn in Hc. rewrite orb_false_r in Hc.
      apply negb_true_iff in Hn. fold cNONE in Hn. congruence.
    + apply orb_true_iff in Hc as [Hc|Hc]; [|now apply Hii].
      apply andb_prop in Hc as [_ Hc]. apply pv_eqb_none in Hc. subst. discriminate.
  - (* DSelf *)
    destruct ((allow_none && pv_eqb v PNone) || typecheck E v (e_self E)) eqn:Hc; [|discriminate].
    intros Hx; inversion Hx; subst. cbn [dom]. destruct (is_none w) eqn:Hnone.
    + destruct w; try discriminate. destruct allow_none; [reflexivity|]. cbn in Hc.
      unfold typecheck in Hc. cbn in Hc. apply negb_true_iff in Hn. fold cNONE in Hn. congruence.
    + apply orb_true_iff in Hc as [Hc|Hc]; [|now apply typecheck_isinstance].
      apply andb_prop in Hc as [_ Hc]. apply pv_eqb_none in Hc. subst. discriminate.
  - (* DCallable *) destruct v; cbn; try discriminate;
      try (destruct allow_none; [|discriminate]); intros Hx; inversion Hx; subst; reflexivity.
  - (* DType *) unfold py_type. destruct v; try discriminate.
    + destruct allow_none; [|discriminate]. intros Hx; inversion Hx; reflexivity.
    + destruct (issub E cls0 cls) eqn:Hi; [|discriminate]. intros Hx; inversion Hx; subst. exact Hi.
  - (* DString *) unfold py_string. destruct (strx E v) as [s|]; [|discriminate].
    match goal with |- context [if ?b then _ else _] => destruct b eqn:Hb end; [|discriminate].
    intros Hx; inversion Hx; subst. exact Hb.
  - (* DPrefixList *) unfold py_prefix. destruct (str_of v) as [s|] eqn:Hs; [|discriminate].
    destruct (complete_value vals v s) eqn:Hc; [|discriminate]. intros Hx; inversion Hx; subst.
    cbn. eapply complete_value_in; eauto.
  - (* DPrefixMap *) unfold py_prefix. destruct (str_of v) as [s|] eqn:Hs; [|discriminate].
    destruct (complete_value (map fst m) v s) eqn:Hc; [|discriminate]. intros Hx; inversion Hx; subst.
    cbn. eapply complete_value_in; eauto.
  - (* DCompound *) exfalso. destruct (Hleaf ds) as (_ & H & _). now apply H.
  - (* DUnion *) exfalso. destruct (Hleaf ds) as (_ & _ & H). now apply H.
  - (* DArray *) unfold py_array.
    match goal with |- match ?x with _ => _ end = _ -> _ => destruct x as [a0|] end; [|discriminate].
    match goal with |- match ?x with _ => _ end = _ -> _ => destruct x as [a1|] end; [|discriminate].
    destruct (arr_dtype_ok dt a1) eqn:H1; [|discriminate]. destruct (arr_shape_ok shape a1) eqn:H2; [|discriminate].
    intros Hx; inversion Hx; subst. destruct w; try discriminate. cbn in *. now rewrite H1, H2.
  - (* DProperty *) exfalso. now apply (proj1 (Hnp d)).
  - (* DVTuple *) exfalso. now apply (proj1 (proj2 (Hnp DAny)) ds fv).
  - (* DList *) exfalso. now apply (proj1 (proj2 (proj2 (Hnp d))) minlen maxlen).
  - (* DDict *) exfalso. eapply (proj2 (proj2 (proj2 (Hnp _)))). reflexivity.
Qed.

Lemma tuple_sound E ds : Forall (sound_at E) ds -> sound_at E (DTuple ds).
Proof.
  intros HF Hwf Hn Ha v w. destruct ds as [|a ds].
  - cbn. unfold py_tuple0. destruct v; try discriminate; intros Hx; inversion Hx; reflexivity.
  - cbn [c_validate]. unfold tuple_check. rewrite dom_tuple.
    destruct (tuple_items v) as [vs|] eqn:Hv; [|discriminate].
    destruct (Nat.eqb (length (a :: ds)) (length vs)); [|discriminate].
    destruct (members (c_validate E) (a :: ds) vs) as [ws| |e] eqn:Hm; try discriminate.
    assert (Hd : forall2b (dom E) (a :: ds) ws = true).
    { cbn [wf_desc none_sound no_adapt] in Hwf, Hn, Ha. eapply members_dom; eauto. }
    destruct (pvs_eqb ws vs) eqn:He; intros Hx; inversion Hx; subst.
    + apply pvs_eqb_true in He. subst. now rewrite Hv.
    + cbn [tuple_items]. exact Hd.
Qed.

Lemma alts_sound E ds a v w :
  Forall (sound_at E) ds -> forallb wf_desc ds = true -> forallb (none_sound E) ds = true ->
  forallb no_adapt ds = true -> In a ds -> c_validate E a v = Accept w ->
  existsb (fun x => dom E x w) ds = true.
Proof.
  intros HF Hw Hn Ha Hin Hv. apply existsb_exists. exists a. split; [assumption|].
  rewrite Forall_forall in HF. specialize (HF a Hin). unfold sound_at in HF.
  apply HF with (v := v); eauto using forallb_in.
Qed.

Lemma compound_sound E ds : Forall (sound_at E) ds -> sound_at E (DCompound ds).
Proof.
  intros HF Hwf Hn Ha v w Hv.
  pose proof (wf_compound_alts ds Hwf) as Hok.
  destruct (compound_eq_single_lemma E ds v w Hok Hv) as (pre & a & post & Heo & Hav & _).
  assert (Hin : In a ds).
  { apply in_effective_order. rewrite Heo. apply in_or_app. right. left. reflexivity. }
  cbn [wf_desc] in Hwf. apply andb_prop in Hwf as [Hwf _]. apply andb_prop in Hwf as [Hwf _].
  cbn [dom]. eapply alts_sound; eauto.
Qed.

Lemma filter_true {A} (l : list A) : filter (fun _ => true) l = l.
Proof. induction l; cbn; congruence. Qed.

Lemma union_sound E ds : Forall (sound_at E) ds -> sound_at E (DUnion ds).
Proof.
  intros HF Hwf Hn Ha v w. cbn [c_validate]. rewrite first_sel_filter, filter_true. intros Hv.
  destruct (first_outcome_map_accept _ _ _ Hv) as (pre & a & post & -> & Hav & _).
  cbn [wf_desc] in Hwf. apply andb_prop in Hwf as [Hwf _].
  cbn [dom]. eapply alts_sound; eauto. apply in_or_app. right. left. reflexivity.
Qed.

(* ---- the Python-level validate is sound as well (needed for Property(<trait>), validated with handler.validate) ---- *)
Definition psound_at (E : env) (d : desc) : Prop :=
  wf_desc d = true -> none_sound E d = true -> no_adapt d = true ->
  forall v w, py_validate E d v = Accept w -> dom E d w = true.

Lemma first_sel_accept_in sel f ds w :
  first_sel sel f ds = Accept w -> exists a, In a ds /\ f a = Accept w.
Proof.
  induction ds as [|a ds IH]; cbn; [discriminate|]. destruct (sel a).
  - destruct (f a) as [x| |e] eqn:Hf.
    + intros H; inversion H; subst. exists a. split; [now left | assumption].
    + intros H. destruct (IH H) as (b & Hb & Hfb). exists b. split; [now right | assumption].
    + discriminate.
  - intros H. destruct (IH H) as (b & Hb & Hfb). exists b. split; [now right | assumption].
Qed.

Lemma py_leaf_sound E d :
  bool_final E = true ->
  (forall ds, d <> DTuple ds /\ d <> DCompound ds /\ d <> DUnion ds) -> (forall d', d <> DProperty d' /\ (forall ds fv, d <> DVTuple ds fv) /\ (forall mn mx, d <> DList d' mn mx) /\ forall d2, d <> DDict d' d2) -> psound_at E d.
Proof.
  intros HB Hleaf Hnp Hwf Hn Ha v w.
  destruct d; cbn [py_validate]; cbn in Hn, Ha; try discriminate.
  - reflexivity.
  - destruct (as_integer v) as [x|[]] eqn:H; try discriminate.
    intros Hx; inversion Hx; subst. destruct (as_integer_int _ _ H) as [z ->]. reflexivity.
  - destruct (as_float v) as [x|[]] eqn:H; try discriminate.
    intros Hx; inversion Hx; subst. destruct (as_float_float _ _ H) as [f ->]. reflexivity.
  - destruct (as_complex v) as [x|[]] eqn:H; try discriminate.
    intros Hx; inversion Hx; subst. destruct (as_complex_complex _ _ H) as (r & i & ->). reflexivity.
  - destruct (isinstance E v cSTR) eqn:H; [|discriminate]. intros Hx; inversion Hx; subst. exact H.
  - destruct (isinstance E v cBYTES) eqn:H; [|discriminate]. intros Hx; inversion Hx; subst. exact H.
  - destruct (isinstance E v cBOOL || isinstance E v cNPBOOL); [|discriminate]. intros Hx; inversion Hx; reflexivity.
  - (* DCast *) destruct (cast_fn E t v) as [x|e] eqn:Hf.
    + intros Hx; inversion Hx; subst. cbn. apply Z.eqb_eq. eapply cast_fn_class; eauto.
    + destruct t, e; discriminate.
  - (* DRangeF *) destruct (as_float v) as [[]|[]]; try discriminate.
    destruct (py_float_in_range f lo hi mask) eqn:Hr; [|discriminate].
    intros Hx; inversion Hx; subst. cbn. now rewrite <- py_float_in_range_spec.
  - (* DRangeI *) unfold py_rangei. destruct (as_integer v) as [[]|[]]; try discriminate.
    destruct (py_int_in_range z lo hi mask) eqn:Hr; [|discriminate].
    intros Hx; inversion Hx; subst. cbn. now rewrite <- py_int_in_range_spec.
  - (* DEnum *) unfold py_in. destruct (existsb (py_eq v) vals) eqn:H; [|discriminate].
    intros Hx; inversion Hx; subst. exact H.
  - (* DMap *) destruct (hashable v) eqn:Hh; [|discriminate].
    destruct (existsb (fun kv => py_eq v (fst kv)) m) eqn:Hg; [|discriminate].
    intros Hx; inversion Hx; subst. cbn. now rewrite Hh, Hg.
  - exfalso. destruct (Hleaf ds) as [H _]. now apply H.
  - (* DInstance *) destruct v; try (destruct (isinstance E _ cls) eqn:Hi; [|discriminate];
      intros Hx; inversion Hx; subst; exact Hi).
    destruct allow_none; [|discriminate]. intros Hx; inversion Hx; reflexivity.
  - (* DSelf *) destruct allow_none.
    + destruct (isinstance E v (e_self E)) eqn:Hi; cbn.
      * intros Hx; inversion Hx; subst. cbn. destruct w; cbn; try exact Hi. reflexivity.
      * destruct (pv_eqb v PNone) eqn:Hv; [|discriminate]. intros Hx; inversion Hx; subst.
        apply pv_eqb_none in Hv. now subst.
    + destruct (isinstance E v (e_self E)) eqn:Hi; [|discriminate]. intros Hx; inversion Hx; subst.
      cbn. destruct w; cbn; try exact Hi.
      unfold isinstance in Hi. cbn in Hi. rewrite orb_false_r in Hi. apply negb_true_iff in Hn. fold cNONE in Hn. congruence.
  - (* DCallable *) destruct v; cbn; try discriminate;
      try (destruct allow_none; [|discriminate]); intros Hx; inversion Hx; subst; reflexivity.
  - (* DType *) unfold py_type. destruct v; try discriminate.
    + destruct allow_none; [|discriminate]. intros Hx; inversion Hx; reflexivity.
    + destruct (issub E cls0 cls) eqn:Hi; [|discriminate]. intros Hx; inversion Hx; subst. exact Hi.
  - (* DString *) unfold py_string. destruct (strx E v) as [s|]; [|discriminate].
    match goal with |- context [if ?b then _ else _] => destruct b eqn:Hb end; [|discriminate].
    intros Hx; inversion Hx; subst. exact Hb.
  - unfold py_prefix. destruct (str_of v) as [s|] eqn:Hs; [|discriminate].
    destruct (complete_value vals v s) eqn:Hc; [|discriminate]. intros Hx; inversion Hx; subst.
    cbn. eapply complete_value_in; eauto.
  - unfold py_prefix. destruct (str_of v) as [s|] eqn:Hs; [|discriminate].
    destruct (complete_value (map fst m) v s) eqn:Hc; [|discriminate]. intros Hx; inversion Hx; subst.
    cbn. eapply complete_value_in; eauto.
  - exfalso. destruct (Hleaf ds) as (_ & H & _). now apply H.
  - exfalso. destruct (Hleaf ds) as (_ & _ & H). now apply H.
  - (* DArray: the same function on both paths *) apply (leaf_sound E (DArray dt shape casting) HB Hleaf Hnp Hwf Hn Ha v w).
  - exfalso. now apply (proj1 (Hnp d)).
  - exfalso. now apply (proj1 (proj2 (Hnp DAny)) ds fv).
  - exfalso. now apply (proj1 (proj2 (proj2 (Hnp d))) minlen maxlen).
  - exfalso. eapply (proj2 (proj2 (proj2 (Hnp _)))). reflexivity.
Qed.

Lemma py_tuple_sound E ds : Forall (sound_at E) ds -> psound_at E (DTuple ds).
Proof.
  intros HF Hwf Hn Ha v w. destruct ds as [|a ds].
  - cbn. unfold py_tuple0. destruct v; try discriminate; intros Hx; inversion Hx; reflexivity.
  - cbn [py_validate]. rewrite dom_tuple.
    destruct (tuple_items v) as [vs|] eqn:Hv; [|discriminate].
    destruct (Nat.eqb (length vs) (length (a :: ds))); [|discriminate].
    destruct (members (c_validate E) (a :: ds) vs) as [ws| |e] eqn:Hm; try discriminate.
    intros Hx; inversion Hx; subst. cbn [tuple_items].
    cbn [wf_desc none_sound no_adapt] in Hwf, Hn, Ha. eapply members_dom; eauto.
Qed.

Lemma py_compound_sound E ds : Forall (psound_at E) ds -> psound_at E (DCompound ds).
Proof.
  intros HF Hwf Hn Ha v w. cbn [py_validate]. intros Hv.
  assert (Hex : exists a, In a ds /\ py_validate E a v = Accept w).
  { destruct (first_sel is_fast (fun a => py_validate E a v) ds) as [x| |e] eqn:H1.
    - inversion Hv; subst. eapply first_sel_accept_in; eauto.
    - eapply first_sel_accept_in; eauto.
    - discriminate. }
  destruct Hex as (a & Hin & Hav).
  cbn [wf_desc] in Hwf. apply andb_prop in Hwf as [Hwf _]. apply andb_prop in Hwf as [Hwf _].
  cbn [dom]. apply existsb_exists. exists a. split; [assumption|].
  rewrite Forall_forall in HF. apply (HF a Hin) with (v := v); eauto using forallb_in.
Qed.

Lemma dom_vtuple E ds fv ws :
  dom E (DVTuple ds fv) (PTuple ws) = forall2b (dom E) ds ws && fv_ok E fv (PTuple ws).
Proof.
  change (dom E (DVTuple ds fv) (PTuple ws)) with
    ((fix go (ds : list desc) (ws : list pv) : bool :=
        match ds, ws with
        | [], [] => true
        | a :: ds', x :: ws' => dom E a x && go ds' ws'
        | _, _ => false
        end) ds ws && fv_ok E fv (PTuple ws)).
  now rewrite dom_go_forall2b.
Qed.

Lemma vtuple_sound E ds fv : Forall (sound_at E) ds ->
  wf_desc (DVTuple ds fv) = true -> none_sound E (DVTuple ds fv) = true -> no_adapt (DVTuple ds fv) = true ->
  forall v w, vtuple_check (c_validate E) E ds fv v = Accept w -> dom E (DVTuple ds fv) w = true.
Proof.
  intros HF Hwf Hn Ha v w. unfold vtuple_check.
  destruct (seq_items v) as [vs|]; [|discriminate].
  destruct (Nat.eqb (length vs) (length ds)); [|discriminate].
  destruct (members (c_validate E) ds vs) as [ws| |e] eqn:Hm; try discriminate.
  destruct (fv_ok E fv (PTuple ws)) eqn:Hf; [|discriminate].
  intros Hx; inversion Hx; subst. rewrite dom_vtuple, Hf, andb_true_r.
  cbn [wf_desc none_sound no_adapt] in Hwf, Hn, Ha. eapply members_dom; eauto.
Qed.

Lemma all_items_dom E d : sound_at E d ->
  wf_desc d = true -> none_sound E d = true -> no_adapt d = true ->
  forall vs ws, all_items (c_validate E d) vs = TOk ws -> forallb (dom E d) ws = true /\ length ws = length vs.
Proof.
  intros Hd Hw Hn Ha. induction vs as [|v vs IH]; cbn; intros ws.
  - intros H; inversion H; split; reflexivity.
  - destruct (c_validate E d v) as [w| |e] eqn:Hv; try discriminate.
    destruct (all_items (c_validate E d) vs) as [ws'| |e] eqn:Hm; try discriminate.
    intros H; inversion H; subst. destruct (IH ws' eq_refl) as [H1 H2]. cbn.
    rewrite (Hd Hw Hn Ha v w Hv), H1, H2. split; reflexivity.
Qed.

Lemma list_sound E d mn mx : sound_at E d ->
  wf_desc d = true -> none_sound E d = true -> no_adapt d = true ->
  forall v w, list_check (c_validate E d) mn mx v = Accept w -> dom E (DList d mn mx) w = true.
Proof.
  intros Hd Hw Hn Ha v w. unfold list_check. destruct v; try discriminate.
  destruct ((mn <=? Z.of_nat (length l)) && (Z.of_nat (length l) <=? mx)) eqn:Hb; [|discriminate].
  destruct (all_items (c_validate E d) l) as [ws| |e] eqn:Hm; try discriminate.
  intros Hx; inversion Hx; subst. destruct (all_items_dom E d Hd Hw Hn Ha l ws Hm) as [H1 H2].
  cbn [dom]. now rewrite H2, Hb, H1.
Qed.

Lemma dict_put_in l k x : forall k' x',
  (In k' (map fst (dict_put l k x)) -> In k' (map fst l) \/ k' = k) /\
  (In x' (map snd (dict_put l k x)) -> In x' (map snd l) \/ x' = x).
Proof.
  induction l as [|[k0 x0] l IH]; cbn; intros k' x'.
  - split; intros [H|[]]; auto.
  - destruct (py_eq k k0); cbn.
    + split; intros [H|H]; auto.
    + destruct (IH k' x') as [I1 I2]. split; intros [H|H]; auto.
      * destruct (I1 H); auto.
      * destruct (I2 H); auto.
Qed.

Lemma dict_build_in l : forall k' x',
  (In k' (map fst (dict_build l)) -> In k' (map fst l)) /\ (In x' (map snd (dict_build l)) -> In x' (map snd l)).
Proof.
  unfold dict_build.
  assert (G : forall l acc k' x',
             (In k' (map fst (fold_left (fun a kv => dict_put a (fst kv) (snd kv)) l acc)) ->
              In k' (map fst acc) \/ In k' (map fst l)) /\
             (In x' (map snd (fold_left (fun a kv => dict_put a (fst kv) (snd kv)) l acc)) ->
              In x' (map snd acc) \/ In x' (map snd l))).
  { clear l. induction l as [|[k x] l IH]; cbn; intros acc k' x'; [split; auto|].
    destruct (IH (dict_put acc k x) k' x') as [I1 I2]. destruct (dict_put_in acc k x k' x') as [P1 P2].
    split; intros H.
    - destruct (I1 H) as [H'|H']; auto. destruct (P1 H'); auto.
    - destruct (I2 H) as [H'|H']; auto. destruct (P2 H'); auto. }
  intros k' x'. destruct (G l [] k' x') as [G1 G2]. split; intros H; [destruct (G1 H) | destruct (G2 H)]; auto; contradiction.
Qed.

Lemma all_pairs_rel (fk fv : pv -> vres) kvs l : all_pairs fk fv kvs = DOk l ->
  (forall k', In k' (map fst l) -> exists k, In k (map fst kvs) /\ fk k = Accept k') /\
  (forall x', In x' (map snd l) -> exists x, In x (map snd kvs) /\ fv x = Accept x').
Proof.
  revert l. induction kvs as [|[k x] kvs IH]; cbn; intros l.
  - intros H; inversion H; subst. split; intros ? [].
  - destruct (fk k) as [k1| |e] eqn:Hk; try discriminate.
    destruct (fv x) as [x1| |e] eqn:Hx; try discriminate.
    destruct (all_pairs fk fv kvs) as [l'| |e] eqn:Hm; try discriminate.
    intros H; inversion H; subst. destruct (IH l' eq_refl) as [I1 I2]. cbn. split.
    + intros k' [<-|Hin]; [exists k; auto|]. destruct (I1 k' Hin) as (k0 & H0 & H1). exists k0; auto.
    + intros x' [<-|Hin]; [exists x; auto|]. destruct (I2 x' Hin) as (x0 & H0 & H1). exists x0; auto.
Qed.

Lemma dict_sound E kd vd : sound_at E kd -> sound_at E vd ->
  wf_desc (DDict kd vd) = true -> none_sound E (DDict kd vd) = true -> no_adapt (DDict kd vd) = true ->
  forall v w, dict_check (c_validate E kd) (c_validate E vd) v = Accept w -> dom E (DDict kd vd) w = true.
Proof.
  intros Hk Hv Hwf Hn Ha v w. cbn in Hwf, Hn, Ha.
  apply andb_prop in Hwf as [W1 W2]. apply andb_prop in Hn as [N1 N2]. apply andb_prop in Ha as [A1 A2].
  unfold dict_check. destruct v; try discriminate.
  destruct (all_pairs (c_validate E kd) (c_validate E vd) l) as [l'| |e] eqn:Hm; try discriminate.
  intros Hx; inversion Hx; subst. cbn [dom]. destruct (all_pairs_rel _ _ _ _ Hm) as [R1 R2].
  apply andb_true_intro. split; apply forallb_forall; intros y Hy.
  - apply (proj1 (dict_build_in l' y y)) in Hy. destruct (R1 y Hy) as (k & _ & Hk'). eapply Hk; eauto.
  - apply (proj2 (dict_build_in l' y y)) in Hy. destruct (R2 y Hy) as (x & _ & Hx'). eapply Hv; eauto.
Qed.

Definition both_sound_at (E : env) (d : desc) : Prop := sound_at E d /\ psound_at E d.

Lemma both_sound E d : bool_final E = true -> both_sound_at E d.
Proof.
  intros HB. induction d as [d H Hnp|d IHd|ds fv H|d mn mx IHd|kd vd IHk IHv|ds H|ds H|ds H] using desc_ind'.
  5:{ (* Dict(<key trait>, <value trait>) *)
      destruct IHk as [IHk _], IHv as [IHv _].
      split; intros Hwf Hn Ha v w; cbn [c_validate py_validate]; now apply dict_sound. }
  4:{ (* List(<trait>): the items go through CTrait.validate of the item trait on both paths *)
      destruct IHd as [IHc _]. split; intros Hwf Hn Ha v w; cbn [c_validate py_validate]; now apply list_sound. }
  - split; [now apply leaf_sound | now apply py_leaf_sound].
  - (* Property(<trait>): validated with the trait's Python validate *)
    destruct IHd as [_ IHp]. split; intros Hwf Hn Ha v w; cbn [c_validate py_validate dom]; apply IHp; assumption.
  - (* ValidatedTuple: the same Python validate on both paths *)
    assert (HF : Forall (sound_at E) ds) by (eapply Forall_impl; try exact H; now intros a [Hc _]).
    split; intros Hwf Hn Ha v w; cbn [c_validate py_validate]; now apply vtuple_sound.
  - split; [apply tuple_sound | apply py_tuple_sound]; eapply Forall_impl; try exact H; now intros a [Hc _].
  - split; [apply compound_sound | apply py_compound_sound]; eapply Forall_impl; try exact H; intros a [Hc Hp]; assumption.
  - split.
    + apply union_sound. eapply Forall_impl; try exact H. now intros a [Hc _].
    + (* Union.validate runs CTrait.validate of each alternative on both paths *)
      intros Hwf Hn Ha v w. cbn [py_validate].
      change (c_validate E (DUnion ds) v = Accept w -> dom E (DUnion ds) w = true).
      apply union_sound; auto. eapply Forall_impl; try exact H. now intros a [Hc _].
Qed.

Lemma validate_sound_lemma E d v w :
  sound_hyp E d = true -> validate E d v = Accept w -> dom E d w = true.
Proof.
  unfold sound_hyp, validate. intros H.
  apply andb_prop in H as [H HB]. apply andb_prop in H as [H Ha]. apply andb_prop in H as [Hwf Hn].
  destruct (both_sound E d HB) as [Hc _]. now apply Hc.
Qed.

Lemma py_validate_sound_direct E d v w :
  sound_hyp E d = true -> py_validate E d v = Accept w -> dom E d w = true.
Proof.
  unfold sound_hyp. intros H.
  apply andb_prop in H as [H HB]. apply andb_prop in H as [H Ha]. apply andb_prop in H as [Hwf Hn].
  destruct (both_sound E d HB) as [_ Hp]. now apply Hp.
Qed.

(* the state-dependent validator (name-based Range) *)
Lemma validate_s_static E c s d v :
  (forall lo hi m, d <> DRangeDyn lo hi m) -> (forall src, d <> DEnumDyn src) -> validate_s E c s d v = validate E d v.
Proof. intros H H'. destruct d; try reflexivity; exfalso; [now apply (H lo hi mask) | now apply (H' src)]. Qed.

Lemma dyn_enum_accepts coll v w :
  dyn_enum coll v = Accept w -> w = v /\ exists items, coll = Some (PList items) /\ py_in v items = true.
Proof.
  unfold dyn_enum. destruct coll as [[]|]; try discriminate. destruct (py_in v l) eqn:H; [|discriminate].
  intros Hx; inversion Hx; subst. split; [reflexivity|]. eauto.
Qed.

Lemma dyn_range_accepts low high mask v w :
  dyn_range low high mask v = Accept w ->
  exists l h z, low = Some (PInt l) /\ high = Some (PInt h) /\ w = PInt z /\ cast_int v = Returns (PInt z)
                /\ int_range_spec z (Some l) (Some h) mask = true.
Proof.
  unfold dyn_range.
  assert (G : match low, high with
              | Some (PInt l), Some (PInt h) =>
                  match cast_int v with
                  | Returns (PInt z) => if py_int_in_range z (Some l) (Some h) mask then Accept (PInt z) else Reject
                  | _ => Reject
                  end
              | _, _ => Reject
              end = Accept w ->
              exists l h z, low = Some (PInt l) /\ high = Some (PInt h) /\ w = PInt z /\ cast_int v = Returns (PInt z)
                            /\ int_range_spec z (Some l) (Some h) mask = true).
  { destruct low as [[]|]; try discriminate. destruct high as [[]|]; try discriminate.
    destruct (cast_int v) as [[]|] eqn:Hc; try discriminate.
    destruct (py_int_in_range z1 (Some z) (Some z0) mask) eqn:Hr; [|discriminate].
    intros Hx; inversion Hx; subst. exists z, z0, z1. rewrite <- py_int_in_range_spec. auto. }
  destruct v; try exact G; discriminate.
Qed.

Lemma vs_sound E c s d v w :
  sound_hyp E d = true -> validate_s E c s d v = Accept w -> dom E d w = true.
Proof.
  intros Hs. destruct d; try exact (validate_sound_lemma E _ v w Hs).
  - cbn [validate_s]. intros H. destruct (dyn_range_accepts _ _ _ _ _ H) as (l & h & z & _ & _ & -> & _). reflexivity.
  - reflexivity.
Qed.

(* F18 as a witness: without none_sound the statement is false *)
Lemma validate_sound_refuted_lemma :
  let E := mkEnv [(1, 0); (0, 0)] 110 [] [] in let d := DInstance 0 false false in
  wf_desc d = true /\ validate E d PNone = Accept PNone /\ dom E d PNone = false.
Proof. vm_compute. repeat split. Qed.

(* ---------- assignments: rejected => no effect ---------- *)
Lemma post_nopost d w : has_post d = false -> post_setattr d w = NoPost.
Proof.
  destruct d; cbn; try discriminate; try reflexivity.
  intros ->. reflexivity.
Qed.

Lemma post_raise_only_mapped d w e : post_setattr d w = PostRaise e -> is_mapped d = true.
Proof.
  destruct d; cbn; try discriminate; try reflexivity.
  destruct (existsb has_post ds); discriminate.
Qed.

Lemma post_compound_never_raises ds w e : post_setattr (DCompound ds) w <> PostRaise e.
Proof. cbn. destruct (existsb has_post ds); discriminate. Qed.

(* TraitError => no effect, for every attribute whose trait is not a stand-alone Map / PrefixMap: those raise
   TraitError("Unmappable") from post_setattr AFTER the value was stored (c056106), which an unvalidated value reaches *)
Lemma setattr_traiterror_no_effect E c s n v s' :
  (forall d dflt, trait_of c n = Some (d, dflt) -> is_mapped d = false) ->
  setattr E c s n v = (s', Raise ETraitError) -> s' = s.
Proof.
  intros Hm. unfold setattr. destruct (trait_of c n) as [[d dflt]|]; [|intros H; now inversion H].
  specialize (Hm d dflt eq_refl).
  destruct (if is_undefined v then (if always_validated d then validate_s E c s d v else Accept v) else validate_s E c s d v) as [w| |e]; try (intros H; now inversion H).
  assert (Hw : forall e, post_setattr d w <> PostRaise e)
    by (intros e He; apply post_raise_only_mapped in He; congruence).
  assert (Hd : forall e, post_setattr d dflt <> PostRaise e)
    by (intros e He; apply post_raise_only_mapped in He; congruence).
  destruct (post_setattr d w) as [|x|e] eqn:Hp; [intros H; inversion H|..].
  2:{ exfalso. now apply (Hw e). }
  destruct (get s n) as [o|].
  - destruct (pv_eqb o w); intros H; inversion H.
  - destruct (post_setattr d dflt) as [|y|e']; [| |exfalso; now apply (Hd e')];
      destruct (pv_eqb dflt w); intros H; inversion H.
Qed.

(* the witness: `a.m = Undefined` on m = Map({'a': 1}) skips validation (F22), stores Undefined, and Map.post_setattr then
   raises TraitError — a TraitError that did have an effect *)
Lemma setattr_traiterror_effect_on_map :
  let c := [(0, (DMap [(PStr [97], PInt 1)], PStr [97]))] in
  let s := [(0, PStr [97]); (shadow 0, PInt 1)] in
  exists s', setattr E0 c s 0 PUndefined = (s', Raise ETraitError) /\ s' <> s.
Proof. eexists. split; [vm_compute; reflexivity | discriminate]. Qed.

(* ---------- the invariant: nothing out of the declared domain is readable ---------- *)
Definition Inv (E : env) (c : cls) (s : inst) : Prop :=
  forall n d dflt w, trait_of c n = Some (d, dflt) -> get s n = Some w -> dom E d w = true.

(* per attribute: soundness hypotheses of its trait, a name below the shadow range, and — for traits with a
   post_setattr, whose default is materialised by the first assignment — a default inside the domain *)
Definition class_ok (E : env) (c : cls) : bool :=
  forallb (fun e => let '(n, (d, dflt)) := e in
                    sound_hyp E d && (0 <=? n) && (n <? 1000) && (if has_post d then dom E d dflt else true)) c.

Lemma trait_of_in c n d dflt : trait_of c n = Some (d, dflt) -> In (n, (d, dflt)) c.
Proof.
  induction c as [|[m e] c IH]; cbn; [discriminate|]. destruct (m =? n) eqn:H.
  - apply Z.eqb_eq in H. intros Hx; inversion Hx; subst. now left.
  - intros Hx. right. now apply IH.
Qed.

Lemma class_ok_at E c n d dflt :
  class_ok E c = true -> trait_of c n = Some (d, dflt) ->
  sound_hyp E d = true /\ 0 <= n < 1000 /\ (has_post d = true -> dom E d dflt = true).
Proof.
  unfold class_ok. rewrite forallb_forall. intros H Ht. specialize (H _ (trait_of_in _ _ _ _ Ht)). cbn in H.
  apply andb_prop in H as [H H4]. apply andb_prop in H as [H H3]. apply andb_prop in H as [H1 H2].
  split; [assumption|]. split; [lia|]. intros Hp. now rewrite Hp in H4.
Qed.

Lemma trait_of_shadow E c n d dflt m :
  class_ok E c = true -> trait_of c n = Some (d, dflt) -> trait_of c (shadow m) = Some (d, dflt) -> 0 <= m -> False.
Proof.
  intros Hc _ Hs Hm. destruct (class_ok_at E c _ _ _ Hc Hs) as (_ & Hr & _). unfold shadow in Hr. lia.
Qed.

Lemma inv_set E c s m x :
  Inv E c s -> (forall d dflt, trait_of c m = Some (d, dflt) -> dom E d x = true) -> Inv E c (set s m x).
Proof.
  intros HI Hx n d dflt w Ht. unfold set. cbn. destruct (m =? n) eqn:Hmn.
  - apply Z.eqb_eq in Hmn. subst. intros H; inversion H; subst. eapply Hx; eauto.
  - intros Hg. eapply HI; eauto.
Qed.

Lemma inv_set_shadow E c s m x :
  class_ok E c = true -> 0 <= m -> Inv E c s -> Inv E c (set s (shadow m) x).
Proof.
  intros Hc Hm HI. apply inv_set; [assumption|]. intros d dflt Ht. exfalso.
  destruct (class_ok_at E c _ _ _ Hc Ht) as (_ & Hr & _). unfold shadow in Hr. lia.
Qed.

Lemma setattr_inv E c s n v :
  is_undefined v = false -> class_ok E c = true -> Inv E c s -> Inv E c (fst (setattr E c s n v)).
Proof.
  intros Hu Hc HI. unfold setattr. rewrite Hu. destruct (trait_of c n) as [[d dflt]|] eqn:Ht; [|exact HI].
  destruct (class_ok_at E c _ _ _ Hc Ht) as (Hs & Hr & Hd).
  destruct (validate_s E c s d v) as [w| |e] eqn:Hv; try exact HI.
  pose proof (vs_sound E c s d v w Hs Hv) as Hw.
  assert (Hsetw : forall s0, Inv E c s0 -> Inv E c (set s0 n w)).
  { intros s0 H0. apply inv_set; [assumption|]. intros d' dflt' Ht'. rewrite Ht in Ht'. now inversion Ht'; subst. }
  destruct (post_setattr d w) as [|x|e] eqn:Hp; cbn.
  - now apply Hsetw.
  - assert (Hpost : has_post d = true).
    { destruct (has_post d) eqn:Hh; [reflexivity|]. rewrite (post_nopost d w Hh) in Hp. discriminate. }
    assert (Hsetd : Inv E c (set s n dflt)).
    { apply inv_set; [assumption|]. intros d' dflt' Ht'. rewrite Ht in Ht'. inversion Ht'; subst. now apply Hd. }
    destruct (get s n) as [o|].
    + destruct (pv_eqb o w); cbn; [now apply Hsetw|]. apply inv_set_shadow; try assumption; try lia. now apply Hsetw.
    + destruct (post_setattr d dflt) as [|y|e']; cbn.
      * destruct (pv_eqb dflt w); cbn; [now apply Hsetw|].
        apply inv_set_shadow; try assumption; try lia. now apply Hsetw.
      * assert (H1 : Inv E c (set (set s n dflt) (shadow n) y)) by (apply inv_set_shadow; try assumption; lia).
        destruct (pv_eqb dflt w); cbn; [now apply Hsetw|].
        apply inv_set_shadow; try assumption; try lia. now apply Hsetw.
      * exact Hsetd.
  - assert (Hpost : has_post d = true).
    { destruct (has_post d) eqn:Hh; [reflexivity|]. rewrite (post_nopost d w Hh) in Hp. discriminate. }
    assert (Hsetd : Inv E c (set s n dflt)).
    { apply inv_set; [assumption|]. intros d' dflt' Ht'. rewrite Ht in Ht'. inversion Ht'; subst. now apply Hd. }
    destruct (get s n) as [o|].
    + destruct (pv_eqb o w); cbn; now apply Hsetw.
    + destruct (post_setattr d dflt) as [|y|e']; cbn.
      * destruct (pv_eqb dflt w); cbn; now apply Hsetw.
      * assert (H1 : Inv E c (set (set s n dflt) (shadow n) y)) by (apply inv_set_shadow; try assumption; lia).
        destruct (pv_eqb dflt w); cbn; now apply Hsetw.
      * exact Hsetd.
Qed.

(* the values assigned are ordinary values, not the Undefined sentinel (which bypasses validation: F22) *)
Definition kw_defined (kw : list (Z * pv)) : bool := forallb (fun p => negb (is_undefined (snd p))) kw.
Definition ops_defined (ops : list op) : bool := forallb (fun o => kw_defined (snd o)) ops.

Lemma assign_all_inv E c kw : forall s,
  kw_defined kw = true -> class_ok E c = true -> Inv E c s -> Inv E c (fst (assign_all E c s kw)).
Proof.
  induction kw as [|[n v] kw IH]; intros s Hd Hc HI; cbn; [exact HI|].
  cbn in Hd. apply andb_prop in Hd as [Hv Hd]. apply negb_true_iff in Hv.
  pose proof (setattr_inv E c s n v Hv Hc HI) as H1.
  destruct (setattr E c s n v) as [s1 [|e]]; cbn in *; [now apply IH | exact H1].
Qed.

Lemma inv_empty E c : Inv E c [].
Proof. intros n d dflt w _ H. discriminate. Qed.

Lemma step_inv E c s o :
  kw_defined (snd o) = true -> class_ok E c = true -> Inv E c s -> Inv E c (fst (step E c s o)).
Proof.
  intros Hd Hc HI. destruct o as [[| | |] kw]; cbn in *.
  - now apply assign_all_inv.
  - now apply assign_all_inv.
  - pose proof (assign_all_inv E c kw [] Hd Hc (inv_empty E c)) as H1.
    destruct (assign_all E c [] kw) as [s1 [|e]]; cbn in *; assumption.
  - now apply assign_all_inv.
Qed.

Lemma run_inv E c ops : forall s,
  ops_defined ops = true -> class_ok E c = true -> Inv E c s -> Forall (fun r => Inv E c (fst r)) (run E c s ops).
Proof.
  induction ops as [|o ops IH]; intros s Hd Hc HI; cbn; [constructor|].
  cbn in Hd. apply andb_prop in Hd as [Ho Hd].
  pose proof (step_inv E c s o Ho Hc HI) as H1. destruct (step E c s o) as [s1 out]; cbn in *.
  constructor; [exact H1 | now apply IH].
Qed.

(* ---------- any exception => no effect, provided the default of a stand-alone Map / PrefixMap is one of its keys ---------- *)
Definition post_safe (c : cls) : bool :=
  forallb (fun e => let '(_, (d, dflt)) := e in
                    match d with
                    | DMap _ | DPrefixMap _ => match post_setattr d dflt with PostSet _ => true | _ => false end
                    | _ => true
                    end) c.

Lemma str_get_in m k : In k (map fst m) -> exists x, str_get m k = Some x.
Proof.
  induction m as [|[k0 x0] m IH]; cbn; [tauto|]. intros [H|H].
  - subst. rewrite zlist_eqb_refl. eauto.
  - destruct (zlist_eqb k0 k); eauto.
Qed.

Lemma existsb_zlist_in s keys : existsb (zlist_eqb s) keys = true -> In s keys.
Proof.
  rewrite existsb_exists. intros (k & Hin & He). apply zlist_eqb_true in He. now subst.
Qed.

Lemma accepted_is_mapped E d v w :
  is_mapped d = true -> validate E d v = Accept w -> exists x, post_setattr d w = PostSet x.
Proof.
  unfold validate. destruct d; cbn; try discriminate; intros _.
  - destruct (hashable v) eqn:Hh; [|discriminate]. destruct (dict_get m v) eqn:Hg; [|discriminate].
    intros H; inversion H; subst. rewrite Hh, Hg. eauto.
  - unfold py_prefix. destruct (str_of v) as [s|] eqn:Hs; [|discriminate].
    unfold complete_value. destruct (existsb (zlist_eqb s) (map fst m)) eqn:He.
    + intros H; inversion H; subst. rewrite Hs.
      destruct (str_get_in m s (existsb_zlist_in _ _ He)) as [x ->]. eauto.
    + destruct (filter (fun k => is_prefix s k) (map fst m)) as [|k [|k' r]] eqn:Hf; try discriminate.
      intros H; inversion H; subst. cbn.
      assert (Hin : In k (filter (fun k => is_prefix s k) (map fst m))) by (rewrite Hf; now left).
      apply filter_In in Hin as [Hin _]. destruct (str_get_in m k Hin) as [x ->]. eauto.
Qed.

Lemma setattr_exception_no_effect E c s n v s' e :
  is_undefined v = false -> post_safe c = true -> setattr E c s n v = (s', Raise e) -> s' = s.
Proof.
  unfold post_safe. rewrite forallb_forall. intros Hu Hp. unfold setattr. rewrite Hu.
  destruct (trait_of c n) as [[d dflt]|] eqn:Ht; [|intros H; now inversion H].
  specialize (Hp _ (trait_of_in _ _ _ _ Ht)). cbn in Hp.
  destruct (validate_s E c s d v) as [w| |e0] eqn:Hv; try (intros H; now inversion H).
  destruct (has_post d) eqn:Hh.
  2:{ rewrite (post_nopost d w Hh). intros H; inversion H. }
  destruct d; cbn in Hh; try discriminate; cbn [validate_s] in Hv.
  - (* DMap *) destruct (accepted_is_mapped E (DMap m) v w eq_refl Hv) as [x Hx]. rewrite Hx.
    destruct (get s n) as [o|].
    + destruct (pv_eqb o w); intros H; inversion H.
    + destruct (post_setattr (DMap m) dflt) as [|y|e']; try discriminate.
      destruct (pv_eqb dflt w); intros H; inversion H.
  - (* DPrefixMap *) destruct (accepted_is_mapped E (DPrefixMap m) v w eq_refl Hv) as [x Hx]. rewrite Hx.
    destruct (get s n) as [o|].
    + destruct (pv_eqb o w); intros H; inversion H.
    + destruct (post_setattr (DPrefixMap m) dflt) as [|y|e']; try discriminate.
      destruct (pv_eqb dflt w); intros H; inversion H.
  - (* DCompound: its _post_setattr never raises *)
    pose proof (post_compound_never_raises ds w) as Hw. pose proof (post_compound_never_raises ds dflt) as Hd.
    destruct (post_setattr (DCompound ds) w) as [|x|e1]; [intros H; inversion H| |exfalso; now apply (Hw e1)].
    destruct (get s n) as [o|].
    + destruct (pv_eqb o w); intros H; inversion H.
    + destruct (post_setattr (DCompound ds) dflt) as [|y|e']; [| |exfalso; now apply (Hd e')];
        destruct (pv_eqb dflt w); intros H; inversion H.
Qed.

Lemma step_failure_no_effect E c s h n v s' e :
  is_undefined v = false -> post_safe c = true -> step E c s (h, [(n, v)]) = (s', Raise e) -> s' = s.
Proof.
  intros Hu Hp. destruct h; cbn.
  1,2,4: destruct (setattr E c s n v) as [s1 [|e1]] eqn:Hs; intros H; inversion H; subst;
       eapply setattr_exception_no_effect; eauto.
  destruct (setattr E c [] n v) as [s1 [|e1]]; intros H; inversion H; reflexivity.
Qed.

Lemma ctor_failure_no_effect E c s kw s' e : step E c s (Ctor, kw) = (s', Raise e) -> s' = s.
Proof. cbn. destruct (assign_all E c [] kw) as [s1 [|e1]]; intros H; inversion H; reflexivity. Qed.

(* F22: the Undefined sentinel is stored without validation *)
Lemma undefined_bypass_lemma :
  let c := [(0, (DInt, PInt 0))] in
  class_ok E0 c = true /\ setattr E0 c [] 0 PUndefined = ([(0, PUndefined)], Ok) /\ dom E0 DInt PUndefined = false.
Proof. vm_compute. repeat split. Qed.

(* non-vacuity *)
Lemma class_ok_example :
  let E := E0 in
  let c := [(0, (DTuple [DInt; DRangeF (Some (FFin false 0)) None 1], PTuple [PInt 0; PFloat (FFin false 0)]));
            (1, (DMap [(PStr [97], PInt 1); (PInt 1, PInt 2)], PStr [97]));
            (2, (DUnion [DString 0 5 None; DCast CTInt], PStr []))] in
  class_ok E c = true /\ post_safe c = true /\
  map snd (run E c [] [(Attr, [(0, PTuple [PBool true; PInt 2])]); (TraitSet, [(1, PFloat (FFin false 1000)); (0, PNone)]);
                        (Ctor, [(2, PStr [49; 50])]); (Attr, [(2, PInt 7)])])
  = [Ok; Raise ETraitError; Ok; Ok].
Proof. vm_compute. repeat split. Qed.

(* ---------- the only exceptions validation lets through are the value's own ---------- *)
Lemma int_to_fl_raises z e : int_to_fl z = Raises e -> e = EOverflowError /\ (MAXF <=? Z.abs z) = true.
Proof.
  unfold int_to_fl. destruct (Z.abs z <? MAXF) eqn:H; [discriminate|]. intros Hx; inversion Hx; subst.
  split; [reflexivity|]. apply Z.ltb_ge in H. now apply Z.leb_le.
Qed.

Lemma float_as_double_raises v e :
  float_as_double v = Raises e -> e <> ETypeError -> raises_own v e = true.
Proof.
  destruct v; cbn -[MAXF int_to_fl]; try discriminate; try (intros H; inversion H; congruence).
  - (* PInt *) intros H _. apply int_to_fl_raises in H as [-> H]. now rewrite H.
  - (* PIntSub *) intros H _. apply int_to_fl_raises in H as [-> H]. now rewrite H.
  - (* PNpInt *) intros H _. apply int_to_fl_raises in H as [-> H]. now rewrite H.
  - (* PIndexObj *) destruct c as [z|x]; cbn -[MAXF int_to_fl].
    + intros H _. apply int_to_fl_raises in H as [-> H]. now rewrite H.
    + intros H _. inversion H; subst. apply exn_eqb_refl.
  - (* PFloatObj *) destruct c as [f|x]; [discriminate|]. intros H _. inversion H; subst. apply exn_eqb_refl.
Qed.

Lemma as_float_raises v e : as_float v = Raises e -> e <> ETypeError -> raises_own v e = true.
Proof.
  unfold as_float, conv_map. destruct v; try discriminate;
    match goal with |- context [float_as_double ?x] => destruct (float_as_double x) eqn:H end;
    try discriminate; intros Hx; inversion Hx; subst; now apply float_as_double_raises.
Qed.

Lemma as_integer_raises v e : as_integer v = Raises e -> e <> ETypeError -> raises_own v e = true.
Proof.
  unfold as_integer, conv_map. destruct v; cbn -[MAXF]; try discriminate;
    try (intros H; inversion H; congruence).
  destruct c as [z|x]; [discriminate|]. intros H _; inversion H; subst. apply exn_eqb_refl.
Qed.

Lemma as_complex_raises v e : as_complex v = Raises e -> e <> ETypeError -> raises_own v e = true.
Proof.
  unfold as_complex, conv_map. destruct v; try discriminate;
    try (match goal with |- context [float_as_double ?x] => destruct (float_as_double x) eqn:H end;
         try discriminate; intros Hx; inversion Hx; subst; now apply float_as_double_raises).
  destruct c as [p|x]; [discriminate|]. intros H _. inversion H; subst. apply exn_eqb_refl.
Qed.

Definition own_at (E : env) (d : desc) : Prop :=
  wf_desc d = true -> forall v e, c_validate E d v = Propagate e -> raises_own v e = true.

Lemma members_exn E ds : Forall (own_at E) ds -> forallb wf_desc ds = true ->
  forall vs e, members (c_validate E) ds vs = TExn e -> existsb (fun x => raises_own x e) vs = true.
Proof.
  induction 1 as [|d ds Hd _ IH]; cbn; intros Hw [|v vs] e; try discriminate.
  apply andb_prop in Hw as [Hw1 Hw2].
  destruct (c_validate E d v) as [w| |e0] eqn:Hv; try discriminate.
  - destruct (members (c_validate E) ds vs) as [ws| |e1] eqn:Hm; try discriminate.
    intros H; inversion H; subst. cbn. rewrite (IH Hw2 vs e Hm). apply orb_true_r.
  - intros H; inversion H; subst. cbn. now rewrite (Hd Hw1 v e Hv).
Qed.

Lemma first_outcome_map_propagate {A} (f : A -> vres) l e :
  first_outcome (map f l) = Propagate e -> exists a, In a l /\ f a = Propagate e.
Proof.
  induction l as [|a l IH]; cbn; [discriminate|]. destruct (f a) as [x| |e0] eqn:Hf; try discriminate.
  - intros H. destruct (IH H) as (b & Hb & Hfb). eauto.
  - intros H; inversion H; subst. eauto.
Qed.

Lemma leaf_own E d :
  (forall ds, d <> DTuple ds /\ d <> DCompound ds /\ d <> DUnion ds) -> (forall d', d <> DProperty d' /\ (forall ds fv, d <> DVTuple ds fv) /\ (forall mn mx, d <> DList d' mn mx) /\ forall d2, d <> DDict d' d2) -> own_at E d.
Proof.
  intros Hleaf Hnp _ v e. destruct d; cbn [c_validate]; try discriminate.
  - (* DInt *) unfold of_conv. destruct (as_integer v) as [x|[]] eqn:H; try discriminate;
      intros Hx; inversion Hx; subst; apply as_integer_raises; auto; discriminate.
  - (* DFloat *) unfold of_conv. destruct (as_float v) as [x|[]] eqn:H; try discriminate;
      intros Hx; inversion Hx; subst; apply as_float_raises; auto; discriminate.
  - (* DComplex *) unfold of_conv. destruct (as_complex v) as [x|[]] eqn:H; try discriminate;
      intros Hx; inversion Hx; subst; apply as_complex_raises; auto; discriminate.
  - unfold c_coerce; cbn. destruct (typecheck E v cSTR); discriminate.
  - unfold c_coerce; cbn. destruct (typecheck E v cBYTES); discriminate.
  - unfold c_coerce; cbn. destruct (typecheck E v cBOOL); [discriminate|]. destruct (typecheck E v cNPBOOL); discriminate.
  - unfold c_coerce; cbn. destruct (typecheck E v cMODULE); discriminate.
  - (* DCast *) destruct (class_of v =? cast_cls t); [discriminate|]. destruct (cast_fn E t v); discriminate.
  - (* DRangeF *) destruct (as_float v) as [[]|[]] eqn:H; try discriminate;
      try (destruct (in_float_range f lo hi mask =? 1); discriminate);
      intros Hx; inversion Hx; subst; apply as_float_raises; auto; discriminate.
  - (* DRangeI *) unfold py_rangei. destruct (as_integer v) as [[]|[]] eqn:H; try discriminate;
      try (destruct (py_int_in_range z lo hi mask); discriminate);
      intros Hx; inversion Hx; subst; apply as_integer_raises; auto; discriminate.
  - destruct (py_in v vals); discriminate.
  - destruct (hashable v); [|discriminate]. destruct (dict_get m v); discriminate.
  - exfalso. destruct (Hleaf ds) as [H _]. now apply H.
  - destruct ((allow_none && pv_eqb v PNone) || (if tc then typecheck E v cls else isinstance E v cls)); discriminate.
  - unfold c_adapt. destruct v; try (destruct allow_none; discriminate);
      destruct (mode =? 0); repeat (match goal with |- context [if ?b then _ else _] => destruct b
                                                  | |- context [match ?x with _ => _ end] => destruct x end); discriminate.
  - destruct ((allow_none && pv_eqb v PNone) || typecheck E v (e_self E)); discriminate.
  - destruct v; try (destruct allow_none; discriminate); cbn; discriminate.
  - unfold py_type. destruct v; try discriminate; [destruct allow_none | destruct (issub E cls0 cls)]; discriminate.
  - unfold py_string. destruct (strx E v); [|discriminate].
    match goal with |- context [if ?b then _ else _] => destruct b end; discriminate.
  - unfold py_prefix. destruct (str_of v); [|discriminate]. destruct (complete_value vals v l); discriminate.
  - unfold py_prefix. destruct (str_of v); [|discriminate]. destruct (complete_value (map fst m) v l); discriminate.
  - exfalso. destruct (Hleaf ds) as (_ & H & _). now apply H.
  - exfalso. destruct (Hleaf ds) as (_ & _ & H). now apply H.
  - (* DArray *) unfold py_array.
    match goal with |- match ?x with _ => _ end = _ -> _ => destruct x as [a0|] end; [|discriminate].
    match goal with |- match ?x with _ => _ end = _ -> _ => destruct x as [a1|] end; [|discriminate].
    destruct (arr_dtype_ok dt a1 && arr_shape_ok shape a1); discriminate.
  - (* DProperty *) exfalso. now apply (proj1 (Hnp d)).
  - (* DVTuple *) exfalso. now apply (proj1 (proj2 (Hnp DAny)) ds fv).
  - (* DList *) exfalso. now apply (proj1 (proj2 (proj2 (Hnp d))) minlen maxlen).
  - (* DDict *) exfalso. eapply (proj2 (proj2 (proj2 (Hnp _)))). reflexivity.
Qed.

(* the same on the Python path (Property(<trait>) is validated there) *)
Definition pown_at (E : env) (d : desc) : Prop :=
  wf_desc d = true -> forall v e, py_validate E d v = Propagate e -> raises_own v e = true.

Lemma cast_fn_raises_own E t v e :
  cast_fn E t v = Raises e -> e <> ETypeError -> e <> EValueError -> e <> EOverflowError ->
  match t with CTInt | CTFloat | CTComplex => raises_own v e = true | _ => True end.
Proof.
  destruct t; try exact (fun _ _ _ _ => I); cbn [cast_fn]; intros H H1 H2 H3.
  - (* int() *) unfold cast_int, conv_map, fl_trunc in H.
    destruct v; try (inversion H; congruence);
      try (destruct f; inversion H; congruence);
      try (destruct (parse_int s); inversion H; congruence).
    destruct c as [z|x]; inversion H; subst. apply exn_eqb_refl.
  - (* float() *) unfold cast_float, conv_map in H.
    destruct v; try (destruct (parse_int s) as [z|]; [destruct (int_to_fl z) eqn:Hz; inversion H; subst;
                     apply int_to_fl_raises in Hz as [-> _]; congruence | inversion H; congruence]);
      (destruct (float_as_double _) eqn:Hf in H; inversion H; subst; now apply float_as_double_raises).
  - (* complex() *) unfold cast_complex, conv_map in H.
    destruct v; try (inversion H; congruence);
      try (destruct (parse_int s) as [z|]; [destruct (int_to_fl z) eqn:Hz; inversion H; subst;
           apply int_to_fl_raises in Hz as [-> _]; congruence | inversion H; congruence]);
      try (destruct c as [q|x]; inversion H; subst; apply exn_eqb_refl);
      (destruct (float_as_double _) eqn:Hf in H; inversion H; subst; now apply float_as_double_raises).
Qed.

Lemma py_leaf_own E d :
  (forall ds, d <> DTuple ds /\ d <> DCompound ds /\ d <> DUnion ds) -> (forall d', d <> DProperty d' /\ (forall ds fv, d <> DVTuple ds fv) /\ (forall mn mx, d <> DList d' mn mx) /\ forall d2, d <> DDict d' d2) -> pown_at E d.
Proof.
  intros Hleaf Hnp Hwf v e.
  destruct d; cbn [py_validate]; try discriminate;
    try (exact (leaf_own E _ Hleaf Hnp Hwf v e));
    try (exfalso; first [ now apply (proj1 (Hnp d)) | now apply (proj1 (proj2 (Hnp DAny)) ds fv) | now apply (proj1 (proj2 (proj2 (Hnp d))) minlen maxlen) | (eapply (proj2 (proj2 (proj2 (Hnp _)))); reflexivity)
                        | destruct (Hleaf ds) as (H1 & H2 & H3); first [now apply H1 | now apply H2 | now apply H3] ]);
    (* validators that never let anything through *)
    try (repeat (match goal with
                 | |- context [if ?b then _ else _] => destruct b
                 | |- context [match ?x with _ => _ end] => destruct x
                 end; try discriminate); fail).
  - (* DCast *) destruct (cast_fn E t v) as [x|e0] eqn:Hf; [discriminate|].
    destruct t, e0; try discriminate; intros Hx; inversion Hx; subst;
      exact (cast_fn_raises_own E _ v _ Hf ltac:(discriminate) ltac:(discriminate) ltac:(discriminate)).
  - (* DRangeF *) destruct (as_float v) as [[]|[]] eqn:H; try discriminate;
      try (destruct (py_float_in_range f lo hi mask); discriminate);
      intros Hx; inversion Hx; subst; apply as_float_raises; auto; discriminate.
Qed.

Lemma first_sel_propagate_in sel f ds e :
  first_sel sel f ds = Propagate e -> exists a, In a ds /\ f a = Propagate e.
Proof.
  induction ds as [|a ds IH]; cbn; [discriminate|]. destruct (sel a).
  - destruct (f a) as [x| |e0] eqn:Hf.
    + discriminate.
    + intros H. destruct (IH H) as (b & Hb & Hfb). exists b. split; [now right | assumption].
    + intros H; inversion H; subst. exists a. split; [now left | assumption].
  - intros H. destruct (IH H) as (b & Hb & Hfb). exists b. split; [now right | assumption].
Qed.

Lemma all_items_exn E d : own_at E d -> wf_desc d = true ->
  forall vs e, all_items (c_validate E d) vs = TExn e -> existsb (fun x => raises_own x e) vs = true.
Proof.
  intros Hd Hw. induction vs as [|v vs IH]; cbn; intros e; [discriminate|].
  destruct (c_validate E d v) as [w| |e0] eqn:Hv; try discriminate.
  - destruct (all_items (c_validate E d) vs) as [ws| |e1] eqn:Hm; try discriminate.
    intros H; inversion H; subst. rewrite (IH e eq_refl). apply orb_true_r.
  - intros H; inversion H; subst. now rewrite (Hd Hw v e Hv).
Qed.

Lemma list_own E d mn mx : own_at E d -> wf_desc d = true ->
  forall v e, list_check (c_validate E d) mn mx v = Propagate e -> raises_own v e = true.
Proof.
  intros Hd Hw v e. unfold list_check. destruct v; try discriminate.
  destruct ((mn <=? Z.of_nat (length l)) && (Z.of_nat (length l) <=? mx)); [|discriminate].
  destruct (all_items (c_validate E d) l) as [ws| |e0] eqn:Hm; try discriminate.
  intros Hx; inversion Hx; subst. cbn -[MAXF]. eapply all_items_exn; eauto.
Qed.

Lemma dict_own E kd vd : own_at E kd -> own_at E vd -> wf_desc (DDict kd vd) = true ->
  forall v e, dict_check (c_validate E kd) (c_validate E vd) v = Propagate e -> raises_own v e = true.
Proof.
  intros Hk Hv Hwf v e. cbn in Hwf. apply andb_prop in Hwf as [W1 W2].
  unfold dict_check. destruct v; try discriminate.
  destruct (all_pairs (c_validate E kd) (c_validate E vd) l) as [l'| |e0] eqn:Hm; try discriminate.
  intros Hx; inversion Hx; subst. clear Hx. cbn -[MAXF].
  revert Hm. induction l as [|[k x] l IH]; cbn -[MAXF]; [discriminate|].
  destruct (c_validate E kd k) as [k1| |e1] eqn:Hck; try discriminate.
  - destruct (c_validate E vd x) as [x1| |e1] eqn:Hcx; try discriminate.
    + destruct (all_pairs (c_validate E kd) (c_validate E vd) l) as [l'| |e1]; try discriminate.
      intros H; inversion H; subst. rewrite IH by reflexivity. apply orb_true_r.
    + intros H; inversion H; subst. rewrite (Hv W2 x e Hcx). rewrite orb_true_r. reflexivity.
  - intros H; inversion H; subst. now rewrite (Hk W1 k e Hck).
Qed.

Definition both_own_at (E : env) (d : desc) : Prop := own_at E d /\ pown_at E d.

Lemma both_own E d : both_own_at E d.
Proof.
  induction d as [d H Hnp|d IHd|ds fv H|d mn mx IHd|kd vd IHk IHv|ds H|ds H|ds H] using desc_ind'.
  5:{ destruct IHk as [IHk _], IHv as [IHv _]. split; intros Hwf v e; cbn [c_validate py_validate]; now apply dict_own. }
  4:{ destruct IHd as [IHc _]. split; intros Hwf v e; cbn [c_validate py_validate]; now apply list_own. }
  - split; [now apply leaf_own | now apply py_leaf_own].
  - destruct IHd as [_ IHp]. split; intros Hwf v e; cbn [c_validate py_validate]; apply IHp; exact Hwf.
  - (* ValidatedTuple: the bare except swallows whatever a member lets through *)
    split; intros Hwf v e; cbn [c_validate py_validate]; unfold vtuple_check;
      destruct (seq_items v) as [vs|]; try discriminate;
      destruct (Nat.eqb (length vs) (length ds)); try discriminate;
      destruct (members (c_validate E) ds vs) as [ws| |e0]; try discriminate;
      destruct (fv_ok E fv (PTuple ws)); discriminate.
  - (* DTuple *)
    assert (HF : Forall (own_at E) ds) by (eapply Forall_impl; try exact H; now intros a [Hc _]).
    split; intros Hwf v e; destruct ds as [|a ds].
    + cbn. unfold py_tuple0. destruct v; discriminate.
    + cbn [c_validate]. unfold tuple_check. destruct (tuple_items v) as [vs|] eqn:Hv; [|discriminate].
      destruct (Nat.eqb (length (a :: ds)) (length vs)); [|discriminate].
      destruct (members (c_validate E) (a :: ds) vs) as [ws| |e0] eqn:Hm; try discriminate.
      * destruct (pvs_eqb ws vs); discriminate.
      * intros Hx; inversion Hx; subst. cbn [wf_desc] in Hwf.
        pose proof (members_exn E (a :: ds) HF Hwf vs e Hm) as Hex.
        destruct v; cbn in Hv; try discriminate; inversion Hv; subst; exact Hex.
    + cbn. unfold py_tuple0. destruct v; discriminate.
    + cbn [py_validate]. destruct (tuple_items v) as [vs|] eqn:Hv; [|discriminate].
      destruct (Nat.eqb (length vs) (length (a :: ds))); [|discriminate].
      destruct (members (c_validate E) (a :: ds) vs) as [ws| |e0] eqn:Hm; try discriminate.
      intros Hx; inversion Hx; subst. cbn [wf_desc] in Hwf.
      pose proof (members_exn E (a :: ds) HF Hwf vs e Hm) as Hex.
      destruct v; cbn in Hv; try discriminate; inversion Hv; subst; exact Hex.
  - (* DCompound *) split; intros Hwf v e Hv.
    + pose proof (wf_compound_alts ds Hwf) as Hok.
      rewrite compound_first_accepting_lemma in Hv by exact Hok.
      destruct (first_outcome_map_propagate _ _ _ Hv) as (a & Hin & Ha). apply in_effective_order in Hin.
      rewrite Forall_forall in H. cbn [wf_desc] in Hwf. apply andb_prop in Hwf as [Hwf _]. apply andb_prop in Hwf as [Hwf _].
      destruct (H a Hin) as [Hc _]. apply (Hc (forallb_in _ _ _ Hwf Hin) v e Ha).
    + cbn [py_validate] in Hv.
      assert (Hex : exists a, In a ds /\ py_validate E a v = Propagate e).
      { destruct (first_sel is_fast (fun a => py_validate E a v) ds) as [x| |e0] eqn:H1.
        - discriminate.
        - eapply first_sel_propagate_in; eauto.
        - inversion Hv; subst. eapply first_sel_propagate_in; eauto. }
      destruct Hex as (a & Hin & Ha).
      rewrite Forall_forall in H. cbn [wf_desc] in Hwf. apply andb_prop in Hwf as [Hwf _]. apply andb_prop in Hwf as [Hwf _].
      destruct (H a Hin) as [_ Hp]. apply (Hp (forallb_in _ _ _ Hwf Hin) v e Ha).
  - (* DUnion *)
    assert (Hu : own_at E (DUnion ds)).
    { intros Hwf v e. cbn [c_validate]. rewrite first_sel_filter, filter_true. intros Hv.
      destruct (first_outcome_map_propagate _ _ _ Hv) as (a & Hin & Ha).
      rewrite Forall_forall in H. cbn [wf_desc] in Hwf. apply andb_prop in Hwf as [Hwf _].
      destruct (H a Hin) as [Hc _]. apply (Hc (forallb_in _ _ _ Hwf Hin) v e Ha). }
    split; [exact Hu | exact Hu].
Qed.

Lemma own_protocol_lemma E d v e :
  wf_desc d = true -> validate E d v = Propagate e -> raises_own v e = true.
Proof. unfold validate. intros Hwf. destruct (both_own E d) as [Hc _]. now apply Hc. Qed.


Lemma vs_own E c s d v e :
  wf_desc d = true -> validate_s E c s d v = Propagate e -> raises_own v e = true.
Proof.
  intros Hwf. destruct d; try exact (own_protocol_lemma E _ v e Hwf).
  - cbn [validate_s]. unfold dyn_range.
    destruct v; try discriminate;
      repeat (match goal with |- context [match ?x with _ => _ end] => destruct x
                            | |- context [if ?b then _ else _] => destruct b end; try discriminate).
  - cbn [validate_s]. unfold dyn_enum. destruct (read c s src) as [[]|]; try discriminate. destruct (py_in v l); discriminate.
Qed.

Lemma setattr_exception_class E c s n v s' e d dflt :
  is_undefined v = false -> post_safe c = true -> trait_of c n = Some (d, dflt) -> wf_desc d = true ->
  setattr E c s n v = (s', Raise e) -> e = ETraitError \/ raises_own v e = true.
Proof.
  intros Hu Hp Ht Hwf. pose proof (setattr_exception_no_effect E c s n v s' e Hu Hp) as Hne.
  unfold setattr in *. rewrite Hu, Ht in *.
  destruct (validate_s E c s d v) as [w| |e0] eqn:Hv.
  - (* accepted: an exception can only come from post_setattr, excluded by post_safe *)
    unfold post_safe in Hp. rewrite forallb_forall in Hp. specialize (Hp _ (trait_of_in _ _ _ _ Ht)). cbn in Hp.
    destruct (has_post d) eqn:Hh.
    2:{ rewrite (post_nopost d w Hh). intros H; inversion H. }
    destruct d; cbn in Hh; try discriminate; cbn [validate_s] in Hv.
    + destruct (accepted_is_mapped E (DMap m) v w eq_refl Hv) as [x Hx]. rewrite Hx.
      destruct (get s n) as [o|].
      * destruct (pv_eqb o w); intros H; inversion H.
      * destruct (post_setattr (DMap m) dflt) as [|y|e']; try discriminate.
        destruct (pv_eqb dflt w); intros H; inversion H.
    + destruct (accepted_is_mapped E (DPrefixMap m) v w eq_refl Hv) as [x Hx]. rewrite Hx.
      destruct (get s n) as [o|].
      * destruct (pv_eqb o w); intros H; inversion H.
      * destruct (post_setattr (DPrefixMap m) dflt) as [|y|e']; try discriminate.
        destruct (pv_eqb dflt w); intros H; inversion H.
    + pose proof (post_compound_never_raises ds w) as Hw. pose proof (post_compound_never_raises ds dflt) as Hd.
      destruct (post_setattr (DCompound ds) w) as [|x|e1]; [intros H; inversion H| |exfalso; now apply (Hw e1)].
      destruct (get s n) as [o|].
      * destruct (pv_eqb o w); intros H; inversion H.
      * destruct (post_setattr (DCompound ds) dflt) as [|y|e']; [| |exfalso; now apply (Hd e')];
          destruct (pv_eqb dflt w); intros H; inversion H.
  - intros H; inversion H; subst. now left.
  - intros H; inversion H; subst. right. eapply vs_own; eauto.
Qed.

(* ---------- the stored value is the documented conversion ---------- *)
Fixpoint forall3b {A B C} (f : A -> B -> C -> bool) (l : list A) (m : list B) (n : list C) : bool :=
  match l, m, n with
  | [], [], [] => true
  | a :: l', b :: m', c :: n' => f a b c && forall3b f l' m' n'
  | _, _, _ => false
  end.

Lemma conv_go_forall3b E l vs ws :
  (fix go (ds : list desc) (vs ws : list pv) : bool :=
     match ds, vs, ws with
     | [], [], [] => true
     | a :: ds', x :: vs', y :: ws' => conv_ok E a x y && go ds' vs' ws'
     | _, _, _ => false
     end) l vs ws = forall3b (conv_ok E) l vs ws.
Proof.
  revert vs ws. induction l as [|x l IH]; intros [|y vs] [|z ws]; try reflexivity.
  cbn [forall3b]. now rewrite <- IH.
Qed.

Lemma conv_tuple E a ds v w :
  conv_ok E (DTuple (a :: ds)) v w =
  match tuple_items v, tuple_items w with
  | Some vs, Some ws => (pv_eqb w v || is_exact_tuple w) && forall3b (conv_ok E) (a :: ds) vs ws
  | _, _ => false
  end.
Proof.
  change (conv_ok E (DTuple (a :: ds)) v w) with
    (match tuple_items v, tuple_items w with
     | Some vs, Some ws =>
         (pv_eqb w v || is_exact_tuple w) &&
         (fix go (ds : list desc) (vs ws : list pv) : bool :=
            match ds, vs, ws with
            | [], [], [] => true
            | a :: ds', x :: vs', y :: ws' => conv_ok E a x y && go ds' vs' ws'
            | _, _, _ => false
            end) (a :: ds) vs ws
     | _, _ => false
     end).
  destruct (tuple_items v) as [vs|]; [|reflexivity]. destruct (tuple_items w) as [ws|]; [|reflexivity].
  f_equal. destruct vs as [|x vs]; [reflexivity|]. destruct ws as [|y ws]; [reflexivity|].
  cbn [forall3b]. f_equal. apply conv_go_forall3b.
Qed.

Definition conv_at (E : env) (d : desc) : Prop :=
  wf_desc d = true -> forall v w, c_validate E d v = Accept w -> conv_ok E d v w = true.

Lemma members_conv E ds : Forall (conv_at E) ds -> forallb wf_desc ds = true ->
  forall vs ws, members (c_validate E) ds vs = TOk ws -> forall3b (conv_ok E) ds vs ws = true.
Proof.
  induction 1 as [|d ds Hd _ IH]; cbn; intros Hw [|v vs] ws; try discriminate.
  - intros H; inversion H; reflexivity.
  - apply andb_prop in Hw as [Hw1 Hw2].
    destruct (c_validate E d v) as [w| |e] eqn:Hv; try discriminate.
    destruct (members (c_validate E) ds vs) as [ws'| |e] eqn:Hm; try discriminate.
    intros H; inversion H; subst. cbn. rewrite (Hd Hw1 v w Hv). cbn. now apply (IH Hw2 vs).
Qed.

Lemma as_integer_index v w : as_integer v = Returns w -> exists z, as_index v = Returns z /\ w = PInt z.
Proof.
  unfold as_integer. destruct v; cbn; try discriminate;
    try (intros H; inversion H; subst; eauto; fail);
    try (destruct c; cbn; intros H; inversion H; subst; eauto).
Qed.
Lemma as_float_double v w : as_float v = Returns w -> exists f, float_as_double v = Returns f /\ w = PFloat f.
Proof.
  unfold as_float, conv_map. destruct v; try discriminate;
    try (intros H; inversion H; subst; cbn; eauto; fail);
    match goal with |- context [float_as_double ?x] => destruct (float_as_double x) eqn:Hf end;
    try discriminate; intros H; inversion H; subst; eauto.
Qed.

Lemma alts_conv E ds a v w :
  Forall (conv_at E) ds -> forallb wf_desc ds = true -> In a ds -> c_validate E a v = Accept w ->
  existsb (fun x => conv_ok E x v w) ds = true.
Proof.
  intros HF Hw Hin Hv. apply existsb_exists. exists a. split; [assumption|].
  rewrite Forall_forall in HF. specialize (HF a Hin). unfold conv_at in HF. eauto using forallb_in.
Qed.

Lemma orc_find_in t f v w : orc_find t f v = Some w -> existsb (fun e => pv_eqb (snd e) w) t = true.
Proof.
  induction t as [|[[g x] y] t IH]; cbn; [discriminate|].
  destruct ((g =? f) && pv_eqb x v).
  - intros H; inversion H; subst. now rewrite pv_eqb_refl.
  - intros H. rewrite (IH H). apply orb_true_r.
Qed.

Lemma as_array_in E f v a : as_array (oracle E f v) = Some a -> existsb (fun e => pv_eqb (snd e) a) (e_orc E) = true.
Proof.
  unfold oracle. destruct (orc_find (e_orc E) f v) as [x|] eqn:H; [|discriminate].
  destruct x; try discriminate. cbn. intros Hx; inversion Hx; subst. eapply orc_find_in; eauto.
Qed.

Lemma py_array_conv E dt shape casting v w :
  py_array E dt shape casting v = Accept w -> conv_ok E (DArray dt shape casting) v w = true.
Proof.
  unfold py_array. cbn [conv_ok].
  destruct v; try discriminate.
  - (* tuple *) destruct (as_array (oracle E (match dt with Some t => 300 + t | None => 299 end) (PTuple l))) as [a0|] eqn:H0; [|discriminate].
    pose proof (as_array_in _ _ _ _ H0) as Hin0.
    destruct (arr_dtype_ok dt a0) eqn:Hd.
    + destruct (arr_dtype_ok dt a0 && arr_shape_ok shape a0); [|discriminate]. intros Hx; inversion Hx; now subst.
    + destruct dt as [t|]; [|discriminate].
      destruct (as_array (oracle E (400 + 10 * t + casting) a0)) as [a1|] eqn:H1; [|discriminate].
      destruct (arr_dtype_ok (Some t) a1 && arr_shape_ok shape a1); [|discriminate].
      intros Hx; inversion Hx; subst. eapply as_array_in; eauto.
  - (* tuple subclass *) destruct (as_array (oracle E (match dt with Some t => 300 + t | None => 299 end) (PTupleSub l))) as [a0|] eqn:H0; [|discriminate].
    pose proof (as_array_in _ _ _ _ H0) as Hin0.
    destruct (arr_dtype_ok dt a0) eqn:Hd.
    + destruct (arr_dtype_ok dt a0 && arr_shape_ok shape a0); [|discriminate]. intros Hx; inversion Hx; now subst.
    + destruct dt as [t|]; [|discriminate].
      destruct (as_array (oracle E (400 + 10 * t + casting) a0)) as [a1|] eqn:H1; [|discriminate].
      destruct (arr_dtype_ok (Some t) a1 && arr_shape_ok shape a1); [|discriminate].
      intros Hx; inversion Hx; subst. eapply as_array_in; eauto.
  - (* list *) destruct (as_array (oracle E (match dt with Some t => 300 + t | None => 299 end) (PList l))) as [a0|] eqn:H0; [|discriminate].
    pose proof (as_array_in _ _ _ _ H0) as Hin0.
    destruct (arr_dtype_ok dt a0) eqn:Hd.
    + destruct (arr_dtype_ok dt a0 && arr_shape_ok shape a0); [|discriminate]. intros Hx; inversion Hx; now subst.
    + destruct dt as [t|]; [|discriminate].
      destruct (as_array (oracle E (400 + 10 * t + casting) a0)) as [a1|] eqn:H1; [|discriminate].
      destruct (arr_dtype_ok (Some t) a1 && arr_shape_ok shape a1); [|discriminate].
      intros Hx; inversion Hx; subst. eapply as_array_in; eauto.
  - (* ndarray *) cbn [arr_dtype_ok].
    destruct (match dt with Some t => dt0 =? t | None => true end) eqn:Hd.
    + destruct (arr_dtype_ok dt (PArray dt0 shape0 cid) && arr_shape_ok shape (PArray dt0 shape0 cid)); [|discriminate].
      intros Hx; inversion Hx; subst. apply pv_eqb_refl.
    + destruct dt as [t|]; [|discriminate].
      destruct (as_array (oracle E (400 + 10 * t + casting) (PArray dt0 shape0 cid))) as [a1|] eqn:H1; [|discriminate].
      destruct (arr_dtype_ok (Some t) a1 && arr_shape_ok shape a1); [|discriminate].
      intros Hx; inversion Hx; subst. eapply as_array_in; eauto.
Qed.

Lemma leaf_conv E d :
  bool_final E = true ->
  (forall ds, d <> DTuple ds /\ d <> DCompound ds /\ d <> DUnion ds) -> (forall d', d <> DProperty d' /\ (forall ds fv, d <> DVTuple ds fv) /\ (forall mn mx, d <> DList d' mn mx) /\ forall d2, d <> DDict d' d2) -> conv_at E d.
Proof.
  intros HB Hleaf Hnp _ v w. destruct d; cbn [c_validate conv_ok].
  - (* DAny *) intros H; inversion H; apply pv_eqb_refl.
  - (* DInt *) unfold of_conv. destruct (as_integer v) as [x|[]] eqn:H; try discriminate.
    intros Hx; inversion Hx; subst. destruct (as_integer_index _ _ H) as (z & -> & ->). apply pv_eqb_refl.
  - (* DFloat *) unfold of_conv. destruct (as_float v) as [x|[]] eqn:H; try discriminate.
    intros Hx; inversion Hx; subst. destruct (as_float_double _ _ H) as (f & -> & ->). apply pv_eqb_refl.
  - (* DComplex *) unfold of_conv. destruct (as_complex v) as [x|[]] eqn:H; try discriminate.
    intros Hx; inversion Hx; subst. unfold as_complex, conv_map in H.
    destruct v; try (inversion H; subst; apply pv_eqb_refl);
      try (match type of H with context [float_as_double ?x] => destruct (float_as_double x) end;
           try discriminate; inversion H; subst; apply pv_eqb_refl).
    destruct c; inversion H; subst. apply pv_eqb_refl.
  - (* DStr *) unfold c_coerce; cbn. destruct (typecheck E v cSTR); [|discriminate].
    intros Hx; inversion Hx; apply pv_eqb_refl.
  - unfold c_coerce; cbn. destruct (typecheck E v cBYTES); [|discriminate].
    intros Hx; inversion Hx; apply pv_eqb_refl.
  - (* DBool *) unfold c_coerce; cbn. destruct (typecheck E v cBOOL) eqn:H.
    + intros Hx; inversion Hx; subst. destruct (typecheck_bool E w HB H) as [b ->]. cbn. apply Bool.eqb_reflx.
    + destruct (typecheck E v cNPBOOL); [|discriminate]. intros Hx; inversion Hx; apply pv_eqb_refl.
  - unfold c_coerce; cbn. destruct (typecheck E v cMODULE); [|discriminate].
    intros Hx; inversion Hx; apply pv_eqb_refl.
  - (* DCast *) destruct (class_of v =? cast_cls t) eqn:Hc.
    + intros Hx; inversion Hx; subst. apply Z.eqb_eq in Hc. rewrite (exact_class_cast E t w Hc). apply pv_eqb_refl.
    + destruct (cast_fn E t v) as [x|e]; [|discriminate]. intros Hx; inversion Hx; apply pv_eqb_refl.
  - (* DRangeF *) destruct (as_float v) as [x|[]] eqn:H; try discriminate.
    destruct (as_float_double _ _ H) as (f & Hf & ->). rewrite Hf.
    destruct (in_float_range f lo hi mask =? 1); [|discriminate]. intros Hx; inversion Hx; apply pv_eqb_refl.
  - (* DRangeI *) unfold py_rangei. destruct (as_integer v) as [x|[]] eqn:H; try discriminate.
    destruct (as_integer_index _ _ H) as (z & Hz & ->). rewrite Hz.
    destruct (py_int_in_range z lo hi mask); [|discriminate]. intros Hx; inversion Hx; apply pv_eqb_refl.
  - destruct (py_in v vals); [|discriminate]. intros Hx; inversion Hx; apply pv_eqb_refl.
  - destruct (hashable v); [|discriminate]. destruct (dict_get m v); [|discriminate].
    intros Hx; inversion Hx; apply pv_eqb_refl.
  - exfalso. destruct (Hleaf ds) as [H _]. now apply H.
  - destruct ((allow_none && pv_eqb v PNone) || (if tc then typecheck E v cls else isinstance E v cls)); [|discriminate].
    intros Hx; inversion Hx; apply pv_eqb_refl.
  - reflexivity.
  - destruct ((allow_none && pv_eqb v PNone) || typecheck E v (e_self E)); [|discriminate].
    intros Hx; inversion Hx; apply pv_eqb_refl.
  - destruct v; try (destruct allow_none; [|discriminate]); cbn; try discriminate;
      intros Hx; inversion Hx; apply pv_eqb_refl.
  - unfold py_type. destruct v; try discriminate.
    + destruct allow_none; [|discriminate]. intros Hx; inversion Hx; reflexivity.
    + destruct (issub E cls0 cls); [|discriminate]. intros Hx; inversion Hx; cbn. apply Z.eqb_refl.
  - unfold py_string. destruct (strx E v) as [s|]; [|discriminate].
    match goal with |- context [if ?b then _ else _] => destruct b end; [|discriminate].
    intros Hx; inversion Hx; cbn. apply zlist_eqb_refl.
  - (* DPrefixList *) unfold py_prefix, prefix_conv, complete_value, unique_completion.
    destruct (str_of v) as [s|]; [|discriminate].
    destruct (existsb (zlist_eqb s) vals).
    + intros Hx; inversion Hx; apply pv_eqb_refl.
    + destruct (filter (fun k => is_prefix s k) vals) as [|k [|k' r]]; try discriminate.
      intros Hx; inversion Hx; apply pv_eqb_refl.
  - unfold py_prefix, prefix_conv, complete_value, unique_completion.
    destruct (str_of v) as [s|]; [|discriminate].
    destruct (existsb (zlist_eqb s) (map fst m)).
    + intros Hx; inversion Hx; apply pv_eqb_refl.
    + destruct (filter (fun k => is_prefix s k) (map fst m)) as [|k [|k' r]]; try discriminate.
      intros Hx; inversion Hx; apply pv_eqb_refl.
  - exfalso. destruct (Hleaf ds) as (_ & H & _). now apply H.
  - exfalso. destruct (Hleaf ds) as (_ & _ & H). now apply H.
  - (* DArray *) apply py_array_conv.
  - (* DProperty *) exfalso. now apply (proj1 (Hnp d)).
  - (* DVTuple *) exfalso. now apply (proj1 (proj2 (Hnp DAny)) ds fv).
  - (* DList *) exfalso. now apply (proj1 (proj2 (proj2 (Hnp d))) minlen maxlen).
  - (* DRangeDyn: no instance here *) discriminate.
  - (* DDict *) exfalso. eapply (proj2 (proj2 (proj2 (Hnp _)))). reflexivity.
  - (* DEnumDyn: no instance here *) discriminate.
Qed.

(* the same on the Python path *)
Definition pconv_at (E : env) (d : desc) : Prop :=
  wf_desc d = true -> forall v w, py_validate E d v = Accept w -> conv_ok E d v w = true.

Lemma py_leaf_conv E d :
  bool_final E = true ->
  (forall ds, d <> DTuple ds /\ d <> DCompound ds /\ d <> DUnion ds) -> (forall d', d <> DProperty d' /\ (forall ds fv, d <> DVTuple ds fv) /\ (forall mn mx, d <> DList d' mn mx) /\ forall d2, d <> DDict d' d2) -> pconv_at E d.
Proof.
  intros HB Hleaf Hnp Hwf v w.
  destruct d; cbn [py_validate conv_ok]; try discriminate;
    try (exact (leaf_conv E _ HB Hleaf Hnp Hwf v w));
    try (exfalso; first [ now apply (proj1 (Hnp d)) | now apply (proj1 (proj2 (Hnp DAny)) ds fv) | now apply (proj1 (proj2 (proj2 (Hnp d))) minlen maxlen) | (eapply (proj2 (proj2 (proj2 (Hnp _)))); reflexivity)
                        | destruct (Hleaf ds) as (H1 & H2 & H3); first [now apply H1 | now apply H2 | now apply H3] ]);
    (* validators that store the value itself, or bool(v) *)
    try (repeat (match goal with
                 | |- context [if ?b then _ else _] => destruct b
                 | |- context [match ?x with _ => _ end] => destruct x
                 end; try discriminate);
         intros Hx; inversion Hx; subst; apply pv_eqb_refl).
  all: try (intros _; reflexivity).       (* adapt: the adapter's result is not constrained *)
  (* DRangeF: exact float of the value's float conversion *)
  all: destruct (as_float v) as [x|[]] eqn:H; try discriminate;
    destruct (as_float_double _ _ H) as (f & Hf & ->); rewrite Hf;
    destruct (py_float_in_range f lo hi mask); [|discriminate]; intros Hx; inversion Hx; apply pv_eqb_refl.
Qed.

Lemma conv_vtuple E ds fv v ws :
  conv_ok E (DVTuple ds fv) v (PTuple ws) =
  match seq_items v with Some vs => forall3b (conv_ok E) ds vs ws | None => false end.
Proof.
  change (conv_ok E (DVTuple ds fv) v (PTuple ws)) with
    (match seq_items v with
     | Some vs =>
         (fix go (ds : list desc) (vs ws : list pv) : bool :=
            match ds, vs, ws with
            | [], [], [] => true
            | a :: ds', x :: vs', y :: ws' => conv_ok E a x y && go ds' vs' ws'
            | _, _, _ => false
            end) ds vs ws
     | None => false
     end).
  destruct (seq_items v) as [vs|]; [|reflexivity]. apply conv_go_forall3b.
Qed.

Lemma vtuple_conv E ds fv : Forall (conv_at E) ds -> wf_desc (DVTuple ds fv) = true ->
  forall v w, vtuple_check (c_validate E) E ds fv v = Accept w -> conv_ok E (DVTuple ds fv) v w = true.
Proof.
  intros HF Hwf v w. unfold vtuple_check.
  destruct (seq_items v) as [vs|] eqn:Hv; [|discriminate].
  destruct (Nat.eqb (length vs) (length ds)); [|discriminate].
  destruct (members (c_validate E) ds vs) as [ws| |e] eqn:Hm; try discriminate.
  destruct (fv_ok E fv (PTuple ws)); [|discriminate].
  intros Hx; inversion Hx; subst. rewrite conv_vtuple, Hv. cbn [wf_desc] in Hwf. eapply members_conv; eauto.
Qed.

Lemma conv_list E d mn mx vs ws :
  conv_ok E (DList d mn mx) (PList vs) (PList ws) = forall2b (conv_ok E d) vs ws.
Proof.
  change (conv_ok E (DList d mn mx) (PList vs) (PList ws)) with
    ((fix go (vs ws : list pv) : bool :=
        match vs, ws with
        | [], [] => true
        | x :: vs', y :: ws' => conv_ok E d x y && go vs' ws'
        | _, _ => false
        end) vs ws).
  revert ws. induction vs as [|x vs IH]; intros [|y ws]; try reflexivity. cbn [forall2b]. now rewrite <- IH.
Qed.

Lemma list_conv E d mn mx : conv_at E d -> wf_desc d = true ->
  forall v w, list_check (c_validate E d) mn mx v = Accept w -> conv_ok E (DList d mn mx) v w = true.
Proof.
  intros Hd Hw v w. unfold list_check. destruct v; try discriminate.
  destruct ((mn <=? Z.of_nat (length l)) && (Z.of_nat (length l) <=? mx)); [|discriminate].
  destruct (all_items (c_validate E d) l) as [ws| |e0] eqn:Hm; try discriminate.
  intros Hx; inversion Hx; subst. rewrite conv_list. clear Hx.
  revert ws Hm. induction l as [|x l IH]; cbn; intros ws.
  - intros H; inversion H; reflexivity.
  - destruct (c_validate E d x) as [y| |e] eqn:Hv; try discriminate.
    destruct (all_items (c_validate E d) l) as [ws'| |e] eqn:Hm'; try discriminate.
    intros H; inversion H; subst. cbn. rewrite (Hd Hw x y Hv). cbn. now apply IH.
Qed.

Lemma dict_conv E kd vd : conv_at E kd -> conv_at E vd -> wf_desc (DDict kd vd) = true ->
  forall v w, dict_check (c_validate E kd) (c_validate E vd) v = Accept w -> conv_ok E (DDict kd vd) v w = true.
Proof.
  intros Hk Hv Hwf v w. cbn in Hwf. apply andb_prop in Hwf as [W1 W2].
  unfold dict_check. destruct v; try discriminate.
  destruct (all_pairs (c_validate E kd) (c_validate E vd) l) as [l'| |e] eqn:Hm; try discriminate.
  intros Hx; inversion Hx; subst. cbn [conv_ok]. destruct (all_pairs_rel _ _ _ _ Hm) as [R1 R2].
  apply andb_true_intro. split; apply forallb_forall; intros y Hy; apply existsb_exists.
  - apply (proj1 (dict_build_in l' y y)) in Hy. destruct (R1 y Hy) as (k & Hin & Hk'). exists k. split; [assumption|].
    now apply Hk.
  - apply (proj2 (dict_build_in l' y y)) in Hy. destruct (R2 y Hy) as (x & Hin & Hx'). exists x. split; [assumption|].
    now apply Hv.
Qed.

Definition both_conv_at (E : env) (d : desc) : Prop := conv_at E d /\ pconv_at E d.

Lemma tuple_conv E ds : Forall (conv_at E) ds -> conv_at E (DTuple ds) /\ pconv_at E (DTuple ds).
Proof.
  intros H. split; intros Hwf v w; destruct ds as [|a ds].
  - cbn. unfold py_tuple0. destruct v; try discriminate; intros Hx; inversion Hx; apply pv_eqb_refl.
  - cbn [c_validate]. unfold tuple_check. rewrite conv_tuple.
    destruct (tuple_items v) as [vs|] eqn:Hv; [|discriminate].
    destruct (Nat.eqb (length (a :: ds)) (length vs)); [|discriminate].
    destruct (members (c_validate E) (a :: ds) vs) as [ws| |e0] eqn:Hm; try discriminate.
    cbn [wf_desc] in Hwf. pose proof (members_conv E (a :: ds) H Hwf vs ws Hm) as Hc.
    destruct (pvs_eqb ws vs) eqn:He; intros Hx; inversion Hx; subst.
    + apply pvs_eqb_true in He. subst. rewrite Hv, pv_eqb_refl. exact Hc.
    + cbn [tuple_items is_exact_tuple]. rewrite orb_true_r. exact Hc.
  - cbn. unfold py_tuple0. destruct v; try discriminate; intros Hx; inversion Hx; apply pv_eqb_refl.
  - cbn [py_validate]. rewrite conv_tuple.
    destruct (tuple_items v) as [vs|] eqn:Hv; [|discriminate].
    destruct (Nat.eqb (length vs) (length (a :: ds))); [|discriminate].
    destruct (members (c_validate E) (a :: ds) vs) as [ws| |e0] eqn:Hm; try discriminate.
    cbn [wf_desc] in Hwf. pose proof (members_conv E (a :: ds) H Hwf vs ws Hm) as Hc.
    intros Hx; inversion Hx; subst. cbn [tuple_items is_exact_tuple]. rewrite orb_true_r. exact Hc.
Qed.

Lemma both_conv E d : bool_final E = true -> both_conv_at E d.
Proof.
  intros HB. induction d as [d H Hnp|d IHd|ds fv H|d mn mx IHd|kd vd IHk IHv|ds H|ds H|ds H] using desc_ind'.
  5:{ destruct IHk as [IHk _], IHv as [IHv _]. split; intros Hwf v w; cbn [c_validate py_validate]; now apply dict_conv. }
  4:{ destruct IHd as [IHc _]. split; intros Hwf v w; cbn [c_validate py_validate]; now apply list_conv. }
  - split; [now apply leaf_conv | now apply py_leaf_conv].
  - destruct IHd as [_ IHp]. split; intros Hwf v w; cbn [c_validate py_validate conv_ok]; apply IHp; exact Hwf.
  - assert (HF : Forall (conv_at E) ds) by (eapply Forall_impl; try exact H; now intros a [Hc _]).
    split; intros Hwf v w; cbn [c_validate py_validate]; now apply vtuple_conv.
  - apply tuple_conv. eapply Forall_impl; try exact H. now intros a [Hc _].
  - (* DCompound *) split; intros Hwf v w Hv.
    + pose proof (wf_compound_alts ds Hwf) as Hok.
      destruct (compound_eq_single_lemma E ds v w Hok Hv) as (pre & a & post & Heo & Hav & _).
      assert (Hin : In a ds).
      { apply in_effective_order. rewrite Heo. apply in_or_app. right. now left. }
      cbn [wf_desc] in Hwf. apply andb_prop in Hwf as [Hwf _]. apply andb_prop in Hwf as [Hwf _].
      cbn [conv_ok]. eapply alts_conv; eauto. eapply Forall_impl; try exact H. now intros x [Hc _].
    + cbn [py_validate] in Hv.
      assert (Hex : exists a, In a ds /\ py_validate E a v = Accept w).
      { destruct (first_sel is_fast (fun a => py_validate E a v) ds) as [x| |e0] eqn:H1.
        - inversion Hv; subst. eapply first_sel_accept_in; eauto.
        - eapply first_sel_accept_in; eauto.
        - discriminate. }
      destruct Hex as (a & Hin & Hav).
      cbn [wf_desc] in Hwf. apply andb_prop in Hwf as [Hwf _]. apply andb_prop in Hwf as [Hwf _].
      cbn [conv_ok]. apply existsb_exists. exists a. split; [assumption|].
      rewrite Forall_forall in H. destruct (H a Hin) as [_ Hp]. apply Hp; eauto using forallb_in.
  - (* DUnion *)
    assert (Hu : conv_at E (DUnion ds)).
    { intros Hwf v w. cbn [c_validate]. rewrite first_sel_filter, filter_true. intros Hv.
      destruct (first_outcome_map_accept _ _ _ Hv) as (pre & a & post & -> & Hav & _).
      cbn [wf_desc] in Hwf. apply andb_prop in Hwf as [Hwf _].
      cbn [conv_ok]. eapply alts_conv; eauto; [|apply in_or_app; right; now left].
      eapply Forall_impl; try exact H. now intros x [Hc _]. }
    split; [exact Hu | exact Hu].
Qed.

Lemma documented_conversion_lemma E d v w :
  wf_desc d = true -> bool_final E = true -> validate E d v = Accept w -> conv_ok E d v w = true.
Proof. unfold validate. intros Hwf HB. destruct (both_conv E d HB) as [Hc _]. now apply Hc. Qed.

Lemma py_documented_conversion_lemma E d v w :
  wf_desc d = true -> bool_final E = true -> py_validate E d v = Accept w -> conv_ok E d v w = true.
Proof. intros Hwf HB. destruct (both_conv E d HB) as [_ Hp]. now apply Hp. Qed.

Lemma py_own_protocol_lemma E d v e :
  wf_desc d = true -> py_validate E d v = Propagate e -> raises_own v e = true.
Proof. intros Hwf. destruct (both_own E d) as [_ Hp]. now apply Hp. Qed.

(* List(<trait>): accepted iff a list within the bounds whose items are accepted one by one by the item trait *)
Lemma all_items_forall2 f vs ws : all_items f vs = TOk ws <-> Forall2 (fun x y => f x = Accept y) vs ws.
Proof.
  revert ws. induction vs as [|x vs IH]; cbn; intros ws.
  - split; [intros H; inversion H; constructor | intros H; inversion H; reflexivity].
  - split.
    + destruct (f x) as [y| |e] eqn:Hf; try discriminate.
      destruct (all_items f vs) as [ws'| |e] eqn:Hm; try discriminate.
      intros H; inversion H; subst. constructor; [assumption | now apply IH].
    + intros H; inversion H as [|? y ? ws' Hy Hr]; subst. rewrite Hy.
      apply IH in Hr. now rewrite Hr.
Qed.

Lemma list_items_lemma E d mn mx v w :
  validate E (DList d mn mx) v = Accept w <->
  exists vs ws, v = PList vs /\ w = PList ws /\ mn <= Z.of_nat (length vs) <= mx /\
                Forall2 (fun x y => validate E d x = Accept y) vs ws.
Proof.
  unfold validate. cbn [c_validate]. unfold list_check. split.
  - destruct v; try discriminate.
    destruct ((mn <=? Z.of_nat (length l)) && (Z.of_nat (length l) <=? mx)) eqn:Hb; [|discriminate].
    destruct (all_items (c_validate E d) l) as [ws| |e] eqn:Hm; try discriminate.
    intros Hx; inversion Hx; subst. exists l, ws. apply andb_prop in Hb as [H1 H2].
    apply Z.leb_le in H1, H2. repeat split; auto. now apply all_items_forall2.
  - intros (vs & ws & -> & -> & [H1 H2] & HF).
    apply Z.leb_le in H1, H2. rewrite H1, H2. cbn [andb].
    apply all_items_forall2 in HF. now rewrite HF.
Qed.

Lemma vs_conv E c s d v w :
  wf_desc d = true -> bool_final E = true -> validate_s E c s d v = Accept w -> conv_ok E d v w = true.
Proof.
  intros Hwf HB. destruct d; try exact (documented_conversion_lemma E _ v w Hwf HB).
  - cbn [validate_s conv_ok]. intros H. destruct (dyn_range_accepts _ _ _ _ _ H) as (l & h & z & _ & _ & -> & Hc & _).
    rewrite Hc. apply pv_eqb_refl.
  - cbn [validate_s conv_ok]. intros H. destruct (dyn_enum_accepts _ _ _ H) as [-> _]. apply pv_eqb_refl.
Qed.

(* Union: the stored value is the conversion by an alternative that no certainly-accepting alternative precedes *)
Lemma accepts_exact_accepts E a v : accepts_exact E a v = true -> exists w, c_validate E a v = Accept w.
Proof.
  destruct a; cbn [accepts_exact]; try discriminate; try (destruct v; try discriminate; intros _; cbn; eauto; fail).
  - destruct v; try discriminate. intros H. cbn. unfold c_coerce. cbn [coerce_info]. rewrite H. eauto.
  - destruct v; try discriminate. intros H. cbn. unfold c_coerce. cbn [coerce_info]. rewrite H. eauto.
  - destruct v; try discriminate. intros H. cbn. unfold c_coerce. cbn [coerce_info]. rewrite H. eauto.
  - destruct v; try discriminate. cbn. unfold py_prefix. cbn [str_of]. unfold complete_value.
    destruct (existsb (zlist_eqb s) vals); [eauto|]. cbn [orb].
    destruct (filter (fun k => is_prefix s k) vals) as [|k [|k' r]]; try discriminate; eauto.
Qed.

Lemma union_first_lemma E ds v w :
  forallb wf_desc ds = true -> bool_final E = true ->
  first_sel (fun _ => true) (fun a => c_validate E a v) ds = Accept w -> union_first E ds v w = true.
Proof.
  intros Hwf HB. unfold union_first. induction ds as [|a r IH]; cbn [first_sel]; [discriminate|].
  cbn in Hwf. apply andb_prop in Hwf as [Ha Hr].
  destruct (c_validate E a v) as [x| |e] eqn:Hv.
  - intros H; inversion H; subst. rewrite (documented_conversion_lemma E a v w Ha HB Hv). reflexivity.
  - intros H. rewrite (IH Hr H). destruct (accepts_exact E a v) eqn:Hx.
    + destruct (accepts_exact_accepts E a v Hx) as [y Hy]. congruence.
    + cbn. apply orb_true_r.
  - discriminate.
Qed.

Lemma vs_conv1 E c s d v w :
  wf_desc d = true -> bool_final E = true -> validate_s E c s d v = Accept w -> conv_ok1 E d v w = true.
Proof.
  intros Hwf HB Hv. unfold conv_ok1. rewrite (vs_conv E c s d v w Hwf HB Hv). cbn [andb].
  destruct d; try reflexivity. cbn [validate_s] in Hv. unfold validate in Hv. cbn [c_validate] in Hv.
  cbn [wf_desc] in Hwf. apply andb_prop in Hwf as [Hwf _]. now apply (union_first_lemma E ds v w).
Qed.

(* the name-based Range: an accepted value is an int within the bounds the two bound attributes hold NOW, exclusivity
   honoured at both ends; it is int(value) *)
Lemma dyn_range_in_bounds_lemma E c s lo hi mask v w :
  validate_s E c s (DRangeDyn lo hi mask) v = Accept w ->
  exists l h z, read c s lo = Some (PInt l) /\ read c s hi = Some (PInt h) /\ w = PInt z
                /\ cast_int v = Returns (PInt z) /\ int_range_spec z (Some l) (Some h) mask = true.
Proof. cbn [validate_s]. apply dyn_range_accepts. Qed.

(* reading a name-based Range: within the INCLUSIVE bounds whenever low <= high ... *)
Lemma dyn_readable_inclusive_lemma c s n lo hi w :
  dyn_readable c s n lo hi = Some w ->
  exists l h z, read c s lo = Some (PInt l) /\ read c s hi = Some (PInt h) /\ w = PInt z /\ (l <= h -> l <= z <= h).
Proof.
  unfold dyn_readable. destruct (read c s lo) as [[]|]; try discriminate. destruct (read c s hi) as [[]|]; try discriminate.
  set (zz := match get s n with Some (PInt z1) => z1 | _ => z end).
  intros H; inversion H; subst. exists z, z0. eexists. split; [reflexivity|]. split; [reflexivity|]. split; [reflexivity|].
  intros Hle. destruct (zz <? z) eqn:H1.
  - split; [apply Z.le_refl | exact Hle].
  - apply Z.ltb_ge in H1. destruct (zz >? z0) eqn:H2.
    + split; [exact Hle | apply Z.le_refl].
    + rewrite Z.gtb_ltb in H2. apply Z.ltb_ge in H2. split; assumption.
Qed.

(* ... but NOT within the declared exclusive range: F23 — after the low bound moved past the stored value (or on a fresh
   instance, whose default is the low bound) the getter returns the excluded endpoint itself *)
Lemma dyn_readable_refuted_lemma :
  let c := [(0, (DRangeDyn 2 3 1, PInt 0)); (2, (DInt, PInt 0)); (3, (DInt, PInt 10))] in
  let s := fst (setattr E0 c (fst (setattr E0 c [] 0 (PInt 3))) 2 (PInt 5)) in
  dyn_readable c s 0 2 3 = Some (PInt 5) /\ int_range_spec 5 (Some 5) (Some 10) 1 = false
  /\ validate_s E0 c s (DRangeDyn 2 3 1) (PInt 5) = Reject.
Proof. vm_compute. repeat split. Qed.

(* Dict(<key trait>, <value trait>): accepted iff a dict whose items are accepted one by one *)
Lemma all_pairs_forall2 fk fv kvs l :
  all_pairs fk fv kvs = DOk l <->
  Forall2 (fun kx ky => fk (fst kx) = Accept (fst ky) /\ fv (snd kx) = Accept (snd ky)) kvs l.
Proof.
  revert l. induction kvs as [|[k x] kvs IH]; cbn; intros l.
  - split; [intros H; inversion H; constructor | intros H; inversion H; reflexivity].
  - split.
    + destruct (fk k) as [k1| |e] eqn:Hk; try discriminate.
      destruct (fv x) as [x1| |e] eqn:Hx; try discriminate.
      destruct (all_pairs fk fv kvs) as [l'| |e] eqn:Hm; try discriminate.
      intros H; inversion H; subst. constructor; [split; assumption | now apply IH].
    + intros H; inversion H as [|? [k1 x1] ? l' [Hk Hx] Hr]; subst. cbn in Hk, Hx. rewrite Hk, Hx.
      apply IH in Hr. now rewrite Hr.
Qed.

Lemma dict_items_lemma E kd vd v w :
  validate E (DDict kd vd) v = Accept w <->
  exists kvs l, v = PDict kvs /\ w = PDict (dict_build l) /\
    Forall2 (fun kx ky => validate E kd (fst kx) = Accept (fst ky) /\ validate E vd (snd kx) = Accept (snd ky)) kvs l.
Proof.
  unfold validate. cbn [c_validate]. unfold dict_check. split.
  - destruct v; try discriminate.
    destruct (all_pairs (c_validate E kd) (c_validate E vd) l) as [l'| |e] eqn:Hm; try discriminate.
    intros Hx; inversion Hx; subst. exists l, l'. repeat split. now apply all_pairs_forall2.
  - intros (kvs & l & -> & -> & HF). apply all_pairs_forall2 in HF. now rewrite HF.
Qed.

(* Enum(values='<name>'): an accepted value is stored unchanged and is a member of the collection the named attribute holds
   at that moment; READING yields a member of the collection as it is then (None when it is empty) *)
Lemma dyn_enum_member_lemma E c s src v w :
  validate_s E c s (DEnumDyn src) v = Accept w ->
  w = v /\ exists items, read c s src = Some (PList items) /\ py_in v items = true.
Proof. cbn [validate_s]. apply dyn_enum_accepts. Qed.

Lemma dyn_enum_readable_member_lemma c s n src x :
  dyn_enum_readable c s n src = Some x ->
  exists items, read c s src = Some (PList items) /\
                match items with
                | [] => x = PNone
                | y :: _ => py_eq y y = true -> py_in x items = true      (* every value but NaN equals itself *)
                end.
Proof.
  unfold dyn_enum_readable. destruct (read c s src) as [[]|]; try discriminate.
  set (v0 := match get s n with Some w => w | None => PUndefined end).
  intros H; inversion H; subst. exists l. split; [reflexivity|].
  destruct l as [|y l]; [reflexivity|]. intros Hy. destruct (py_in v0 (y :: l)) eqn:Hin; [exact Hin|].
  unfold py_in. cbn [existsb]. now rewrite Hy.
Qed.
