(* C01/Corr.v — correspondence: one case = environment, class description (trait per
   attribute name) and the history of (operation, observation recorded from the implementation);
   every history starts on a fresh instance some of whose attributes may have been READ (which stores their default
   values): the names read and the dictionary observed after the reads come with the case. *)
From Coq Require Import ZArith List Bool.
From TV Require Import Common.PyVal Common.Harness C03.Model C01.Model C01.Law.
Import ListNotations.
Open Scope Z_scope.

Definition case := (env * cls * (list Z * inst) * list (op * obs))%type.

(* codes: 100*step + 1 outcome class, 2 dictionary after the operation, 3 readable of a dynamic Range / Enum;
   8 the dictionary after the initial reads (Model.pre_state).  The model is
   re-synchronised on the implementation's dictionary after every step. *)
Fixpoint corr_hist (E : env) (c : cls) (i : Z) (s : inst) (h : list (op * obs)) : list Z :=
  match h with
  | [] => []
  | (o, ob) :: r =>
      let '(s1, out) := step E c s o in
      map (fun k => 100 * i + k)
          (chk 1 (outcome_eqb out (o_out ob)) ++ chk 2 (same_on (names_of c) s1 (o_after ob))
           ++ chk 3 (forallb (fun nd => match nd with
                                        | (n, (DRangeDyn lo hi _, _)) =>   (* the readable value of a name-based Range *)
                                            match get (o_after ob) (rname n) with
                                            | Some x => opt_eqb pv_eqb (dyn_readable c s1 n lo hi) (Some x)
                                            | None => true
                                            end
                                        | (n, (DEnumDyn src, _)) =>          (* ... and of an Enum(values='name') *)
                                            match get (o_after ob) (rname n) with
                                            | Some x => opt_eqb pv_eqb (dyn_enum_readable c s1 n src) (Some x)
                                            | None => true
                                            end
                                        | _ => true
                                        end) c))
      ++ corr_hist E c (i + 1) (o_after ob) r
  end.

Definition corr_codes (c : case) : list Z :=
  let '(E, cl, (pre, init), h) := c in chk 8 (same_on (names_of cl) (pre_state cl pre) init) ++ corr_hist E cl 0 init h.
Definition law_codes (c : case) : list Z :=
  let '(E, cl, (pre, init), h) := c in law_pre cl pre init ++ law_hist E cl 0 init h ++ law_reads cl 0 h.
