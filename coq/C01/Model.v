(* C01/Model.v — assignment to a validated attribute.

   validate = the function setattr_trait (ctraits.c:2373-2553) calls before storing:
   trait->validate, i.e. C03.Model.c_validate (validate_trait_* for traits with a fast
   descriptor, validate_trait_python -> the Python validate otherwise).
   State = the instance __dict__ restricted to trait names (and the shadow names of mapped
   traits); operations = attribute assignment, trait_set with keywords, constructor keywords. *)
From Coq Require Import ZArith List Bool.
From TV Require Import Common.PyVal C03.Model.
Import ListNotations.
Open Scope Z_scope.

Definition validate (E : env) (d : desc) (v : pv) : vres := c_validate E d v.

(* ---------- instance dictionary ---------- *)
Definition inst := list (Z * pv).
Fixpoint get (s : inst) (n : Z) : option pv :=
  match s with
  | [] => None
  | (m, w) :: r => if m =? n then Some w else get r n
  end.
Definition set (s : inst) (n : Z) (w : pv) : inst := (n, w) :: s.

(* the shadow attribute name of trait n (name + "_") *)
Definition shadow (n : Z) : Z := n + 1000.

(* trait_types.py:3183 Map.post_setattr / 3309 PrefixMap.post_setattr /
   trait_handlers.py:728 TraitCompound._post_setattr: the value stored under name_ *)
Fixpoint str_get (m : list (list Z * pv)) (s : list Z) : option pv :=
  match m with
  | [] => None
  | (k, x) :: r => if zlist_eqb k s then Some x else str_get r s
  end.
Definition mapped_of (a : desc) (w : pv) : option pv :=
  match a with
  | DMap m => if hashable w then dict_get m w else None
  | DPrefixMap m => match str_of w with Some s => str_get m s | None => None end
  | _ => None
  end.
Definition is_mapped (a : desc) : bool := match a with DMap _ | DPrefixMap _ => true | _ => false end.

(* the trait's post_setattr: absent / stores x under name_ / raises. Since c056106 Map.post_setattr and
   PrefixMap.post_setattr turn the KeyError / TypeError of map[value] into TraitError("Unmappable") — also when the
   trait stands alone, where only an unvalidated value (the Undefined bypass, F22) or a default that is not a key gets there *)
Inductive post := NoPost | PostSet (x : pv) | PostRaise (e : exn).
(* which handlers have a post_setattr: Map, PrefixMap, and a compound one of whose handlers has (TraitCompound.set_validate,
   trait_handlers.py:660-662 and 690-692 — a NESTED compound contributes its own _post_setattr) *)
Fixpoint has_post (d : desc) : bool :=
  match d with
  | DMap _ | DPrefixMap _ => true
  | DCompound ds => existsb has_post ds
  | _ => false
  end.

(* one handler's post_setattr on w: Some x = it set name_ to x; None = it has none, or raised TraitError("Unmappable").
   TraitCompound._post_setattr (trait_handlers.py:728): the handlers that have a post_setattr are tried in turn;
   Map.post_setattr / PrefixMap.post_setattr raise TraitError for a value that is not one of their keys (repaired F19),
   which moves on to the next one; a nested compound's _post_setattr never raises; when none mapped:
   setattr(object, name + "_", value) *)
Fixpoint post_try (d : desc) (w : pv) {struct d} : option pv :=
  match d with
  | DMap _ | DPrefixMap _ => mapped_of d w
  | DCompound ds =>
      if existsb has_post ds then
        Some ((fix go (l : list desc) : pv :=
                 match l with
                 | [] => w
                 | a :: r => match post_try a w with Some x => x | None => go r end
                 end) ds)
      else None
  | _ => None
  end.

Definition post_setattr (d : desc) (w : pv) : post :=
  match d with
  | DMap _ | DPrefixMap _ =>
      match mapped_of d w with Some x => PostSet x | None => PostRaise ETraitError end
  | DCompound _ => match post_try d w with Some x => PostSet x | None => NoPost end
  | _ => NoPost
  end.

(* ---------- class description and operations ---------- *)
(* per attribute name: the trait and its default value (what a fresh instance reads) *)
Definition cls := list (Z * (desc * pv)).
Fixpoint trait_of (c : cls) (n : Z) : option (desc * pv) :=
  match c with
  | [] => None
  | (m, d) :: r => if m =? n then Some d else trait_of r n
  end.

Inductive outcome := Ok | Raise (e : exn).
Definition outcome_eqb (a b : outcome) : bool :=
  match a, b with Ok, Ok => true | Raise e, Raise f => exn_eqb e f | _, _ => false end.

(* ---------- Range whose bounds are given BY TRAIT NAME (BaseRange._validate / _set, trait_types.py:1856-1890) ---------- *)
(* what reading attribute n yields: the stored value, else the declared default *)
Definition read (c : cls) (s : inst) (n : Z) : option pv :=
  match get s n with
  | Some w => Some w
  | None => match trait_of c n with Some (_, dflt) => Some dflt | None => None end
  end.
(* not a str; new_value = type(low)(value), i.e. int(value) for int bounds; every exception is swallowed by the bare
   except; then the two-sided test with the exclusion flags, against the bounds AS THEY ARE NOW *)
Definition dyn_range (low high : option pv) (mask : Z) (v : pv) : vres :=
  match v with
  | PStr _ | PStrSub _ => Reject
  | _ =>
      match low, high with
      | Some (PInt l), Some (PInt h) =>
          match cast_int v with
          | Returns (PInt z) => if py_int_in_range z (Some l) (Some h) mask then Accept (PInt z) else Reject
          | _ => Reject
          end
      | _, _ => Reject            (* bounds of another type: outside the model (class_ok asks for Int bound traits) *)
      end
  end.
(* BaseRange._get (trait_types.py:1840-1856): what READING a name-based Range yields: the cached value — else the default,
   which is the current low bound (Range(low='y', ..) without value) — clamped into [low, high] as they are now *)
Definition dyn_readable (c : cls) (s : inst) (n lo hi : Z) : option pv :=
  match read c s lo, read c s hi with
  | Some (PInt l), Some (PInt h) =>
      let z := match get s n with Some (PInt z) => z | _ => l end in
      Some (PInt (if z <? l then l else if z >? h then h else z))
  | _, _ => None
  end.
(* the readable value is reported under the pseudo-name n + 2000 *)
Definition rname (n : Z) : Z := n + 2000.

(* ---------- Enum(values='<name>') (BaseEnum._validate / _get, trait_types.py:2168-2189) ---------- *)
Definition dyn_enum (coll : option pv) (v : pv) : vres :=
  match coll with
  | Some (PList items) => if py_in v items then Accept v else Reject      (* safe_contains(value, xgetattr(object, name)) *)
  | _ => Reject
  end.
(* what READING it yields: the cached value (else the default, Undefined) if it is a member of the collection AS IT IS NOW,
   otherwise the first member (None for an empty collection) *)
Definition dyn_enum_readable (c : cls) (s : inst) (n src : Z) : option pv :=
  match read c s src with
  | Some (PList items) =>
      let v0 := match get s n with Some w => w | None => PUndefined end in   (* the default of Enum(values=..) is Undefined *)
      Some (if py_in v0 items then v0 else match items with x :: _ => x | [] => PNone end)
  | _ => None
  end.

(* validation with access to the instance *)
Definition validate_s (E : env) (c : cls) (s : inst) (d : desc) (v : pv) : vres :=
  match d with
  | DRangeDyn lo hi mask => dyn_range (read c s lo) (read c s hi) mask v
  | DEnumDyn src => dyn_enum (read c s src) v
  | _ => validate E d v
  end.
(* property-like traits are always validated: no Undefined bypass *)
Definition always_validated (d : desc) : bool :=
  match d with DProperty _ | DRangeDyn _ _ _ | DEnumDyn _ => true | _ => false end.

(* setattr_trait, ctraits.c:2445-2553: validate; when the trait has a post_setattr and the name is not
   in the dictionary yet, the default is materialised first (stored, post_setattr called on it);
   then the new value is stored and post_setattr runs on it unless it is the object already stored *)
Definition setattr (E : env) (c : cls) (s : inst) (n : Z) (v : pv) : inst * outcome :=
  match trait_of c n with
  | None => (s, Raise EOtherError)            (* not a validated attribute: outside the model *)
  | Some (d, dflt) =>
      (* ctraits.c:2446-2455: "If the object's value is Undefined, then do not call the validate method" *)
      (* a validated Property goes through setattr_validate_property (ctraits.c:2767): always validated, then the setter *)
      match (if is_undefined v then (if always_validated d then validate_s E c s d v else Accept v)
             else validate_s E c s d v) with
      | Reject => (s, Raise ETraitError)
      | Propagate e => (s, Raise e)
      | Accept w =>
          match post_setattr d w with
          | NoPost => (set s n w, Ok)
          | pw =>
              let '(s0, old, r0) :=
                match get s n with
                | Some o => (s, o, Ok)
                | None =>
                    let s0 := set s n dflt in
                    match post_setattr d dflt with
                    | PostSet x => (set s0 (shadow n) x, dflt, Ok)
                    | PostRaise e => (s0, dflt, Raise e)
                    | NoPost => (s0, dflt, Ok)
                    end
                end in
              match r0 with
              | Raise e => (s0, Raise e)
              | Ok =>
                  let s1 := set s0 n w in
                  if pv_eqb old w then (s1, Ok)                       (* old_value == value: no post_setattr *)
                  else match pw with
                       | PostSet x => (set s1 (shadow n) x, Ok)
                       | PostRaise e => (s1, Raise e)
                       | NoPost => (s1, Ok)
                       end
              end
          end
      end
  end.

(* TraitSetQ: trait_set(trait_change_notify=False, ..) / trait_setq(..): the assignments run with HASTRAITS_NO_NOTIFY set;
   setattr_trait's validation, storing and post_setattr do not look at that flag (ctraits.c:2445-2553) *)
Inductive how := Attr | TraitSet | Ctor | TraitSetQ.
Definition op := (how * list (Z * pv))%type.

(* keywords are assigned one after the other; the first failure stops *)
Fixpoint assign_all (E : env) (c : cls) (s : inst) (kw : list (Z * pv)) : inst * outcome :=
  match kw with
  | [] => (s, Ok)
  | (n, v) :: r =>
      match setattr E c s n v with
      | (s1, Ok) => assign_all E c s1 r
      | (s1, Raise e) => (s1, Raise e)
      end
  end.

(* a constructor builds a fresh object; when a keyword fails no object exists and the old one stays *)
Definition step (E : env) (c : cls) (s : inst) (o : op) : inst * outcome :=
  match o with
  | (Ctor, kw) => match assign_all E c [] kw with
                  | (s1, Ok) => (s1, Ok)
                  | (_, Raise e) => (s, Raise e)
                  end
  | (_, kw) => assign_all E c s kw
  end.

(* READING an attribute that has no entry yet stores its default value — unvalidated — in the dictionary
   (getattr_trait, ctraits.c: default_value_for, then PyDict_SetItem); reading an attribute that has one changes nothing.
   A history may start on an instance some of whose attributes have been read: pre_state *)
Definition read_attr (c : cls) (s : inst) (n : Z) : inst :=
  match trait_of c n, get s n with
  | Some (_, dflt), None => set s n dflt
  | _, _ => s
  end.
Definition pre_state (c : cls) (pre : list Z) : inst := fold_left (read_attr c) pre [].

Fixpoint run (E : env) (c : cls) (s : inst) (ops : list op) : list (inst * outcome) :=
  match ops with
  | [] => []
  | o :: r => let '(s1, out) := step E c s o in (s1, out) :: run E c s1 r
  end.
