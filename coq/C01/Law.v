(* C01/Law.v — the property as a boolean checker on ONE observed history of assignments.
   [dom] is the declared domain of a trait description, written criterion by criterion and
   independently of the validators; [conv_ok] says that the stored value is the documented
   conversion of the assigned one.  Never mentions Model.step / validate. *)
From Coq Require Import ZArith List Bool.
From TV Require Import Common.PyVal Common.Harness C03.Model C03.Law C01.Model.
Import ListNotations.
Open Scope Z_scope.

Definition is_none (w : pv) : bool := match w with PNone => true | _ => false end.
Definition str_in (keys : list (list Z)) (w : pv) : bool :=
  match str_of w with Some s => existsb (zlist_eqb s) keys | None => false end.

(* ---------- the declared domain ---------- *)
Fixpoint dom (E : env) (d : desc) (w : pv) {struct d} : bool :=
  match d with
  | DAny => true
  | DInt => match w with PInt _ => true | _ => false end                         (* exact int *)
  | DFloat => match w with PFloat _ => true | _ => false end                     (* exact float *)
  | DComplex => match w with PComplex _ _ => true | _ => false end
  | DStr => isinstance E w cSTR
  | DBytes => isinstance E w cBYTES
  | DBool => match w with PBool _ => true | _ => false end
  | DModule => isinstance E w cMODULE
  | DCast t => class_of w =? cast_cls t                                          (* exact target type *)
  | DRangeF lo hi mask => match w with PFloat f => in_range_spec f lo hi mask | _ => false end
  | DRangeI lo hi mask => match w with PInt z => int_range_spec z lo hi mask | _ => false end
  | DEnum vals => existsb (fun x => py_eq w x) vals                              (* membership *)
  | DMap m => hashable w && existsb (fun kx => py_eq w (fst kx)) m               (* a key of the map *)
  | DTuple [] => match w with PTuple _ | PTupleSub _ => true | _ => false end
  | DTuple ds =>                                                                  (* tuple shape, member by member *)
      match tuple_items w with
      | Some ws =>
          (fix go (ds : list desc) (ws : list pv) : bool :=
             match ds, ws with
             | [], [] => true
             | a :: ds', x :: ws' => dom E a x && go ds' ws'
             | _, _ => false
             end) ds ws
      | None => false
      end
  | DInstance cls an _ => if is_none w then an else isinstance E w cls           (* class, allow_none *)
  | DAdapt cls mode an dflt =>                                                    (* adapt='default': the default value is used *)
      ((mode =? 2) && pv_eqb w dflt) ||
      (if is_none w then an else isinstance E w cls || existsb (fun t => pv_eqb (snd t) w) (e_orc E))
  | DSelf an => if is_none w then an else isinstance E w (e_self E)
  | DCallable an => if is_none w then an else is_callable w
  | DType cls an => match w with PType c => issub E c cls | PNone => an | _ => false end
  | DString minlen maxlen re =>                                                   (* length, regex *)
      match w with
      | PStr s => (minlen <=? Z.of_nat (length s)) && (Z.of_nat (length s) <=? maxlen)
                  && match re with Some r => re_match E r s | None => true end
      | _ => false
      end
  | DPrefixList vals => str_in vals w                                             (* a member (completed prefix) *)
  | DPrefixMap m => str_in (map fst m) w
  | DCompound ds | DUnion ds => existsb (fun a => dom E a w) ds
  | DRangeDyn _ _ _ => match w with PInt _ => true | _ => false end               (* an int; the bounds move: see dyn_range_in_bounds *)
  | DEnumDyn _ => true                                 (* membership is relative to the collection of the moment: clauses 6, 7 *)
  | DDict kd vd =>                                     (* a dict whose keys / values lie in the key / value trait's domain *)
      match w with
      | PDict l => forallb (dom E kd) (map fst l) && forallb (dom E vd) (map snd l)
      | _ => false
      end
  | DProperty d' => dom E d' w                                                    (* the property's trait *)
  | DList d' mn mx =>                                  (* a list within the length bounds whose items lie in the item trait's domain *)
      match w with
      | PList ws => (mn <=? Z.of_nat (length ws)) && (Z.of_nat (length ws) <=? mx) && forallb (dom E d') ws
      | _ => false
      end
  | DVTuple ds fv =>                                   (* exact tuple, member by member, passing the custom validation *)
      match w with
      | PTuple ws =>
          (fix go (ds : list desc) (ws : list pv) : bool :=
             match ds, ws with
             | [], [] => true
             | a :: ds', x :: ws' => dom E a x && go ds' ws'
             | _, _ => false
             end) ds ws && fv_ok E fv w
      | _ => false
      end
  | DArray dt shape _ =>                                                          (* dtype and shape *)
      match w with
      | PArray k sh _ => match dt with Some t => k =? t | None => true end
                         && match shape with Some spec => shape_ok spec sh | None => true end
      | _ => false
      end
  end.

(* ---------- the documented conversion ---------- *)
Definition unique_completion (keys : list (list Z)) (s : list Z) (w : pv) : bool :=
  match filter (fun k => is_prefix s k) keys with
  | [k] => pv_eqb w (PStr k)
  | _ => false
  end.
Definition prefix_conv (keys : list (list Z)) (v w : pv) : bool :=
  match str_of v with
  | Some s => if existsb (zlist_eqb s) keys then pv_eqb w v else unique_completion keys s w
  | None => false
  end.
Definition is_exact_tuple (w : pv) : bool := match w with PTuple _ => true | _ => false end.

Fixpoint conv_ok (E : env) (d : desc) (v w : pv) {struct d} : bool :=
  match d with
  | DAny | DStr | DBytes | DModule | DEnum _ | DMap _ | DInstance _ _ _ | DSelf _ | DCallable _ | DType _ _ =>
      pv_eqb w v                                                                  (* stored unchanged *)
  | DInt | DRangeI _ _ _ =>                                                       (* int(operator.index(v)) *)
      match as_index v with Returns z => pv_eqb w (PInt z) | Raises _ => false end
  | DFloat | DRangeF _ _ _ =>                                                     (* exact float of v's float value *)
      match float_as_double v with Returns f => pv_eqb w (PFloat f) | Raises _ => false end
  | DComplex =>
      match v with
      | PComplex _ _ => pv_eqb w v
      | PComplexObj (Returns p) => pv_eqb w (PComplex (fst p) (snd p))
      | PComplexObj (Raises _) => false
      | _ => match float_as_double v with Returns f => pv_eqb w (PComplex f fl_zero) | Raises _ => false end
      end
  | DBool => pv_eqb w (PBool (truthy v))
  | DCast t => match cast_fn E t v with Returns x => pv_eqb w x | Raises _ => false end   (* the built-in constructor *)
  | DAdapt _ _ _ _ => true
  | DString _ _ _ => match strx E v with Some s => pv_eqb w (PStr s) | None => false end
  | DPrefixList vals => prefix_conv vals v w
  | DPrefixMap m => prefix_conv (map fst m) v w
  | DTuple [] => match v with PList l => pv_eqb w (PTuple l) | _ => pv_eqb w v end
  | DTuple ds =>
      match tuple_items v, tuple_items w with
      | Some vs, Some ws =>
          (pv_eqb w v || is_exact_tuple w) &&
          (fix go (ds : list desc) (vs ws : list pv) : bool :=
             match ds, vs, ws with
             | [], [], [] => true
             | a :: ds', x :: vs', y :: ws' => conv_ok E a x y && go ds' vs' ws'
             | _, _, _ => false
             end) ds vs ws
      | _, _ => false
      end
  | DCompound ds | DUnion ds => existsb (fun a => conv_ok E a v w) ds
  | DProperty d' => conv_ok E d' v w
  | DRangeDyn _ _ _ => match cast_int v with Returns x => pv_eqb w x | Raises _ => false end     (* type(low)(value) *)
  | DEnumDyn _ => pv_eqb w v
  | DDict kd vd =>                          (* every stored key / value is the conversion of one of the given keys / values *)
      match v, w with
      | PDict li, PDict lo =>
          forallb (fun k' => existsb (fun k => conv_ok E kd k k') (map fst li)) (map fst lo)
          && forallb (fun x' => existsb (fun x => conv_ok E vd x x') (map snd li)) (map snd lo)
      | _, _ => false
      end
  | DList d' _ _ =>                                    (* a new list of the converted items *)
      match v, w with
      | PList vs, PList ws =>
          (fix go (vs ws : list pv) : bool :=
             match vs, ws with
             | [], [] => true
             | x :: vs', y :: ws' => conv_ok E d' x y && go vs' ws'
             | _, _ => false
             end) vs ws
      | _, _ => false
      end
  | DVTuple ds _ =>                                    (* tuple(list) accepted; members converted one by one *)
      match seq_items v, w with
      | Some vs, PTuple ws =>
          (fix go (ds : list desc) (vs ws : list pv) : bool :=
             match ds, vs, ws with
             | [], [], [] => true
             | a :: ds', x :: vs', y :: ws' => conv_ok E a x y && go ds' vs' ws'
             | _, _, _ => false
             end) ds vs ws
      | _, _ => false
      end
  | DArray dt _ _ =>                          (* the array itself, or what numpy's asarray / astype made of it *)
      match v with
      | PArray k _ _ =>
          if match dt with Some t => k =? t | None => true end then pv_eqb w v
          else existsb (fun t => pv_eqb (snd t) w) (e_orc E)
      | _ => existsb (fun t => pv_eqb (snd t) w) (e_orc E)
      end
  end.

(* ---------- Union: "the first trait in the list that can validate the assigned value" ---------- *)
(* alternatives that certainly accept v as it is (a value of exactly their type; for PrefixList a member or a string with
   exactly one completion): the search must not get past one of them *)
Definition accepts_exact (E : env) (a : desc) (v : pv) : bool :=
  match a, v with
  | DAny, _ => true
  | DInt, PInt _ | DFloat, PFloat _ | DComplex, PComplex _ _ => true
  | DStr, PStr _ => typecheck E v cSTR | DBytes, PBytes _ => typecheck E v cBYTES | DBool, PBool _ => typecheck E v cBOOL
  | DPrefixList keys, PStr s =>
      existsb (zlist_eqb s) keys || match filter (fun k => is_prefix s k) keys with [_] => true | _ => false end
  | _, _ => false
  end.
(* w is the conversion by an alternative that no certainly-accepting alternative precedes *)
Definition union_first (E : env) (ds : list desc) (v w : pv) : bool :=
  (fix go (l : list desc) : bool :=
     match l with
     | [] => false
     | a :: r => conv_ok E a v w || (negb (accepts_exact E a v) && go r)
     end) ds.
(* the documented conversion of an assignment: conv_ok, and for a Union the declaration order as well *)
Definition conv_ok1 (E : env) (d : desc) (v w : pv) : bool :=
  conv_ok E d v w && match d with DUnion ds => union_first E ds v w | _ => true end.

(* ---------- exceptions of the value's own conversion protocol ---------- *)
Fixpoint raises_own (v : pv) (e : exn) : bool :=
  match v with
  | PIndexObj (Raises x) | PFloatObj (Raises x) | PComplexObj (Raises x) => exn_eqb x e
  | PInt z | PIntSub z | PNpInt _ z | PIndexObj (Returns z) =>
      exn_eqb e EOverflowError && (MAXF <=? Z.abs z)                  (* overflowing numeric conversion *)
  | PTuple l | PTupleSub l | PList l => existsb (fun x => raises_own x e) l
  | PDict l =>
      (fix go (l : list (pv * pv)) : bool :=
         match l with
         | [] => false
         | (k, x) :: r => raises_own k e || raises_own x e || go r
         end) l
  | _ => false
  end.

(* ---------- shadow value of mapped traits ---------- *)
Definition shadow_ok (d : desc) (w : pv) (sh : option pv) : bool :=
  match d with
  | DMap m => match sh with Some x => existsb (fun kx => py_eq w (fst kx) && pv_eqb x (snd kx)) m | None => false end
  | DPrefixMap m =>
      match sh, str_of w with
      | Some x, Some s => existsb (fun kx => zlist_eqb (fst kx) s && pv_eqb x (snd kx)) m
      | _, _ => false
      end
  | _ => true
  end.

(* ---------- one observed step ---------- *)
Record obs := mkObs { o_out : outcome; o_names_attr : bool; o_after : inst }.

Definition names_of (c : cls) : list Z := map fst c ++ map (fun p => shadow (fst p)) c.
Definition same_on (ns : list Z) (a b : inst) : bool :=
  forallb (fun n => opt_eqb pv_eqb (get a n) (get b n)) ns.
Definition entry_ok (E : env) (s : inst) (nd : Z * (desc * pv)) : bool :=
  let '(n, (d, _)) := nd in
  match get s n with
  | None => true
  | Some w => dom E d w && shadow_ok d w (get s (shadow n))
  end.
Definition touched (kw : list (Z * pv)) (n : Z) : bool :=
  existsb (fun p => (fst p =? n) || (shadow (fst p) =? n)) kw.
(* a single assignment to a name-based Range: the stored int lies within the bounds the two bound attributes held when
   it was assigned (the dictionary before the operation; a fresh one for a constructor), exclusivity at both ends *)
Definition dyn_assign_ok (c : cls) (base after : inst) (kw : list (Z * pv)) : bool :=
  match kw with
  | [(n, _)] =>
      match trait_of c n with
      | Some (DRangeDyn lo hi mask, _) =>
          match get after n, read c base lo, read c base hi with
          | Some (PInt z), Some (PInt l), Some (PInt h) => int_range_spec z (Some l) (Some h) mask
          | _, _, _ => false
          end
      | Some (DEnumDyn src, _) =>                       (* a member of the collection as it was when assigned *)
          match get after n, read c base src with
          | Some w, Some (PList items) => py_in w items
          | _, _ => false
          end
      | _ => true
      end
  | _ => true
  end.

Definition is_ok (o : outcome) : bool := match o with Ok => true | _ => false end.

(* clauses: 1 every entry written by the operation lies in its declared domain (shadow = mapped value)
            2 attributes that were not assigned are exactly as they were
            3 a failing assignment leaves every attribute as it was
            4 a successful assignment stores the documented conversion (for a Union: of the FIRST accepting alternative)
            5 the exception is TraitError naming the attribute, or the one the value's own protocol raised
            6 a value stored under a name-based Range lies within the bounds of that moment *)
Definition law_step (E : env) (c : cls) (before : inst) (o : op) (ob : obs) : list Z :=
  let '(h, kw) := o in
  let after := o_after ob in
  let base := match h, o_out ob with Ctor, Ok => [] | _, _ => before end in
  chk 1 (forallb (fun nd => (* entries this operation did not write were judged when they were written; what a SUCCESSFUL
                               operation assigned is judged even when the entry looks as before (the value that was
                               there may be an unvalidated default that a read stored) *)
                     (negb (is_ok (o_out ob) && existsb (fun p => fst p =? fst nd) kw)
                      && opt_eqb pv_eqb (get base (fst nd)) (get after (fst nd))
                      && opt_eqb pv_eqb (get base (shadow (fst nd))) (get after (shadow (fst nd))))
                     || entry_ok E after nd) c)
  ++ chk 2 (same_on (filter (fun n => negb (touched kw n)) (names_of c)) base after)
  ++ chk 3 (match o_out ob, h, kw with
            | Ok, _, _ => true
            | Raise _, Ctor, _ | Raise _, _, [_] => same_on (names_of c) before after
            | Raise _, _, _ => true
            end)
  ++ chk 4 (match o_out ob with
            | Ok => forallb (fun p => match trait_of c (fst p), get after (fst p) with
                                      | Some (d, _), Some w => conv_ok1 E d (snd p) w
                                      | _, _ => false
                                      end) kw
            | Raise _ => true
            end)
  ++ chk 5 (match o_out ob with
            | Ok => true
            | Raise ETraitError => o_names_attr ob
            | Raise e => existsb (fun p => raises_own (snd p) e) kw
            end)
  ++ chk 6 (match o_out ob with
            | Ok => dyn_assign_ok c (match h with Ctor => [] | _ => before end) after kw
            | Raise _ => true
            end).

(* clause 8: attributes that were only READ before the history hold exactly their default value (no shadow entry), and
   nothing else is stored *)
Definition law_pre (c : cls) (pre : list Z) (init : inst) : list Z :=
  chk 8 (forallb (fun nd => opt_eqb pv_eqb (get init (fst nd))
                                           (if existsb (Z.eqb (fst nd)) pre then Some (snd (snd nd)) else None)
                            && opt_eqb pv_eqb (get init (shadow (fst nd))) None) c).

Fixpoint law_hist (E : env) (c : cls) (i : Z) (s : inst) (h : list (op * obs)) : list Z :=
  match h with
  | [] => []
  | (o, ob) :: r => map (fun k => 100 * i + k) (law_step E c s o ob) ++ law_hist E c (i + 1) (o_after ob) r
  end.

(* ---------- reading a name-based Range ---------- *)
(* the declared range [low <(=) . <(=) high] over the integers is non-empty *)
Definition dyn_nonempty (l h mask : Z) : bool :=
  (l + (if Z.land mask 1 =? 0 then 0 else 1)) <=? (h - (if Z.land mask 2 =? 0 then 0 else 1)).
(* clause 7: whatever is READABLE from a name-based Range (reported under rname n) lies in the declared range of that
   moment, exclusivity included, whenever that range is non-empty *)
Definition readable_ok (c : cls) (after : inst) (nd : Z * (desc * pv)) : bool :=
  match nd with
  | (n, (DRangeDyn lo hi mask, _)) =>
      match get after (rname n), read c after lo, read c after hi with
      | Some (PInt z), Some (PInt l), Some (PInt h) =>
          if dyn_nonempty l h mask then int_range_spec z (Some l) (Some h) mask else true
      | _, _, _ => true
      end
  | (n, (DEnumDyn src, _)) =>                           (* readable => a member of the collection as it is now (None if empty) *)
      match get after (rname n), read c after src with
      | Some x, Some (PList items) => match items with [] => pv_eqb x PNone | _ => py_in x items end
      | _, _ => true
      end
  | _ => true
  end.
Fixpoint law_reads (c : cls) (i : Z) (h : list (op * obs)) : list Z :=
  match h with
  | [] => []
  | (_, ob) :: r => map (fun k => 100 * i + k) (chk 7 (forallb (readable_ok c (o_after ob)) c)) ++ law_reads c (i + 1) r
  end.
