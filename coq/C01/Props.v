(* C01 — property theorems only.  E ranges over every environment (class table and the
   str()/bytes()/re answers: the oracles of the statement), d over every trait description,
   v over every value, histories over every list of operations. *)
From Coq Require Import ZArith List Bool.
From TV Require Import Common.PyVal Common.Harness C03.Model C03.Law C03.Proofs C01.Model C01.Law C01.Proofs C01.LawProofs.
Import ListNotations.
Open Scope Z_scope.

(* an accepted value satisfies the independently written declared-domain predicate of the trait
   (type, bounds and exclusivity, membership, tuple shape member by member, class, allow_none,
   length/regex, prefix completion), for every nesting of Tuple / Either / Union *)
Theorem validate_sound :
  forall E d v w, sound_hyp E d = true -> validate E d v = Accept w -> dom E d w = true.
Proof. exact validate_sound_lemma. Qed.
Print Assumptions validate_sound.

(* the Python-level validate of EVERY description, too, accepts only values of the declared domain, yields the
   documented conversion and lets only the value's own protocol exceptions through (proved together with the compiled
   path by one induction per statement); this is what a settable validated Property(<trait>) runs *)
Theorem py_validate_sound :
  forall E d v w, sound_hyp E d = true -> py_validate E d v = Accept w -> dom E d w = true.
Proof. exact py_validate_sound_direct. Qed.
Print Assumptions py_validate_sound.

Theorem py_validate_documented_conversion :
  forall E d v w, wf_desc d = true -> bool_final E = true -> py_validate E d v = Accept w -> conv_ok E d v w = true.
Proof. exact py_documented_conversion_lemma. Qed.
Print Assumptions py_validate_documented_conversion.

Theorem py_only_own_protocol_exceptions :
  forall E d v e, wf_desc d = true -> py_validate E d v = Propagate e -> raises_own v e = true.
Proof. exact py_own_protocol_lemma. Qed.
Print Assumptions py_only_own_protocol_exceptions.

(* List(<trait>) as a member description (alone, in Tuple / Either / Union): accepted iff a list within the length
   bounds whose items are accepted one by one by the item trait; validate_sound / documented conversion / own-protocol
   exceptions cover it through the same inductions *)
Theorem list_items_validated :
  forall E d mn mx v w,
    validate E (DList d mn mx) v = Accept w <->
    exists vs ws, v = PList vs /\ w = PList ws /\ mn <= Z.of_nat (length vs) <= mx /\
                  Forall2 (fun x y => validate E d x = Accept y) vs ws.
Proof. exact list_items_lemma. Qed.
Print Assumptions list_items_validated.

(* Range whose bounds are given BY TRAIT NAME (BaseRange._validate): validation reads the instance; an accepted value is
   int(value), an int within the bounds the two bound attributes hold at that moment, exclusivity honoured at both ends.
   (validate_s is what setattr runs; for every other description it is validate.) *)
Theorem dyn_range_in_bounds :
  forall E c s lo hi mask v w,
    validate_s E c s (DRangeDyn lo hi mask) v = Accept w ->
    exists l h z, read c s lo = Some (PInt l) /\ read c s hi = Some (PInt h) /\ w = PInt z
                  /\ cast_int v = Returns (PInt z) /\ int_range_spec z (Some l) (Some h) mask = true.
Proof. exact dyn_range_in_bounds_lemma. Qed.
Print Assumptions dyn_range_in_bounds.

(* READING a name-based Range (BaseRange._get: cached value, else the low bound, clamped): the result lies within the
   INCLUSIVE bounds of that moment whenever low <= high ... *)
Theorem dyn_readable_within_inclusive_bounds :
  forall c s n lo hi w, dyn_readable c s n lo hi = Some w ->
    exists l h z, read c s lo = Some (PInt l) /\ read c s hi = Some (PInt h) /\ w = PInt z /\ (l <= h -> l <= z <= h).
Proof. exact dyn_readable_inclusive_lemma. Qed.
Print Assumptions dyn_readable_within_inclusive_bounds.

(* ... but not within the declared EXCLUSIVE range (F23): with exclude_low, after the low bound moved to 5 past the stored
   3, reading yields 5 — the excluded endpoint, a value whose assignment is rejected *)
Theorem dyn_readable_exclusive_refuted :
  exists c s n lo hi mask z l h,
    dyn_readable c s n lo hi = Some (PInt z) /\ read c s lo = Some (PInt l) /\ read c s hi = Some (PInt h) /\
    dyn_nonempty l h mask = true /\ int_range_spec z (Some l) (Some h) mask = false /\
    validate_s E0 c s (DRangeDyn lo hi mask) (PInt z) = Reject.
Proof.
  exists [(0, (DRangeDyn 2 3 1, PInt 0)); (2, (DInt, PInt 0)); (3, (DInt, PInt 10))],
         (fst (setattr E0 [(0, (DRangeDyn 2 3 1, PInt 0)); (2, (DInt, PInt 0)); (3, (DInt, PInt 10))]
                 (fst (setattr E0 [(0, (DRangeDyn 2 3 1, PInt 0)); (2, (DInt, PInt 0)); (3, (DInt, PInt 10))] [] 0 (PInt 3))) 2 (PInt 5))),
         0, 2, 3, 1, 5, 5, 10.
  vm_compute. repeat split.
Qed.
Print Assumptions dyn_readable_exclusive_refuted.

(* Enum(values='<name>') (dynamic Enum): an accepted value is stored unchanged and is a member of the collection the named
   attribute holds at that moment; READING yields a member of the collection as it is THEN — the cached value if it still
   is one, else the first member; None for an empty collection *)
Theorem dyn_enum_member :
  forall E c s src v w, validate_s E c s (DEnumDyn src) v = Accept w ->
    w = v /\ exists items, read c s src = Some (PList items) /\ py_in v items = true.
Proof. exact dyn_enum_member_lemma. Qed.
Print Assumptions dyn_enum_member.

Theorem dyn_enum_readable_member :
  forall c s n src x, dyn_enum_readable c s n src = Some x ->
    exists items, read c s src = Some (PList items) /\
                  match items with
                  | [] => x = PNone
                  | y :: _ => py_eq y y = true -> py_in x items = true
                  end.
Proof. exact dyn_enum_readable_member_lemma. Qed.
Print Assumptions dyn_enum_readable_member.

Theorem validate_s_is_validate_elsewhere :
  forall E c s d v, (forall lo hi m, d <> DRangeDyn lo hi m) -> (forall src, d <> DEnumDyn src) ->
    validate_s E c s d v = validate E d v.
Proof. exact validate_s_static. Qed.
Print Assumptions validate_s_is_validate_elsewhere.

(* Dict(<key trait>, <value trait>) as a member description: accepted iff a dict whose keys and values are accepted one
   by one by the key / value trait; the stored dict is built from the converted items (equal converted keys collapse) *)
Theorem dict_items_validated :
  forall E kd vd v w,
    validate E (DDict kd vd) v = Accept w <->
    exists kvs l, v = PDict kvs /\ w = PDict (dict_build l) /\
      Forall2 (fun kx ky => validate E kd (fst kx) = Accept (fst ky) /\ validate E vd (snd kx) = Accept (snd ky)) kvs l.
Proof. exact dict_items_lemma. Qed.
Print Assumptions dict_items_validated.

(* setattr_validate_property (ctraits.c:2767): Property(<trait>) validates with the trait's Python validate, then the
   setter stores the VALIDATED value; validate_sound, validate_documented_conversion, reject_no_effect,
   no_out_of_domain_readable and law_holds_on_every_history therefore speak about DProperty as about any description *)
Theorem property_runs_the_python_validate :
  forall E d v, validate E (DProperty d) v = py_validate E d v.
Proof. reflexivity. Qed.
Print Assumptions property_runs_the_python_validate.

(* the quiet routes trait_set(trait_change_notify=False, ..) / trait_setq(..) are trait_set: validation, storing and the
   post_setattr of mapped traits (the shadow) do not depend on the notification flag *)
Theorem quiet_route_is_trait_set :
  forall E c s kw, step E c s (TraitSetQ, kw) = step E c s (TraitSet, kw).
Proof. reflexivity. Qed.
Print Assumptions quiet_route_is_trait_set.

(* F18: without the hypothesis on Instance(C, allow_none=False) the statement is false *)
Theorem validate_sound_refuted_none_instance :
  exists E d v w, wf_desc d = true /\ validate E d v = Accept w /\ dom E d w = false.
Proof.
  exists (mkEnv [(1, 0); (0, 0)] 110 [] []), (DInstance 0 false false), PNone, PNone.
  exact validate_sound_refuted_lemma.
Qed.
Print Assumptions validate_sound_refuted_none_instance.

(* the accepted value is the documented conversion of the assigned one: int(operator.index(v)),
   the exact float / complex of v's own conversion, bool(v), the built-in constructor for the cast
   types, str(v) for String, the member or the unique completion for PrefixList / PrefixMap, the
   value itself otherwise; tuples member by member (the value itself, or an exact tuple) *)
Theorem validate_documented_conversion :
  forall E d v w, wf_desc d = true -> bool_final E = true -> validate E d v = Accept w -> conv_ok E d v w = true.
Proof. exact documented_conversion_lemma. Qed.
Print Assumptions validate_documented_conversion.

(* TraitError leaves every attribute as it was — for every trait that is not a stand-alone Map / PrefixMap. Since
   c056106 those raise TraitError("Unmappable") from post_setattr, i.e. AFTER the value was stored; validated values never
   get there (exception_no_effect below), the Undefined sentinel does (F22): reject_no_effect_refuted_undefined_on_map *)
Theorem reject_no_effect :
  forall E c s n v s', (forall d dflt, trait_of c n = Some (d, dflt) -> is_mapped d = false) ->
    setattr E c s n v = (s', Raise ETraitError) -> s' = s.
Proof. exact setattr_traiterror_no_effect. Qed.
Print Assumptions reject_no_effect.

Theorem reject_no_effect_refuted_undefined_on_map :
  let c := [(0, (DMap [(PStr [97], PInt 1)], PStr [97]))] in
  let s := [(0, PStr [97]); (shadow 0, PInt 1)] in
  exists s', setattr E0 c s 0 PUndefined = (s', Raise ETraitError) /\ s' <> s.
Proof. exact setattr_traiterror_effect_on_map. Qed.
Print Assumptions reject_no_effect_refuted_undefined_on_map.

(* any exception (TraitError or one of the value's own protocol) leaves every attribute as it
   was, provided the default of a stand-alone Map / PrefixMap is one of its keys (post_safe; a Map inside an Either,
   at any nesting depth, needs nothing since F19 was repaired: post_compound_never_raises), and the value
   is not the Undefined sentinel (which bypasses validation: F22) *)
Theorem exception_no_effect :
  forall E c s n v s' e, is_undefined v = false -> post_safe c = true -> setattr E c s n v = (s', Raise e) -> s' = s.
Proof. exact setattr_exception_no_effect. Qed.
Print Assumptions exception_no_effect.

Theorem failed_operation_no_effect :
  forall E c s h n v s' e, is_undefined v = false -> post_safe c = true ->
    step E c s (h, [(n, v)]) = (s', Raise e) -> s' = s.
Proof. exact step_failure_no_effect. Qed.
Print Assumptions failed_operation_no_effect.

Theorem failed_constructor_no_effect :
  forall E c s kw s' e, step E c s (Ctor, kw) = (s', Raise e) -> s' = s.
Proof. exact ctor_failure_no_effect. Qed.
Print Assumptions failed_constructor_no_effect.

(* the only exceptions other than TraitError that surface are those raised by the value's own
   __index__/__float__/__complex__ or an overflowing numeric conversion (of the value or of an item
   of a tuple value), for every nesting of Tuple / Either / Union *)
Theorem only_own_protocol_exceptions :
  forall E d v e, wf_desc d = true -> validate E d v = Propagate e -> raises_own v e = true.
Proof. exact own_protocol_lemma. Qed.
Print Assumptions only_own_protocol_exceptions.

Theorem assignment_exception_is_traiterror_or_own :
  forall E c s n v s' e d dflt,
    is_undefined v = false -> post_safe c = true -> trait_of c n = Some (d, dflt) -> wf_desc d = true ->
    setattr E c s n v = (s', Raise e) -> e = ETraitError \/ raises_own v e = true.
Proof. exact setattr_exception_class. Qed.
Print Assumptions assignment_exception_is_traiterror_or_own.

(* invariant over every history of attribute assignments, trait_set calls and constructor keywords:
   whatever is readable under a trait name lies in that trait's declared domain *)
Theorem no_out_of_domain_readable :
  forall E c ops s, ops_defined ops = true -> class_ok E c = true -> Inv E c s ->
    Forall (fun r => Inv E c (fst r)) (run E c s ops).
Proof. intros E c ops s. exact (run_inv E c ops s). Qed.
Print Assumptions no_out_of_domain_readable.

(* F22: without ops_defined the invariant is false — setattr_trait skips validation for the Undefined
   sentinel (ctraits.c:2446-2448), which is then stored and readable under any trait *)
Theorem no_out_of_domain_readable_refuted_undefined :
  exists E c n v s', class_ok E c = true /\ setattr E c [] n v = (s', Ok) /\
    exists d dflt, trait_of c n = Some (d, dflt) /\ get s' n = Some v /\ dom E d v = false.
Proof.
  destruct undefined_bypass_lemma as (H1 & H2 & H3).
  exists E0, [(0, (DInt, PInt 0))], 0, PUndefined, [(0, PUndefined)]. repeat split; auto.
  exists DInt, (PInt 0). repeat split; auto.
Qed.
Print Assumptions no_out_of_domain_readable_refuted_undefined.

Theorem fresh_instance_in_domain : forall E c, Inv E c [].
Proof. exact inv_empty. Qed.
Print Assumptions fresh_instance_in_domain.

(* The law itself — the five clauses that are evaluated on the implementation's observations — is []
   at every step of every history of the model: attribute assignments, trait_set calls with any
   number of distinct keywords, constructor calls with keywords ([op_ok]: distinct trait names, values other
   than the Undefined sentinel); started in any dictionary that satisfies the two invariants (in particular
   a fresh instance). *)
Theorem law_holds_on_every_history :
  forall E c, class_ok E c = true -> post_safe c = true -> keys_unique c ->
  forall ops s i, Inv E c s -> ShInv c s -> Forall (op_ok c) ops ->
    law_hist E c i s (model_hist E c s ops) = [].
Proof. exact law_on_every_history. Qed.
Print Assumptions law_holds_on_every_history.

(* Union stores the conversion by the FIRST alternative in declaration order that accepts: the stored value is the
   documented conversion by an alternative that no certainly-accepting alternative (accepts_exact: a value of exactly that
   alternative's type; for PrefixList a member or a uniquely completable string) precedes. This is part of clause 4 of the
   law (conv_ok1), proved of every model history by law_holds_on_every_history. (Seeded C01-w3 starts the search at the
   alternative that accepted the previous value.) *)
Theorem union_stores_first_accepting :
  forall E c s ds v w, wf_desc (DUnion ds) = true -> bool_final E = true ->
    validate_s E c s (DUnion ds) v = Accept w -> conv_ok1 E (DUnion ds) v w = true.
Proof. intros E c s ds v w. exact (vs_conv1 E c s (DUnion ds) v w). Qed.
Print Assumptions union_stores_first_accepting.

(* READ FIRST, THEN ASSIGN. A read stores the default value unvalidated (Model.read_attr); what is stored is therefore
   no licence: an assignment the validator rejects is rejected in EVERY dictionary — in particular one that already holds
   that very value — and changes nothing. (Seeded C01-v2 skips validation when the assigned object is the stored one.) *)
Theorem stored_value_is_validated_again :
  forall E c s n d dflt v, trait_of c n = Some (d, dflt) -> is_undefined v = false -> validate_s E c s d v = Reject ->
    setattr E c s n v = (s, Raise ETraitError).
Proof. exact setattr_rejects_whatever_is_stored. Qed.
Print Assumptions stored_value_is_validated_again.

Theorem read_then_assign_default_is_rejected :
  forall E c s n d dflt, trait_of c n = Some (d, dflt) -> is_undefined dflt = false ->
    validate_s E c (read_attr c s n) d dflt = Reject ->
    get (read_attr c s n) n <> None /\ setattr E c (read_attr c s n) n dflt = (read_attr c s n, Raise ETraitError).
Proof. exact read_then_assign_default_rejected. Qed.
Print Assumptions read_then_assign_default_is_rejected.

(* the law holds on every history that starts after reads of attributes without post_setattr whose default lies in
   the domain (read_ok); for a default OUTSIDE the domain the two theorems above are the statement *)
Theorem law_holds_after_reads :
  forall E c pre ops i, class_ok E c = true -> post_safe c = true -> keys_unique c ->
    Forall (read_ok E c) pre -> Forall (op_ok c) ops ->
    law_hist E c i (pre_state c pre) (model_hist E c (pre_state c pre) ops) = [].
Proof. exact law_after_reads. Qed.
Print Assumptions law_holds_after_reads.

Theorem fresh_instance_shadows_consistent : forall c, ShInv c [].
Proof. exact shinv_empty. Qed.
Print Assumptions fresh_instance_shadows_consistent.

(* Non-vacuity: a class with a Tuple(Int, exclusive float Range), a Map (with shadow) and a
   Union(String(maxlen=5), CInt) meets class_ok / post_safe; a history that converts, rejects,
   constructs and stores. *)
Example hypotheses_nonvacuous :
  let E := E0 in
  let c := [(0, (DTuple [DInt; DRangeF (Some (FFin false 0)) None 1], PTuple [PInt 0; PFloat (FFin false 0)]));
            (1, (DMap [(PStr [97], PInt 1); (PInt 1, PInt 2)], PStr [97]));
            (2, (DUnion [DString 0 5 None; DCast CTInt], PStr []))] in
  class_ok E c = true /\ post_safe c = true /\
  map snd (run E c [] [(Attr, [(0, PTuple [PBool true; PInt 2])]); (TraitSet, [(1, PFloat (FFin false 1000)); (0, PNone)]);
                        (Ctor, [(2, PStr [49; 50])]); (Attr, [(2, PInt 7)])])
  = [Ok; Raise ETraitError; Ok; Ok].
Proof. exact class_ok_example. Qed.

Example law_hypotheses_nonvacuous :
  let c := [(0, (DTuple [DInt; DRangeF (Some (FFin false 0)) None 1], PTuple [PInt 0; PFloat (FFin false 0)]));
            (1, (DMap [(PStr [97], PInt 1); (PInt 1, PInt 2)], PStr [97]));
            (2, (DUnion [DString 0 5 None; DCast CTInt], PStr []))] in
  let ops := [(Attr, [(1, PFloat (FFin false 1000))]); (TraitSet, [(0, PNone); (2, PInt 7)]);
              (Ctor, [(2, PStr [49; 50]); (1, PStr [97])])] in
  keys_unique c /\ Forall (op_ok c) ops /\
  map (fun p => o_out (snd p)) (model_hist E0 c [] ops) = [Ok; Raise ETraitError; Ok] /\
  get (o_after (snd (hd (((Attr, []) : op), mkObs Ok true []) (model_hist E0 c [] ops)))) (shadow 1) = Some (PInt 2).
Proof.
  cbv zeta. split; [|split; [|split]].
  - intros n e [H|[H|[H|[]]]]; inversion H; reflexivity.
  - repeat constructor; cbn; try (intros [H|H]; [discriminate | tauto]); try tauto;
      try (intros p [H|[H|[]]]; subst; cbn; eauto); try (intros p [H|[]]; subst; cbn; eauto); try reflexivity.
  - vm_compute. reflexivity.
  - vm_compute. reflexivity.
Qed.

Example new_shapes_nonvacuous :
  let c := [(0, (DProperty (DTuple [DFloat; DFloat]), PNone));
            (1, (DMap [(PStr [97], PInt 1); (PInt 1, PInt 2)], PStr [97]));
            (2, (DVTuple [DFloat; DInt] None, PTuple [PFloat (FFin false 0); PInt 0]));
            (3, (DCompound [DInt; DList (DTuple [DInt; DCast CTFloat]) 1 3], PInt 0))] in
  let ops := [(Attr, [(0, PTupleSub [PInt 1; PInt 2])]); (TraitSetQ, [(1, PFloat (FFin false 1000))]);
              (TraitSetQ, [(2, PList [PBool true; PIntSub 3])]); (TraitSetQ, [(2, PTuple [PInt (10 ^ 400); PInt 1]); (1, PStr [97])])] in
  class_ok E0 c = true /\ post_safe c = true /\ ops_defined ops = true /\
  validate E0 (DCompound [DInt; DList (DTuple [DInt; DCast CTFloat]) 1 3]) (PList [PTuple [PBool true; PInt 2]])
  = Accept (PList [PTuple [PInt 1; PFloat (FFin false 2000)]]) /\
  validate E0 (DCompound [DInt; DList (DTuple [DInt; DCast CTFloat]) 1 3]) (PList []) = Reject /\
  map (fun p => o_out (snd p)) (model_hist E0 c [] ops) = [Ok; Ok; Ok; Raise ETraitError] /\
  o_after (snd (nth 2 (model_hist E0 c [] ops) (((Attr, []) : op), mkObs Ok true [])))
  = [(2, PTuple [PFloat (FFin false 1000); PInt 3]); (1000 + 1, PInt 2); (1, PFloat (FFin false 1000));
     (1000 + 1, PInt 1); (1, PStr [97]); (0, PTuple [PFloat (FFin false 1000); PFloat (FFin false 2000)])].
Proof. vm_compute. repeat split. Qed.

Example dynamic_range_nonvacuous :
  let c := [(0, (DRangeDyn 2 3 1, PInt 0)); (2, (DInt, PInt 0)); (3, (DInt, PInt 0))] in
  let ops := [(Attr, [(3, PInt 5)]); (Attr, [(0, PInt 5)]); (Attr, [(0, PInt 0)]); (TraitSetQ, [(2, PInt (-3))]);
              (Attr, [(0, PFloat (FFin false 2500))]); (Attr, [(0, PStr [51])]); (Ctor, [(3, PInt 1); (0, PInt 1)])] in
  class_ok E0 c = true /\ post_safe c = true /\ ops_defined ops = true /\
  map (fun p => o_out (snd p)) (model_hist E0 c [] ops) = [Ok; Ok; Raise ETraitError; Ok; Ok; Raise ETraitError; Ok] /\
  get (o_after (snd (nth 4 (model_hist E0 c [] ops) (((Attr, []) : op), mkObs Ok true [])))) 0 = Some (PInt 2).
Proof. vm_compute. repeat split. Qed.

(* Dict(<key trait>, <value trait>) members: keys and values are validated one by one (key first), converted keys that are
   equal collapse; the stored dict satisfies dom, the conversion clause and the own-protocol clause by the same inductions *)
Example dict_members_nonvacuous :
  let d := DCompound [DInt; DDict (DCast CTInt) (DList DFloat 0 2)] in
  sound_hyp E0 d = true /\
  validate E0 d (PDict [(PStr [49], PList [PInt 5]); (PInt 1, PList [PBool true; PFloat (FFin false 500)]); (PBool false, PList [])])
  = Accept (PDict [(PInt 1, PList [PFloat (FFin false 1000); PFloat (FFin false 500)]); (PInt 0, PList [])]) /\
  validate E0 d (PDict [(PInt 1, PList [PInt 1; PInt 2; PInt 5])]) = Reject /\
  validate E0 d (PDict [(PInt 1, PList [PIndexObj (Raises EValueError)])]) = Propagate EValueError /\
  dom E0 d (PDict [(PInt 1, PList [PFloat (FFin false 1000)])]) = true /\
  dom E0 d (PDict [(PStr [49], PList [])]) = false.
Proof. vm_compute. repeat split. Qed.

Example dynamic_enum_nonvacuous :
  let c := [(0, (DEnumDyn 2, PNone)); (2, (DList DStr 0 100, PList []))] in
  let ops := [(Attr, [(2, PList [PStr [114]; PStr [98]])]); (Attr, [(0, PStr [98])]); (Attr, [(0, PStr [120])]);
              (TraitSetQ, [(2, PList [PStr [99]; PStr [109]])])] in
  class_ok E0 c = true /\ post_safe c = true /\ ops_defined ops = true /\
  map (fun p => o_out (snd p)) (model_hist E0 c [] ops) = [Ok; Ok; Raise ETraitError; Ok] /\
  dyn_enum_readable c (o_after (snd (nth 1 (model_hist E0 c [] ops) (((Attr, []) : op), mkObs Ok true [])))) 0 2 = Some (PStr [98]) /\
  dyn_enum_readable c (o_after (snd (nth 3 (model_hist E0 c [] ops) (((Attr, []) : op), mkObs Ok true [])))) 0 2 = Some (PStr [99]).
Proof. vm_compute. repeat split. Qed.

(* Either(Either(Map({'a': 1}), Str), Int, default=0): the class meets the hypotheses of law_holds_on_every_history; the
   nested compound contributes its _post_setattr: x_ is the mapped value for a key, the value itself otherwise *)
Example mapped_compound_nonvacuous :
  let c := [(0, (DCompound [DCompound [DMap [(PStr [97], PInt 1)]; DStr]; DInt], PInt 0))] in
  let ops := [(Attr, [(0, PStr [97])]); (TraitSet, [(0, PInt 5)]); (Attr, [(0, PFloat (FFin false 500))]); (TraitSetQ, [(0, PStr [98])])] in
  class_ok E0 c = true /\ post_safe c = true /\ ops_defined ops = true /\
  map (fun p => (o_out (snd p), get (o_after (snd p)) 0, get (o_after (snd p)) (shadow 0))) (model_hist E0 c [] ops)
  = [(Ok, Some (PStr [97]), Some (PInt 1)); (Ok, Some (PInt 5), Some (PInt 5));
     (Raise ETraitError, Some (PInt 5), Some (PInt 5)); (Ok, Some (PStr [98]), Some (PStr [98]))].
Proof. vm_compute. repeat split. Qed.

(* car.engine (read: stores None) ; car.engine = None -> TraitError, nothing changes ; car.engine = Engine() -> stored *)
Example read_first_nonvacuous :
  let c := [(0, (DInstance 100 false false, PNone)); (1, (DInt, PInt 0)); (2, (DString 2 4 None, PStr []))] in
  let s := pre_state c [2; 0] in
  get s 0 = Some PNone /\ get s 2 = Some (PStr []) /\ get s 1 = None /\
  law_pre c [2; 0] s = [] /\ law_pre c [2; 0] [] <> [] /\
  setattr E0 c s 0 PNone = (s, Raise ETraitError) /\ setattr E0 c s 2 (PStr []) = (s, Raise ETraitError) /\
  snd (setattr E0 c s 0 (PObj 100 1)) = Ok /\
  Forall (read_ok E0 c) [1] /\ ~ read_ok E0 c 0.
Proof.
  cbv zeta. repeat split; try (vm_compute; reflexivity); try (vm_compute; discriminate).
  - constructor; [|constructor]. intros d dflt H. vm_compute in H. inversion H; subst. split; reflexivity.
  - intros H. destruct (H _ _ eq_refl) as [_ Hd]. vm_compute in Hd. discriminate.
Qed.

(* Union(Int, Float) <- 2 stores the int 2 whatever was assigned before; 2.0 is a documented conversion of SOME
   alternative (conv_ok) but not of the first accepting one (conv_ok1) *)
Example union_first_nonvacuous :
  let d := DUnion [DInt; DFloat] in
  let c := [(0, (d, PInt 0))] in
  map (fun p => (snd p, get (fst p) 0)) (run E0 c [] [(Attr, [(0, PFloat (FFin false 500))]); (Attr, [(0, PInt 2)])])
  = [(Ok, Some (PFloat (FFin false 500))); (Ok, Some (PInt 2))] /\
  conv_ok E0 d (PInt 2) (PFloat (FFin false 2000)) = true /\ conv_ok1 E0 d (PInt 2) (PFloat (FFin false 2000)) = false /\
  conv_ok1 E0 d (PInt 2) (PInt 2) = true /\
  conv_ok1 E0 (DUnion [DBool; DInt]) (PBool true) (PInt 1) = false /\
  conv_ok1 E0 (DUnion [DPrefixList [[121; 101; 115]; [110; 111]]; DStr]) (PStr [121]) (PStr [121]) = false /\
  conv_ok1 E0 (DUnion [DPrefixList [[121; 101; 115]; [110; 111]]; DStr]) (PStr [121]) (PStr [121; 101; 115]) = true /\
  conv_ok1 E0 (DUnion [DPrefixList [[121; 101; 115]; [110; 111]]; DStr]) (PStr [122]) (PStr [122]) = true.
Proof. vm_compute. repeat split. Qed.
