(* C01/LawProofs.v — the law (all five clauses) holds on every step of every history of
   single-keyword operations of the model; invariants Inv (domain) and ShInv (shadow). *)
From Coq Require Import ZArith List Bool Lia.
From TV Require Import Common.PyVal Common.Harness C03.Model C03.Law C03.Proofs C01.Model C01.Law C01.Proofs.
Import ListNotations.
Open Scope Z_scope.

(* ---------- dictionary lemmas ---------- *)
Lemma get_set_same s n w : get (set s n w) n = Some w.
Proof. unfold set. cbn. now rewrite Z.eqb_refl. Qed.
Lemma get_set_other s n w m : m <> n -> get (set s n w) m = get s m.
Proof. intros H. unfold set. cbn. destruct (n =? m) eqn:E; [apply Z.eqb_eq in E; congruence | reflexivity]. Qed.

Lemma opt_pv_refl o : opt_eqb pv_eqb o o = true.
Proof. destruct o; cbn; [apply pv_eqb_refl | reflexivity]. Qed.
Lemma same_on_refl ns s : same_on ns s s = true.
Proof. unfold same_on. apply forallb_forall. intros. apply opt_pv_refl. Qed.

Lemma same_on_get ns a b : (forall m, In m ns -> get a m = get b m) -> same_on ns a b = true.
Proof. intros H. unfold same_on. apply forallb_forall. intros m Hm. rewrite (H m Hm). apply opt_pv_refl. Qed.

(* ---------- the shadow invariant ---------- *)
Definition ShInv (c : cls) (s : inst) : Prop :=
  forall n d dflt w, trait_of c n = Some (d, dflt) -> get s n = Some w -> shadow_ok d w (get s (shadow n)) = true.

Lemma dict_get_shadow m w x : dict_get m w = Some x ->
  existsb (fun kx => py_eq w (fst kx) && pv_eqb x (snd kx)) m = true.
Proof.
  induction m as [|[k y] m IH]; cbn [dict_get existsb fst snd]; [discriminate|]. destruct (py_eq w k).
  - intros H; inversion H; subst. now rewrite pv_eqb_refl.
  - intros H. rewrite (IH H). apply orb_true_r.
Qed.
Lemma str_get_shadow m s x : str_get m s = Some x ->
  existsb (fun kx => zlist_eqb (fst kx) s && pv_eqb x (snd kx)) m = true.
Proof.
  induction m as [|[k y] m IH]; cbn [str_get existsb fst snd]; [discriminate|]. destruct (zlist_eqb k s).
  - intros H; inversion H; subst. now rewrite pv_eqb_refl.
  - intros H. rewrite (IH H). apply orb_true_r.
Qed.

Lemma post_set_shadow_ok d w x : is_mapped d = true -> post_setattr d w = PostSet x -> shadow_ok d w (Some x) = true.
Proof.
  destruct d; cbn; try discriminate; intros _.
  - destruct (hashable w); [|discriminate]. destruct (dict_get m w) eqn:H; [|discriminate].
    intros Hx; inversion Hx; subst. now apply dict_get_shadow.
  - destruct (str_of w) as [s|]; [|discriminate]. destruct (str_get m s) eqn:H; [|discriminate].
    intros Hx; inversion Hx; subst. now apply str_get_shadow.
Qed.

Lemma shadow_ok_unmapped d w o : is_mapped d = false -> shadow_ok d w o = true.
Proof. destruct d; cbn; try discriminate; reflexivity. Qed.

(* ---------- what one assignment does to the dictionary ---------- *)
(* the result of setattr differs from s at most at n and shadow n *)
Lemma setattr_frame E c s n v m :
  m <> n -> m <> shadow n -> get (fst (setattr E c s n v)) m = get s m.
Proof.
  intros H1 H2. unfold setattr. destruct (trait_of c n) as [[d dflt]|]; [|reflexivity].
  destruct (if is_undefined v then (if always_validated d then validate_s E c s d v else Accept v) else validate_s E c s d v) as [w| |e]; try reflexivity.
  destruct (post_setattr d w) as [|x|e]; cbn [fst].
  - now rewrite get_set_other.
  - destruct (get s n) as [o|].
    + destruct (pv_eqb o w); cbn [fst]; now rewrite ?get_set_other.
    + destruct (post_setattr d dflt) as [|y|e']; cbn [fst];
        try (destruct (pv_eqb dflt w); cbn [fst]); now rewrite ?get_set_other.
  - destruct (get s n) as [o|].
    + destruct (pv_eqb o w); cbn [fst]; now rewrite ?get_set_other.
    + destruct (post_setattr d dflt) as [|y|e']; cbn [fst];
        try (destruct (pv_eqb dflt w); cbn [fst]); now rewrite ?get_set_other.
Qed.

(* a successful assignment: the entry, its domain, its conversion, its shadow *)
Lemma setattr_ok E c s n v s' d dflt :
  is_undefined v = false -> class_ok E c = true -> post_safe c = true -> ShInv c s ->
  trait_of c n = Some (d, dflt) -> setattr E c s n v = (s', Ok) ->
  exists w, validate_s E c s d v = Accept w /\ get s' n = Some w /\ shadow_ok d w (get s' (shadow n)) = true.
Proof.
  intros Hu Hc Hp HS Ht. destruct (class_ok_at E c _ _ _ Hc Ht) as (_ & Hr & _).
  assert (Hsn : shadow n <> n) by (unfold shadow; lia).
  unfold post_safe in Hp. rewrite forallb_forall in Hp. specialize (Hp _ (trait_of_in _ _ _ _ Ht)). cbn in Hp.
  unfold setattr. rewrite Hu, Ht.
  destruct (validate_s E c s d v) as [w| |e] eqn:Hv; try discriminate.
  destruct (is_mapped d) eqn:Hm.
  2:{ (* not a mapped trait: no constraint on the shadow *)
      intros H. exists w. split; [reflexivity|]. split.
      - destruct (post_setattr d w) as [|x|e]; [inversion H; apply get_set_same|..];
          destruct (get s n) as [o|];
          try (destruct (pv_eqb o w); inversion H; subst; rewrite ?get_set_other by auto; apply get_set_same);
          destruct (post_setattr d dflt) as [|y|e']; try discriminate;
          destruct (pv_eqb dflt w); inversion H; subst; rewrite ?get_set_other by auto; apply get_set_same.
      - now apply shadow_ok_unmapped. }
  assert (Hv' : validate E d v = Accept w) by (destruct d; cbn in Hm; try discriminate; exact Hv).
  destruct (accepted_is_mapped E d v w Hm Hv') as [x Hx]. rewrite Hx.
  assert (Hdx : exists y, post_setattr d dflt = PostSet y).
  { destruct d; cbn in Hm; try discriminate; destruct (post_setattr _ dflt); try discriminate; eauto. }
  destruct Hdx as [y Hy]. rewrite Hy.
  pose proof (post_set_shadow_ok d w x Hm Hx) as Hokx.
  destruct (get s n) as [o|] eqn:Hg.
  - destruct (pv_eqb o w) eqn:Heq; intros H; inversion H; subst; exists w; split; try reflexivity.
    + apply pv_eqb_true in Heq. subst. split; [apply get_set_same|].
      rewrite get_set_other by auto. eapply HS; eauto.
    + split; [rewrite get_set_other by auto; apply get_set_same | now rewrite get_set_same].
  - destruct (pv_eqb dflt w) eqn:Heq; intros H; inversion H; subst; exists w; split; try reflexivity.
    + apply pv_eqb_true in Heq. subst. split; [apply get_set_same|].
      rewrite get_set_other by auto. rewrite get_set_same. now apply (post_set_shadow_ok d w y Hm).
    + split; [rewrite get_set_other by auto; apply get_set_same | now rewrite get_set_same].
Qed.

(* ---------- the law on one single-keyword operation ---------- *)
Lemma names_shadow_disjoint E c n m d dflt d' dflt' :
  class_ok E c = true -> trait_of c n = Some (d, dflt) -> trait_of c m = Some (d', dflt') -> m <> shadow n.
Proof.
  intros Hc Hn Hm. destruct (class_ok_at E c _ _ _ Hc Hn) as (_ & H1 & _).
  destruct (class_ok_at E c _ _ _ Hc Hm) as (_ & H2 & _). unfold shadow. lia.
Qed.

Definition keys_unique (c : cls) : Prop := forall n e, In (n, e) c -> trait_of c n = Some e.

(* ---------- invariants along histories of single-keyword attribute / trait_set operations ---------- *)
Lemma setattr_shinv E c s n v :
  is_undefined v = false -> class_ok E c = true -> post_safe c = true -> keys_unique c -> ShInv c s ->
  ShInv c (fst (setattr E c s n v)).
Proof.
  intros Hu Hc Hp Hk HS. destruct (trait_of c n) as [[d dflt]|] eqn:Ht.
  2:{ unfold setattr. now rewrite Ht. }
  destruct (setattr E c s n v) as [s' out] eqn:Hs. cbn [fst].
  destruct out as [|e].
  - destruct (setattr_ok E c s n v s' d dflt Hu Hc Hp HS Ht Hs) as (w & Hv & Hg & Hsh).
    intros m dm dfm wm Htm Hgm. destruct (Z.eq_dec m n) as [->|Hmn].
    + rewrite Ht in Htm. inversion Htm; subst. rewrite Hg in Hgm. inversion Hgm; subst. exact Hsh.
    + assert (Hms : m <> shadow n) by (eapply names_shadow_disjoint; eauto).
      destruct (class_ok_at E c _ _ _ Hc Htm) as (_ & Hrm & _).
      destruct (class_ok_at E c _ _ _ Hc Ht) as (_ & Hrn & _).
      pose proof (setattr_frame E c s n v m Hmn Hms) as F1. rewrite Hs in F1. cbn in F1.
      pose proof (setattr_frame E c s n v (shadow m)) as F2. rewrite Hs in F2. cbn in F2.
      rewrite F2 by (unfold shadow in *; lia). rewrite F1 in Hgm. eapply HS; eauto.
  - now rewrite (setattr_exception_no_effect E c s n v s' e Hu Hp Hs).
Qed.

(* the observation the model produces for one operation *)
Definition model_obs (E : env) (c : cls) (s : inst) (o : op) : obs :=
  mkObs (snd (step E c s o)) true (fst (step E c s o)).
Fixpoint model_hist (E : env) (c : cls) (s : inst) (ops : list op) : list (op * obs) :=
  match ops with
  | [] => []
  | o :: r => (o, model_obs E c s o) :: model_hist E c (fst (step E c s o)) r
  end.

Lemma shinv_empty c : ShInv c [].
Proof. intros n d dflt w _ H. discriminate. Qed.

(* ====================================================================================== *)
(* every operation: several keywords, trait_set, constructor                                *)
(* ====================================================================================== *)
Definition kw_ok (c : cls) (kw : list (Z * pv)) : Prop :=
  NoDup (map fst kw) /\ (forall p, In p kw -> exists e, trait_of c (fst p) = Some e) /\ kw_defined kw = true.

Lemma assign_all_shinv E c kw : forall s,
  kw_defined kw = true -> class_ok E c = true -> post_safe c = true -> keys_unique c -> ShInv c s ->
  ShInv c (fst (assign_all E c s kw)).
Proof.
  induction kw as [|[n v] kw IH]; intros s Hd Hc Hp Hk HS; cbn; [exact HS|].
  cbn in Hd. apply andb_prop in Hd as [Hv Hd]. apply negb_true_iff in Hv.
  pose proof (setattr_shinv E c s n v Hv Hc Hp Hk HS) as H1.
  destruct (setattr E c s n v) as [s1 [|e]]; cbn in *; [now apply IH | exact H1].
Qed.

Lemma assign_all_frame E c kw : forall s m,
  (forall p, In p kw -> m <> fst p /\ m <> shadow (fst p)) ->
  get (fst (assign_all E c s kw)) m = get s m.
Proof.
  induction kw as [|[n v] kw IH]; intros s m H; cbn; [reflexivity|].
  destruct (H (n, v) (or_introl eq_refl)) as [H1 H2]. cbn in H1, H2.
  pose proof (setattr_frame E c s n v m H1 H2) as F.
  destruct (setattr E c s n v) as [s1 [|e]]; cbn in *.
  - rewrite IH; [exact F|]. intros p Hp. apply H. now right.
  - exact F.
Qed.

(* all entries of a dictionary satisfying both invariants pass clause 1 *)
Lemma entries_ok E c s' (skip : Z * (desc * pv) -> bool) :
  keys_unique c -> Inv E c s' -> ShInv c s' ->
  forallb (fun nd => skip nd || entry_ok E s' nd) c = true.
Proof.
  intros Hk HI HS. apply forallb_forall. intros [m [dm dfm]] Hin. apply orb_true_iff. right. cbn.
  pose proof (Hk _ _ Hin) as Htm. destruct (get s' m) as [w|] eqn:Hg; [|reflexivity].
  rewrite (HI m dm dfm w Htm Hg). cbn. eapply HS; eauto.
Qed.

(* a successful sequence of assignments stores the documented conversion of every keyword *)
Lemma assign_all_ok E c kw : forall s s',
  class_ok E c = true -> post_safe c = true -> ShInv c s -> keys_unique c -> kw_ok c kw ->
  assign_all E c s kw = (s', Ok) ->
  forallb (fun p => match trait_of c (fst p), get s' (fst p) with
                    | Some (d, _), Some w => conv_ok1 E d (snd p) w
                    | _, _ => false
                    end) kw = true.
Proof.
  induction kw as [|[n v] kw IH]; intros s s' Hc Hp HS Hk (Hnd & Htr & Hdef) H; [reflexivity|].
  cbn in Hdef. apply andb_prop in Hdef as [Hu Hdef]. apply negb_true_iff in Hu.
  cbn in H. destruct (setattr E c s n v) as [s1 [|e]] eqn:Hs; [|discriminate].
  destruct (Htr (n, v) (or_introl eq_refl)) as [[d dflt] Ht]. cbn in Ht.
  destruct (setattr_ok E c s n v s1 d dflt Hu Hc Hp HS Ht Hs) as (w & Hv & Hg & _).
  destruct (class_ok_at E c _ _ _ Hc Ht) as (Hsd & Hr & _).
  unfold sound_hyp in Hsd. apply andb_prop in Hsd as [Hsd HB]. apply andb_prop in Hsd as [Hsd _].
  apply andb_prop in Hsd as [Hwf _].
  cbn in Hnd. inversion Hnd as [|? ? Hnotin Hnd']; subst.
  assert (HS1 : ShInv c s1).
  { pose proof (setattr_shinv E c s n v Hu Hc Hp Hk HS) as X. now rewrite Hs in X. }
  cbn [forallb fst snd]. rewrite Ht.
  (* the later keywords do not touch n *)
  assert (Hgn : get s' n = Some w).
  { pose proof (assign_all_frame E c kw s1 n) as F. rewrite H in F. cbn in F. rewrite F; [exact Hg|].
    intros p Hp'. destruct (Htr p (or_intror Hp')) as [[dp dfp] Htp].
    split.
    - intros ->. apply Hnotin. apply in_map_iff. now exists p.
    - destruct (class_ok_at E c _ _ _ Hc Htp) as (_ & Hrp & _). unfold shadow. lia. }
  rewrite Hgn, (vs_conv1 E c s d v w Hwf HB Hv). cbn.
  apply (IH s1 s'); auto. split; [exact Hnd'|]. split; [|exact Hdef]. intros p Hp'. apply Htr. now right.
Qed.

(* a failing sequence: the exception is TraitError or the own-protocol exception of one of the values *)
Lemma assign_all_exn E c kw : forall s s' e,
  class_ok E c = true -> post_safe c = true -> kw_ok c kw ->
  assign_all E c s kw = (s', Raise e) ->
  e = ETraitError \/ existsb (fun p => raises_own (snd p) e) kw = true.
Proof.
  induction kw as [|[n v] kw IH]; intros s s' e Hc Hp (Hnd & Htr & Hdef) H; [discriminate|].
  cbn in Hdef. apply andb_prop in Hdef as [Hu Hdef]. apply negb_true_iff in Hu.
  cbn in H. destruct (setattr E c s n v) as [s1 [|e1]] eqn:Hs.
  - inversion Hnd; subst. destruct (IH s1 s' e Hc Hp) as [->|Hx]; auto.
    + split; [assumption|]. split; [|exact Hdef]. intros p Hp'. apply Htr. now right.
    + right. cbn. rewrite Hx. apply orb_true_r.
  - inversion H; subst. destruct (Htr (n, v) (or_introl eq_refl)) as [[d dflt] Ht]. cbn in Ht.
    destruct (class_ok_at E c _ _ _ Hc Ht) as (Hsd & _).
    unfold sound_hyp in Hsd. apply andb_prop in Hsd as [Hsd _]. apply andb_prop in Hsd as [Hsd _].
    apply andb_prop in Hsd as [Hwf _].
    destruct (setattr_exception_class E c s n v s' e d dflt Hu Hp Ht Hwf Hs) as [->|Hown]; auto.
    right. cbn. now rewrite Hown.
Qed.

Definition op_ok (c : cls) (o : op) : Prop := kw_ok c (snd o).

Lemma law_step_model E c s o :
  class_ok E c = true -> post_safe c = true -> keys_unique c -> Inv E c s -> ShInv c s -> op_ok c o ->
  law_step E c s o (model_obs E c s o) = [].
Proof.
  intros Hc Hp Hk HI HS Hok. destruct o as [h kw]. unfold op_ok in Hok. cbn [snd] in Hok.
  unfold model_obs, law_step. cbn [o_out o_after o_names_attr].
  assert (Hdef : kw_defined kw = true) by (destruct Hok as (_ & _ & Hd); exact Hd).
  pose proof (step_inv E c s (h, kw) Hdef Hc HI) as HI'.
  assert (HS' : ShInv c (fst (step E c s (h, kw)))).
  { destruct h; cbn [step].
    - now apply assign_all_shinv.
    - now apply assign_all_shinv.
    - pose proof (assign_all_shinv E c kw [] Hdef Hc Hp Hk (shinv_empty c)) as X.
      destruct (assign_all E c [] kw) as [s1 [|e]]; cbn in *; assumption.
    - now apply assign_all_shinv. }
  rewrite (entries_ok E c _ _ Hk HI' HS'). cbn [chk app].
  (* clause 2: untouched names *)
  assert (H2 : same_on (filter (fun n => negb (touched kw n)) (names_of c))
                 (match h, snd (step E c s (h, kw)) with Ctor, Ok => [] | _, _ => s end)
                 (fst (step E c s (h, kw))) = true).
  { apply same_on_get. intros m Hm. apply filter_In in Hm as [_ Hm]. apply negb_true_iff in Hm.
    assert (Hnt : forall p, In p kw -> m <> fst p /\ m <> shadow (fst p)).
    { intros p Hp'. unfold touched in Hm.
      assert (Hx : (fst p =? m) || (shadow (fst p) =? m) = false).
      { destruct ((fst p =? m) || (shadow (fst p) =? m)) eqn:Hb; [|reflexivity].
        assert (existsb (fun p => (fst p =? m) || (shadow (fst p) =? m)) kw = true)
          by (apply existsb_exists; eauto). congruence. }
      apply orb_false_iff in Hx as [Ha Hb]. apply Z.eqb_neq in Ha, Hb. split; congruence. }
    destruct h; cbn [step].
    - destruct (assign_all E c s kw) as [s1 out] eqn:Ha. cbn [fst snd].
      pose proof (assign_all_frame E c kw s m Hnt) as F. rewrite Ha in F. cbn in F. now destruct out.
    - destruct (assign_all E c s kw) as [s1 out] eqn:Ha. cbn [fst snd].
      pose proof (assign_all_frame E c kw s m Hnt) as F. rewrite Ha in F. cbn in F. now destruct out.
    - destruct (assign_all E c [] kw) as [s1 [|e]] eqn:Ha; cbn [fst snd]; [|reflexivity].
      pose proof (assign_all_frame E c kw [] m Hnt) as F. rewrite Ha in F. cbn in F. now rewrite F.
    - destruct (assign_all E c s kw) as [s1 out] eqn:Ha. cbn [fst snd].
      pose proof (assign_all_frame E c kw s m Hnt) as F. rewrite Ha in F. cbn in F. now destruct out. }
  rewrite H2. cbn [chk app].
  (* clause 6: a single assignment to a name-based Range *)
  assert (H6 : match snd (step E c s (h, kw)) with
               | Ok => dyn_assign_ok c (match h with Ctor => [] | _ => s end) (fst (step E c s (h, kw))) kw
               | Raise _ => true
               end = true).
  { destruct kw as [|[n v] [|q kw']]; try (destruct (snd (step E c s (h, _))); reflexivity).
    assert (Hu : is_undefined v = false) by (cbn in Hdef; apply andb_prop in Hdef as [Hu _]; now apply negb_true_iff in Hu).
    assert (G : forall s0, ShInv c s0 ->
                match snd (setattr E c s0 n v) with
                | Ok => dyn_assign_ok c s0 (fst (setattr E c s0 n v)) [(n, v)]
                | Raise _ => true
                end = true).
    { intros s0 HS0. destruct (setattr E c s0 n v) as [s1 [|e]] eqn:Hs; [|reflexivity]. cbn [fst snd dyn_assign_ok].
      destruct (trait_of c n) as [[d dflt]|] eqn:Ht; [|reflexivity].
      destruct (setattr_ok E c s0 n v s1 d dflt Hu Hc Hp HS0 Ht Hs) as (w & Hv & Hg & _).
      destruct d; try reflexivity.
      - destruct (dyn_range_in_bounds_lemma E c s0 lo hi mask v w Hv) as (l & hh & z & Hl & Hh & -> & _ & Hr).
        now rewrite Hg, Hl, Hh.
      - destruct (dyn_enum_member_lemma E c s0 src v w Hv) as (-> & items & Hi & Hm). now rewrite Hg, Hi. }
    destruct h; cbn [step].
    - specialize (G s HS). cbn [assign_all]. destruct (setattr E c s n v) as [s1 [|e]]; exact G.
    - specialize (G s HS). cbn [assign_all]. destruct (setattr E c s n v) as [s1 [|e]]; exact G.
    - specialize (G [] (shinv_empty c)). cbn [assign_all]. destruct (setattr E c [] n v) as [s1 [|e]]; exact G.
    - specialize (G s HS). cbn [assign_all]. destruct (setattr E c s n v) as [s1 [|e]]; exact G. }
  (* clauses 3, 4, 5 *)
  destruct h; cbn [step] in *.
  - (* Attr *) destruct (assign_all E c s kw) as [s1 [|e]] eqn:Ha; cbn [fst snd].
    + rewrite (assign_all_ok E c kw s s1 Hc Hp HS Hk Hok Ha). cbn [fst snd] in H6. rewrite H6. reflexivity.
    + assert (H3 : match kw with [_] => same_on (names_of c) s s1 | _ => true end = true).
      { destruct kw as [|[n v] [|q kw']]; try reflexivity.
        cbn in Ha. destruct (setattr E c s n v) as [s2 [|e2]] eqn:Hs; inversion Ha; subst.
        assert (Hu : is_undefined v = false) by (cbn in Hdef; apply andb_prop in Hdef as [Hu _]; now apply negb_true_iff in Hu).
        rewrite (setattr_exception_no_effect E c s n v s1 e Hu Hp Hs). apply same_on_refl. }
      destruct (assign_all_exn E c kw s s1 e Hc Hp Hok Ha) as [->|Hx].
      * destruct kw as [|p [|q kw']]; rewrite ?H3; reflexivity.
      * destruct kw as [|p [|q kw']]; rewrite ?H3; cbn [chk app]; destruct e; rewrite ?Hx; reflexivity.
  - (* TraitSet *) destruct (assign_all E c s kw) as [s1 [|e]] eqn:Ha; cbn [fst snd].
    + rewrite (assign_all_ok E c kw s s1 Hc Hp HS Hk Hok Ha). cbn [fst snd] in H6. rewrite H6. reflexivity.
    + assert (H3 : match kw with [_] => same_on (names_of c) s s1 | _ => true end = true).
      { destruct kw as [|[n v] [|q kw']]; try reflexivity.
        cbn in Ha. destruct (setattr E c s n v) as [s2 [|e2]] eqn:Hs; inversion Ha; subst.
        assert (Hu : is_undefined v = false) by (cbn in Hdef; apply andb_prop in Hdef as [Hu _]; now apply negb_true_iff in Hu).
        rewrite (setattr_exception_no_effect E c s n v s1 e Hu Hp Hs). apply same_on_refl. }
      destruct (assign_all_exn E c kw s s1 e Hc Hp Hok Ha) as [->|Hx].
      * destruct kw as [|p [|q kw']]; rewrite ?H3; reflexivity.
      * destruct kw as [|p [|q kw']]; rewrite ?H3; cbn [chk app]; destruct e; rewrite ?Hx; reflexivity.
  - (* Ctor *) destruct (assign_all E c [] kw) as [s1 [|e]] eqn:Ha; cbn [fst snd].
    + rewrite (assign_all_ok E c kw [] s1 Hc Hp (shinv_empty c) Hk Hok Ha). cbn [fst snd] in H6. rewrite H6. reflexivity.
    + rewrite same_on_refl. cbn [chk app].
      destruct (assign_all_exn E c kw [] s1 e Hc Hp Hok Ha) as [->|Hx]; [reflexivity|].
      destruct e; rewrite ?Hx; reflexivity.
  - (* TraitSetQ *) destruct (assign_all E c s kw) as [s1 [|e]] eqn:Ha; cbn [fst snd].
    + rewrite (assign_all_ok E c kw s s1 Hc Hp HS Hk Hok Ha). cbn [fst snd] in H6. rewrite H6. reflexivity.
    + assert (H3 : match kw with [_] => same_on (names_of c) s s1 | _ => true end = true).
      { destruct kw as [|[n v] [|q kw']]; try reflexivity.
        cbn in Ha. destruct (setattr E c s n v) as [s2 [|e2]] eqn:Hs; inversion Ha; subst.
        assert (Hu : is_undefined v = false) by (cbn in Hdef; apply andb_prop in Hdef as [Hu _]; now apply negb_true_iff in Hu).
        rewrite (setattr_exception_no_effect E c s n v s1 e Hu Hp Hs). apply same_on_refl. }
      destruct (assign_all_exn E c kw s s1 e Hc Hp Hok Ha) as [->|Hx].
      * destruct kw as [|p [|q kw']]; rewrite ?H3; reflexivity.
      * destruct kw as [|p [|q kw']]; rewrite ?H3; cbn [chk app]; destruct e; rewrite ?Hx; reflexivity.
Qed.

Lemma law_on_every_history E c : class_ok E c = true -> post_safe c = true -> keys_unique c ->
  forall ops s i, Inv E c s -> ShInv c s -> Forall (op_ok c) ops ->
    law_hist E c i s (model_hist E c s ops) = [].
Proof.
  intros Hc Hp Hk. induction ops as [|o ops IH]; intros s i HI HS Hok; [reflexivity|].
  inversion Hok as [|? ? Ho Hok']; subst.
  cbn [model_hist law_hist]. rewrite (law_step_model E c s o Hc Hp Hk HI HS Ho). cbn [map app].
  unfold model_obs at 1. cbn [o_after].
  assert (Hdef : kw_defined (snd o) = true) by (destruct Ho as (_ & _ & Hd); exact Hd).
  apply IH; auto.
  - now apply step_inv.
  - destruct o as [h kw]. cbn [snd] in Hdef. destruct h; cbn [step].
    + now apply assign_all_shinv.
    + now apply assign_all_shinv.
    + pose proof (assign_all_shinv E c kw [] Hdef Hc Hp Hk (shinv_empty c)) as X.
      destruct (assign_all E c [] kw) as [s1 [|e]]; cbn in *; assumption.
    + now apply assign_all_shinv.
Qed.

(* ====================================================================================== *)
(* reading before assigning                                                                *)
(* ====================================================================================== *)
(* what is stored is no licence: an assignment the validator rejects is rejected in EVERY dictionary — also one
   that already holds that very value (an unvalidated default a read put there) — and changes nothing *)
Lemma setattr_rejects_whatever_is_stored E c s n d dflt v :
  trait_of c n = Some (d, dflt) -> is_undefined v = false -> validate_s E c s d v = Reject ->
  setattr E c s n v = (s, Raise ETraitError).
Proof. intros Ht Hu Hv. unfold setattr. now rewrite Ht, Hu, Hv. Qed.

Lemma read_then_assign_default_rejected E c s n d dflt :
  trait_of c n = Some (d, dflt) -> is_undefined dflt = false -> validate_s E c (read_attr c s n) d dflt = Reject ->
  get (read_attr c s n) n <> None /\
  setattr E c (read_attr c s n) n dflt = (read_attr c s n, Raise ETraitError).
Proof.
  intros Ht Hu Hv. split.
  - unfold read_attr. rewrite Ht. destruct (get s n) eqn:Hg; [congruence | rewrite get_set_same; discriminate].
  - eapply setattr_rejects_whatever_is_stored; eauto.
Qed.

(* reads of attributes without a post_setattr whose default lies in the domain keep both invariants: the law holds on
   every history that starts after such reads *)
Definition read_ok (E : env) (c : cls) (n : Z) : Prop :=
  forall d dflt, trait_of c n = Some (d, dflt) -> has_post d = false /\ dom E d dflt = true.

Lemma has_post_false_unmapped d : has_post d = false -> is_mapped d = false.
Proof. destruct d; cbn; try discriminate; reflexivity. Qed.

Lemma read_attr_inv E c s n : read_ok E c n -> Inv E c s -> Inv E c (read_attr c s n).
Proof.
  intros Hr HI. unfold read_attr. destruct (trait_of c n) as [[d dflt]|] eqn:Ht; [|exact HI].
  destruct (get s n); [exact HI|]. apply inv_set; [exact HI|].
  intros d' dflt' H. rewrite Ht in H. inversion H; subst. now destruct (Hr _ _ Ht).
Qed.

Lemma read_attr_shinv E c s n : class_ok E c = true -> read_ok E c n -> ShInv c s -> ShInv c (read_attr c s n).
Proof.
  intros Hc Hr HS. unfold read_attr. destruct (trait_of c n) as [[d dflt]|] eqn:Ht; [|exact HS].
  destruct (get s n) eqn:Hg; [exact HS|].
  destruct (class_ok_at E c _ _ _ Hc Ht) as (_ & Hn & _).
  intros m dm dfm w Htm. destruct (Z.eq_dec m n) as [->|Hmn].
  - rewrite Ht in Htm. inversion Htm; subst. intros _. apply shadow_ok_unmapped, has_post_false_unmapped.
    now destruct (Hr _ _ Ht).
  - rewrite get_set_other by auto. intros Hw.
    assert (Hsn : shadow m <> n).
    { destruct (class_ok_at E c _ _ _ Hc Htm) as (_ & Hm & _). unfold shadow. lia. }
    rewrite get_set_other by auto. eapply HS; eauto.
Qed.

Lemma pre_state_invs E c pre : class_ok E c = true -> Forall (read_ok E c) pre ->
  Inv E c (pre_state c pre) /\ ShInv c (pre_state c pre).
Proof.
  intros Hc. unfold pre_state.
  assert (G : forall s, Inv E c s -> ShInv c s -> Forall (read_ok E c) pre ->
                        Inv E c (fold_left (read_attr c) pre s) /\ ShInv c (fold_left (read_attr c) pre s)).
  { induction pre as [|n pre IH]; intros s HI HS Hf; cbn [fold_left]; [now split|].
    inversion Hf; subst. apply IH; auto.
    - now apply read_attr_inv.
    - now apply (read_attr_shinv E). }
  intros Hf. apply G; auto.
  - intros n d dflt w _ H. discriminate.
  - apply shinv_empty.
Qed.

Lemma law_after_reads E c pre ops i :
  class_ok E c = true -> post_safe c = true -> keys_unique c -> Forall (read_ok E c) pre -> Forall (op_ok c) ops ->
  law_hist E c i (pre_state c pre) (model_hist E c (pre_state c pre) ops) = [].
Proof.
  intros Hc Hp Hk Hr Hok. destruct (pre_state_invs E c pre Hc Hr) as [HI HS].
  now apply law_on_every_history.
Qed.

(* the initial dictionary the model predicts passes clause 8 of the law (names read are trait names, listed once) *)
Lemma law_pre_model_example :
  let c := [(0, (DInstance 100 false false, PNone)); (1, (DInt, PInt 0)); (2, (DString 2 4 None, PStr []))] in
  law_pre c [2; 0] (pre_state c [2; 0]) = [] /\ law_pre c [2; 0] [] <> [] /\ law_pre c [] [(1, PInt 0)] <> [].
Proof. vm_compute. repeat split; discriminate. Qed.
