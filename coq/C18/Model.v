(* C18 — reference-count ledger of the attribute paths of ctraits.c.

   Executable model only.  Every Py_INCREF / Py_DECREF / "new reference returned" of the
   modelled C functions is an explicit ledger event (atom, +1 | -1); the instance __dict__ is an
   association list.  Modelled, line by line:
     default_value_for   ctraits.c:1840-1913  (CONSTANT and CALLABLE_DEFAULT_VALUE cases)
     getattr_trait       ctraits.c:1953-2012
     call_notifiers      ctraits.c:2259-2329  (args tuple packs obj/old/new; the copy of the list)
     setattr_event       ctraits.c:2335-2367
     setattr_trait       ctraits.c:2373-2553  (delete path 2392-2443, assignment path 2445-2552,
                                               incl. the PyDict_SetItem failure exit 2521-2530)
     has_traits_getattro ctraits.c:837-889    (instance dict hit: new reference to the caller)
   Atoms are integers; atoms < 0 are the immortal singletons (None, Undefined, Uninitialized),
   whose counts nobody observes.  The object itself is an ordinary atom (it can be stored in
   its own attribute).  Names are immortal on CPython 3.12 once used as attribute names
   (interned), so their counts are not observable and are not part of the ledger (DESIGN F13). *)
From Coq Require Import ZArith List Bool.
Import ListNotations.
Open Scope Z_scope.

Definition atom := Z.
Definition A_NONE : atom := -3.
Definition A_FRESH : atom := -4.      (* a container object created by call_class: never identical to an older one *)

Inductive exn := TraitError | UserExn | AttributeError | OtherError.
Inductive outcome := Ok | Raise (e : exn) | Crashed.   (* Crashed: only ever observed on an implementation *)

(* what trait->validate does with a value *)
Inductive vres := VSame | VConv (w : atom) | VReject | VRaise.
(* default value: CONSTANT_DEFAULT_VALUE d, or CALLABLE_DEFAULT_VALUE (_name_default method)
   returning r (a new reference) / raising *)
Inductive dflt := DConst (d : atom) | DCall (r : option atom)
                | DObj.   (* TRAIT_LIST/DICT/SET_OBJECT_DEFAULT_VALUE: call_class builds a NEW container object *)
Inductive post := PNone | POk | PRaise.
Inductive kind := KTrait | KEvent | KProp.

Record tcfg := {
  t_kind : kind;
  t_has_validate : bool;               (* trait->validate != NULL *)
  t_vld : list (atom * vres);          (* table; default VSame *)
  t_orig : bool;                       (* TRAIT_SETATTR_ORIGINAL_VALUE *)
  t_dflt : dflt;
  t_post : post;                       (* trait->post_setattr: NULL / succeeds / raises *)
  t_cmp_none : bool;                   (* TRAIT_COMPARISON_MODE_NONE *)
  t_handlers : list bool               (* notifiers on the trait, in order; true = raises *)
}.

Record cfg := {
  c_obj : atom;                        (* the object itself *)
  c_reraise : bool;                    (* handler exceptions propagate into call_notifiers *)
  c_dictfail : bool;                   (* fault injection (model only): PyDict_SetItem fails at 2521 *)
  c_traits : list (Z * tcfg)
}.

Inductive op := SetA (n : Z) (v : atom) | GetA (n : Z) | DelA (n : Z)
              | ValA (n : Z) (v : atom)      (* CTrait.validate(obj, name, v): _trait_validate 4505-4521 *)
              | DefA (n : Z).                (* CTrait.default_value_for(obj, name): 3177-3188 *)

Definition dict := list (Z * atom).
Definition ledger := list (atom * Z).

Record obs := {
  o_out : outcome;
  o_dict : dict;
  o_calls : Z;                         (* user handler invocations during the step *)
  o_delta : list (atom * Z)            (* count change per measured atom, after the caller dropped the result *)
}.

(* ---------- dictionary ---------- *)
Fixpoint lookup (d : dict) (n : Z) : option atom :=
  match d with [] => None | (k, v) :: r => if k =? n then Some v else lookup r n end.
(* removes the binding [lookup] finds (a real dict has one binding per key) *)
Fixpoint remove (d : dict) (n : Z) : dict :=
  match d with [] => [] | (k, v) :: r => if k =? n then r else (k, v) :: remove r n end.
Definition store (d : dict) (n : Z) (v : atom) : dict := (n, v) :: remove d n.
(* indicator *)
Definition ind (x a : atom) : Z := if x =? a then 1 else 0.
Definition oind (x : option atom) (a : atom) : Z := match x with Some y => ind y a | None => 0 end.
(* number of references the state holds to a *)
Fixpoint occ (d : dict) (a : atom) : Z :=
  match d with [] => 0 | (_, v) :: r => ind v a + occ r a end.

(* ---------- ledger ---------- *)
Fixpoint net (l : ledger) (a : atom) : Z :=
  match l with [] => 0 | (x, k) :: r => k * ind x a + net r a end.
Definition inc (a : atom) (l : ledger) : ledger := (a, 1) :: l.
Definition dec (a : atom) (l : ledger) : ledger := (a, -1) :: l.
Definition xdec (a : option atom) (l : ledger) : ledger := match a with Some x => dec x l | None => l end.
(* PyDict_SetItem: the dict takes a reference to the new value and drops the replaced one *)
Definition l_store (d : dict) (n : Z) (v : atom) (l : ledger) : ledger := xdec (lookup d n) (inc v l).
Definition l_remove (d : dict) (n : Z) (l : ledger) : ledger := xdec (lookup d n) l.

Fixpoint tlookup (ts : list (Z * tcfg)) (n : Z) : option tcfg :=
  match ts with [] => None | (k, t) :: r => if k =? n then Some t else tlookup r n end.
Fixpoint vlookup (tb : list (atom * vres)) (v : atom) : vres :=
  match tb with [] => VSame | (k, r) :: rest => if k =? v then r else vlookup rest v end.

(* trait->validate(trait, obj, name, v): Some (w, ledger) — a NEW reference to w — or the error *)
Definition validate (t : tcfg) (v : atom) (l : ledger) : (option atom * exn) * ledger :=
  if t_has_validate t then
    match vlookup (t_vld t) v with
    | VSame => (Some v, TraitError, inc v l)
    | VConv w => (Some w, TraitError, inc w l)
    | VReject => (None, TraitError, l)
    | VRaise => (None, UserExn, l)
    end
  else (Some v, TraitError, inc v l).        (* 2454-2456 / 2351-2353: Py_INCREF(value) *)

(* call_notifiers 2259-2329.  Returns (rc ok?, user calls, ledger).  The args tuple holds
   obj, old, new while the handlers run; the wrapper filters old = Uninitialized (trait_notifiers
   _change_accepted) so that no user handler runs for a default materialisation. *)
Fixpoint run_handlers (reraise : bool) (hs : list bool) : bool * Z :=
  match hs with
  | [] => (true, 0)
  | raises :: r =>
      if raises && reraise then (false, 1)
      else let '(ok, k) := run_handlers reraise r in (ok, 1 + k)
  end.

Definition call_notifiers (c : cfg) (t : tcfg) (user : bool) (old new : atom) (l : ledger) : bool * Z * ledger :=
  let l1 := inc (c_obj c) (inc old (inc new l)) in                  (* PyTuple_Pack *)
  (* trait_notifiers._change_accepted: in equality mode the wrapper drops old == new *)
  let '(ok, k) := if user && (t_cmp_none t || negb (old =? new))
                  then run_handlers (c_reraise c) (t_handlers t) else (true, 0) in
  (ok, k, dec (c_obj c) (dec old (dec new l1))).                     (* Py_DECREF(args) *)

Definition has_notifiers (t : tcfg) : bool := match t_handlers t with [] => false | _ => true end.

Definition run_post (t : tcfg) : option bool :=    (* None: no post_setattr; Some ok *)
  match t_post t with PNone => None | POk => Some true | PRaise => Some false end.

(* default_value_for 1840-1913: Some (result, ledger) is a new reference *)
Definition default_value_for (t : tcfg) (l : ledger) : (option atom * exn) * ledger :=
  match t_dflt t with
  | DConst d => (Some d, OtherError, inc d l)                         (* 1848-1853 *)
  | DCall None => (None, UserExn, l)                                  (* 1883: PyObject_Call fails *)
  | DCall (Some r) =>
      let l1 := inc r l in                                            (* result: new reference *)
      if t_has_validate t then                                        (* 1885-1899 *)
        match validate t r l1 with
        | (Some w, _, l2) =>
            if t_orig t then (Some r, OtherError, dec w l2)           (* 1892 *)
            else (Some w, OtherError, dec r l2)                       (* 1896-1897 *)
        | (None, e, l2) =>
            if t_orig t then (None, e, dec r l2)                      (* 1888-1890 *)
            else (None, e, dec r l2)                                  (* 1896: result = NULL *)
        end
      else (Some r, OtherError, l1)
  | DObj => (Some A_FRESH, OtherError, inc A_FRESH l)                 (* 1862-1867, 1902-1904: call_class (583-603):
                                                                        the args tuple takes and releases obj, name,
                                                                        handler, value; the result is a new reference *)
  end.

Record res := { r_dict : dict; r_out : outcome; r_calls : Z; r_ledger : ledger; r_ret : option atom }.
Definition mk (d : dict) (o : outcome) (k : Z) (l : ledger) (r : option atom) : res :=
  {| r_dict := d; r_out := o; r_calls := k; r_ledger := l; r_ret := r |}.

(* getattr_trait 1953-2012 (the attribute is not in the instance dict) *)
Definition getattr_trait (c : cfg) (t : tcfg) (d : dict) (n : Z) (l : ledger) : res :=
  match default_value_for t l with
  | (None, e, l1) => mk d (Raise e) 0 l1 None                          (* 1980 *)
  | (Some r, _, l1) =>
      let d1 := store d n r in
      let l2 := l_store d n r l1 in                                    (* 1983 *)
      match run_post t with
      | Some false => mk d1 (Raise UserExn) 0 (dec r l2) None          (* 1990-1993 -> error: *)
      | _ =>
          if has_notifiers t then
            let '(ok, k, l3) := call_notifiers c t false A_NONE r l2 in (* old = Uninitialized *)
            if ok then mk d1 Ok k l3 (Some r) else mk d1 (Raise UserExn) k (dec r l3) None
          else mk d1 Ok 0 l2 (Some r)
      end
  end.

(* has_traits_getattro: instance dict first *)
Definition do_get (c : cfg) (t : tcfg) (d : dict) (n : Z) : res :=
  match lookup d n with
  | Some v => mk d Ok 0 (inc v []) (Some v)
  | None =>
      match t_kind t with
      | KEvent => mk d (Raise AttributeError) 0 [] None                (* getattr_event *)
      | _ => getattr_trait c t d n []
      end
  end.

(* setattr_event 2335-2367 *)
Definition setattr_event (c : cfg) (t : tcfg) (d : dict) (v : atom) : res :=
  match validate t v [] with
  | (None, e, l1) => mk d (Raise e) 0 l1 None
  | (Some w, _, l1) =>
      if has_notifiers t then
        let '(ok, k, l2) := call_notifiers c t true A_NONE w l1 in
        mk d (if ok then Ok else Raise UserExn) k (dec w l2) None      (* 2363 *)
      else mk d Ok 0 (dec w l1) None
  end.

(* setattr_trait, assignment path 2445-2552 (traitd == traito) *)
Definition setattr_trait (c : cfg) (t : tcfg) (d : dict) (n : Z) (v : atom) : res :=
  match validate t v [] with
  | (None, e, l1) => mk d (Raise e) 0 l1 None                          (* 2449-2452 *)
  | (Some value, _, l1) =>
      let new_value := if t_orig t then v else value in                (* 2471 *)
      let do_notifiers := has_notifiers t in
      (* 2480-2519: old value, materialising the default if absent *)
      let phase :=
        if (match run_post t with Some _ => true | None => false end) || do_notifiers then
          match lookup d n with
          | Some o => inl (d, Some o, inc o l1)                        (* 2513 *)
          | None =>
              match default_value_for t l1 with                        (* 2491 *)
              | (None, e, l2) => inr (mk d (Raise e) 0 (dec value l2) None)      (* 2492-2495 *)
              | (Some o, _, l2) =>
                  let d1 := store d n o in
                  let l3 := l_store d n o l2 in                        (* 2496 *)
                  match run_post t with
                  | Some false => inr (mk d1 (Raise UserExn) 0 (dec value (dec o l3)) None) (* 2503-2508 *)
                  | _ => inl (d1, Some o, l3)
                  end
              end
          end
        else inl (d, None, l1) in
      match phase with
      | inr r => r
      | inl (d1, old, l2) =>
          let changed := t_cmp_none t ||
                         match old with Some o => negb (o =? new_value) | None => false end in
                         (* 2516-2518: `old_value != new_value` — the object actually stored (repair 3fe28c1) *)
          if c_dictfail c then
            (* 2521-2530: Py_XDECREF(old_value); Py_DECREF(name); Py_DECREF(value) *)
            mk d1 (Raise OtherError) 0 (dec value (xdec old l2)) None
          else
          let d2 := store d1 n new_value in
          let l3 := l_store d1 n new_value l2 in                       (* 2521 *)
          let '(rc, k, l4) :=
            if changed then
              match run_post t with
              | Some false => (false, 0, l3)                           (* 2536: rc < 0 *)
              | _ =>
                  if do_notifiers then
                    call_notifiers c t true (match old with Some o => o | None => A_NONE end) new_value l3
                  else (true, 0, l3)
              end
            else (true, 0, l3) in
          mk d2 (if rc then Ok else Raise UserExn) k (dec value (xdec old l4)) None   (* 2549-2550 *)
      end
  end.

(* setattr_trait, delete path 2392-2443.  `alloc`: a notifier list exists (tnotifiers != NULL) *)
Definition delattr_trait (c : cfg) (t : tcfg) (d : dict) (n : Z) : res :=
  match lookup d n with
  | None => mk d Ok 0 [] None                                          (* 2402-2404 *)
  | Some o =>
      let l1 := inc o [] in                                            (* 2406 *)
      let d1 := remove d n in
      let l2 := l_remove d n l1 in                                     (* 2407 *)
      if has_notifiers t then                                          (* 2416 (lists are never emptied here) *)
        let g := getattr_trait c t d1 n l2 in                          (* 2417: traito->getattr *)
        match r_ret g with
        | None => mk (r_dict g) (r_out g) (r_calls g) (dec o (r_ledger g)) None      (* 2418-2421 *)
        | Some value =>
            let changed := t_cmp_none t || negb (o =? value) || (value =? A_FRESH) in   (* 2423-2425; a freshly
                                                                        built container is a different object *)
            let '(rc, k, l3) :=
              if changed then
                match run_post t with
                | Some false => (false, 0, r_ledger g)
                | _ => call_notifiers c t true o value (r_ledger g)
                end
              else (true, 0, r_ledger g) in
            mk (r_dict g) (if rc then Ok else Raise UserExn) (r_calls g + k) (dec o (dec value l3)) None (* 2438-2441 *)
        end
      else mk d1 Ok 0 (dec o l2) None                                  (* 2441 *)
  end.

(* ---------- property traits ----------
   getattr_property1 2113-2126 (fget(obj)), setattr_property2 2716-2738 (fset(obj, value)),
   setattr_validate_property 2766-2785 (validated = trait->validate(...); post_setattr(validated);
   Py_DECREF(validated)), set_delete_property_error.  Configuration reuses the trait record:
   t_dflt = DCall None: the getter raises, otherwise it returns the shadow attribute (or None);
   t_post = POk: the setter stores its argument in the shadow attribute `_pv<n>` of the instance
   dict (a reference the state legitimately holds), PNone: drops it, PRaise: raises;
   t_has_validate / t_vld: the property's validator. *)
Definition shadow (n : Z) : Z := n + 1000.

Definition getattr_prop (c : cfg) (t : tcfg) (d : dict) (n : Z) : res :=
  let l1 := inc (c_obj c) [] in                                       (* PyTuple_Pack(1, obj) *)
  match t_dflt t with
  | DCall None => mk d (Raise UserExn) 0 (dec (c_obj c) l1) None       (* the getter raises *)
  | _ => let r := match lookup d (shadow n) with Some v => v | None => A_NONE end in
         mk d Ok 0 (dec (c_obj c) (inc r l1)) (Some r)                 (* result: new reference *)
  end.

Definition run_setter (c : cfg) (t : tcfg) (d : dict) (n : Z) (v : atom) (l : ledger) : dict * bool * ledger :=
  let l1 := inc (c_obj c) (inc v l) in                                 (* PyTuple_Pack(2, obj, value) *)
  match t_post t with
  | POk => (store d (shadow n) v, true, dec (c_obj c) (dec v (l_store d (shadow n) v l1)))
  | PNone => (d, true, dec (c_obj c) (dec v l1))
  | PRaise => (d, false, dec (c_obj c) (dec v l1))
  end.

Definition setattr_prop (c : cfg) (t : tcfg) (d : dict) (n : Z) (v : atom) : res :=
  if t_has_validate t then
    match validate t v [] with                                         (* 2777 *)
    | (None, e, l1) => mk d (Raise e) 0 l1 None
    | (Some w, _, l1) =>
        let '(d', ok, l2) := run_setter c t d n w l1 in                (* 2781 *)
        mk d' (if ok then Ok else Raise UserExn) 0 (dec w l2) None     (* 2783 *)
    end
  else
    let '(d', ok, l2) := run_setter c t d n v [] in
    mk d' (if ok then Ok else Raise UserExn) 0 l2 None.

(* ---------- _trait_setstate 4907-4960, the object slots ----------
   PyArg_ParseTuple stores BORROWED references to the seven objects of the state tuple directly into
   the trait's fields (py_post_setattr, py_validate, default_value, delegate_name, delegate_prefix,
   handler, obj_dict), then each is Py_INCREF'ed (4950-4956).  The previous contents of the fields are
   not released.  [old] = what the trait held before, [new] = the objects of the state tuple. *)
Definition setstate_ledger (old new : list atom) : ledger := fold_right inc [] new.
Fixpoint held (slots : list atom) (a : atom) : Z :=
  match slots with [] => 0 | x :: r => ind x a + held r a end.

Definition do_op (c : cfg) (d : dict) (o : op) : res :=
  match o with
  | GetA n => match tlookup (c_traits c) n with
              | Some t => match t_kind t with KProp => getattr_prop c t d n | _ => do_get c t d n end
              | None => mk d (Raise AttributeError) 0 [] None
              end
  | SetA n v => match tlookup (c_traits c) n with
                | Some t => match t_kind t with
                            | KTrait => setattr_trait c t d n v
                            | KEvent => setattr_event c t d v
                            | KProp => setattr_prop c t d n v
                            end
                | None => mk d (Raise AttributeError) 0 [] None
                end
  | DelA n => match tlookup (c_traits c) n with
              | Some t => match t_kind t with
                          | KTrait => delattr_trait c t d n
                          | KEvent => mk d Ok 0 [] None                 (* setattr_event, value == NULL *)
                          | KProp => mk d (Raise TraitError) 0 [] None  (* set_delete_property_error *)
                          end
              | None => mk d (Raise AttributeError) 0 [] None
              end
  | ValA n v => match tlookup (c_traits c) n with
                | Some t => match validate t v [] with               (* NULL validator: Py_INCREF(value) *)
                            | (Some w, _, l1) => mk d Ok 0 l1 (Some w)
                            | (None, e, l1) => mk d (Raise e) 0 l1 None
                            end
                | None => mk d (Raise AttributeError) 0 [] None
                end
  | DefA n => match tlookup (c_traits c) n with
              | Some t => match default_value_for t [] with
                          | (Some r, _, l1) => mk d Ok 0 l1 (Some r)
                          | (None, e, l1) => mk d (Raise e) 0 l1 None
                          end
              | None => mk d (Raise AttributeError) 0 [] None
              end
  end.

(* what a caller that drops the returned reference observes *)
Definition observed_delta (r : res) (a : atom) : Z :=
  net (r_ledger r) a - oind (r_ret r) a.

Definition step (c : cfg) (pool : list atom) (d : dict) (o : op) : dict * obs :=
  let r := do_op c d o in
  (r_dict r, {| o_out := r_out r; o_dict := r_dict r; o_calls := r_calls r;
                o_delta := map (fun a => (a, observed_delta r a)) pool |}).

Fixpoint run (c : cfg) (pool : list atom) (d : dict) (ops : list op) : list (op * obs) :=
  match ops with
  | [] => []
  | o :: r => let '(d', ob) := step c pool d o in (o, ob) :: run c pool d' r
  end.
