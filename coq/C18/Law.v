(* C18 — the property as a boolean checker on ONE observed history (never mentions Model.do_op).

   Per step, given the instance dict before the step (the previous observation's dict):
     clause 1  reference neutrality: for every measured atom (the values passed in, the values
               validators/defaults produce, the object itself) the change of its reference count
               equals the change of the number of references the state holds to it
               (occurrences as a value of the instance __dict__) — on success AND on failure;
     clause 2  errors surface as Python exceptions: the step did not crash the process
               (segfault, abort, sanitiser report). *)
From Coq Require Import ZArith List Bool.
From TV Require Import Common.Harness C18.Model.
Import ListNotations.
Open Scope Z_scope.

Definition neutral (before : dict) (ob : obs) : bool :=
  forallb (fun p => snd p =? occ (o_dict ob) (fst p) - occ before (fst p)) (o_delta ob).

Definition not_crashed (ob : obs) : bool := match o_out ob with Crashed => false | _ => true end.

Definition law_step (before : dict) (ob : obs) : list Z :=
  chk 1 (neutral before ob) ++ chk 2 (not_crashed ob).

Fixpoint law_hist (i : Z) (d : dict) (h : list (op * obs)) : list Z :=
  match h with
  | [] => []
  | (_, ob) :: r => map (fun c => 100 * i + c) (law_step d ob) ++ law_hist (i + 1) (o_dict ob) r
  end.

(* Prop reading of clause 1 *)
Definition Neutral (before : dict) (ob : obs) : Prop :=
  forall a k, In (a, k) (o_delta ob) -> k = occ (o_dict ob) a - occ before a.
