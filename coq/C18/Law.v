(* C18 — the property as a boolean checker on ONE observed history (never mentions Model.do_op).

   Per step, given the instance dict before the step (the previous observation's dict):
     clause 1  reference neutrality: for every measured atom (the values passed in, the values
               validators/defaults produce, the object itself) the change of its reference count
               equals the change of the number of references the state holds to it
               (occurrences as a value of the instance __dict__) — on success AND on failure;
     clause 2  errors surface as Python exceptions: the step did not crash the process
               (segfault, abort, sanitiser report). *)
From Coq Require Import ZArith List Bool.
From TV Require Import Common.Harness C18.Model.
Import ListNotations.
Open Scope Z_scope.

Definition neutral (before : dict) (ob : obs) : bool :=
  forallb (fun p => snd p =? occ (o_dict ob) (fst p) - occ before (fst p)) (o_delta ob).

Definition not_crashed (ob : obs) : bool := match o_out ob with Crashed => false | _ => true end.

Definition law_step (before : dict) (ob : obs) : list Z :=
  chk 1 (neutral before ob) ++ chk 2 (not_crashed ob).

Fixpoint law_hist (i : Z) (d : dict) (h : list (op * obs)) : list Z :=
  match h with
  | [] => []
  | (_, ob) :: r => map (fun c => 100 * i + c) (law_step d ob) ++ law_hist (i + 1) (o_dict ob) r
  end.

(* Prop reading of clause 1 *)
Definition Neutral (before : dict) (ob : obs) : Prop :=
  forall a k, In (a, k) (o_delta ob) -> k = occ (o_dict ob) a - occ before a.

(* ----- native stream: the C fast validators, containers, delegates and special trait types are
   exercised with fresh (mortal) objects — instances, run-time-built strings, large integers.  There is
   no Gallina model of those paths (their value semantics is C01/C03's business); the law is evaluated
   on the implementation's observation only: per step, for every measured object, the change of its
   reference count equals the change of the number of references the reachable instance state holds to
   it (slots of the instance dicts and of the tuples / lists / dicts / sets stored there, counted by the
   driver before and after the step). *)
Definition nstep := (bool * list (atom * Z * Z * Z))%type.   (* crashed, (object, delta, held before, held after) *)

Definition native_step_codes (s : nstep) : list Z :=
  let '(crashed, rows) := s in
  chk 1 (forallb (fun r => let '(a, delta, hb, ha) := r in delta =? ha - hb) rows)
  ++ chk 2 (negb crashed).

Fixpoint native_hist (i : Z) (h : list nstep) : list Z :=
  match h with
  | [] => []
  | s :: r => map (fun c => 100 * i + c) (native_step_codes s) ++ native_hist (i + 1) r
  end.
Definition native_law_codes (h : list nstep) : list Z := native_hist 0 h.
