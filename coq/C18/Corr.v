(* C18 — correspondence: one case = configuration, measured atoms, initial dict and the history of
   (operation, observation recorded from the implementation: outcome class, instance dict,
   user-handler invocations, sys.getrefcount deltas). *)
From Coq Require Import ZArith List Bool.
From TV Require Import Common.Harness C18.Model C18.Law.
Import ListNotations.
Open Scope Z_scope.

Definition case := (cfg * list atom * dict * list (op * obs))%type.

Definition exn_eqb (a b : exn) : bool :=
  match a, b with
  | TraitError, TraitError | UserExn, UserExn | AttributeError, AttributeError | OtherError, OtherError => true
  | _, _ => false
  end.
Definition outcome_eqb (a b : outcome) : bool :=
  match a, b with
  | Ok, Ok => true | Raise x, Raise y => exn_eqb x y | Crashed, Crashed => true | _, _ => false
  end.
Definition dict_eqb (names : list Z) (a b : dict) : bool :=
  forallb (fun n => opt_eqb Z.eqb (lookup a n) (lookup b n)) names.
Definition delta_eqb (a b : list (atom * Z)) : bool :=
  list_eqb (fun p q => (fst p =? fst q) && (snd p =? snd q)) a b.

(* codes: 100*step + 1 outcome, 2 dict, 3 handler calls, 4 reference-count deltas *)
Definition obs_diff (names : list Z) (m i : obs) : list Z :=
  chk 1 (outcome_eqb (o_out m) (o_out i))
  ++ chk 2 (dict_eqb names (o_dict m) (o_dict i))
  ++ chk 3 (o_calls m =? o_calls i)
  ++ chk 4 (delta_eqb (o_delta m) (o_delta i)).

(* re-synchronised on the implementation's dict after every step *)
Fixpoint corr_hist (c : cfg) (pool : list atom) (i : Z) (d : dict) (h : list (op * obs)) : list Z :=
  match h with
  | [] => []
  | (o, ob) :: r =>
      map (fun k => 100 * i + k) (obs_diff (map fst (c_traits c) ++ map (fun p => shadow (fst p)) (c_traits c))
                                         (snd (step c pool d o)) ob)
      ++ corr_hist c pool (i + 1) (o_dict ob) r
  end.

Definition corr_codes (c : case) : list Z := let '(cf, pool, d, h) := c in corr_hist cf pool 0 d h.
Definition law_codes (c : case) : list Z := let '(cf, pool, d, h) := c in law_hist 0 d h.
