(* C18 — property theorems only (the provable part: the reference-count ledger of the attribute
   paths; the table obligations of T3 are regenerated from ctraits.c and compiled on every run by
   tools/props/c18.py from Common/CTables.v).  Memory safety of ctraits.c as a whole is NOT a
   theorem here (no C semantics): it is searched for by sanitised execution. *)
From Coq Require Import ZArith List Bool Lia.
From TV Require Import Common.Harness Common.CTables C18.Model C18.Law C18.Proofs C18.Tuple C18.Deleg.
From TV Require C18.Owner C18.OwnerLedger.
Import ListNotations.
Open Scope Z_scope.

(* refcount_ledger: for every configuration (validators, defaults, post_setattr, handlers, flags,
   incl. the injected PyDict_SetItem failure), every state and every operation — succeeding or
   failing — the sum of all INCREF/DECREF of the modelled C path on any object a equals the change
   of the number of references the state holds to a, plus the reference returned to the caller. *)
Theorem refcount_ledger :
  forall (c : cfg) (d : dict) (o : op) (a : atom),
    net (r_ledger (do_op c d o)) a
    = occ (r_dict (do_op c d o)) a - occ d a + oind (r_ret (do_op c d o)) a.
Proof. intros c d o a. pose proof (do_op_balanced c d o a) as H. simpl in H. exact H. Qed.
Print Assumptions refcount_ledger.

(* refdelta: what sys.getrefcount shows after the caller dropped the result *)
Theorem refdelta :
  forall (c : cfg) (d : dict) (o : op) (a : atom),
    observed_delta (do_op c d o) a = occ (r_dict (do_op c d o)) a - occ d a.
Proof. exact Proofs.refdelta. Qed.
Print Assumptions refdelta.

(* the whole law (reference neutrality of every measured atom, no crash) on every step of every
   history, from every start state *)
Theorem law_holds_on_every_history :
  forall (c : cfg) (pool : list atom) (ops : list op) (d : dict) (i : Z),
    law_hist i d (run c pool d ops) = [].
Proof. exact run_law. Qed.
Print Assumptions law_holds_on_every_history.

Theorem every_step_neutral :
  forall (c : cfg) (pool : list atom) (d : dict) (o : op), Neutral d (snd (step c pool d o)).
Proof. exact step_Neutral. Qed.
Print Assumptions every_step_neutral.

(* __setstate__ of a trait definition object: neutral on a FRESH trait (what unpickling does) ... *)
Theorem setstate_fresh_neutral :
  forall (new : list atom) (a : atom), net (setstate_ledger [] new) a = held new a - held [] a.
Proof.
  intros new a. induction new as [|x r IH]; [reflexivity|].
  unfold setstate_ledger in *. simpl fold_right. rewrite net_inc, IH. simpl. lia.
Qed.
Print Assumptions setstate_fresh_neutral.

(* ... but not on a trait that already holds slots: the previous contents are never released
   (known finding ctrait/reference-leak: every further __setstate__ leaks one reference per slot) *)
Theorem setstate_leak_refuted :
  exists (old new : list atom) (a : atom), net (setstate_ledger old new) a <> held new a - held old a.
Proof. exists [7], [7], 7. vm_compute. discriminate. Qed.
Print Assumptions setstate_leak_refuted.

(* validate_trait_tuple_check (the loop that validates the items of a tuple, allocating the result tuple at
   the first changed item and back-filling the unchanged leading items): every reference the loop creates
   is owned by the result — one per slot of a new tuple, one for an unchanged value, none on failure — for
   every tuple, every combination of item validators and every position of the first changed item *)
Theorem tuple_validation_neutral :
  forall (tv : atom) (items : list (atom * ivres)) (a : atom),
    net (snd (tuple_check tv items)) a = owned tv (fst (tuple_check tv items)) a.
Proof. exact tuple_check_neutral. Qed.
Print Assumptions tuple_validation_neutral.

(* delegated reads through every delegate-name style: the resolved name is a new reference released after
   the lookup, the delegate is held during the call; only the reference returned to the caller remains *)
Theorem delegated_read_neutral :
  forall st name prefix fresh delegate found a,
    net (snd (getattr_delegate st name prefix fresh delegate found)) a
    = match found with Some v => ind v a | None => 0 end.
Proof. exact getattr_delegate_neutral. Qed.
Print Assumptions delegated_read_neutral.

(* RE-ENTRANCY.  Ownership discipline of the call frame (C18/Owner.v): a program over the C locals that passes the
   static Owner.check never uses, increfs or releases a reference that is not guaranteed alive — for every adversary
   (re-entrant code replacing the instance dict at every callback / release / dict update, callees returning any
   object), every dict and every assignment of objects to the locals *)
Theorem ownership_check_sound :
  forall pinned p O B s adv, Owner.check pinned O B p = true -> Owner.rel O B s -> Owner.run pinned p s adv = true.
Proof. exact Owner.check_sound. Qed.
Print Assumptions ownership_check_sound.

(* ... and the instruction sequences of getattr_trait, setattr_event, setattr_trait (assignment and delete paths),
   for every combination of branch outcomes, use only owned (or caller-pinned, or just-looked-up) references *)
Theorem reentrant_paths_use_only_owned_references :
  forall n d e adv,
    (forall a b c f g, Owner.run Owner.PIN (Owner.p_getattr_trait n a b c f g) (Owner.start d e) adv = true) /\
    (forall a b c, Owner.run Owner.PIN (Owner.p_setattr_event a b c) (Owner.start d e) adv = true) /\
    (forall a b c f g h i j k l m o, Owner.run Owner.PIN (Owner.p_setattr_trait n a b c f g h i j k l m o) (Owner.start d e) adv = true) /\
    (forall a b c f g, Owner.run Owner.PIN (Owner.p_delattr_trait n a b c f g) (Owner.start d e) adv = true).
Proof. exact Owner.reentrant_paths_use_only_owned_references. Qed.
Print Assumptions reentrant_paths_use_only_owned_references.

(* non-vacuity: the two seeded shapes (borrowed default in getattr_trait = C18-t3; old value without INCREF) are
   rejected by the Owner.check and have a concrete adversary that makes them use a freed object *)
Example borrowed_references_are_caught :
  Owner.check Owner.PIN [] [] (Owner.p_getattr_trait_borrowed 1) = false /\ Owner.check Owner.PIN [] [] (Owner.p_setattr_trait_borrowed_old 1) = false
  /\ (exists n d e adv, Owner.run Owner.PIN (Owner.p_getattr_trait_borrowed n) (Owner.start d e) adv = false)
  /\ (exists n d e adv, Owner.run Owner.PIN (Owner.p_setattr_trait_borrowed_old n) (Owner.start d e) adv = false).
Proof.
  split; [reflexivity|]. split; [reflexivity|]. split;
    [exact Owner.getattr_trait_borrowed_refuted | exact Owner.setattr_trait_borrowed_old_refuted].
Qed.

(* the two transcriptions of getattr_trait — the ledger of C18/Model.v and the ownership program — have the same net
   reference effect on every object, for every configuration (the branch flags of the program are the model's:
   default computed, post_setattr present / succeeding, notifiers present, and some notifier outcome) *)
Theorem getattr_trait_transcriptions_agree :
  forall (c : cfg) (t : tcfg) (d : dict) (n : Z) (env : nat -> atom) (a : atom),
    let m := getattr_trait c t d n [] in
    match fst (fst (default_value_for t [])) with
    | None =>
        net (fst (OwnerLedger.ledger_of env d (Owner.p_getattr_trait n false false false false false) [])) a
        = net (r_ledger m) a
    | Some r =>
        env Owner.L_RES = r ->
        let '(hp, pok) := OwnerLedger.post_flags t in
        exists notif_ok,
          net (fst (OwnerLedger.ledger_of env d (Owner.p_getattr_trait n true hp pok (has_notifiers t) notif_ok) [])) a
          = net (r_ledger m) a
    end.
Proof. exact OwnerLedger.getattr_trait_transcriptions_agree. Qed.
Print Assumptions getattr_trait_transcriptions_agree.

(* trait objects and delegates (repairs e2bc43c, ec2634d, fa529d7, 8fb7f44): setattr_delegate (delegate taken from the
   instance dict or computed by a method — a fresh object with no other owner —, every error exit), has_traits_setattro,
   has_traits_getattro and trait_property_changed hold OWNED references to the delegate, the delegated-to trait and the
   trait object while user code runs: no excluding hypothesis is left *)
Theorem trait_and_delegate_paths_use_only_owned_references :
  forall dname tname d e adv,
    (forall a b c, Owner.run Owner.PIN (Owner.p_setattr_delegate dname tname a b c) (Owner.start d e) adv = true) /\
    Owner.run Owner.PIN (Owner.p_has_traits_setattro tname) (Owner.start d e) adv = true /\
    Owner.run Owner.PIN (Owner.p_has_traits_getattro tname) (Owner.start d e) adv = true /\
    (forall g, Owner.run Owner.PIN (Owner.p_trait_property_changed tname g) (Owner.start d e) adv = true).
Proof. exact Owner.trait_and_delegate_paths_use_only_owned_references. Qed.
Print Assumptions trait_and_delegate_paths_use_only_owned_references.

(* call_notifiers iterates over its own snapshot of the notifier lists; iterating over the live list (seed C18-u1) is
   refuted *)
Theorem call_notifiers_snapshot :
  (forall nlist d e adv, Owner.run Owner.PIN (Owner.p_call_notifiers nlist) (Owner.start d e) adv = true) /\
  Owner.check Owner.PIN [] [] (Owner.p_call_notifiers_live_list 9) = false /\
  exists d e adv, Owner.run Owner.PIN (Owner.p_call_notifiers_live_list 9) (Owner.start d e) adv = false.
Proof. exact Owner.call_notifiers_snapshot. Qed.
Print Assumptions call_notifiers_snapshot.

(* the code BEFORE those repairs (borrowed delegate / trait object / notifier list across the callback): rejected by
   the check, with witness adversaries — what the reversals seeded/rev-F27..F30-C18 bring back *)
Theorem borrowed_variants_of_the_old_code_refuted :
  (Owner.check Owner.PIN [] [] (Owner.p_setattr_delegate_borrowed 9) = false /\
   exists d e adv, Owner.run Owner.PIN (Owner.p_setattr_delegate_borrowed 9) (Owner.start d e) adv = false) /\
  (Owner.check Owner.PIN [] [] (Owner.p_has_traits_setattro_borrowed 9) = false /\
   exists d e adv, Owner.run Owner.PIN (Owner.p_has_traits_setattro_borrowed 9) (Owner.start d e) adv = false) /\
  (Owner.check Owner.PIN [] [] (Owner.p_has_traits_getattro_borrowed 9) = false /\
   exists d e adv, Owner.run Owner.PIN (Owner.p_has_traits_getattro_borrowed 9) (Owner.start d e) adv = false) /\
  (Owner.check Owner.PIN [] [] (Owner.p_trait_property_changed_borrowed 9) = false /\
   exists d e adv, Owner.run Owner.PIN (Owner.p_trait_property_changed_borrowed 9) (Owner.start d e) adv = false).
Proof.
  split; [exact Owner.setattr_delegate_borrowed_refuted|]. split; [exact Owner.has_traits_setattro_borrowed_refuted|].
  exact Owner.borrowed_trait_on_read_and_property_changed_refuted.
Qed.
Print Assumptions borrowed_variants_of_the_old_code_refuted.

(* general form of T3's obligations (instantiated on the regenerated tables at run time):
   any tables passing the boolean check make func_index terminate inside the searched table for
   every function a field can hold, and restore the same function *)
Theorem func_index_terminates_in_bounds :
  forall (T : ctables), tables_ok T = true -> forall fld f, can_hold T fld f ->
    exists i, func_index f (ct_search T fld) = Some i /\ (i < length (ct_search T fld))%nat.
Proof. exact assigned_in_table. Qed.
Print Assumptions func_index_terminates_in_bounds.

Theorem pickled_index_restores_function :
  forall (T : ctables), tables_ok T = true -> forall fld f, can_hold T fld f -> restored_fn T fld f = Some f.
Proof. exact getstate_setstate_roundtrip. Qed.
Print Assumptions pickled_index_restores_function.

(* a function missing from the searched table makes the search run off the table (= F9) *)
Theorem missing_function_runs_off_the_table :
  forall f t, ~ In f t -> func_index f t = None.
Proof. exact missing_runs_off. Qed.
Print Assumptions missing_function_runs_off_the_table.

(* Non-vacuity: a history that exercises a conversion, a rejection, a raising validator, a raising
   post_setattr after the default was materialised, a propagating handler exception and a delete
   that re-materialises the default; counts change and operations fail. *)
Example history_nontrivial :
  let t := {| t_kind := KTrait; t_has_validate := true;
              t_vld := [(1, VReject); (2, VRaise); (3, VConv 0)]; t_orig := false;
              t_dflt := DCall (Some 3); t_post := PRaise; t_cmp_none := false; t_handlers := [false; true] |} in
  let c := {| c_obj := 4; c_reraise := true; c_dictfail := false; c_traits := [(0, t)] |} in
  let h := run c [0; 1; 2; 3; 4] [] [SetA 0 1; SetA 0 2; SetA 0 3; GetA 0; SetA 0 3; DelA 0] in
  map (fun p => o_out (snd p)) h
    = [Raise TraitError; Raise UserExn; Raise UserExn; Ok; Ok; Raise UserExn]
  /\ map (fun p => o_delta (snd p)) h <> map (fun _ => [(0, 0); (1, 0); (2, 0); (3, 0); (4, 0)]) h.
Proof. vm_compute. split; [reflexivity | discriminate]. Qed.
