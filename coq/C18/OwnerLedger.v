(* C18 — the two transcriptions of getattr_trait agree: the reference-count ledger of C18/Model.v and the
   ownership program of C18/Owner.v (interpreted without adversary on the same dict, with local 5 bound to the
   computed default) have the same net effect on every object, for every configuration. *)
From Coq Require Import ZArith List Bool Lia.
From TV Require Import Common.Harness C18.Model C18.Law C18.Proofs.
From TV Require C18.Owner.
Import ListNotations.
Open Scope Z_scope.

(* reference events of an ownership program under a fixed binding of the locals, on a real dict *)
Fixpoint ledger_of (env : nat -> atom) (d : dict) (p : list Owner.instr) (l : ledger) : ledger * dict :=
  match p with
  | [] => (l, d)
  | i :: p' =>
      match i with
      | Owner.New x | Owner.Acquire x | Owner.AcquireAs x _ => ledger_of env d p' (inc (env x) l)
      | Owner.Release x => ledger_of env d p' (dec (env x) l)
      | Owner.Store n x => ledger_of env (store d n (env x)) p' (l_store d n (env x) l)
      | Owner.Remove n => ledger_of env (remove d n) p' (l_remove d n l)
      | _ => ledger_of env d p' l
      end
  end.

Definition post_flags (t : tcfg) : bool * bool :=
  match run_post t with None => (false, true) | Some ok => (true, ok) end.

Theorem getattr_trait_transcriptions_agree :
  forall (c : cfg) (t : tcfg) (d : dict) (n : Z) (env : nat -> atom) (a : atom),
    let m := getattr_trait c t d n [] in
    match fst (fst (default_value_for t [])) with
    | None =>
        net (fst (ledger_of env d (Owner.p_getattr_trait n false false false false false) [])) a = net (r_ledger m) a
    | Some r =>
        env Owner.L_RES = r ->
        let '(hp, pok) := post_flags t in
        exists notif_ok,
          net (fst (ledger_of env d (Owner.p_getattr_trait n true hp pok (has_notifiers t) notif_ok) [])) a
          = net (r_ledger m) a
    end.
Proof.
  intros c t d n env a m. unfold m, getattr_trait. 
  destruct (default_value_for t []) as [[r e] l1] eqn:D. pose proof (default_ledger _ _ _ _ _ a D) as HD. simpl fst.
  destruct r as [r|].
  - intro He. unfold post_flags. destruct (run_post t) as [[|]|] eqn:RP; cbv zeta.
    + destruct (has_notifiers t) eqn:HN.
      * destruct (call_notifiers c t false A_NONE r (l_store d n r l1)) as [[ok k] l3] eqn:N.
        pose proof (call_notifiers_ledger _ _ _ _ _ _ _ _ _ a N) as HNl.
        exists ok. destruct ok; simpl; rewrite He; led; lia.
      * exists true. simpl. rewrite He. led. lia.
    + exists true. simpl. rewrite He. led. lia.
    + destruct (has_notifiers t) eqn:HN.
      * destruct (call_notifiers c t false A_NONE r (l_store d n r l1)) as [[ok k] l3] eqn:N.
        pose proof (call_notifiers_ledger _ _ _ _ _ _ _ _ _ a N) as HNl.
        exists ok. destruct ok; simpl; rewrite He; led; lia.
      * exists true. simpl. rewrite He. led. lia.
  - simpl. led. lia.
Qed.
