(* C18 — reference-count ledger of validate_trait_tuple_check (ctraits.c 3665-3722): the loop that
   validates the items of a tuple, allocating a new result tuple the first time an item validator returns
   a different object and back-filling the unchanged leading items into it.

   Model (executable), proofs and the correspondence function in one small development.
   items = the value's items with what their item validator does: validator NULL or returning the same
   object (ISame: one new reference to the item), returning another object w (IConv w: a new reference to
   w), failing (IFail).  State of the loop: [done] = items already visited (in order), [tuple] = the slots
   of the new result tuple filled so far (None: not allocated yet). *)
From Coq Require Import ZArith List Bool Lia.
From TV Require Import Common.Harness C18.Model.
Import ListNotations.
Open Scope Z_scope.

Inductive ivres := ISame | IConv (w : atom) | IFail.

Inductive tres :=
| TNew (slots : list atom)       (* a new tuple owning one reference per slot *)
| TSame                          (* the value itself, Py_INCREF'ed (3715-3716) *)
| TFailed.                       (* NULL *)

Fixpoint inc_all (xs : list atom) (l : ledger) : ledger :=
  match xs with [] => l | x :: r => inc x (inc_all r l) end.
Fixpoint dec_all (xs : list atom) (l : ledger) : ledger :=
  match xs with [] => l | x :: r => dec x (dec_all r l) end.

Fixpoint ttc_loop (done : list atom) (rest : list (atom * ivres)) (tuple : option (list atom)) (l : ledger)
  : option (option (list atom)) * ledger :=
  match rest with
  | [] => (Some tuple, l)
  | (b, r) :: rest' =>
      match r with
      | IFail =>                                            (* 3687-3692: Py_XDECREF(tuple); return NULL *)
          (None, match tuple with Some slots => dec_all slots l | None => l end)
      | _ =>
          let a := match r with IConv w => w | _ => b end in
          let l1 := inc a l in                              (* 3679-3684: aitem is a new reference *)
          match tuple with
          | Some slots => ttc_loop (done ++ [b]) rest' (Some (slots ++ [a])) l1          (* 3694-3696 *)
          | None =>
              if a =? b then ttc_loop (done ++ [b]) rest' None (dec a l1)                (* 3710-3712 *)
              else                                                                       (* 3697-3709 *)
                ttc_loop (done ++ [b]) rest' (Some (done ++ [a])) (inc_all done l1)
          end
      end
  end.

(* tv = the value tuple itself (an object like any other) *)
Definition tuple_check (tv : atom) (items : list (atom * ivres)) : tres * ledger :=
  match ttc_loop [] items None [] with
  | (None, l) => (TFailed, l)
  | (Some (Some slots), l) => (TNew slots, l)
  | (Some None, l) => (TSame, inc tv l)
  end.

Fixpoint count (xs : list atom) (a : atom) : Z :=
  match xs with [] => 0 | x :: r => ind x a + count r a end.

(* references the result legitimately owns *)
Definition owned (tv : atom) (r : tres) (a : atom) : Z :=
  match r with TNew slots => count slots a | TSame => ind tv a | TFailed => 0 end.

(* ---------- proofs ---------- *)
Lemma net_inc' : forall x l a, net (inc x l) a = ind x a + net l a.
Proof. intros. unfold inc. cbn [net]. lia. Qed.
Lemma net_dec' : forall x l a, net (dec x l) a = net l a - ind x a.
Proof. intros. unfold dec. cbn [net]. lia. Qed.

Lemma net_inc_all : forall xs l a, net (inc_all xs l) a = count xs a + net l a.
Proof. induction xs as [|x r IH]; intros l a; cbn [inc_all count]; [lia|]. rewrite net_inc', IH. lia. Qed.
Lemma net_dec_all : forall xs l a, net (dec_all xs l) a = net l a - count xs a.
Proof. induction xs as [|x r IH]; intros l a; cbn [dec_all count]; [lia|]. rewrite net_dec', IH. lia. Qed.
Lemma count_app : forall xs ys a, count (xs ++ ys) a = count xs a + count ys a.
Proof. induction xs as [|x r IH]; intros ys a; cbn [app count]; [lia|]. rewrite IH. lia. Qed.

(* loop invariant: the ledger accounts exactly for the slots of the new tuple filled so far *)
Lemma ttc_loop_spec : forall rest done tuple l a,
  net l a = match tuple with Some slots => count slots a | None => 0 end ->
  let '(res, l') := ttc_loop done rest tuple l in
  net l' a = match res with Some (Some slots) => count slots a | _ => 0 end.
Proof.
  induction rest as [|[b r] rest IH]; intros done tuple l a Inv; simpl.
  - destruct tuple; exact Inv.
  - destruct r as [| w |].
    + (* ISame *)
      destruct tuple as [slots|].
      * apply IH. rewrite net_inc', count_app. simpl. lia.
      * rewrite Z.eqb_refl. apply IH. rewrite net_dec', net_inc'. lia.
    + (* IConv w *)
      destruct tuple as [slots|].
      * apply IH. rewrite net_inc', count_app. simpl. lia.
      * destruct (w =? b) eqn:E.
        -- apply IH. rewrite net_dec', net_inc'. lia.
        -- apply IH. rewrite net_inc_all, net_inc', count_app. simpl. lia.
    + (* IFail *)
      destruct tuple as [slots|]; [rewrite net_dec_all|]; lia.
Qed.

(* Every reference the loop creates is owned by the result: a new tuple owns one reference per slot
   (including the back-filled leading items), an unchanged value gets one, a failure none — for every
   tuple, every combination of item validators, at every position of the first changed item. *)
Theorem tuple_check_neutral : forall tv items a,
  net (snd (tuple_check tv items)) a = owned tv (fst (tuple_check tv items)) a.
Proof.
  intros tv items a. unfold tuple_check.
  pose proof (ttc_loop_spec items [] None [] a eq_refl) as H.
  destruct (ttc_loop [] items None []) as [[[slots|]|] l]; cbn [fst snd owned] in *.
  - exact H.
  - rewrite net_inc'. lia.
  - exact H.
Qed.

(* the result's slots are the validated items, in order *)
Lemma ttc_loop_slots : forall rest done tuple l,
  (match tuple with Some slots => length slots = length done | None => True end) ->
  match fst (ttc_loop done rest tuple l) with
  | Some (Some slots) => length slots = (length done + length rest)%nat
  | _ => True
  end.
Proof.
  induction rest as [|[b r] rest IH]; intros done tuple l Inv; simpl.
  - destruct tuple; [rewrite Nat.add_0_r; exact Inv | exact I].
  - destruct r as [| w |]; simpl.
    + destruct tuple as [slots|].
      * specialize (IH (done ++ [b]) (Some (slots ++ [b])) (inc b l)).
        rewrite !app_length in IH. simpl in IH.
        destruct (fst (ttc_loop (done ++ [b]) rest (Some (slots ++ [b])) (inc b l))) as [[s|]|]; auto.
        rewrite IH by lia. lia.
      * rewrite Z.eqb_refl. specialize (IH (done ++ [b]) None (dec b (inc b l)) I).
        destruct (fst (ttc_loop (done ++ [b]) rest None (dec b (inc b l)))) as [[s|]|]; auto.
        rewrite IH, app_length. simpl. lia.
    + destruct tuple as [slots|].
      * specialize (IH (done ++ [b]) (Some (slots ++ [w])) (inc w l)).
        rewrite !app_length in IH. simpl in IH.
        destruct (fst (ttc_loop (done ++ [b]) rest (Some (slots ++ [w])) (inc w l))) as [[s|]|]; auto.
        rewrite IH by lia. lia.
      * destruct (w =? b).
        -- specialize (IH (done ++ [b]) None (dec w (inc w l)) I).
           destruct (fst (ttc_loop (done ++ [b]) rest None (dec w (inc w l)))) as [[s|]|]; auto.
           rewrite IH, app_length. simpl. lia.
        -- specialize (IH (done ++ [b]) (Some (done ++ [w])) (inc_all done (inc w l))).
           rewrite !app_length in IH. simpl in IH.
           destruct (fst (ttc_loop (done ++ [b]) rest (Some (done ++ [w])) (inc_all done (inc w l)))) as [[s|]|]; auto.
           rewrite IH by lia. lia.
    + exact I.
Qed.

(* ---------- correspondence ----------
   one case = (tv, items as observed: per item, whether the result's item was the same object, another
   object, or the validation failed at that item; the kind of result observed; the sys.getrefcount deltas
   of the measured objects while the result was still held) *)
Definition tcase := (atom * list (atom * ivres) * Z * list (atom * Z))%type.   (* result kind: 0 new, 1 same, 2 failed *)

Definition kind_of (r : tres) : Z := match r with TNew _ => 0 | TSame => 1 | TFailed => 2 end.

(* codes: 1 result kind, 2 reference-count deltas *)
Definition tuple_corr_codes (c : tcase) : list Z :=
  let '(tv, items, k, deltas) := c in
  let '(r, l) := tuple_check tv items in
  chk 1 (kind_of r =? k)
  ++ chk 2 (forallb (fun p => snd p =? net l (fst p)) deltas).

(* law on the observation alone: the deltas are what the observed result owns *)
Definition tuple_law_codes (c : tcase) : list Z :=
  let '(tv, items, k, deltas) := c in
  let result_slots := map (fun p => match snd p with IConv w => w | _ => fst p end) items in
  chk 1 (forallb (fun p => snd p =? (if k =? 0 then count result_slots (fst p)
                                      else if k =? 1 then ind tv (fst p) else 0)) deltas).
