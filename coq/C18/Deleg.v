(* C18 — reference-count ledger of the delegate name resolvers (ctraits.c 4552-4593) and of
   getattr_delegate (2019-2070).  Every resolver returns a NEW reference (the name itself, the stored prefix,
   or a freshly concatenated string) and getattr_delegate releases it after the lookup; the delegate object
   is held for the duration of the call.  Tie to the build: the native stream of tools/props/c18.py reads
   through all resolver styles with run-time-built (mortal) prefix strings and evaluates the law
   "delta = change of held references" on every step (no separate correspondence function). *)
From Coq Require Import ZArith List Bool Lia.
From TV Require Import Common.Harness C18.Model.
Import ListNotations.
Open Scope Z_scope.

Inductive dstyle := DName | DPrefix | DPrefixName | DClassName.

(* delegate_attr_name_name / _prefix / _prefix_name / _class_name: (resolved name, ledger) *)
Definition resolve (st : dstyle) (name prefix fresh : atom) (l : ledger) : atom * ledger :=
  match st with
  | DName => (name, inc name l)            (* 4556-4557 *)
  | DPrefix => (prefix, inc prefix l)      (* 4564-4565 *)
  | _ => (fresh, inc fresh l)              (* PyUnicode_Concat: a new string *)
  end.

(* getattr_delegate with the delegate in the instance dict: Py_INCREF(delegate) 2036; the resolver; the
   lookup on the delegate yields `found` (a new reference v) or fails; Py_DECREF of the name and of the
   delegate at done: (2067-2069).  Returns (reference handed to the caller, ledger). *)
Definition getattr_delegate (st : dstyle) (name prefix fresh delegate : atom) (found : option atom)
  : option atom * ledger :=
  let l0 := inc delegate [] in
  let '(dn, l1) := resolve st name prefix fresh l0 in
  let l2 := match found with Some v => inc v l1 | None => l1 end in
  (found, dec delegate (dec dn l2)).

Lemma net_inc'' : forall x l a, net (inc x l) a = ind x a + net l a.
Proof. intros. unfold inc. cbn [net]. lia. Qed.
Lemma net_dec'' : forall x l a, net (dec x l) a = net l a - ind x a.
Proof. intros. unfold dec. cbn [net]. lia. Qed.

(* a delegated read is reference-neutral for the name, the prefix, the delegate and everything else: the
   only reference left is the one returned to the caller *)
Theorem getattr_delegate_neutral : forall st name prefix fresh delegate found a,
  net (snd (getattr_delegate st name prefix fresh delegate found)) a
  = match found with Some v => ind v a | None => 0 end.
Proof.
  intros st name prefix fresh delegate found a. unfold getattr_delegate, resolve.
  destruct st; destruct found as [v|]; cbn [snd]; rewrite ?net_dec'', ?net_inc''; cbn [net]; lia.
Qed.

(* a resolver that hands out the stored prefix WITHOUT taking a reference (the shape of the independently
   seeded change C18-m2) makes every delegated read lose one reference of the prefix string *)
Definition getattr_delegate_borrowed (name prefix delegate v : atom) : ledger :=
  dec delegate (dec prefix (inc v (inc delegate []))).

Theorem borrowed_prefix_refuted : exists name prefix delegate v a,
  net (getattr_delegate_borrowed name prefix delegate v) a <> ind v a.
Proof. exists 1, 2, 3, 4, 2. vm_compute. discriminate. Qed.
