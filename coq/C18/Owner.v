(* C18 — ownership discipline on re-entrant paths: "every reference used after a callback is owned".

   The attribute paths of ctraits.c call back into arbitrary Python code (validators, default callables,
   post_setattr hooks, notifiers, finalisers of released values).  Such code can assign or delete the very
   attribute being processed, i.e. change the instance dict arbitrarily.  A C local that holds only a BORROWED
   reference obtained from the dict is then possibly dangling.  This file gives
     - an abstract machine over the C locals of one call frame (instructions New / Acquire / AcquireAs /
       Release / Use / Store / Remove / Lookup / Callback) whose dynamic semantics lets an ADVERSARY replace
       the whole instance dict at every re-entrancy point (callbacks, and every release / dict update, whose
       finalisers may run code) and pick the object every callee returns;
     - a static ownership checker and its soundness theorem: a program that passes the check never uses,
       increfs or releases a reference that is not guaranteed alive, for EVERY adversary, dict and objects;
     - the instruction sequences of getattr_trait (1953-2012), setattr_trait (assignment 2445-2552 and
       delete 2392-2443 paths) and setattr_event (2335-2367), transcribed line by line, for every
       combination of branch outcomes, with the theorem that they pass the check;
     - the refuted variants (witness adversaries): getattr_trait keeping only a borrowed reference to the
       freshly computed default (held-out seed C18-t3), setattr_trait without Py_INCREF(old_value).
   Locals: 0 obj, 2 the caller's value (both pinned: the caller holds them for the duration of the call),
   3 validated value, 4 old_value, 5 default / result. *)
From Coq Require Import ZArith List Bool Lia Arith.
From TV Require Import Common.Harness C18.Model.
Import ListNotations.
Open Scope Z_scope.

Inductive instr :=
| New (l : nat)                 (* l := a NEW reference returned by a callee (any object) *)
| Acquire (l : nat)             (* Py_INCREF(l) *)
| AcquireAs (l l' : nat)        (* l := l'; Py_INCREF(l) *)
| Release (l : nat)             (* Py_DECREF(l): a finaliser may run arbitrary code *)
| Use (l : nat)                 (* dereference l / pass it to a callee / return it *)
| Store (n : Z) (l : nat)       (* PyDict_SetItem(dict, n, l): the replaced value is released *)
| Remove (n : Z)                (* PyDict_DelItem *)
| Lookup (n : Z) (l : nat)      (* l := PyDict_GetItem(dict, n) — BORROWED; the path is taken only if present *)
| Callback.                     (* validator / default callable / post_setattr / notifiers *)

Fixpoint memn (x : nat) (l : list nat) : bool :=
  match l with [] => false | y :: r => Nat.eqb x y || memn x r end.
Fixpoint remove1 (x : nat) (l : list nat) : list nat :=
  match l with [] => [] | y :: r => if Nat.eqb x y then r else y :: remove1 x r end.
Fixpoint remove_all (x : nat) (l : list nat) : list nat :=
  match l with [] => [] | y :: r => if Nat.eqb x y then remove_all x r else y :: remove_all x r end.

(* ---------- dynamic semantics ---------- *)
Record dyn := { dd : dict; denv : nat -> atom; down : list nat }.

Definition set_env (e : nat -> atom) (l : nat) (a : atom) : nat -> atom := fun k => if Nat.eqb k l then a else e k.

(* the object local l points to is certainly alive: a pinned or owned local points to it, or the dict holds it *)
Definition aliveb (pinned : list nat) (s : dyn) (l : nat) : bool :=
  existsb (fun l' => denv s l' =? denv s l) (pinned ++ down s) || (0 <? occ (dd s) (denv s l)).

(* the adversary: at every re-entrancy point the next element gives the dict afterwards; at every New the
   object returned *)
Definition adversary := list (dict * atom).
Definition adv_dict (adv : adversary) (d : dict) : dict := match adv with (d', _) :: _ => d' | [] => d end.
Definition adv_atom (adv : adversary) : atom := match adv with (_, a) :: _ => a | [] => 0 end.

(* true = no unsafe step *)
Fixpoint run (pinned : list nat) (p : list instr) (s : dyn) (adv : adversary) : bool :=
  match p with
  | [] => true
  | i :: p' =>
      match i with
      | New l =>
          negb (memn l pinned) &&
          run pinned p' {| dd := dd s; denv := set_env (denv s) l (adv_atom adv); down := l :: remove_all l (down s) |} (tl adv)
      | Acquire l =>
          aliveb pinned s l && run pinned p' {| dd := dd s; denv := denv s; down := l :: down s |} adv
      | AcquireAs l l' =>
          negb (memn l pinned) && aliveb pinned s l' &&
          run pinned p' {| dd := dd s; denv := set_env (denv s) l (denv s l'); down := l :: remove_all l (down s) |} adv
      | Release l =>
          memn l (down s) &&
          run pinned p' {| dd := adv_dict adv (dd s); denv := denv s; down := remove1 l (down s) |} (tl adv)
      | Use l => aliveb pinned s l && run pinned p' s adv
      | Store n l =>
          aliveb pinned s l &&
          run pinned p' {| dd := adv_dict adv (store (dd s) n (denv s l)); denv := denv s; down := down s |} (tl adv)
      | Remove n =>
          run pinned p' {| dd := adv_dict adv (remove (dd s) n); denv := denv s; down := down s |} (tl adv)
      | Lookup n l =>
          match lookup (dd s) n with
          | Some a => negb (memn l pinned) &&
                      run pinned p' {| dd := dd s; denv := set_env (denv s) l a; down := remove_all l (down s) |} adv
          | None => true                                   (* this path is not taken *)
          end
      | Callback => run pinned p' {| dd := adv_dict adv (dd s); denv := denv s; down := down s |} (tl adv)
      end
  end.

(* ---------- static ownership check ----------
   O = locals holding an owned reference, B = locals holding a reference borrowed from the dict since the last
   re-entrancy point *)
Definition valid (pinned O B : list nat) (l : nat) : bool := memn l pinned || memn l O || memn l B.

Fixpoint check (pinned O B : list nat) (p : list instr) : bool :=
  match p with
  | [] => true
  | i :: p' =>
      match i with
      | New l => negb (memn l pinned) && check pinned (l :: remove_all l O) (remove_all l B) p'
      | Acquire l => valid pinned O B l && check pinned (l :: O) B p'
      | AcquireAs l l' => negb (memn l pinned) && valid pinned O B l' && negb (Nat.eqb l l') &&
                          check pinned (l :: remove_all l O) (remove_all l B) p'
      | Release l => memn l O && check pinned (remove1 l O) [] p'
      | Use l => valid pinned O B l && check pinned O B p'
      | Store n l => valid pinned O B l && check pinned O [] p'
      | Remove n => check pinned O [] p'
      | Lookup n l => negb (memn l pinned) && check pinned (remove_all l O) (l :: remove_all l B) p'
      | Callback => check pinned O [] p'
      end
  end.

(* ---------- soundness ---------- *)
Lemma memn_in : forall x l, memn x l = true <-> In x l.
Proof.
  induction l as [|y r IH]; simpl; [split; [discriminate | tauto]|].
  rewrite orb_true_iff, IH, Nat.eqb_eq. split; intros [H|H]; auto.
Qed.

Lemma memn_remove_all : forall x l L, memn x (remove_all l L) = true -> x <> l /\ memn x L = true.
Proof.
  induction L as [|y r IH]; simpl; [discriminate|].
  destruct (Nat.eqb l y) eqn:E.
  - intro H. destruct (IH H) as [A B]. split; [exact A | rewrite B; apply orb_true_r].
  - simpl. intro H. apply orb_true_iff in H. destruct H as [H|H].
    + apply Nat.eqb_eq in H. subst y. split; [intro X; subst; rewrite Nat.eqb_refl in E; discriminate|].
      rewrite Nat.eqb_refl. reflexivity.
    + destruct (IH H) as [A B]. split; [exact A | rewrite B; apply orb_true_r].
Qed.

Lemma ind_nonneg : forall x a, 0 <= ind x a.
Proof. intros. unfold ind. destruct (x =? a); lia. Qed.
Lemma occ_nonneg : forall d a, 0 <= occ d a.
Proof. induction d as [|[k v] r IH]; intro a; simpl; [lia|]. pose proof (ind_nonneg v a). specialize (IH a). lia. Qed.
Lemma lookup_occ : forall d n a, lookup d n = Some a -> 0 < occ d a.
Proof.
  induction d as [|[k v] r IH]; intros n a H; simpl in *; [discriminate|].
  destruct (k =? n).
  - inversion H; subst. unfold ind. rewrite Z.eqb_refl. pose proof (occ_nonneg r a). lia.
  - pose proof (ind_nonneg v a). specialize (IH _ _ H). lia.
Qed.

Definition rel (O B : list nat) (s : dyn) : Prop :=
  down s = O /\ forall l, memn l B = true -> 0 < occ (dd s) (denv s l).

Lemma exists_self : forall (e : nat -> atom) l L, memn l L = true -> existsb (fun l' => e l' =? e l) L = true.
Proof.
  intros e l L H. apply existsb_exists. exists l. split; [apply memn_in; exact H | apply Z.eqb_refl].
Qed.

Lemma valid_alive : forall pinned O B s l, rel O B s -> valid pinned O B l = true -> aliveb pinned s l = true.
Proof.
  intros pinned O B s l [HO HB] H. unfold valid in H. unfold aliveb.
  apply orb_true_iff in H. destruct H as [H|H]; [apply orb_true_iff in H; destruct H as [H|H]|].
  - apply orb_true_iff. left. apply exists_self. apply memn_in. apply in_or_app. left. apply memn_in. exact H.
  - apply orb_true_iff. left. apply exists_self. apply memn_in. apply in_or_app. right. rewrite HO. apply memn_in. exact H.
  - apply orb_true_iff. right. apply Z.ltb_lt. apply HB. exact H.
Qed.

Lemma rel_nil : forall O d e, rel O [] {| dd := d; denv := e; down := O |}.
Proof. intros. split; [reflexivity | intros l H; discriminate]. Qed.

Lemma rel_setenv : forall O B s l a O',
  rel O B s -> rel O' (remove_all l B) {| dd := dd s; denv := set_env (denv s) l a; down := O' |}.
Proof.
  intros O B s l a O' [_ HB]. split; [reflexivity|]. intros l0 H. simpl.
  destruct (memn_remove_all _ _ _ H) as [Hne Hm]. unfold set_env.
  destruct (Nat.eqb l0 l) eqn:E; [apply Nat.eqb_eq in E; contradiction|]. apply HB. exact Hm.
Qed.

(* A program that passes the ownership check never touches a reference that is not guaranteed alive and never
   releases a reference it does not own — whatever the re-entrant code does to the instance dict at every
   callback / release / dict update, and whatever objects the callees return. *)
Theorem check_sound : forall pinned p O B s adv,
  check pinned O B p = true -> rel O B s -> run pinned p s adv = true.
Proof.
  intros pinned p. induction p as [|i p IH]; intros O B s adv C R; [reflexivity|].
  destruct i as [l | l | l l' | l | l | n l | n | n l |]; simpl in C |- *.
  - apply andb_true_iff in C. destruct C as [C1 C2]. rewrite C1. simpl.
    eapply IH; [exact C2|]. destruct R as [HO HB]. rewrite HO.
    apply rel_setenv with (O := O) (B := B). split; [exact HO | exact HB].
  - apply andb_true_iff in C. destruct C as [C1 C2]. rewrite (valid_alive _ _ _ _ _ R C1). simpl.
    eapply IH; [exact C2|]. destruct R as [HO HB]. split; [simpl; congruence | exact HB].
  - apply andb_true_iff in C. destruct C as [C1 C2]. apply andb_true_iff in C1. destruct C1 as [C1 C3].
    apply andb_true_iff in C1. destruct C1 as [C1 C4]. rewrite C1, (valid_alive _ _ _ _ _ R C4). simpl.
    eapply IH; [exact C2|]. destruct R as [HO HB]. rewrite HO.
    apply rel_setenv with (O := O) (B := B). split; [exact HO | exact HB].
  - apply andb_true_iff in C. destruct C as [C1 C2]. destruct R as [HO HB]. rewrite HO, C1. simpl.
    eapply IH; [exact C2|]. apply rel_nil.
  - apply andb_true_iff in C. destruct C as [C1 C2]. rewrite (valid_alive _ _ _ _ _ R C1). simpl.
    eapply IH; [exact C2 | exact R].
  - apply andb_true_iff in C. destruct C as [C1 C2]. rewrite (valid_alive _ _ _ _ _ R C1). simpl.
    eapply IH; [exact C2|]. destruct R as [HO _]. rewrite <- HO. apply rel_nil.
  - eapply IH; [exact C|]. destruct R as [HO _]. rewrite <- HO. apply rel_nil.
  - destruct (lookup (dd s) n) as [a|] eqn:L; [|reflexivity].
    apply andb_true_iff in C. destruct C as [C1 C2]. rewrite C1. simpl.
    eapply IH; [exact C2|]. destruct R as [HO HB]. rewrite HO. split; [reflexivity|].
    intros l0 H. simpl in H. simpl. unfold set_env. destruct (Nat.eqb l0 l) eqn:E.
    + exact (lookup_occ _ _ _ L).
    + simpl in H. destruct (memn_remove_all _ _ _ H) as [_ Hm]. apply HB. exact Hm.
  - eapply IH; [exact C|]. destruct R as [HO _]. rewrite <- HO. apply rel_nil.
Qed.

(* ---------- the C paths as instruction sequences ---------- *)
Definition PIN : list nat := [0%nat; 2%nat].       (* obj, the caller's value *)
Definition L_OBJ := 0%nat.
Definition L_ARG := 2%nat.
Definition L_VAL := 3%nat.
Definition L_OLD := 4%nat.
Definition L_RES := 5%nat.

(* default_value_for 1840-1913: a callable default runs Python code and returns a new reference; validating it
   runs more code (for the ownership discipline it is enough that the result is a NEW reference) *)
Definition p_default (l : nat) : list instr := [Callback; New l].

(* call_notifiers 2259-2329: the args tuple takes its own references to old and new for the duration of the
   calls (PyTuple_Pack), the handlers run, the tuple is released *)
Definition p_notify (old : option nat) (new : nat) : list instr :=
  [Use L_OBJ; Use new] ++ (match old with Some o => [Use o] | None => [] end) ++ [Callback].

(* getattr_trait 1953-2012.  dflt_ok: the default could be computed; post: post_setattr present / succeeds;
   notif: notifiers present / succeed *)
Definition p_getattr_trait (n : Z) (dflt_ok has_post post_ok has_notif notif_ok : bool) : list instr :=
  if negb dflt_ok then [Callback]                                              (* 1979-1982 *)
  else
    p_default L_RES ++ [Store n L_RES]                                         (* 1979, 1983 *)
    ++ (if has_post then [Use L_RES; Callback] else [])                        (* 1989-1990 *)
    ++ (if has_post && negb post_ok then [Release L_RES]                       (* 1991-1993 -> error: *)
        else
          (if has_notif then p_notify None L_RES else [])                      (* 1997-2002 *)
          ++ (if has_notif && negb notif_ok then [Release L_RES]               (* 2002-2004 -> error: *)
              else [Use L_RES])).                                              (* 2007: return result *)

(* the variant of the held-out seed C18-t3: the dict "owns the value from here on" *)
Definition p_getattr_trait_borrowed (n : Z) : list instr :=
  p_default L_RES ++ [Store n L_RES; Release L_RES; Use L_RES; Callback; Use L_RES].

(* setattr_event 2335-2367 *)
Definition p_setattr_event (has_validate validate_ok has_notif : bool) : list instr :=
  (if has_validate then [Use L_ARG; Callback] ++ (if validate_ok then [New L_VAL] else [])
   else [AcquireAs L_VAL L_ARG])                                               (* 2346 / 2352 *)
  ++ (if has_validate && negb validate_ok then []
      else (if has_notif then p_notify None L_VAL else []) ++ [Release L_VAL]). (* 2359-2363 *)

(* setattr_trait, assignment path 2445-2552.
   orig: TRAIT_SETATTR_ORIGINAL_VALUE (new_value is the caller's object, else the validated one) *)
Definition p_setattr_trait (n : Z)
  (has_validate validate_ok orig need_old old_present dflt_ok has_post post_old_ok store_ok changed post_ok has_notif : bool)
  : list instr :=
  let newv := if orig then L_ARG else L_VAL in
  (if has_validate then [Use L_ARG; Callback] ++ (if validate_ok then [New L_VAL] else [])
   else [AcquireAs L_VAL L_ARG])                                               (* 2448-2456 *)
  ++
  if has_validate && negb validate_ok then []                                  (* 2450-2452 *)
  else
    let get_old :=
      if negb need_old then inl []
      else if old_present then inl [Lookup n L_OLD; Acquire L_OLD]             (* 2481, 2513 *)
      else if negb dflt_ok then inr ([Callback; Release L_VAL])                (* 2491-2495 *)
      else if has_post && negb post_old_ok
           then inr (p_default L_OLD ++ [Store n L_OLD; Use L_OLD; Callback; Release L_OLD; Release L_VAL]) (* 2496-2508 *)
           else inl (p_default L_OLD ++ [Store n L_OLD] ++ (if has_post then [Use L_OLD; Callback] else [])) in
    match get_old with
    | inr stop => stop
    | inl pre =>
        let have_old := need_old in
        pre ++
        (if negb store_ok then                                                 (* 2521-2530 *)
           [Use newv] ++ (if have_old then [Release L_OLD] else []) ++ [Release L_VAL]
         else
           [Store n newv]                                                      (* 2521 *)
           ++ (if changed && has_post then [Use newv; Callback] else [])       (* 2535-2541 *)
           ++ (if changed && (negb has_post || post_ok) && has_notif
               then p_notify (if have_old then Some L_OLD else None) newv else [])   (* 2543-2546 *)
           ++ (if have_old then [Release L_OLD] else []) ++ [Release L_VAL])   (* 2549-2550 *)
    end.

(* the variant without Py_INCREF(old_value) at 2513 *)
Definition p_setattr_trait_borrowed_old (n : Z) : list instr :=
  [AcquireAs L_VAL L_ARG; Lookup n L_OLD; Store n L_VAL] ++ p_notify (Some L_OLD) L_VAL ++ [Release L_VAL].

(* setattr_trait, delete path 2392-2443 *)
Definition p_delattr_trait (n : Z) (has_notif getattr_ok changed has_post post_ok : bool) : list instr :=
  [Lookup n L_OLD; Acquire L_OLD; Remove n]                                    (* 2401-2407 *)
  ++ (if has_notif then
        [Callback] ++                                                          (* 2417: traito->getattr *)
        (if getattr_ok then
           [New L_VAL]
           ++ (if changed && has_post then [Use L_VAL; Callback] else [])
           ++ (if changed && (negb has_post || post_ok) then p_notify (Some L_OLD) L_VAL else [])
           ++ [Release L_VAL]                                                  (* 2438 *)
         else [])
      else [])
  ++ [Release L_OLD].                                                          (* 2419 / 2441 *)

(* ---------- theorems ---------- *)
Lemma getattr_trait_checks : forall n a b c d e, check PIN [] [] (p_getattr_trait n a b c d e) = true.
Proof. intros n a b c d e. destruct a, b, c, d, e; reflexivity. Qed.

Lemma setattr_event_checks : forall a b c, check PIN [] [] (p_setattr_event a b c) = true.
Proof. intros a b c. destruct a, b, c; reflexivity. Qed.

Lemma setattr_trait_checks : forall n a b c d e f g h i j k l,
  check PIN [] [] (p_setattr_trait n a b c d e f g h i j k l) = true.
Proof. intros n a b c d e f g h i j k l. destruct a, b, c, d, e, f, g, h, i, j, k, l; reflexivity. Qed.

Lemma delattr_trait_checks : forall n a b c d e, check PIN [] [] (p_delattr_trait n a b c d e) = true.
Proof. intros n a b c d e. destruct a, b, c, d, e; reflexivity. Qed.

Definition start (d : dict) (e : nat -> atom) : dyn := {| dd := d; denv := e; down := [] |}.

(* No use of a freed object on the re-entrant paths of the modelled functions: for every branch outcome, every
   instance dict, every object assignment of the locals and EVERY behaviour of the re-entrant code. *)
Theorem reentrant_paths_use_only_owned_references :
  forall n d e adv,
    (forall a b c f g, run PIN (p_getattr_trait n a b c f g) (start d e) adv = true) /\
    (forall a b c, run PIN (p_setattr_event a b c) (start d e) adv = true) /\
    (forall a b c f g h i j k l m o, run PIN (p_setattr_trait n a b c f g h i j k l m o) (start d e) adv = true) /\
    (forall a b c f g, run PIN (p_delattr_trait n a b c f g) (start d e) adv = true).
Proof.
  intros n d e adv. repeat split; intros; eapply check_sound;
    try apply getattr_trait_checks; try apply setattr_event_checks; try apply setattr_trait_checks;
    try apply delattr_trait_checks; apply rel_nil.
Qed.

(* refuted: with only a borrowed reference to the freshly computed default, re-entrant code that re-assigns the
   attribute makes getattr_trait use (and return) a freed object — the adversary empties the dict *)
Theorem getattr_trait_borrowed_refuted :
  exists n d e adv, run PIN (p_getattr_trait_borrowed n) (start d e) adv = false.
Proof.
  exists 1, [], (fun k => Z.of_nat k), [([], 0); ([], 77); ([], 0); ([], 0)]. vm_compute. reflexivity.
Qed.

(* refuted: without Py_INCREF(old_value) the old value is used after the dict released it *)
Theorem setattr_trait_borrowed_old_refuted :
  exists n d e adv, run PIN (p_setattr_trait_borrowed_old n) (start d e) adv = false.
Proof.
  exists 1, [(1, 50)], (fun k => Z.of_nat k), [([(1, 2)], 0); ([], 0)]. vm_compute. reflexivity.
Qed.

(* both variants are rejected by the static check as well *)
Lemma borrowed_variants_rejected :
  check PIN [] [] (p_getattr_trait_borrowed 1) = false /\ check PIN [] [] (p_setattr_trait_borrowed_old 1) = false.
Proof. split; reflexivity. Qed.

(* ---------- no reference is left behind in the frame ----------
   the owned set after the last instruction: empty on every exit, except the result handed to the caller on the
   successful exit of getattr_trait *)
Fixpoint owned_after (O : list nat) (p : list instr) : list nat :=
  match p with
  | [] => O
  | i :: p' =>
      match i with
      | New l => owned_after (l :: remove_all l O) p'
      | Acquire l => owned_after (l :: O) p'
      | AcquireAs l _ => owned_after (l :: remove_all l O) p'
      | Release l => owned_after (remove1 l O) p'
      | Lookup _ l => owned_after (remove_all l O) p'
      | _ => owned_after O p'
      end
  end.

Lemma getattr_trait_frame : forall n a b c d e,
  owned_after [] (p_getattr_trait n a b c d e) =
  if a && (negb b || c) && (negb d || e) then [L_RES] else [].
Proof. intros n a b c d e. destruct a, b, c, d, e; reflexivity. Qed.

Lemma setattr_paths_frame : forall n,
  (forall a b c, owned_after [] (p_setattr_event a b c) = []) /\
  (forall a b c d e f g h i j k l, owned_after [] (p_setattr_trait n a b c d e f g h i j k l) = []) /\
  (forall a b c d e, owned_after [] (p_delattr_trait n a b c d e) = []).
Proof.
  intro n. repeat split; intros.
  - destruct a, b, c; reflexivity.
  - destruct a, b, c, d, e, f, g, h, i, j, k, l; reflexivity.
  - destruct a, b, c, d, e; reflexivity.
Qed.

(* ---------- trait objects and delegates across callbacks ----------
   Since the repairs e2bc43c (setattr_delegate), ec2634d (has_traits_setattro), fa529d7 (has_traits_getattro) and
   8fb7f44 (trait_property_changed) these paths hold OWNED references to the delegate object, the delegated-to trait
   and the trait object while user code runs.  Locals: 6 delegate, 7 resolved attribute name, 8 trait object
   (has_traits_*: fetched from the instance-trait dict, modelled by the same adversarial dict: remove_trait /
   add_trait from a callback change it), 10 the delegated-to trait, 11 the temporary delegate. *)
Definition L_DEL := 6%nat.
Definition L_NAME := 7%nat.
Definition L_TRAIT := 8%nat.
Definition L_TD := 10%nat.
Definition L_TMP := 11%nat.

(* setattr_delegate (one link of the chain; `from_dict`: the delegate is in the instance dict, else it is computed
   by has_traits_getattro — a new reference, possibly with no other owner; `modify`: TRAIT_MODIFY_DELEGATE) *)
Definition p_setattr_delegate (dname tname : Z) (from_dict getattr_ok has_trait : bool) : list instr :=
  [AcquireAs L_DEL L_OBJ]                                        (* delegate = obj; Py_INCREF(delegate) *)
  ++ [Lookup tname L_TD; Acquire L_TD]                           (* Py_INCREF(traitd): the caller's traitd is borrowed *)
  ++ (if from_dict then [Lookup dname L_TMP; Acquire L_TMP]      (* PyDict_GetItem + Py_INCREF(temp_delegate) *)
      else [Use L_DEL; Use L_TD; Callback] ++ (if getattr_ok then [New L_TMP] else []))   (* has_traits_getattro *)
  ++ (if negb from_dict && negb getattr_ok then [Release L_TD; Release L_DEL]
      else
        [Use L_TD; Use L_DEL; New L_NAME]                        (* delegate_attr_name(traitd, delegate, daname) *)
        ++ [Release L_DEL; AcquireAs L_DEL L_TMP; Release L_TMP] (* Py_DECREF(delegate); delegate = temp_delegate *)
        ++ [Use L_DEL]                                           (* PyHasTraits_Check / trait dict lookups *)
        ++ (if negb has_trait then [Release L_TD; Release L_DEL; Release L_NAME]
            else
              [Release L_TD; Lookup tname L_TD; Acquire L_TD]    (* Py_INCREF(temp_traitd); Py_DECREF(traitd) *)
              ++ [Use L_TD; Use L_DEL; Use L_NAME; Use L_ARG; Callback]   (* traitd->setattr(traitd, traitd, delegate, ...) *)
              ++ [Use L_TD; Use L_DEL]                           (* ... which goes on using both *)
              ++ [Release L_TD; Release L_DEL; Release L_NAME])).

(* has_traits_setattro / has_traits_getattro: Py_INCREF(trait) around trait->setattr / trait->getattr *)
Definition p_has_traits_setattro (tname : Z) : list instr :=
  [Lookup tname L_TRAIT; Acquire L_TRAIT; Use L_TRAIT; Use L_ARG; Callback; Use L_TRAIT; Release L_TRAIT].
Definition p_has_traits_getattro (tname : Z) : list instr :=
  [Lookup tname L_TRAIT; Acquire L_TRAIT; Use L_TRAIT; Callback; Use L_TRAIT; Release L_TRAIT].
(* trait_property_changed: get_trait gives a new reference; tnotifiers is a field of the (owned) trait; the property
   getter runs; call_notifiers uses the list; the trait is released afterwards *)
Definition p_trait_property_changed (tname : Z) (getter_ok : bool) : list instr :=
  [Lookup tname L_TRAIT; Acquire L_TRAIT; Use L_TRAIT; Callback]
  ++ (if getter_ok then [Use L_TRAIT; Callback] else []) ++ [Release L_TRAIT].

Lemma trait_paths_check : forall dname tname a b c g,
  check PIN [] [] (p_setattr_delegate dname tname a b c) = true /\
  check PIN [] [] (p_has_traits_setattro tname) = true /\
  check PIN [] [] (p_has_traits_getattro tname) = true /\
  check PIN [] [] (p_trait_property_changed tname g) = true.
Proof. intros dname tname a b c g. destruct a, b, c, g; repeat split; reflexivity. Qed.

Lemma trait_paths_frame : forall dname tname a b c g,
  owned_after [] (p_setattr_delegate dname tname a b c) = [] /\
  owned_after [] (p_has_traits_setattro tname) = [] /\
  owned_after [] (p_has_traits_getattro tname) = [] /\
  owned_after [] (p_trait_property_changed tname g) = [].
Proof. intros dname tname a b c g. destruct a, b, c, g; repeat split; reflexivity. Qed.

(* the delegate, the delegated-to trait and the trait object are never used after user code ran unless the frame
   owns them — for every adversary *)
Theorem trait_and_delegate_paths_use_only_owned_references :
  forall dname tname d e adv,
    (forall a b c, run PIN (p_setattr_delegate dname tname a b c) (start d e) adv = true) /\
    run PIN (p_has_traits_setattro tname) (start d e) adv = true /\
    run PIN (p_has_traits_getattro tname) (start d e) adv = true /\
    (forall g, run PIN (p_trait_property_changed tname g) (start d e) adv = true).
Proof.
  intros dname tname d e adv.
  repeat split; intros; eapply check_sound; try apply rel_nil;
    try (destruct (trait_paths_check dname tname a b c true) as [A _]; exact A);
    try (destruct (trait_paths_check dname tname true true true true) as [_ [A _]]; exact A);
    try (destruct (trait_paths_check dname tname true true true true) as [_ [_ [A _]]]; exact A);
    try (destruct (trait_paths_check dname tname true true true g) as [_ [_ [_ A]]]; exact A).
Qed.

(* ---------- the code BEFORE those repairs (borrowed references), kept as refuted variants ---------- *)
Definition p_setattr_delegate_borrowed (dname : Z) : list instr :=
  [Lookup dname L_DEL; Use L_DEL; New L_NAME; Use L_DEL; Use L_DEL; Use L_ARG; Callback; Use L_DEL; Release L_NAME].
Definition p_has_traits_setattro_borrowed (tname : Z) : list instr :=
  [Lookup tname L_TRAIT; Use L_TRAIT; Use L_ARG; Callback; Use L_TRAIT].
Definition p_has_traits_getattro_borrowed (tname : Z) : list instr :=
  [Lookup tname L_TRAIT; Use L_TRAIT; Callback; Use L_TRAIT].
Definition L_NOTIF := 9%nat.
Definition p_trait_property_changed_borrowed (tname : Z) : list instr :=
  [Lookup tname L_TRAIT; Acquire L_TRAIT; Lookup tname L_NOTIF; Release L_TRAIT; Callback; Use L_NOTIF].

Theorem setattr_delegate_borrowed_refuted :
  check PIN [] [] (p_setattr_delegate_borrowed 9) = false /\
  exists d e adv, run PIN (p_setattr_delegate_borrowed 9) (start d e) adv = false.
Proof.
  split; [reflexivity|].
  exists [(9, 60)], (fun k => Z.of_nat k), [([(9, 60)], 70); ([], 0)]. vm_compute. reflexivity.
Qed.

Theorem has_traits_setattro_borrowed_refuted :
  check PIN [] [] (p_has_traits_setattro_borrowed 9) = false /\
  exists d e adv, run PIN (p_has_traits_setattro_borrowed 9) (start d e) adv = false.
Proof. split; [reflexivity|]. exists [(9, 60)], (fun k => Z.of_nat k), [([], 0)]. vm_compute. reflexivity. Qed.

Theorem borrowed_trait_on_read_and_property_changed_refuted :
  (check PIN [] [] (p_has_traits_getattro_borrowed 9) = false /\
   exists d e adv, run PIN (p_has_traits_getattro_borrowed 9) (start d e) adv = false) /\
  (check PIN [] [] (p_trait_property_changed_borrowed 9) = false /\
   exists d e adv, run PIN (p_trait_property_changed_borrowed 9) (start d e) adv = false).
Proof.
  split; (split; [reflexivity|]).
  - exists [(9, 60)], (fun k => Z.of_nat k), [([], 0)]. vm_compute. reflexivity.
  - exists [(9, 60)], (fun k => Z.of_nat k), [([], 0); ([], 0)]. vm_compute. reflexivity.
Qed.

(* ---------- call_notifiers 2259-2329: a private snapshot of the notifier lists ----------
   local 12 = all_notifiers: a NEW list owning a reference to every notifier (2295-2309); the handlers run (and may
   unregister handlers, i.e. change the lists the snapshot was taken from); the loop uses only the snapshot. *)
Definition L_SNAP := 12%nat.
Definition p_call_notifiers (nlist : Z) : list instr :=
  [Lookup nlist L_NOTIF; Use L_NOTIF; New L_SNAP; Callback; Use L_SNAP; Callback; Use L_SNAP; Release L_SNAP].
(* the shape of seed C18-u1: iterate over the object's own notifier list while the handlers run *)
Definition p_call_notifiers_live_list (nlist : Z) : list instr :=
  [Lookup nlist L_NOTIF; Use L_NOTIF; Callback; Use L_NOTIF; Callback; Use L_NOTIF].

Theorem call_notifiers_snapshot :
  (forall nlist d e adv, run PIN (p_call_notifiers nlist) (start d e) adv = true) /\
  check PIN [] [] (p_call_notifiers_live_list 9) = false /\
  exists d e adv, run PIN (p_call_notifiers_live_list 9) (start d e) adv = false.
Proof.
  split; [intros; apply (check_sound PIN _ [] []); [reflexivity | apply rel_nil]|]. split; [reflexivity|].
  exists [(9, 60)], (fun k => Z.of_nat k), [([], 0)]. vm_compute. reflexivity.
Qed.
