(* C18 — proofs about the reference-count ledger. *)
From Coq Require Import ZArith List Bool Lia.
From TV Require Import Common.Harness C18.Model C18.Law.
Import ListNotations.
Open Scope Z_scope.

Arguments ind : simpl never.
Arguments oind : simpl never.

(* ---------- dictionary facts ---------- *)
Lemma occ_remove : forall d n a, occ (remove d n) a = occ d a - oind (lookup d n) a.
Proof.
  induction d as [|[k v] r IH]; intros n a; cbn [occ remove lookup].
  - unfold oind. lia.
  - destruct (k =? n); cbn [occ].
    + unfold oind. lia.
    + rewrite IH. lia.
Qed.

Lemma occ_store : forall d n v a, occ (store d n v) a = occ d a + ind v a - oind (lookup d n) a.
Proof. intros. unfold store. cbn [occ]. rewrite occ_remove. lia. Qed.

(* ---------- ledger facts ---------- *)
Lemma net_inc : forall x l a, net (inc x l) a = ind x a + net l a.
Proof. intros. unfold inc. cbn [net]. lia. Qed.
Lemma net_dec : forall x l a, net (dec x l) a = net l a - ind x a.
Proof. intros. unfold dec. cbn [net]. lia. Qed.
Lemma net_xdec : forall x l a, net (xdec x l) a = net l a - oind x a.
Proof. intros. destruct x; unfold xdec; [rewrite net_dec|]; unfold oind; lia. Qed.
Lemma net_l_store : forall d n v l a, net (l_store d n v l) a = net l a + ind v a - oind (lookup d n) a.
Proof. intros. unfold l_store. rewrite net_xdec, net_inc. lia. Qed.
Lemma net_l_remove : forall d n l a, net (l_remove d n l) a = net l a - oind (lookup d n) a.
Proof. intros. unfold l_remove. rewrite net_xdec. lia. Qed.

Lemma oind_some : forall x a, oind (Some x) a = ind x a.
Proof. reflexivity. Qed.
Lemma oind_none : forall a, oind None a = 0.
Proof. reflexivity. Qed.

Lemma net_nil : forall a, net [] a = 0.
Proof. reflexivity. Qed.
Arguments call_notifiers : simpl never.
Arguments validate : simpl never.
Arguments default_value_for : simpl never.
Arguments getattr_trait : simpl never.
Arguments l_store : simpl never.
Arguments l_remove : simpl never.
Arguments store : simpl never.
Arguments remove : simpl never.
Arguments inc : simpl never.
Arguments dec : simpl never.
Arguments xdec : simpl never.
Arguments net : simpl never.
Arguments occ : simpl never.

Ltac led := repeat (rewrite ?net_inc, ?net_dec, ?net_xdec, ?net_l_store, ?net_l_remove, ?occ_store, ?occ_remove,
                     ?oind_some, ?oind_none, ?net_nil in *).

(* ---------- the modelled C functions ---------- *)
(* trait->validate returns a NEW reference or leaves everything as it was *)
Lemma validate_ledger : forall t v l r e l' a, validate t v l = (r, e, l') ->
  net l' a = net l a + oind r a.
Proof.
  intros t v l r e l' a H. unfold validate in H.
  destruct (t_has_validate t); [destruct (vlookup (t_vld t) v)|]; inversion H; subst; led; lia.
Qed.

Lemma default_ledger : forall t l r e l' a, default_value_for t l = (r, e, l') ->
  net l' a = net l a + oind r a.
Proof.
  intros t l r e l' a H. unfold default_value_for in H.
  destruct (t_dflt t) as [d | [x|] |].
  - inversion H; subst; led; lia.
  - destruct (t_has_validate t) eqn:Hv.
    + destruct (validate t x (inc x l)) as [[w e1] l2] eqn:V.
      pose proof (validate_ledger _ _ _ _ _ _ a V) as HV.
      destruct w as [w|]; destruct (t_orig t); inversion H; subst; led; lia.
    + inversion H; subst; led; lia.
  - inversion H; subst; led; lia.
  - inversion H; subst; led; lia.
Qed.

Lemma call_notifiers_ledger : forall c t u old new l ok k l' a,
  call_notifiers c t u old new l = (ok, k, l') -> net l' a = net l a.
Proof.
  intros c t u old new l ok k l' a H. unfold call_notifiers in H.
  destruct (if u && (t_cmp_none t || negb (old =? new)) then run_handlers (c_reraise c) (t_handlers t) else (true, 0)) as [ok' k'].
  inversion H; subst; led; lia.
Qed.

Ltac dchanged :=
  match goal with
  | |- context[if (t_cmp_none ?t || ?x || ?y) then _ else _] => destruct (t_cmp_none t || x || y)
  | |- context[if (t_cmp_none ?t || ?x) then _ else _] => destruct (t_cmp_none t || x)
  end.

Definition balanced (d : dict) (l0 : ledger) (r : res) : Prop :=
  forall a, net (r_ledger r) a = net l0 a + occ (r_dict r) a - occ d a + oind (r_ret r) a.

Lemma getattr_trait_balanced : forall c t d n l, balanced d l (getattr_trait c t d n l).
Proof.
  intros c t d n l a. unfold getattr_trait; cbv zeta.
  destruct (default_value_for t l) as [[r e] l1] eqn:D.
  pose proof (default_ledger _ _ _ _ _ a D) as HD.
  destruct r as [r|]; simpl.
  - destruct (run_post t) as [[|]|]; simpl.
    + destruct (has_notifiers t).
      * destruct (call_notifiers c t false A_NONE r (l_store d n r l1)) as [[ok k] l3] eqn:N.
        pose proof (call_notifiers_ledger _ _ _ _ _ _ _ _ _ a N) as HN.
        destruct ok; simpl; led; lia.
      * simpl; led; lia.
    + led; lia.
    + destruct (has_notifiers t).
      * destruct (call_notifiers c t false A_NONE r (l_store d n r l1)) as [[ok k] l3] eqn:N.
        pose proof (call_notifiers_ledger _ _ _ _ _ _ _ _ _ a N) as HN.
        destruct ok; simpl; led; lia.
      * simpl; led; lia.
  - led; lia.
Qed.

Lemma do_get_balanced : forall c t d n, balanced d [] (do_get c t d n).
Proof.
  intros c t d n a. unfold do_get; cbv zeta.
  destruct (lookup d n) as [v|] eqn:L; simpl.
  - led; lia.
  - destruct (t_kind t); [apply getattr_trait_balanced | simpl; led; lia | apply getattr_trait_balanced].
Qed.

Lemma setattr_event_balanced : forall c t d v, balanced d [] (setattr_event c t d v).
Proof.
  intros c t d v a. unfold setattr_event; cbv zeta.
  destruct (validate t v []) as [[w e] l1] eqn:V.
  pose proof (validate_ledger _ _ _ _ _ _ a V) as HV.
  destruct w as [w|]; simpl.
  - destruct (has_notifiers t).
    + destruct (call_notifiers c t true A_NONE w l1) as [[ok k] l2] eqn:N.
      pose proof (call_notifiers_ledger _ _ _ _ _ _ _ _ _ a N) as HN. simpl; led; lia.
    + simpl; led; lia.
  - led; lia.
Qed.

Lemma setattr_trait_balanced : forall c t d n v, balanced d [] (setattr_trait c t d n v).
Proof.
  intros c t d n v a. unfold setattr_trait; cbv zeta.
  destruct (validate t v []) as [[value e] l1] eqn:V.
  pose proof (validate_ledger _ _ _ _ _ _ a V) as HV.
  destruct value as [value|]; [|simpl; led; lia].
  set (need := (match run_post t with Some _ => true | None => false end) || has_notifiers t).
  destruct need.
  - destruct (lookup d n) as [o|] eqn:L.
    + (* old value present *)
      cbv zeta.
      destruct (c_dictfail c); [simpl; led; lia|].
      dchanged.
      * destruct (run_post t) as [[|]|].
        -- destruct (has_notifiers t).
           ++ destruct (call_notifiers c t true o (if t_orig t then v else value)
                          (l_store d n (if t_orig t then v else value) (inc o l1))) as [[ok k] l4] eqn:N.
              pose proof (call_notifiers_ledger _ _ _ _ _ _ _ _ _ a N) as HN.
              simpl; led; rewrite ?L in *; led; lia.
           ++ simpl; led; rewrite ?L in *; led; lia.
        -- simpl; led; rewrite ?L in *; led; lia.
        -- destruct (has_notifiers t).
           ++ destruct (call_notifiers c t true o (if t_orig t then v else value)
                          (l_store d n (if t_orig t then v else value) (inc o l1))) as [[ok k] l4] eqn:N.
              pose proof (call_notifiers_ledger _ _ _ _ _ _ _ _ _ a N) as HN.
              simpl; led; rewrite ?L in *; led; lia.
           ++ simpl; led; rewrite ?L in *; led; lia.
      * simpl; led; rewrite ?L in *; led; lia.
    + (* default materialised as old value *)
      destruct (default_value_for t l1) as [[o e2] l2] eqn:D.
      pose proof (default_ledger _ _ _ _ _ a D) as HD.
      destruct o as [o|]; [|simpl; led; lia].
      assert (Lo : lookup (store d n o) n = Some o) by (unfold store; simpl; rewrite Z.eqb_refl; reflexivity).
      destruct (run_post t) as [[|]|] eqn:RP.
      * cbv zeta.
        destruct (c_dictfail c); [simpl; led; rewrite ?L in *; led; lia|].
        dchanged.
        -- destruct (has_notifiers t).
           ++ destruct (call_notifiers c t true o (if t_orig t then v else value)
                          (l_store (store d n o) n (if t_orig t then v else value) (l_store d n o l2)))
                as [[ok k] l4] eqn:N.
              pose proof (call_notifiers_ledger _ _ _ _ _ _ _ _ _ a N) as HN.
              simpl; led; rewrite ?Lo, ?L in *; led; lia.
           ++ simpl; led; rewrite ?Lo, ?L in *; led; lia.
        -- simpl; led; rewrite ?Lo, ?L in *; led; lia.
      * simpl; led; rewrite ?L in *; led; lia.
      * cbv zeta.
        destruct (c_dictfail c); [simpl; led; rewrite ?L in *; led; lia|].
        dchanged.
        -- destruct (has_notifiers t).
           ++ destruct (call_notifiers c t true o (if t_orig t then v else value)
                          (l_store (store d n o) n (if t_orig t then v else value) (l_store d n o l2)))
                as [[ok k] l4] eqn:N.
              pose proof (call_notifiers_ledger _ _ _ _ _ _ _ _ _ a N) as HN.
              simpl; led; rewrite ?Lo, ?L in *; led; lia.
           ++ simpl; led; rewrite ?Lo, ?L in *; led; lia.
        -- simpl; led; rewrite ?Lo, ?L in *; led; lia.
  - (* neither post_setattr nor notifiers: old value not looked at *)
    cbv zeta.
    destruct (c_dictfail c); [simpl; led; lia|].
    destruct (t_cmp_none t || false).
    + destruct (run_post t) as [[|]|]; [destruct (has_notifiers t)| |destruct (has_notifiers t)];
        try (simpl; led; lia).
      * destruct (call_notifiers c t true A_NONE (if t_orig t then v else value)
                    (l_store d n (if t_orig t then v else value) l1)) as [[ok k] l4] eqn:N.
        pose proof (call_notifiers_ledger _ _ _ _ _ _ _ _ _ a N) as HN. simpl; led; lia.
      * destruct (call_notifiers c t true A_NONE (if t_orig t then v else value)
                    (l_store d n (if t_orig t then v else value) l1)) as [[ok k] l4] eqn:N.
        pose proof (call_notifiers_ledger _ _ _ _ _ _ _ _ _ a N) as HN. simpl; led; lia.
    + simpl; led; lia.
Qed.

Lemma delattr_trait_balanced : forall c t d n, balanced d [] (delattr_trait c t d n).
Proof.
  intros c t d n a. unfold delattr_trait; cbv zeta.
  destruct (lookup d n) as [o|] eqn:L; [|simpl; led; lia].
  destruct (has_notifiers t); [|simpl; led; rewrite ?L in *; led; lia].
  pose proof (getattr_trait_balanced c t (remove d n) n (l_remove d n (inc o [])) a) as G.
  destruct (getattr_trait c t (remove d n) n (l_remove d n (inc o []))) as [gd go gk gl gr]. simpl in G.
  simpl. destruct gr as [value|].
  - dchanged.
    + destruct (run_post t) as [[|]|].
      * destruct (call_notifiers c t true o value gl) as [[ok k] l3] eqn:N.
        pose proof (call_notifiers_ledger _ _ _ _ _ _ _ _ _ a N) as HN.
        simpl; led; rewrite ?L in *; led; lia.
      * simpl; led; rewrite ?L in *; led; lia.
      * destruct (call_notifiers c t true o value gl) as [[ok k] l3] eqn:N.
        pose proof (call_notifiers_ledger _ _ _ _ _ _ _ _ _ a N) as HN.
        simpl; led; rewrite ?L in *; led; lia.
    + simpl; led; rewrite ?L in *; led; lia.
  - simpl; led; rewrite ?L in *; led; lia.
Qed.

(* Every operation, succeeding or failing, on every configuration and state: the net effect of all
   INCREF/DECREF of the path on any object a is exactly the change of the number of references the
   state holds to a, plus the reference handed to the caller. *)
Lemma getattr_prop_balanced : forall c t d n, balanced d [] (getattr_prop c t d n).
Proof.
  intros c t d n a. unfold getattr_prop; cbv zeta.
  destruct (t_dflt t) as [x | [x|] |]; simpl; led; lia.
Qed.

Lemma run_setter_ledger : forall c t d n v l d' ok l' a, run_setter c t d n v l = (d', ok, l') ->
  net l' a = net l a + occ d' a - occ d a.
Proof.
  intros c t d n v l d' ok l' a H. unfold run_setter in H. destruct (t_post t); inversion H; subst; led; lia.
Qed.

Lemma setattr_prop_balanced : forall c t d n v, balanced d [] (setattr_prop c t d n v).
Proof.
  intros c t d n v a. unfold setattr_prop; cbv zeta.
  destruct (t_has_validate t) eqn:HV.
  - destruct (validate t v []) as [[w e] l1] eqn:V.
    pose proof (validate_ledger _ _ _ _ _ _ a V) as HVl.
    destruct w as [w|]; [|simpl; led; lia].
    destruct (run_setter c t d n w l1) as [[d' ok] l2] eqn:S.
    pose proof (run_setter_ledger _ _ _ _ _ _ _ _ _ a S) as HS. simpl; led; lia.
  - destruct (run_setter c t d n v []) as [[d' ok] l2] eqn:S.
    pose proof (run_setter_ledger _ _ _ _ _ _ _ _ _ a S) as HS. simpl; led; lia.
Qed.

Lemma do_op_balanced : forall c d o, balanced d [] (do_op c d o).
Proof.
  intros c d o. destruct o as [n v | n | n | n v | n]; unfold do_op; destruct (tlookup (c_traits c) n) as [t|];
    try (intro a; simpl; led; lia).
  5:{ intro a. destruct (default_value_for t []) as [[r e] l1] eqn:D.
      pose proof (default_ledger _ _ _ _ _ a D) as HD. destruct r; simpl; led; lia. }
  4:{ intro a. destruct (validate t v []) as [[w e] l1] eqn:V.
      pose proof (validate_ledger _ _ _ _ _ _ a V) as HV. destruct w; simpl; led; lia. }
  - destruct (t_kind t); [apply setattr_trait_balanced | apply setattr_event_balanced | apply setattr_prop_balanced].
  - destruct (t_kind t); [apply do_get_balanced | apply do_get_balanced | apply getattr_prop_balanced].
  - destruct (t_kind t); [apply delattr_trait_balanced | intro a; simpl; led; lia | intro a; simpl; led; lia].
Qed.

Lemma refdelta : forall c d o a,
  observed_delta (do_op c d o) a = occ (r_dict (do_op c d o)) a - occ d a.
Proof. intros. unfold observed_delta. pose proof (do_op_balanced c d o a) as H. simpl in H. lia. Qed.

(* the model never crashes (Crashed is an implementation-only observation) *)
Lemma getattr_trait_no_crash : forall c t d n l, r_out (getattr_trait c t d n l) <> Crashed.
Proof.
  intros. unfold getattr_trait; cbv zeta.
  destruct (default_value_for t l) as [[[r|] e] l1]; simpl; try discriminate.
  destruct (run_post t) as [[|]|]; simpl; try discriminate;
    (destruct (has_notifiers t); [destruct (call_notifiers c t false A_NONE r (l_store d n r l1)) as [[[|] k] l3]|];
     simpl; discriminate).
Qed.

Lemma do_op_no_crash : forall c d o, r_out (do_op c d o) <> Crashed.
Proof.
  intros c d o. destruct o as [n v | n | n | n v | n]; unfold do_op; destruct (tlookup (c_traits c) n) as [t|];
    simpl; try discriminate.
  5:{ destruct (default_value_for t []) as [[[r|] e] l1]; simpl; discriminate. }
  4:{ destruct (validate t v []) as [[[w|] e] l1]; simpl; discriminate. }
  - destruct (t_kind t).
    + unfold setattr_trait; cbv zeta.
      destruct (validate t v []) as [[[value|] e] l1]; simpl; try discriminate.
      destruct ((match run_post t with Some _ => true | None => false end) || has_notifiers t).
      * destruct (lookup d n) as [o|].
        -- cbv zeta. destruct (c_dictfail c); simpl; try discriminate.
           dchanged; simpl; try discriminate.
           destruct (run_post t) as [[|]|]; simpl; try discriminate;
             (destruct (has_notifiers t); simpl; try discriminate;
              match goal with |- context[call_notifiers ?a ?b ?c ?d ?e ?f] =>
                destruct (call_notifiers a b c d e f) as [[[|] k] l4] end; simpl; discriminate).
        -- destruct (default_value_for t l1) as [[[o|] e2] l2]; simpl; try discriminate.
           destruct (run_post t) as [[|]|]; simpl; try discriminate;
             (cbv zeta; destruct (c_dictfail c); simpl; try discriminate;
              dchanged; simpl; try discriminate;
              destruct (has_notifiers t); simpl; try discriminate;
              match goal with |- context[call_notifiers ?a ?b ?c ?d ?e ?f] =>
                destruct (call_notifiers a b c d e f) as [[[|] k] l4] end; simpl; discriminate).
      * cbv zeta. destruct (c_dictfail c); simpl; try discriminate.
        destruct (t_cmp_none t || false); simpl; try discriminate.
        destruct (run_post t) as [[|]|]; simpl; try discriminate;
          (destruct (has_notifiers t); simpl; try discriminate;
           match goal with |- context[call_notifiers ?a ?b ?c ?d ?e ?f] =>
             destruct (call_notifiers a b c d e f) as [[[|] k] l4] end; simpl; discriminate).
    + unfold setattr_event. destruct (validate t v []) as [[[w|] e] l1]; simpl; try discriminate.
      destruct (has_notifiers t); simpl; try discriminate.
      destruct (call_notifiers c t true A_NONE w l1) as [[[|] k] l2]; simpl; discriminate.
    + unfold setattr_prop, run_setter; cbv zeta.
      destruct (t_has_validate t); [destruct (validate t v []) as [[[w|] e] l1]|]; simpl; try discriminate;
        destruct (t_post t); simpl; discriminate.
  - assert (G : r_out (do_get c t d n) <> Crashed).
    { unfold do_get. destruct (lookup d n); simpl; try discriminate.
      destruct (t_kind t); simpl; try discriminate; apply getattr_trait_no_crash. }
    destruct (t_kind t); try exact G.
    unfold getattr_prop; cbv zeta. destruct (t_dflt t) as [x | [x|] |]; simpl; discriminate.
  - destruct (t_kind t); simpl; try discriminate.
    unfold delattr_trait. destruct (lookup d n) as [o|]; simpl; try discriminate.
    destruct (has_notifiers t); simpl; try discriminate.
    pose proof (getattr_trait_no_crash c t (remove d n) n (l_remove d n (inc o []))) as G.
    destruct (getattr_trait c t (remove d n) n (l_remove d n (inc o []))) as [gd go gk gl [value|]]; simpl in *.
    + dchanged; simpl; try discriminate.
      destruct (run_post t) as [[|]|]; simpl; try discriminate;
        (destruct (call_notifiers c t true o value gl) as [[[|] k] l3]; simpl; discriminate).
    + exact G.
Qed.

(* ---------- the law on every history ---------- *)
Lemma step_law : forall c pool d o, law_step d (snd (step c pool d o)) = [].
Proof.
  intros c pool d o. unfold law_step, step. simpl.
  assert (N : neutral d {| o_out := r_out (do_op c d o); o_dict := r_dict (do_op c d o);
                           o_calls := r_calls (do_op c d o);
                           o_delta := map (fun a => (a, observed_delta (do_op c d o) a)) pool |} = true).
  { unfold neutral. simpl. rewrite forallb_forall. intros [a k] Hin. simpl.
    apply in_map_iff in Hin. destruct Hin as [a' [He _]]. inversion He; subst.
    rewrite refdelta. apply Z.eqb_refl. }
  rewrite N. unfold not_crashed. simpl.
  pose proof (do_op_no_crash c d o) as NC. destruct (r_out (do_op c d o)); simpl; try reflexivity.
  exfalso. apply NC. reflexivity.
Qed.

Lemma run_law : forall c pool ops d i, law_hist i d (run c pool d ops) = [].
Proof.
  intros c pool ops. induction ops as [|o r IH]; intros d i; simpl; [reflexivity|].
  pose proof (step_law c pool d o) as S. unfold step in *. simpl in *. rewrite S. simpl. apply IH.
Qed.

(* Prop reading: every measured atom of every step of every history is neutral *)
Lemma step_Neutral : forall c pool d o, Neutral d (snd (step c pool d o)).
Proof.
  intros c pool d o a k Hin. unfold step in Hin. simpl in Hin.
  apply in_map_iff in Hin. destruct Hin as [a' [He _]]. inversion He; subst. apply refdelta.
Qed.
