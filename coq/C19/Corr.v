(* C19 — correspondence: the callbacks of the driver's class, the paired run of the
   model (faulted object and twin), and the comparison with the implementation. *)
From Coq Require Import ZArith List Bool.
From TV Require Import Common.LSet Common.Harness C19.Model C19.Law.
Import ListNotations.
Open Scope Z_scope.

(* tools/drivers/c19_driver.py: V accepts the int atoms 0..99, rejects everything else;
   _get_c returns 2*x+1; the factory default is atom 41, _m_default gives atom 42, _y_default gives 43;
   an adapter chain of length n applied to atom v yields atom v + 1000*n. *)
Definition d_vld (v : Z) : option Z := if (0 <=? v) && (v <? 100) then Some v else None.
Definition d_getter (xv : Z) : Z := 2 * xv + 1.
Definition d_adapt (n : nat) (v : Z) : Z := v + 1000 * Z.of_nat n.

(* the number of filter invocations of one registration walk is c + k * (number of zz traits); c and k are measured
   by the driver on the running tree and are part of the case *)
Definition d_fcalls (c k : nat) (n : nat) : nat := (c + k * n)%nat.
Definition mstep (c k : nat) := step d_vld d_getter 41 42 d_adapt 43 (d_fcalls c k).
Definition mfired (c k : nat) := fired d_vld d_getter 41 42 d_adapt 43 (d_fcalls c k).

Section Run.
  Variable vld : Z -> option Z.
  Variable getter_c : Z -> Z.
  Variable fac_value mdef_value : Z.
  Variable adapt_value : nat -> Z -> Z.
  Variable ydef_value : Z.
  Variable fcalls : nat -> nat.
  Let stp := step vld getter_c fac_value mdef_value adapt_value ydef_value fcalls.

  (* the paired run of the model: what the law is proved about *)
  Fixpoint run2 (a tw : st) (h : list (op * plan)) : list hstep :=
    match h with
    | [] => []
    | (o, pl) :: r =>
        let '(a', out, lg) := stp pl a o in
        let fr := fired vld getter_c fac_value mdef_value adapt_value ydef_value fcalls pl a o in
        let skip := match pl with FaultCall _ _ => fr | _ => false end in
        let '(tw', outt, lgt) := if skip then (tw, Ok, []) else stp NoFault tw o in
        (o, pl, fr, mkObs out a' lg 0 0, mkObs outt tw' lgt 0 0) :: run2 a' tw' r
    end.
End Run.

(* initial state, initial registration digest, filter-call constants (c, k), history *)
Definition case := (st * Z * (nat * nat) * list hstep)%type.

Definition dict_equiv (a b : list (Z * Z)) : bool :=
  forallb (fun kv => opt_eqb Z.eqb (dlookup (fst kv) b) (Some (snd kv))) a
  && forallb (fun kv => opt_eqb Z.eqb (dlookup (fst kv) a) (Some (snd kv))) b.

(* model state vs implementation snapshot: lists exactly, dict and set extensionally *)
Definition st_equiv (a b : st) : bool :=
  Z.eqb (x a) (x b) && pair_eqb (t a) (t b) && list_eqb Z.eqb (l a) (l b)
  && dict_equiv (d a) (d b) && seteq (s a) (s b)
  && opt_eqb Z.eqb (f a) (f b) && opt_eqb Z.eqb (m a) (m b) && Z.eqb (p a) (p b)
  && opt_eqb Z.eqb (c a) (c b) && Z.eqb (ad a) (ad b) && opt_eqb Z.eqb (y a) (y b) && Z.eqb (ad2 a) (ad2 b)
  && Nat.eqb (oreg a) (oreg b) && list_eqb Z.eqb (zz a) (zz b) && Z.eqb (ade a) (ade b)
  && opt_eqb Z.eqb (pv a) (pv b) && Z.eqb (dpv a) (dpv b)
  && opt_eqb Z.eqb (ch a) (ch b) && Bool.eqb (chreg a) (chreg b) && Z.eqb (u a) (u b).

Definition is_opaque (o : op) : bool := match o with Opaque _ => true | _ => false end.
(* operations that legitimately change the notifier lists *)
Definition changes_reg (o : op) : bool :=
  match o with ObsAdd | ObsRemove | AddZ | SetPV _ | DelPV | RegDot | UnregDot | ReadCh | SetCV _ => true | _ => false end.
(* handlers 6 (observer with a user filter), 7 (getter of the depends_on property) and 8 (validator of the
   synchronised partner) are outside the model as far as the fired flag goes *)
Definition unmodelled_handler (pl : plan) : bool :=
  match pl with FaultHandler j _ => (Nat.leb 6 j && Nat.leb j 8) || Nat.leb 11 j | _ => false end.

(* codes: 100*step + 1 outcome, 2 state of the faulted object, 3 handler log, 4 fired flag, 5 twin state,
   6 registrations (a modelled operation registers or removes nothing: the digest stays what it was).
   Operations outside the model (Opaque) are skipped: only the law speaks about them. *)
Fixpoint corr_hist (fc fk : nat) (rega regt : Z) (i : Z) (a tw : st) (h : list hstep) : list Z :=
  match h with
  | [] => []
  | (o, pl, fr, oa, ot) :: r =>
      let '(a', out, lg) := mstep fc fk pl a o in
      let mfr := mfired fc fk pl a o in
      let skip := match pl with FaultCall _ _ => mfr | _ => false end in
      let '(tw', _, _) := if skip then (tw, Ok, []) else mstep fc fk NoFault tw o in
      (if is_opaque o then []
       else map (fun cd => 100 * i + cd)
          (chk 1 (outcome_eqb out (o_out oa))
           ++ chk 2 (st_equiv a' (o_st oa))
           ++ chk 3 (log_eqb lg (o_log oa))
           ++ chk 4 (unmodelled_handler pl || Bool.eqb mfr fr)
           ++ chk 5 (st_equiv tw' (o_st ot))
           ++ chk 6 (changes_reg o || (Z.eqb (o_reg oa) rega && Z.eqb (o_reg ot) regt))))
      ++ corr_hist fc fk (o_reg oa) (o_reg ot) (i + 1) (o_st oa) (o_st ot) r
  end.

Definition corr_codes (cs : case) : list Z := let '(init, reg0, (fc, fk), h) := cs in corr_hist fc fk reg0 reg0 0 init init h.
Definition law_codes (cs : case) : list Z := let '(init, _, _, h) := cs in law_hist 0 init h.
