(* C19 — proofs: for every callback behaviour, every state, every operation and every fault plan
   (every ordinal k, every exception class, every handler) the model satisfies the law. *)
From Coq Require Import ZArith List Bool Lia.
From TV Require Import Common.LSet Common.Harness C19.Model C19.Law C19.Corr.
Import ListNotations.
Open Scope Z_scope.

Lemma exn_eqb_refl e : exn_eqb e e = true. Proof. destruct e; reflexivity. Qed.
Lemma outcome_eqb_refl o : outcome_eqb o o = true. Proof. destruct o; cbn; [reflexivity | apply exn_eqb_refl]. Qed.
Lemma list_eqb_refl {A} (eqb : A -> A -> bool) (Hr : forall a, eqb a a = true) l : list_eqb eqb l l = true.
Proof. induction l as [|a l IH]; cbn; [reflexivity | rewrite Hr, IH; reflexivity]. Qed.
Lemma pair_eqb_refl a : pair_eqb a a = true.
Proof. unfold pair_eqb. rewrite !Z.eqb_refl. reflexivity. Qed.
Lemma logent_eqb_refl a : logent_eqb a a = true.
Proof. destruct a as [[j a] b]. cbn. rewrite Nat.eqb_refl, !Z.eqb_refl. reflexivity. Qed.
Lemma log_eqb_refl l : log_eqb l l = true.
Proof. apply list_eqb_refl, logent_eqb_refl. Qed.
Lemma opt_eqb_refl o : opt_eqb Z.eqb o o = true.
Proof. destruct o; cbn; [apply Z.eqb_refl | reflexivity]. Qed.
Lemma st_eqb_refl a : st_eqb a a = true.
Proof.
  unfold st_eqb. rewrite !Z.eqb_refl, pair_eqb_refl, !opt_eqb_refl, Nat.eqb_refl, Bool.eqb_reflx.
  rewrite !(list_eqb_refl Z.eqb Z.eqb_refl), (list_eqb_refl pair_eqb pair_eqb_refl). reflexivity.
Qed.

Section Main.
  Variable vld : Z -> option Z.
  Variable getter_c : Z -> Z.
  Variable fac_value mdef_value : Z.
  Variable adapt_value : nat -> Z -> Z.
  Variable ydef_value : Z.
  Variable fcalls : nat -> nat.
  Notation stp := (step vld getter_c fac_value mdef_value adapt_value ydef_value fcalls).
  Notation frd := (fired vld getter_c fac_value mdef_value adapt_value ydef_value fcalls).

  (* ---- the deciding primitives under a call fault ------------------------------- *)
  Lemma call_vld_cases k e n v :
    (call_vld vld (FaultCall k OtherError) n v = RRaise OtherError /\ call_vld vld (FaultCall k e) n v = RRaise e) \/
    (call_vld vld (FaultCall k OtherError) n v = call_vld vld NoFault n v /\
     call_vld vld (FaultCall k e) n v = call_vld vld NoFault n v).
  Proof. unfold call_vld, call_fault. destruct (Nat.eqb k n); [left | right]; split; reflexivity. Qed.

  Lemma call_vld_nofault n v e : call_vld vld NoFault n v = RRaise e -> e = TraitError.
  Proof. unfold call_vld. cbn. destruct (vld v); intros H; [discriminate | congruence]. Qed.

  Lemma vld_items_cases k e : forall vs n,
    (vld_items vld (FaultCall k OtherError) n vs = RRaise OtherError /\ vld_items vld (FaultCall k e) n vs = RRaise e) \/
    (vld_items vld (FaultCall k OtherError) n vs = vld_items vld NoFault n vs /\
     vld_items vld (FaultCall k e) n vs = vld_items vld NoFault n vs).
  Proof.
    induction vs as [|v r IH]; intros n; cbn [vld_items]; [right; split; reflexivity|].
    destruct (call_vld_cases k e n v) as [[H1 H2]|[H1 H2]]; rewrite H1, H2; [left; split; reflexivity|].
    destruct (call_vld vld NoFault n v) as [y|e0]; [|right; split; reflexivity].
    destruct (IH (S n)) as [[G1 G2]|[G1 G2]]; rewrite G1, G2; [left | right]; split; reflexivity.
  Qed.

  Lemma vld_items_nofault : forall vs n e, vld_items vld NoFault n vs = RRaise e -> e = TraitError.
  Proof.
    induction vs as [|v r IH]; intros n e; cbn [vld_items]; [discriminate|].
    destruct (call_vld vld NoFault n v) as [y|e0] eqn:E.
    - destruct (vld_items vld NoFault (S n) r) as [ys|e1] eqn:E2; [discriminate|].
      intros H. injection H as <-. eapply IH. exact E2.
    - intros H. injection H as <-. eapply call_vld_nofault. exact E.
  Qed.

  Lemma vld_pairs_cases k e : forall kvs n,
    (vld_pairs vld (FaultCall k OtherError) n kvs = RRaise OtherError /\ vld_pairs vld (FaultCall k e) n kvs = RRaise e) \/
    (vld_pairs vld (FaultCall k OtherError) n kvs = vld_pairs vld NoFault n kvs /\
     vld_pairs vld (FaultCall k e) n kvs = vld_pairs vld NoFault n kvs).
  Proof.
    induction kvs as [|[a b] r IH]; intros n; cbn [vld_pairs]; [right; split; reflexivity|].
    destruct (call_vld_cases k e n a) as [[H1 H2]|[H1 H2]]; rewrite H1, H2; [left; split; reflexivity|].
    destruct (call_vld vld NoFault n a) as [a'|e0]; [|right; split; reflexivity].
    destruct (call_vld_cases k e (S n) b) as [[H3 H4]|[H3 H4]]; rewrite H3, H4; [left; split; reflexivity|].
    destruct (call_vld vld NoFault (S n) b) as [b'|e1]; [|right; split; reflexivity].
    destruct (IH (S (S n))) as [[G1 G2]|[G1 G2]]; rewrite G1, G2; [left | right]; split; reflexivity.
  Qed.

  Lemma vld_pairs_nofault : forall kvs n e, vld_pairs vld NoFault n kvs = RRaise e -> e = TraitError.
  Proof.
    induction kvs as [|[a b] r IH]; intros n e; cbn [vld_pairs]; [discriminate|].
    destruct (call_vld vld NoFault n a) as [a'|e0] eqn:E; [|intros H; injection H as <-; eapply call_vld_nofault; exact E].
    destruct (call_vld vld NoFault (S n) b) as [b'|e1] eqn:E1; [|intros H; injection H as <-; eapply call_vld_nofault; exact E1].
    destruct (vld_pairs vld NoFault (S (S n)) r) as [ys|e2] eqn:E2; [discriminate|].
    intros H. injection H as <-. eapply IH. exact E2.
  Qed.

  Lemma call_plain_cases k e n :
    (call_plain (FaultCall k OtherError) n = Some OtherError /\ call_plain (FaultCall k e) n = Some e) \/
    (call_plain (FaultCall k OtherError) n = None /\ call_plain (FaultCall k e) n = None).
  Proof. unfold call_plain, call_fault. destruct (Nat.eqb k n); [left | right]; split; reflexivity. Qed.

  Lemma call_chain_cases k e : forall len n,
    (call_chain (FaultCall k OtherError) n len = Some OtherError /\ call_chain (FaultCall k e) n len = Some e) \/
    (call_chain (FaultCall k OtherError) n len = None /\ call_chain (FaultCall k e) n len = None).
  Proof.
    induction len as [|len IH]; intros n; cbn [call_chain]; [right; split; reflexivity|].
    destruct (call_plain_cases k e n) as [[H1 H2]|[H1 H2]]; rewrite H1, H2; [left; split; reflexivity | apply IH].
  Qed.

  Lemma call_chain_nofault : forall len n, call_chain NoFault n len = None.
  Proof. induction len as [|len IH]; intros n; cbn; [reflexivity | apply IH]. Qed.

  (* ---- one operation under a deciding-callback fault ------------------------------ *)
  (* Either the fault is reached: the operation raises exactly the injected exception and the
     object is untouched and silent; or it is not reached: the operation is the fault-free one. *)
  Theorem step_fault_call k e s0 o :
    (stp (FaultCall k OtherError) s0 o = (s0, Raise OtherError, []) /\ stp (FaultCall k e) s0 o = (s0, Raise e, [])) \/
    (stp (FaultCall k OtherError) s0 o = stp NoFault s0 o /\ stp (FaultCall k e) s0 o = stp NoFault s0 o).
  Proof.
    destruct o; cbn [step].
    - (* SetX *) destruct (call_vld_cases k e 0 v) as [[H1 H2]|[H1 H2]]; rewrite H1, H2; [left | right]; split; reflexivity.
    - (* SetT *)
      destruct (call_vld_cases k e 0 a) as [[H1 H2]|[H1 H2]]; rewrite H1, H2; [left; split; reflexivity|].
      destruct (call_vld vld NoFault 0 a) as [a'|e0]; [|right; split; reflexivity].
      destruct (call_vld_cases k e 1 b) as [[H3 H4]|[H3 H4]]; rewrite H3, H4; [left | right]; split; reflexivity.
    - destruct (vld_items_cases k e vs 0) as [[H1 H2]|[H1 H2]]; rewrite H1, H2; [left | right]; split; reflexivity.
    - destruct (call_vld_cases k e 0 v) as [[H1 H2]|[H1 H2]]; rewrite H1, H2; [left | right]; split; reflexivity.
    - destruct (vld_items_cases k e vs 0) as [[H1 H2]|[H1 H2]]; rewrite H1, H2; [left | right]; split; reflexivity.
    - destruct (vld_items_cases k e vs 0) as [[H1 H2]|[H1 H2]]; rewrite H1, H2; [left | right]; split; reflexivity.
    - destruct (call_vld_cases k e 0 v) as [[H1 H2]|[H1 H2]]; rewrite H1, H2; [left | right]; split; reflexivity.
    - destruct (vld_items_cases k e vs 0) as [[H1 H2]|[H1 H2]]; rewrite H1, H2; [left | right]; split; reflexivity.
    - destruct (vld_pairs_cases k e kvs 0) as [[H1 H2]|[H1 H2]]; rewrite H1, H2; [left | right]; split; reflexivity.
    - destruct (vld_pairs_cases k e [(k0, v)] 0) as [[H1 H2]|[H1 H2]]; rewrite H1, H2; [left | right]; split; reflexivity.
    - destruct (vld_pairs_cases k e kvs 0) as [[H1 H2]|[H1 H2]]; rewrite H1, H2; [left | right]; split; reflexivity.
    - destruct (dlookup k0 (d s0)); [right; split; reflexivity|].
      destruct (vld_pairs_cases k e [(k0, v)] 0) as [[H1 H2]|[H1 H2]]; rewrite H1, H2; [left | right]; split; reflexivity.
    - destruct (vld_items_cases k e vs 0) as [[H1 H2]|[H1 H2]]; rewrite H1, H2; [left | right]; split; reflexivity.
    - destruct (call_vld_cases k e 0 v) as [[H1 H2]|[H1 H2]]; rewrite H1, H2; [left | right]; split; reflexivity.
    - destruct (vld_items_cases k e vs 0) as [[H1 H2]|[H1 H2]]; rewrite H1, H2; [left | right]; split; reflexivity.
    - destruct (f s0); [right; split; reflexivity|].
      destruct (call_plain_cases k e 0) as [[H1 H2]|[H1 H2]]; rewrite H1, H2; [left | right]; split; reflexivity.
    - destruct (m s0); [right; split; reflexivity|].
      destruct (call_plain_cases k e 0) as [[H1 H2]|[H1 H2]]; rewrite H1, H2; [left | right]; split; reflexivity.
    - destruct (call_plain_cases k e 0) as [[H1 H2]|[H1 H2]]; rewrite H1, H2; [left | right]; split; reflexivity.
    - destruct (call_plain_cases k e 0) as [[H1 H2]|[H1 H2]]; rewrite H1, H2; [left | right]; split; reflexivity.
    - destruct (c s0); [right; split; reflexivity|].
      destruct (call_plain_cases k e 0) as [[H1 H2]|[H1 H2]]; rewrite H1, H2; [left | right]; split; reflexivity.
    - destruct (call_chain_cases k e chain 0) as [[H1 H2]|[H1 H2]]; rewrite H1, H2, ?call_chain_nofault; [left | right]; split; reflexivity.
    - (* SIxor *) destruct (vld_items_cases k e (diff vs (inter (s s0) vs)) 0) as [[H1 H2]|[H1 H2]]; rewrite H1, H2; [left | right]; split; reflexivity.
    - (* SSymDiff *) destruct (vld_items_cases k e (diff vs (inter (s s0) vs)) 0) as [[H1 H2]|[H1 H2]]; rewrite H1, H2; [left | right]; split; reflexivity.
    - (* SetY *)
      destruct (call_vld_cases k e 0 v) as [[H1 H2]|[H1 H2]]; rewrite H1, H2; [left; split; reflexivity|].
      destruct (call_vld vld NoFault 0 v) as [v'|e0]; [|right; split; reflexivity].
      destruct (y s0); [right; split; reflexivity|].
      destruct (call_plain_cases k e 1) as [[H3 H4]|[H3 H4]]; rewrite H3, H4; [left; split; reflexivity|].
      destruct (call_vld_cases k e 2 ydef_value) as [[H5 H6]|[H5 H6]]; rewrite H5, H6; [left | right]; split; reflexivity.
    - (* ReadY *)
      destruct (y s0); [right; split; reflexivity|].
      destruct (call_plain_cases k e 0) as [[H1 H2]|[H1 H2]]; rewrite H1, H2; [left; split; reflexivity|].
      destruct (call_vld_cases k e 1 ydef_value) as [[H5 H6]|[H5 H6]]; rewrite H5, H6; [left | right]; split; reflexivity.
    - (* SetAd2 *)
      destruct chain as [n|]; [|right; split; reflexivity].
      destruct (call_chain_cases k e n 0) as [[H1 H2]|[H1 H2]]; rewrite H1, H2, ?call_chain_nofault; [left | right]; split; reflexivity.
    - (* SetXQ *) destruct (call_vld_cases k e 0 v) as [[H1 H2]|[H1 H2]]; rewrite H1, H2; [left | right]; split; reflexivity.
    - (* ObsAdd *)
      destruct (call_chain_cases k e (fcalls (length (zz s0))) 0) as [[H1 H2]|[H1 H2]];
        rewrite H1, H2, ?call_chain_nofault; [left | right]; split; reflexivity.
    - (* ObsRemove *)
      destruct (oreg s0); [right; split; reflexivity|].
      destruct (call_chain_cases k e (fcalls (length (zz s0))) 0) as [[H1 H2]|[H1 H2]];
        rewrite H1, H2, ?call_chain_nofault; [left | right]; split; reflexivity.
    - (* AddZ *) right; split; reflexivity.
    - (* SetZ *) right; split; reflexivity.
    - (* SetAdE *)
      destruct (call_chain_cases k e chain 0) as [[H1 H2]|[H1 H2]]; rewrite H1, H2, ?call_chain_nofault; [left | right]; split; reflexivity.
    - (* Opaque *) right; split; reflexivity.
    - (* SetPV *) destruct (call_vld_cases k e 0 v) as [[H1 H2]|[H1 H2]]; rewrite H1, H2; [left | right]; split; reflexivity.
    - (* SetDPV *) destruct (call_vld_cases k e 0 v) as [[H1 H2]|[H1 H2]]; rewrite H1, H2; [left | right]; split; reflexivity.
    - (* DelPV *) right; split; reflexivity.
    - (* RegDot *) destruct (chreg s0); [right; split; reflexivity|]. destruct (ch s0); [right; split; reflexivity|].
      destruct (call_plain_cases k e 0) as [[H1 H2]|[H1 H2]]; rewrite H1, H2; [left | right]; split; reflexivity.
    - (* UnregDot *) right; split; reflexivity.
    - (* ReadCh *) destruct (ch s0); [right; split; reflexivity|].
      destruct (call_plain_cases k e 0) as [[H1 H2]|[H1 H2]]; rewrite H1, H2; [left | right]; split; reflexivity.
    - (* SetCV *) destruct (ch s0); [right; split; reflexivity|].
      destruct (call_plain_cases k e 0) as [[H1 H2]|[H1 H2]]; rewrite H1, H2; [left | right]; split; reflexivity.
    - (* SetU *) destruct (call_plain_cases k e 0) as [[H1 H2]|[H1 H2]]; rewrite H1, H2; [left | right]; split; reflexivity.
  Qed.

  (* whatever the plan, an operation that raises has touched nothing and notified nobody *)
  Theorem step_raise_inert pl s0 o s1 e lg : stp pl s0 o = (s1, Raise e, lg) -> s1 = s0 /\ lg = [].
  Proof.
    assert (Hr : forall e0 sa, raise e0 sa = (s1, Raise e, lg) -> s1 = sa /\ lg = []).
    { unfold raise. intros e0 sa H. injection H as <- _ <-. split; reflexivity. }
    assert (Hd : forall sa lg0, done sa lg0 = (s1, Raise e, lg) -> s1 = s0 /\ lg = []).
    { unfold done. intros sa lg0 H. discriminate. }
    assert (Hl : forall new a b, list_commit pl s0 new a b = (s1, Raise e, lg) -> s1 = s0 /\ lg = []).
    { unfold list_commit. intros new a b. destruct (_ && _); apply Hd. }
    destruct o; cbn [step];
      repeat match goal with
             | |- context [match ?X with _ => _ end] => destruct X
             end; eauto.
  Qed.

  (* a fault-free operation raises TraitError only (or NotifierNotFound, for a removal with nothing registered) *)
  Definition natural (e : exn) : Prop := e = TraitError \/ e = NotifierNotFound.
  Theorem step_nofault_raises_natural s0 o s1 e lg : stp NoFault s0 o = (s1, Raise e, lg) -> natural e.
  Proof.
    assert (Hd : forall sa lg0, done sa lg0 = (s1, Raise e, lg) -> natural e) by (unfold done; discriminate).
    assert (Hl : forall new a b, list_commit NoFault s0 new a b = (s1, Raise e, lg) -> natural e).
    { unfold list_commit. intros new a b. destruct (_ && _); apply Hd. }
    assert (Hr : forall e0 sa, raise e0 sa = (s1, Raise e, lg) -> e0 = e).
    { unfold raise. intros e0 sa H. injection H as _ <- _. reflexivity. }
    destruct o; cbn [step].
    - destruct (call_vld vld NoFault 0 v) as [y|e0] eqn:E;
        [| intros H; apply Hr in H; subst e0; left; eapply call_vld_nofault; exact E].
      destruct (Z.eqb y (x s0)); apply Hd.
    - destruct (call_vld vld NoFault 0 a) as [a'|e0] eqn:E;
        [| intros H; apply Hr in H; subst e0; left; eapply call_vld_nofault; exact E].
      destruct (call_vld vld NoFault 1 b) as [b'|e1] eqn:E1;
        [apply Hd | intros H; apply Hr in H; subst e1; left; eapply call_vld_nofault; exact E1].
    - destruct (vld_items vld NoFault 0 vs) as [ys|e0] eqn:E;
        [apply Hd | intros H; apply Hr in H; subst e0; left; eapply vld_items_nofault; exact E].
    - destruct (call_vld vld NoFault 0 v) as [y|e0] eqn:E;
        [apply Hl | intros H; apply Hr in H; subst e0; left; eapply call_vld_nofault; exact E].
    - destruct (vld_items vld NoFault 0 vs) as [ys|e0] eqn:E;
        [apply Hl | intros H; apply Hr in H; subst e0; left; eapply vld_items_nofault; exact E].
    - destruct (vld_items vld NoFault 0 vs) as [ys|e0] eqn:E;
        [apply Hl | intros H; apply Hr in H; subst e0; left; eapply vld_items_nofault; exact E].
    - destruct (call_vld vld NoFault 0 v) as [y|e0] eqn:E;
        [apply Hl | intros H; apply Hr in H; subst e0; left; eapply call_vld_nofault; exact E].
    - destruct (vld_items vld NoFault 0 vs) as [ys|e0] eqn:E;
        [apply Hl | intros H; apply Hr in H; subst e0; left; eapply vld_items_nofault; exact E].
    - destruct (vld_pairs vld NoFault 0 kvs) as [ys|e0] eqn:E;
        [apply Hd | intros H; apply Hr in H; subst e0; left; eapply vld_pairs_nofault; exact E].
    - destruct (vld_pairs vld NoFault 0 [(k, v)]) as [ys|e0] eqn:E;
        [apply Hd | intros H; apply Hr in H; subst e0; left; eapply vld_pairs_nofault; exact E].
    - destruct (vld_pairs vld NoFault 0 kvs) as [ys|e0] eqn:E;
        [apply Hd | intros H; apply Hr in H; subst e0; left; eapply vld_pairs_nofault; exact E].
    - destruct (dlookup k (d s0)); [apply Hd|].
      destruct (vld_pairs vld NoFault 0 [(k, v)]) as [ys|e0] eqn:E;
        [apply Hd | intros H; apply Hr in H; subst e0; left; eapply vld_pairs_nofault; exact E].
    - destruct (vld_items vld NoFault 0 vs) as [ys|e0] eqn:E;
        [apply Hd | intros H; apply Hr in H; subst e0; left; eapply vld_items_nofault; exact E].
    - destruct (call_vld vld NoFault 0 v) as [y|e0] eqn:E;
        [apply Hd | intros H; apply Hr in H; subst e0; left; eapply call_vld_nofault; exact E].
    - destruct (vld_items vld NoFault 0 vs) as [ys|e0] eqn:E;
        [apply Hd | intros H; apply Hr in H; subst e0; left; eapply vld_items_nofault; exact E].
    - destruct (f s0); apply Hd.
    - destruct (m s0); apply Hd.
    - apply Hd.
    - apply Hd.
    - destruct (c s0); apply Hd.
    - rewrite call_chain_nofault. apply Hd.
    - destruct (vld_items vld NoFault 0 (diff vs (inter (s s0) vs))) as [ys|e0] eqn:E;
        [apply Hd | intros H; apply Hr in H; subst e0; left; eapply vld_items_nofault; exact E].
    - destruct (vld_items vld NoFault 0 (diff vs (inter (s s0) vs))) as [ys|e0] eqn:E;
        [apply Hd | intros H; apply Hr in H; subst e0; left; eapply vld_items_nofault; exact E].
    - destruct (call_vld vld NoFault 0 v) as [v'|e0] eqn:E;
        [| intros H; apply Hr in H; subst e0; left; eapply call_vld_nofault; exact E].
      destruct (y s0) as [old|]; [destruct (Z.eqb v' old); apply Hd|].
      cbn [call_plain call_fault].
      destruct (call_vld vld NoFault 2 ydef_value) as [dv|e1] eqn:E1;
        [destruct (Z.eqb v' dv); apply Hd | intros H; apply Hr in H; subst e1; left; eapply call_vld_nofault; exact E1].
    - destruct (y s0); [apply Hd|]. cbn [call_plain call_fault].
      destruct (call_vld vld NoFault 1 ydef_value) as [dv|e1] eqn:E1;
        [apply Hd | intros H; apply Hr in H; subst e1; left; eapply call_vld_nofault; exact E1].
    - destruct chain as [n|]; [rewrite call_chain_nofault|]; apply Hd.
    - destruct (call_vld vld NoFault 0 v) as [y|e0] eqn:E;
        [apply Hd | intros H; apply Hr in H; subst e0; left; eapply call_vld_nofault; exact E].
    - (* ObsAdd *) rewrite call_chain_nofault. apply Hd.
    - (* ObsRemove *) destruct (oreg s0); [intros H; apply Hr in H; subst e; right; reflexivity|].
      rewrite call_chain_nofault. apply Hd.
    - (* AddZ *) apply Hd.
    - (* SetZ *) destruct (length (zz s0)); [apply Hd|]. destruct (Z.eqb _ _); apply Hd.
    - (* SetAdE *) rewrite call_chain_nofault. apply Hd.
    - apply Hd.
    - (* SetPV *) destruct (call_vld vld NoFault 0 v) as [y|e0] eqn:E;
        [| intros H; apply Hr in H; subst e0; left; eapply call_vld_nofault; exact E].
      destruct (Z.eqb y _); apply Hd.
    - (* SetDPV *) destruct (call_vld vld NoFault 0 v) as [y|e0] eqn:E;
        [| intros H; apply Hr in H; subst e0; left; eapply call_vld_nofault; exact E].
      destruct (Z.eqb y (dpv s0)); apply Hd.
    - (* DelPV *) destruct (pv s0) as [o|]; [destruct (Z.eqb o (dpv s0))|]; apply Hd.
    - (* RegDot *) destruct (chreg s0); [apply Hd|]. destruct (ch s0); apply Hd.
    - (* UnregDot *) destruct (chreg s0); apply Hd.
    - (* ReadCh *) destruct (ch s0); apply Hd.
    - (* SetCV *) destruct (ch s0) as [old|]; [destruct (Z.eqb v old); apply Hd|]. cbn [call_plain call_fault].
      destruct (Z.eqb v 0); apply Hd.
    - (* SetU *) cbn [call_plain call_fault]. destruct (vld v); [apply Hd|]. destruct (Z.leb 100 v); [apply Hd|].
      intros H; apply Hr in H; subst e; left; reflexivity.
  Qed.

  (* ---- one operation under a handler fault ------------------------------------------ *)
  Lemma vld_items_handler j e : forall vs n, vld_items vld (FaultHandler j e) n vs = vld_items vld NoFault n vs.
  Proof. induction vs as [|v r IH]; intros n; cbn [vld_items]; [reflexivity|]. unfold call_vld. cbn [call_fault]. rewrite IH. reflexivity. Qed.
  Lemma vld_pairs_handler j e : forall kvs n, vld_pairs vld (FaultHandler j e) n kvs = vld_pairs vld NoFault n kvs.
  Proof.
    induction kvs as [|[a b] r IH]; intros n; cbn [vld_pairs]; [reflexivity|].
    unfold call_vld. cbn [call_fault]. rewrite IH. reflexivity.
  Qed.
  Lemma call_chain_handler j e : forall len n, call_chain (FaultHandler j e) n len = None.
  Proof. induction len as [|len IH]; intros n; cbn; [reflexivity | apply IH]. Qed.

  Definition drop_handler (j : nat) (lg : list logent) : list logent :=
    filter (fun en => negb (Nat.eqb (hid en) j)) lg.

  Lemma run_handlers_handler j e hs a b :
    run_handlers (FaultHandler j e) hs a b = drop_handler j (run_handlers NoFault hs a b).
  Proof.
    unfold run_handlers, drop_handler. induction hs as [|h hs IH]; [reflexivity|].
    cbn [filter handler_fault negb map]. cbn [handler_fault] in IH.
    unfold hid at 1. cbn [fst]. rewrite (Nat.eqb_sym h j).
    destruct (Nat.eqb j h); cbn [negb map]; rewrite IH; reflexivity.
  Qed.

  Theorem step_fault_handler j e s0 o :
    stp (FaultHandler j e) s0 o =
    (fst (fst (stp NoFault s0 o)), snd (fst (stp NoFault s0 o)), drop_handler j (snd (stp NoFault s0 o))).
  Proof.
    assert (Hl : forall new a b,
               list_commit (FaultHandler j e) s0 new a b =
               (fst (fst (list_commit NoFault s0 new a b)), snd (fst (list_commit NoFault s0 new a b)),
                drop_handler j (snd (list_commit NoFault s0 new a b)))).
    { intros new a b. unfold list_commit. destruct (_ && _); [reflexivity|].
      unfold done. cbn [fst snd]. rewrite run_handlers_handler. reflexivity. }
    destruct o; cbn [step];
      try match goal with c0 : option nat |- _ => destruct c0 end;
      rewrite ?vld_items_handler, ?vld_pairs_handler, ?call_chain_handler, ?call_chain_nofault;
      unfold call_vld, call_plain; cbn [call_fault];
      repeat match goal with
             | |- context [match ?X with _ => _ end] => destruct X
             end; try reflexivity; try apply Hl;
      unfold done; cbn [fst snd]; rewrite run_handlers_handler; reflexivity.
  Qed.

  (* ---- the law on the paired run ------------------------------------------------------ *)
  Lemma law_step_ok before pl fr a tw :
    (negb (is_raise (o_out a)) || (st_eqb (o_st a) before && is_nil (o_log a))) = true ->
    (match o_out a, pl with
     | Raise e', FaultCall _ e => negb fr || exn_eqb e' e || exn_eqb e' TraitError
     | _, _ => true end) = true ->
    (match pl with FaultCall _ _ => negb fr || is_raise (o_out a) | _ => true end) = true ->
    (match pl with
     | FaultHandler j _ => outcome_eqb (o_out a) (o_out tw)
                           && log_eqb (o_log a) (filter (fun e => negb (Nat.eqb (hid e) j)) (o_log tw))
     | _ => true end) = true ->
    st_eqb (o_st a) (o_st tw) = true ->
    (match pl with
     | NoFault => outcome_eqb (o_out a) (o_out tw) && log_eqb (o_log a) (o_log tw)
     | FaultCall _ _ => fr || (outcome_eqb (o_out a) (o_out tw) && log_eqb (o_log a) (o_log tw))
     | FaultHandler _ _ => true end) = true ->
    Z.eqb (o_reg a) (o_reg tw) = true ->
    Z.eqb (o_aux a) (o_aux tw) = true ->
    law_step before pl fr a tw = [].
  Proof. intros H1 H2 H3 H4 H5 H6 H7 H8. unfold law_step. rewrite H1, H2, H3, H4, H5, H6, H7, H8. reflexivity. Qed.

  Lemma clause1_of_step pl s0 o s1 out lg :
    stp pl s0 o = (s1, out, lg) ->
    (negb (is_raise out) || (st_eqb s1 s0 && is_nil lg)) = true.
  Proof.
    intros H. destruct out as [|e]; [reflexivity|]. apply step_raise_inert in H. destruct H as [-> ->].
    cbn. rewrite st_eqb_refl. reflexivity.
  Qed.

  Notation run2' := (run2 vld getter_c fac_value mdef_value adapt_value ydef_value fcalls).

  Theorem run2_law : forall h s0 i, law_hist i s0 (run2' s0 s0 h) = [].
  Proof.
    induction h as [|[o pl] r IH]; intros s0 i; [reflexivity|].
    cbn [run2]. destruct pl as [|k e|j e].
    - (* no fault *)
      cbn [fired]. destruct (stp NoFault s0 o) as [[s1 out] lg] eqn:E.
      cbn [law_hist]. rewrite law_step_ok; cbn [o_out o_st o_log o_reg o_aux app map].
      + apply IH.
      + eapply clause1_of_step; exact E.
      + destruct out; reflexivity.
      + reflexivity.
      + reflexivity.
      + apply st_eqb_refl.
      + rewrite outcome_eqb_refl, log_eqb_refl. reflexivity.
      + reflexivity.
      + reflexivity.
    - (* deciding-callback fault *)
      cbn [fired]. destruct (step_fault_call k e s0 o) as [[H1 H2]|[H1 H2]]; rewrite H1, H2.
      + (* reached *)
        cbn [law_hist]. rewrite law_step_ok; cbn [o_out o_st o_log o_reg o_aux app map is_raise negb orb andb is_nil].
        * apply IH.
        * rewrite st_eqb_refl. reflexivity.
        * rewrite exn_eqb_refl. reflexivity.
        * reflexivity.
        * reflexivity.
        * apply st_eqb_refl.
        * reflexivity.
        * reflexivity.
        * reflexivity.
      + (* not reached: the operation is the fault-free one, on both objects *)
        destruct (stp NoFault s0 o) as [[s1 out] lg] eqn:E.
        assert (Hf : match out with Raise OtherError => true | _ => false end = false).
        { destruct out as [|e']; [reflexivity|]. apply step_nofault_raises_natural in E. destruct E; subst e'; reflexivity. }
        rewrite Hf. cbn [law_hist]. rewrite law_step_ok; cbn [o_out o_st o_log o_reg o_aux app map negb orb].
        * apply IH.
        * eapply clause1_of_step; exact E.
        * destruct out; reflexivity.
        * reflexivity.
        * reflexivity.
        * apply st_eqb_refl.
        * rewrite outcome_eqb_refl, log_eqb_refl. reflexivity.
        * reflexivity.
        * reflexivity.
    - (* handler fault *)
      rewrite step_fault_handler. destruct (stp NoFault s0 o) as [[s1 out] lg] eqn:E. cbn [fst snd].
      cbn [law_hist]. rewrite law_step_ok; cbn [o_out o_st o_log o_reg o_aux app map].
      + apply IH.
      + destruct out as [|e']; [reflexivity|]. apply step_raise_inert in E. destruct E as [-> ->].
        cbn. rewrite st_eqb_refl. reflexivity.
      + destruct out; reflexivity.
      + reflexivity.
      + rewrite outcome_eqb_refl. cbn [andb]. apply log_eqb_refl.
      + apply st_eqb_refl.
      + reflexivity.
      + reflexivity.
      + reflexivity.
  Qed.

  (* Prop readings *)
  Theorem deciding_fault_inert k e s0 o s1 e' lg :
    stp (FaultCall k e) s0 o = (s1, Raise e', lg) -> s1 = s0 /\ lg = [] /\ (e' = e \/ natural e').
  Proof.
    intros H. pose proof (step_raise_inert _ _ _ _ _ _ H) as [-> ->]. split; [reflexivity|]. split; [reflexivity|].
    destruct (step_fault_call k e s0 o) as [[_ H2]|[_ H2]]; rewrite H2 in H.
    - injection H as <-. left. reflexivity.
    - right. eapply step_nofault_raises_natural. exact H.
  Qed.

  Theorem deciding_fault_reached_raises k e s0 o :
    frd (FaultCall k e) s0 o = true -> stp (FaultCall k e) s0 o = (s0, Raise e, []).
  Proof.
    cbn [fired]. destruct (step_fault_call k e s0 o) as [[H1 H2]|[H1 H2]]; rewrite H1; [intros _; exact H2|].
    destruct (stp NoFault s0 o) as [[s1 out] lg] eqn:E. destruct out as [|e']; [discriminate|].
    apply step_nofault_raises_natural in E. destruct E; subst e'; discriminate.
  Qed.

  Theorem handler_fault_complete j e s0 o :
    fst (fst (stp (FaultHandler j e) s0 o)) = fst (fst (stp NoFault s0 o)) /\
    snd (fst (stp (FaultHandler j e) s0 o)) = snd (fst (stp NoFault s0 o)) /\
    snd (stp (FaultHandler j e) s0 o) = drop_handler j (snd (stp NoFault s0 o)).
  Proof. rewrite step_fault_handler. cbn [fst snd]. repeat split; reflexivity. Qed.

  (* after any history with any faults, the faulted object and its twin are the same object *)
  Theorem future_indistinguishable : forall h a,
    forall o pl fr oa ot, In (o, pl, fr, oa, ot) (run2' a a h) -> o_st oa = o_st ot.
  Proof.
    induction h as [|[o pl] r IH]; intros a o' pl' fr oa ot Hin; [destruct Hin|].
    cbn [run2] in Hin.
    assert (Hsame : forall pl0 fr0 a1 out lg outt lgt rest,
               In (o', pl', fr, oa, ot) ((o, pl0, fr0, mkObs out a1 lg 0 0, mkObs outt a1 lgt 0 0) :: run2' a1 a1 rest) ->
               rest = r -> o_st oa = o_st ot).
    { intros pl0 fr0 a1 out lg outt lgt rest [Heq|Hin'] ->.
      - injection Heq as _ _ _ <- <-. reflexivity.
      - eapply IH. exact Hin'. }
    destruct pl as [|k e|j e].
    - destruct (stp NoFault a o) as [[a1 out] lg]. eapply Hsame; [exact Hin | reflexivity].
    - revert Hin. cbn [fired]. destruct (step_fault_call k e a o) as [[H1 H2]|[H1 H2]]; rewrite H1, H2.
      + intros Hin. eapply Hsame; [exact Hin | reflexivity].
      + destruct (stp NoFault a o) as [[a1 out] lg] eqn:E.
        assert (Hf : match out with Raise OtherError => true | _ => false end = false).
        { destruct out as [|e']; [reflexivity|]. apply step_nofault_raises_natural in E. destruct E; subst e'; reflexivity. }
        rewrite Hf. intros Hin. eapply Hsame; [exact Hin | reflexivity].
    - revert Hin. rewrite step_fault_handler. destruct (stp NoFault a o) as [[a1 out] lg]. cbn [fst snd].
      intros Hin. eapply Hsame; [exact Hin | reflexivity].
  Qed.
End Main.
