(* C19 — a failing user callback never leaves an object half-updated.
   Executable model of one HasTraits object with every kind of user callback of
   the property's statement, and a *fault plan*: either the k-th invocation of a
   deciding callback during the operation raises [e], or change handler [j]
   raises [e].  The operations are written after the validate-then-mutate
   structure of the code they model:
     scalar / tuple assignment   ctraits.c setattr_trait (validate, then store, then notifiers)
     list / dict / set mutators  trait_list_object.py, trait_dict_object.py, trait_set_object.py
                                 (every item validated first, built-in mutation afterwards)
     whole-container assignment  trait_types.py List/Dict/Set.validate (fresh Trait*Object)
     defaults                    ctraits.c getattr_trait / default_value_for (computed, then stored)
     properties                  ctraits.c getattr_property*/setattr_property*, has_traits.py cached_property
     adaptation                  adaptation_manager.py _adapt + ctraits.c validate_trait_adapt
     change handlers             trait_notifiers.py / observation/_trait_event_notifier.py: an exception
                                 raised by a handler is routed to the exception handler, never to the caller *)
From Coq Require Import ZArith List Bool.
From TV Require Import Common.LSet.
Import ListNotations.
Open Scope Z_scope.

Inductive exn := TraitError | ValueError | AttributeError | RuntimeError | NotifierNotFound | OtherError.
Inductive outcome := Ok | Raise (e : exn).

Inductive plan :=
| NoFault
| FaultCall (k : nat) (e : exn)      (* the k-th deciding-callback invocation of the operation raises e *)
| FaultHandler (j : nat) (e : exn).  (* change handler j raises e when called *)

Definition call_fault (p : plan) (n : nat) : option exn :=
  match p with FaultCall k e => if Nat.eqb k n then Some e else None | _ => None end.
Definition handler_fault (p : plan) (j : nat) : bool :=
  match p with FaultHandler k _ => Nat.eqb k j | _ => false end.

(* The object.  Integer atoms stand for Python values (driver mapping). *)
Record st := mkSt {
  x : Z;                       (* x = V()                     custom validator *)
  t : Z * Z;                   (* t = Tuple(V(), V())                           *)
  l : list Z;                  (* l = List(V())               item validator    *)
  d : list (Z * Z);            (* d = Dict(V(), V())          key/value validators, unique keys *)
  s : list Z;                  (* s = Set(V())                                  *)
  f : option Z;                (* f = Any(factory=fac)        None = not materialised *)
  m : option Z;                (* m, default from _m_default  None = not materialised *)
  p : Z;                       (* backing store of Property p (user getter/setter) *)
  c : option Z;                (* cache of cached_property c observing x       *)
  ad : Z;                      (* ad = Supports(IProto)       stored adapted value atom *)
  y : option Z;                (* y = V() with a _y_default method and a static handler; None = not materialised *)
  ad2 : Z;                     (* ad2 = Instance(IProto, adapt="default"): -1 = the default None *)
  oreg : nat;                  (* how many times the observer with the user filter match(flt) is registered *)
  zz : list Z;                 (* values of the traits zz0, zz1, ... added with add_trait (the filter matches them) *)
  ade : Z;                     (* ade = Either(Supports(IProto), Instance(Q)): stored atom, -5 = None *)
  pv : option Z;               (* pv = PrototypedFrom("deleg"): the local copy; None = still linked to the prototype *)
  dpv : Z;                     (* deleg.pv = V(): the prototype's own value *)
  ch : option Z;               (* child = Instance(Child) with a _child_default method: None = not created yet,
                                  Some v = created, its `value` trait holds v *)
  chreg : bool;                (* on_trait_change(h10, 'child.value') is registered *)
  u : Z                        (* u = Union(V(), Str()) *)
}.

Inductive op :=
| SetX (v : Z) | SetT (a b : Z)
| LAssign (vs : list Z) | LAppend (v : Z) | LExtend (vs : list Z) | LIadd (vs : list Z)
| LInsert (i : nat) (v : Z)                (* index already clamped to 0..len by the driver's echo *)
| LSetSlice (i j : nat) (vs : list Z)      (* l[i:j] = vs with i <= j <= len *)
| DAssign (kvs : list (Z * Z)) | DSetItem (k v : Z) | DUpdate (kvs : list (Z * Z)) | DSetDefault (k v : Z)
| SAssign (vs : list Z) | SAdd (v : Z) | SUpdate (vs : list Z)
| ReadF | ReadM | ReadP | SetP (v : Z) | ReadC
| SetAd (chain : nat) (v : Z)              (* assign an object needing [chain] adapter factories (0 = provides) *)
| SIxor (vs : list Z) | SSymDiff (vs : list Z)   (* s ^= set(vs) / s.symmetric_difference_update(vs); the members that are
                                              not in s come first, in the order the validator is called on them *)
| SetY (v : Z) | ReadY
| SetAd2 (chain : option nat) (v : Z)      (* adapt="default": None = no adaptation path, the default (None) is stored *)
| SetXQ (v : Z)                            (* trait_setq(x=v): validated assignment with notifications switched off *)
| ObsAdd | ObsRemove                       (* observe(h6, match(flt)) / the same with remove=True: the user filter is a
                                              deciding callback, called [fcalls (length zz)] times by the walk *)
| AddZ                                     (* add_trait("zz<n>", Int()) *)
| SetZ (i : nat) (v : Z)                   (* assign the i-th added trait (index taken modulo their number) *)
| SetAdE (chain : nat) (v : Z)             (* adaptation as one alternative of a compound trait *)
| Opaque (tag : nat)                       (* an operation outside the model (the synchronised partners): no effect on the
                                              modelled fields; only the law on the implementation's observations
                                              (faulted object vs twin) speaks about it *)
| SetPV (v : Z)                            (* a.pv = v: validated by the prototype's trait, stored locally; breaks the link *)
| SetDPV (v : Z)                           (* a.deleg.pv = v: forwarded to a's handler while a holds no local copy *)
| DelPV                                    (* del a.pv: drops the local copy, restores the link *)
| RegDot | UnregDot                        (* on_trait_change(h10, 'child.value') / the same with remove=True: hooking up
                                              reads a.child and so runs _child_default when the child does not exist yet *)
| ReadCh                                   (* a.child *)
| SetCV (v : Z)                            (* a.child.value = v *)
| SetU (v : Z).                            (* a.u = v: the custom validator is the first alternative of a Union *)

(* handler identities *)
Definition H_x_static := 0%nat.     (* _x_changed *)
Definition H_x_dynamic := 1%nat.    (* on_trait_change(h, 'x') *)
Definition H_x_observe := 2%nat.    (* observe(h, 'x') *)
Definition H_l_static := 3%nat.     (* _l_items_changed *)
Definition H_l_observe := 4%nat.    (* observe(h, 'l:items') *)
Definition H_y_static := 5%nat.     (* _y_changed *)
Definition H_z_observe := 6%nat.    (* the observer registered with the user filter *)
Definition H_cv_dynamic := 10%nat.  (* on_trait_change(h, 'child.value') *)
Definition H_pv_dynamic := 9%nat.   (* on_trait_change(h, 'pv') on the deferring object (7, 8: outside the model) *)

Definition logent := (nat * Z * Z)%type.

(* association lists with unique keys *)
Fixpoint dlookup (k : Z) (m : list (Z * Z)) : option Z :=
  match m with [] => None | (k', v) :: r => if Z.eqb k k' then Some v else dlookup k r end.
Definition dremove (k : Z) (m : list (Z * Z)) : list (Z * Z) :=
  filter (fun kv => negb (Z.eqb k (fst kv))) m.
Definition dset (k v : Z) (m : list (Z * Z)) : list (Z * Z) := (k, v) :: dremove k m.
Definition dupdate (kvs : list (Z * Z)) (m : list (Z * Z)) : list (Z * Z) :=
  fold_left (fun acc kv => dset (fst kv) (snd kv) acc) kvs m.

Inductive res (A : Type) := ROk (a : A) | RRaise (e : exn).
Arguments ROk {A}. Arguments RRaise {A}.

Section WithCallbacks.
  Variable vld : Z -> option Z.          (* V.validate: Some y = accept as y, None = self.error -> TraitError *)
  Variable getter_c : Z -> Z.            (* what _get_c computes from x *)
  Variable fac_value : Z.                (* what the default factory returns *)
  Variable mdef_value : Z.               (* what _m_default returns *)
  Variable adapt_value : nat -> Z -> Z.  (* the adapter produced by a chain of that length *)
  Variable ydef_value : Z.               (* what _y_default returns *)
  Variable fcalls : nat -> nat.          (* filter invocations of one registration walk, given the number of zz traits *)

  (* one invocation of the validator as the n-th deciding callback *)
  Definition call_vld (pl : plan) (n : nat) (v : Z) : res Z :=
    match call_fault pl n with
    | Some e => RRaise e
    | None => match vld v with Some y => ROk y | None => RRaise TraitError end
    end.

  (* [self.item_validator(item) for item in vs], invocations n, n+1, ... *)
  Fixpoint vld_items (pl : plan) (n : nat) (vs : list Z) : res (list Z) :=
    match vs with
    | [] => ROk []
    | v :: r =>
        match call_vld pl n v with
        | RRaise e => RRaise e
        | ROk y => match vld_items pl (S n) r with RRaise e => RRaise e | ROk ys => ROk (y :: ys) end
        end
    end.

  (* key then value for each pair, invocations n, n+1, n+2, ... *)
  Fixpoint vld_pairs (pl : plan) (n : nat) (kvs : list (Z * Z)) : res (list (Z * Z)) :=
    match kvs with
    | [] => ROk []
    | (k, v) :: r =>
        match call_vld pl n k with
        | RRaise e => RRaise e
        | ROk k' =>
            match call_vld pl (S n) v with
            | RRaise e => RRaise e
            | ROk v' => match vld_pairs pl (S (S n)) r with RRaise e => RRaise e | ROk ys => ROk ((k', v') :: ys) end
            end
        end
    end.

  (* a user callback without argument (factory, _m_default, getter, setter, adapter factory) *)
  Definition call_plain (pl : plan) (n : nat) : option exn := call_fault pl n.

  Fixpoint call_chain (pl : plan) (n : nat) (len : nat) : option exn :=
    match len with
    | O => None
    | S len' => match call_plain pl n with Some e => Some e | None => call_chain pl (S n) len' end
    end.

  (* handlers hs are called in turn; a raising handler leaves no log entry, the others still run *)
  Definition run_handlers (pl : plan) (hs : list nat) (a b : Z) : list logent :=
    map (fun j => (j, a, b)) (filter (fun j => negb (handler_fault pl j)) hs).

  Definition set_x v s0 := mkSt v (t s0) (l s0) (d s0) (s s0) (f s0) (m s0) (p s0) (c s0) (ad s0) (y s0) (ad2 s0) (oreg s0) (zz s0) (ade s0) (pv s0) (dpv s0) (ch s0) (chreg s0) (u s0).
  Definition set_t v s0 := mkSt (x s0) v (l s0) (d s0) (s s0) (f s0) (m s0) (p s0) (c s0) (ad s0) (y s0) (ad2 s0) (oreg s0) (zz s0) (ade s0) (pv s0) (dpv s0) (ch s0) (chreg s0) (u s0).
  Definition set_l v s0 := mkSt (x s0) (t s0) v (d s0) (s s0) (f s0) (m s0) (p s0) (c s0) (ad s0) (y s0) (ad2 s0) (oreg s0) (zz s0) (ade s0) (pv s0) (dpv s0) (ch s0) (chreg s0) (u s0).
  Definition set_d v s0 := mkSt (x s0) (t s0) (l s0) v (s s0) (f s0) (m s0) (p s0) (c s0) (ad s0) (y s0) (ad2 s0) (oreg s0) (zz s0) (ade s0) (pv s0) (dpv s0) (ch s0) (chreg s0) (u s0).
  Definition set_s v s0 := mkSt (x s0) (t s0) (l s0) (d s0) v (f s0) (m s0) (p s0) (c s0) (ad s0) (y s0) (ad2 s0) (oreg s0) (zz s0) (ade s0) (pv s0) (dpv s0) (ch s0) (chreg s0) (u s0).
  Definition set_f v s0 := mkSt (x s0) (t s0) (l s0) (d s0) (s s0) v (m s0) (p s0) (c s0) (ad s0) (y s0) (ad2 s0) (oreg s0) (zz s0) (ade s0) (pv s0) (dpv s0) (ch s0) (chreg s0) (u s0).
  Definition set_m v s0 := mkSt (x s0) (t s0) (l s0) (d s0) (s s0) (f s0) v (p s0) (c s0) (ad s0) (y s0) (ad2 s0) (oreg s0) (zz s0) (ade s0) (pv s0) (dpv s0) (ch s0) (chreg s0) (u s0).
  Definition set_p v s0 := mkSt (x s0) (t s0) (l s0) (d s0) (s s0) (f s0) (m s0) v (c s0) (ad s0) (y s0) (ad2 s0) (oreg s0) (zz s0) (ade s0) (pv s0) (dpv s0) (ch s0) (chreg s0) (u s0).
  Definition set_c v s0 := mkSt (x s0) (t s0) (l s0) (d s0) (s s0) (f s0) (m s0) (p s0) v (ad s0) (y s0) (ad2 s0) (oreg s0) (zz s0) (ade s0) (pv s0) (dpv s0) (ch s0) (chreg s0) (u s0).
  Definition set_ad v s0 := mkSt (x s0) (t s0) (l s0) (d s0) (s s0) (f s0) (m s0) (p s0) (c s0) v (y s0) (ad2 s0) (oreg s0) (zz s0) (ade s0) (pv s0) (dpv s0) (ch s0) (chreg s0) (u s0).
  Definition set_y v s0 := mkSt (x s0) (t s0) (l s0) (d s0) (s s0) (f s0) (m s0) (p s0) (c s0) (ad s0) v (ad2 s0) (oreg s0) (zz s0) (ade s0) (pv s0) (dpv s0) (ch s0) (chreg s0) (u s0).
  Definition set_ad2 v s0 := mkSt (x s0) (t s0) (l s0) (d s0) (s s0) (f s0) (m s0) (p s0) (c s0) (ad s0) (y s0) v (oreg s0) (zz s0) (ade s0) (pv s0) (dpv s0) (ch s0) (chreg s0) (u s0).
  Definition set_oreg v s0 := mkSt (x s0) (t s0) (l s0) (d s0) (s s0) (f s0) (m s0) (p s0) (c s0) (ad s0) (y s0) (ad2 s0) v (zz s0) (ade s0) (pv s0) (dpv s0) (ch s0) (chreg s0) (u s0).
  Definition set_zz v s0 := mkSt (x s0) (t s0) (l s0) (d s0) (s s0) (f s0) (m s0) (p s0) (c s0) (ad s0) (y s0) (ad2 s0) (oreg s0) v (ade s0) (pv s0) (dpv s0) (ch s0) (chreg s0) (u s0).
  Definition set_ade v s0 := mkSt (x s0) (t s0) (l s0) (d s0) (s s0) (f s0) (m s0) (p s0) (c s0) (ad s0) (y s0) (ad2 s0) (oreg s0) (zz s0) v (pv s0) (dpv s0) (ch s0) (chreg s0) (u s0).

  Definition set_pv v s0 := mkSt (x s0) (t s0) (l s0) (d s0) (s s0) (f s0) (m s0) (p s0) (c s0) (ad s0) (y s0) (ad2 s0) (oreg s0) (zz s0) (ade s0) v (dpv s0) (ch s0) (chreg s0) (u s0).
  Definition set_dpv v s0 := mkSt (x s0) (t s0) (l s0) (d s0) (s s0) (f s0) (m s0) (p s0) (c s0) (ad s0) (y s0) (ad2 s0) (oreg s0) (zz s0) (ade s0) (pv s0) v (ch s0) (chreg s0) (u s0).

  Definition set_ch v s0 := mkSt (x s0) (t s0) (l s0) (d s0) (s s0) (f s0) (m s0) (p s0) (c s0) (ad s0) (y s0) (ad2 s0) (oreg s0) (zz s0) (ade s0) (pv s0) (dpv s0) v (chreg s0) (u s0).
  Definition set_chreg v s0 := mkSt (x s0) (t s0) (l s0) (d s0) (s s0) (f s0) (m s0) (p s0) (c s0) (ad s0) (y s0) (ad2 s0) (oreg s0) (zz s0) (ade s0) (pv s0) (dpv s0) (ch s0) v (u s0).
  Definition set_u v s0 := mkSt (x s0) (t s0) (l s0) (d s0) (s s0) (f s0) (m s0) (p s0) (c s0) (ad s0) (y s0) (ad2 s0) (oreg s0) (zz s0) (ade s0) (pv s0) (dpv s0) (ch s0) (chreg s0) v.

  Definition raise (e : exn) (s0 : st) : st * outcome * list logent := (s0, Raise e, []).
  Definition done (s1 : st) (lg : list logent) : st * outcome * list logent := (s1, Ok, lg).

  (* item mutation of the list: commit + items handlers with (removed count, added count) *)
  Definition list_commit (pl : plan) (s0 : st) (new : list Z) (nrem nadd : nat) :=
    if (Nat.eqb nrem 0 && Nat.eqb nadd 0)%bool then done (set_l new s0) []
    else done (set_l new s0) (run_handlers pl [H_l_static; H_l_observe] (Z.of_nat nrem) (Z.of_nat nadd)).

  Definition step (pl : plan) (s0 : st) (o : op) : st * outcome * list logent :=
    match o with
    | SetX v =>
        match call_vld pl 0 v with
        | RRaise e => raise e s0
        | ROk y =>
            if Z.eqb y (x s0) then done s0 []          (* equal value: nothing stored is observable, no handler *)
            else done (set_c None (set_x y s0))        (* observed dependency changed: cache dropped *)
                      (run_handlers pl [H_x_static; H_x_dynamic; H_x_observe] (x s0) y)
        end
    | SetT a b =>
        match call_vld pl 0 a with
        | RRaise e => raise e s0
        | ROk a' => match call_vld pl 1 b with
                    | RRaise e => raise e s0
                    | ROk b' => done (set_t (a', b') s0) []
                    end
        end
    | LAssign vs =>
        match vld_items pl 0 vs with RRaise e => raise e s0 | ROk ys => done (set_l ys s0) [] end
    | LAppend v =>
        match call_vld pl 0 v with
        | RRaise e => raise e s0
        | ROk y => list_commit pl s0 (l s0 ++ [y]) 0 1
        end
    | LExtend vs | LIadd vs =>
        match vld_items pl 0 vs with
        | RRaise e => raise e s0
        | ROk ys => list_commit pl s0 (l s0 ++ ys) 0 (length ys)
        end
    | LInsert i v =>
        match call_vld pl 0 v with
        | RRaise e => raise e s0
        | ROk y => list_commit pl s0 (firstn i (l s0) ++ [y] ++ skipn i (l s0)) 0 1
        end
    | LSetSlice i j vs =>
        match vld_items pl 0 vs with
        | RRaise e => raise e s0
        | ROk ys => list_commit pl s0 (firstn i (l s0) ++ ys ++ skipn (Nat.max i j) (l s0))
                                (Nat.min (Nat.max i j) (length (l s0)) - Nat.min i (length (l s0))) (length ys)
        end
    | DAssign kvs =>
        match vld_pairs pl 0 kvs with RRaise e => raise e s0 | ROk ys => done (set_d (dupdate ys []) s0) [] end
    | DSetItem k v =>
        match vld_pairs pl 0 [(k, v)] with RRaise e => raise e s0 | ROk ys => done (set_d (dupdate ys (d s0)) s0) [] end
    | DUpdate kvs =>
        match vld_pairs pl 0 kvs with RRaise e => raise e s0 | ROk ys => done (set_d (dupdate ys (d s0)) s0) [] end
    | DSetDefault k v =>
        match dlookup k (d s0) with
        | Some _ => done s0 []                                  (* raw containment first: no callback at all *)
        | None => match vld_pairs pl 0 [(k, v)] with
                  | RRaise e => raise e s0
                  | ROk ys => done (set_d (dupdate ys (d s0)) s0) []
                  end
        end
    | SAssign vs =>
        match vld_items pl 0 vs with RRaise e => raise e s0 | ROk ys => done (set_s ys s0) [] end
    | SAdd v =>
        match call_vld pl 0 v with
        | RRaise e => raise e s0
        | ROk y => done (set_s (if mem y (s s0) then s s0 else y :: s s0) s0) []
        end
    | SUpdate vs =>
        match vld_items pl 0 vs with
        | RRaise e => raise e s0
        | ROk ys => done (set_s (union (s s0) (diff ys (s s0))) s0) []
        end
    | ReadF =>
        match f s0 with
        | Some _ => done s0 []
        | None => match call_plain pl 0 with
                  | Some e => raise e s0
                  | None => done (set_f (Some fac_value) s0) []
                  end
        end
    | ReadM =>
        match m s0 with
        | Some _ => done s0 []
        | None => match call_plain pl 0 with
                  | Some e => raise e s0
                  | None => done (set_m (Some mdef_value) s0) []
                  end
        end
    | ReadP =>
        match call_plain pl 0 with Some e => raise e s0 | None => done s0 [] end
    | SetP v =>
        match call_plain pl 0 with Some e => raise e s0 | None => done (set_p v s0) [] end
    | ReadC =>
        match c s0 with
        | Some _ => done s0 []
        | None => match call_plain pl 0 with
                  | Some e => raise e s0
                  | None => done (set_c (Some (getter_c (x s0))) s0) []
                  end
        end
    | SetAd chain v =>
        match call_chain pl 0 chain with
        | Some e => raise e s0
        | None => done (set_ad (adapt_value chain v) s0) []
        end
    | SIxor vs | SSymDiff vs =>                  (* trait_set_object.py __ixor__ / symmetric_difference_update *)
        let removed := inter (s s0) vs in
        match vld_items pl 0 (diff vs removed) with
        | RRaise e => raise e s0
        | ROk va => done (set_s (union (diff (s s0) removed) (diff va (s s0))) s0) []
        end
    | SetY v =>                                   (* setattr_trait: validate, then the old value (the default is
                                                    computed and stored when the attribute is not materialised),
                                                    then store, then notifiers *)
        match call_vld pl 0 v with
        | RRaise e => raise e s0
        | ROk v' =>
            match y s0 with
            | Some old => if Z.eqb v' old then done s0 []
                          else done (set_y (Some v') s0) (run_handlers pl [H_y_static] old v')
            | None =>
                match call_plain pl 1 with
                | Some e => raise e s0
                | None =>
                    match call_vld pl 2 ydef_value with          (* the computed default is validated too *)
                    | RRaise e => raise e s0
                    | ROk dv => if Z.eqb v' dv then done (set_y (Some v') s0) []
                                else done (set_y (Some v') s0) (run_handlers pl [H_y_static] dv v')
                    end
                end
            end
        end
    | ReadY =>
        match y s0 with
        | Some _ => done s0 []
        | None => match call_plain pl 0 with
                  | Some e => raise e s0
                  | None => match call_vld pl 1 ydef_value with
                            | RRaise e => raise e s0
                            | ROk dv => done (set_y (Some dv) s0) []
                            end
                  end
        end
    | SetXQ v =>                                  (* has_traits.py trait_set(trait_change_notify=False): no notifier runs,
                                                    so handlers are silent and the observed cache is NOT dropped *)
        match call_vld pl 0 v with
        | RRaise e => raise e s0
        | ROk v' => done (set_x v' s0) []
        end
    | Opaque _ => done s0 []
    | ObsAdd =>                                   (* observation/_observe.py add_or_remove_notifiers: the walk calls the
                                                    user filter; a raising filter undoes the walk (shared undo log) *)
        match call_chain pl 0 (fcalls (length (zz s0))) with
        | Some e => raise e s0
        | None => done (set_oreg (S (oreg s0)) s0) []
        end
    | ObsRemove =>
        match oreg s0 with
        | O => raise NotifierNotFound s0          (* nothing registered: fails before the filter is called *)
        | S n => match call_chain pl 0 (fcalls (length (zz s0))) with
                 | Some e => raise e s0
                 | None => done (set_oreg n s0) []
                 end
        end
    | AddZ => done (set_zz (zz s0 ++ [0]) s0) []  (* the filter runs inside the trait_added notification: no deciding call *)
    | SetZ i v =>
        match length (zz s0) with
        | O => done s0 []
        | S _ =>
            let k := Nat.modulo i (length (zz s0)) in
            let old := nth k (zz s0) 0 in
            if Z.eqb v old then done s0 []
            else done (set_zz (firstn k (zz s0) ++ [v] ++ skipn (S k) (zz s0)) s0)
                      (match oreg s0 with
                       | O => []
                       | S _ => run_handlers pl [H_z_observe] (Z.of_nat k) v
                       end)
        end
    | SetAdE chain v =>
        match call_chain pl 0 chain with
        | Some e => raise e s0
        | None => done (set_ade (adapt_value chain v) s0) []
        end
    | SetAd2 chain v =>
        match chain with
        | None => done (set_ad2 (-1) s0) []
        | Some n => match call_chain pl 0 n with
                    | Some e => raise e s0
                    | None => done (set_ad2 (adapt_value n v) s0) []
                    end
        end
    | SetPV v =>                                  (* ctraits.c setattr_delegate (modify=False): the prototype's trait
                                                    validates, setattr_trait stores on the object itself, then the
                                                    delegate listener is unhooked *)
        match call_vld pl 0 v with
        | RRaise e => raise e s0
        | ROk y =>
            let old := match pv s0 with Some o => o | None => dpv s0 end in
            if Z.eqb y old then done (set_pv (Some y) s0) []
            else done (set_pv (Some y) s0) (run_handlers pl [H_pv_dynamic] old y)
        end
    | SetDPV v =>
        match call_vld pl 0 v with
        | RRaise e => raise e s0
        | ROk y =>
            if Z.eqb y (dpv s0) then done s0 []
            else done (set_dpv y s0)
                      (match pv s0 with
                       | None => run_handlers pl [H_pv_dynamic] (dpv s0) y   (* linked: the listener forwards the change *)
                       | Some _ => []
                       end)
        end
    | DelPV =>
        match pv s0 with
        | None => done s0 []
        | Some o => if Z.eqb o (dpv s0) then done (set_pv None s0) []
                    else done (set_pv None s0) (run_handlers pl [H_pv_dynamic] o (dpv s0))
        end
    | RegDot =>                                   (* has_traits.py on_trait_change, traits_listener.py: an equal handler
                                                    is registered once; hooking up reads a.child (creating it through
                                                    the user's default method); a failing hook-up is rolled back *)
        if chreg s0 then done s0 []
        else match ch s0 with
             | Some _ => done (set_chreg true s0) []
             | None => match call_plain pl 0 with
                       | Some e => raise e s0
                       | None => done (set_chreg true (set_ch (Some 0) s0)) []
                       end
             end
    | UnregDot => if chreg s0 then done (set_chreg false s0) [] else done s0 []   (* unknown handler: silently nothing *)
    | ReadCh =>
        match ch s0 with
        | Some _ => done s0 []
        | None => match call_plain pl 0 with
                  | Some e => raise e s0
                  | None => done (set_ch (Some 0) s0) []
                  end
        end
    | SetCV v =>
        match ch s0 with
        | Some old => if Z.eqb v old then done s0 []
                      else done (set_ch (Some v) s0) (if chreg s0 then run_handlers pl [H_cv_dynamic] old v else [])
        | None => match call_plain pl 0 with
                  | Some e => raise e s0
                  | None => if Z.eqb v 0 then done (set_ch (Some 0) s0) []
                            else done (set_ch (Some v) s0) []          (* not created yet, hence not hooked *)
                  end
        end
    | SetU v =>                                   (* trait_types.py Union.validate: only TraitError moves on to the next
                                                    alternative (Str, which accepts the string atoms >= 100); any other
                                                    exception of the first alternative reaches the caller.  An INJECTED
                                                    TraitError on a string atom is by definition a rejection, not a
                                                    fault (DESIGN 6a): the generator does not produce that plan *)
        match call_plain pl 0 with
        | Some e => raise e s0
        | None => match vld v with
                  | Some y => done (set_u y s0) []
                  | None => if Z.leb 100 v then done (set_u v s0) [] else raise TraitError s0
                  end
        end
    end.

  (* Is the fault of the plan reached by this operation from this state?  A deciding fault is
     reached iff injecting the marker exception OtherError (which no modelled path raises by
     itself) at the same ordinal makes the operation raise it; a handler fault is reached iff
     the fault-free operation calls that handler. *)
  Definition fired (pl : plan) (s0 : st) (o : op) : bool :=
    match pl with
    | NoFault => false
    | FaultCall k _ =>
        match step (FaultCall k OtherError) s0 o with (_, Raise OtherError, _) => true | _ => false end
    | FaultHandler j _ =>
        let '(_, _, lg) := step NoFault s0 o in existsb (fun e => Nat.eqb (fst (fst e)) j) lg
    end.

  Definition is_raise (o : outcome) : bool := match o with Raise _ => true | Ok => false end.
End WithCallbacks.
