(* C19 — the property as a boolean checker on one observed history of the
   faulted object A and its fault-free twin T (the twin skips an operation in
   which an injected deciding-callback fault fired and runs every other operation
   without fault).  The checker never mentions Model.step.
   Clause codes:
     1 an operation that raised changed the object or notified
     2 the exception that reached the caller is neither the injected one nor TraitError
     3 an injected fault in a deciding callback fired but the operation did not raise
     4 a raising change handler: outcome differs from the twin's, or another handler's call is missing/extra
     5 the faulted object differs from the twin (now, hence in every follow-up operation)
     6 without a fired fault outcome and handler calls differ from the twin's
     7 handler registrations (sizes of the notifier lists) differ from the twin's
     8 values read from attributes outside the model differ from the twin's *)
From Coq Require Import ZArith List Bool.
From TV Require Import Common.LSet Common.Harness C19.Model.
Import ListNotations.
Open Scope Z_scope.

Definition exn_eqb (a b : exn) : bool :=
  match a, b with
  | TraitError, TraitError | ValueError, ValueError | AttributeError, AttributeError
  | RuntimeError, RuntimeError | NotifierNotFound, NotifierNotFound | OtherError, OtherError => true
  | _, _ => false
  end.
Definition outcome_eqb (a b : outcome) : bool :=
  match a, b with Ok, Ok => true | Raise e1, Raise e2 => exn_eqb e1 e2 | _, _ => false end.

Definition pair_eqb (a b : Z * Z) : bool := Z.eqb (fst a) (fst b) && Z.eqb (snd a) (snd b).
Definition logent_eqb (a b : logent) : bool :=
  let '(j1, a1, b1) := a in let '(j2, a2, b2) := b in Nat.eqb j1 j2 && Z.eqb a1 a2 && Z.eqb b1 b2.
Definition log_eqb := list_eqb logent_eqb.

(* structural equality of snapshots (both sides canonicalised the same way) *)
Definition st_eqb (a b : st) : bool :=
  Z.eqb (x a) (x b) && pair_eqb (t a) (t b) && list_eqb Z.eqb (l a) (l b)
  && list_eqb pair_eqb (d a) (d b) && list_eqb Z.eqb (s a) (s b)
  && opt_eqb Z.eqb (f a) (f b) && opt_eqb Z.eqb (m a) (m b) && Z.eqb (p a) (p b)
  && opt_eqb Z.eqb (c a) (c b) && Z.eqb (ad a) (ad b) && opt_eqb Z.eqb (y a) (y b) && Z.eqb (ad2 a) (ad2 b)
  && Nat.eqb (oreg a) (oreg b) && list_eqb Z.eqb (zz a) (zz b) && Z.eqb (ade a) (ade b)
  && opt_eqb Z.eqb (pv a) (pv b) && Z.eqb (dpv a) (dpv b)
  && opt_eqb Z.eqb (ch a) (ch b) && Bool.eqb (chreg a) (chreg b) && Z.eqb (u a) (u b).

(* o_reg: digest of the sizes of all notifier lists of the object (handler registrations) *)
(* o_aux: digest of values read from attributes that are outside the model (a legacy depends_on cached
   property, the traits added by opaque operations): law only, faulted object vs twin *)
Record obs := mkObs { o_out : outcome; o_st : st; o_log : list logent; o_reg : Z; o_aux : Z }.

Definition hid (e : logent) : nat := fst (fst e).

Definition law_step (before : st) (pl : plan) (fired : bool) (a tw : obs) : list Z :=
  chk 1 (negb (is_raise (o_out a)) || (st_eqb (o_st a) before && is_nil (o_log a)))
  ++ chk 2 (match o_out a, pl with
            | Raise e', FaultCall _ e => negb fired || exn_eqb e' e || exn_eqb e' TraitError
            | _, _ => true
            end)
  ++ chk 3 (match pl with FaultCall _ _ => negb fired || is_raise (o_out a) | _ => true end)
  ++ chk 4 (match pl with
            | FaultHandler j _ =>
                outcome_eqb (o_out a) (o_out tw)
                && log_eqb (o_log a) (filter (fun e => negb (Nat.eqb (hid e) j)) (o_log tw))
            | _ => true
            end)
  ++ chk 5 (st_eqb (o_st a) (o_st tw))
  ++ chk 6 (match pl with
            | NoFault => outcome_eqb (o_out a) (o_out tw) && log_eqb (o_log a) (o_log tw)
            | FaultCall _ _ => fired || (outcome_eqb (o_out a) (o_out tw) && log_eqb (o_log a) (o_log tw))
            | FaultHandler _ _ => true
            end)
  ++ chk 7 (Z.eqb (o_reg a) (o_reg tw))
  ++ chk 8 (Z.eqb (o_aux a) (o_aux tw)).

Definition hstep := (op * plan * bool * obs * obs)%type.

Fixpoint law_hist (i : Z) (before : st) (h : list hstep) : list Z :=
  match h with
  | [] => []
  | (_, pl, fired, a, tw) :: r =>
      map (fun cd => 100 * i + cd) (law_step before pl fired a tw) ++ law_hist (i + 1) (o_st a) r
  end.
