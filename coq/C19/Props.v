(* C19 — property theorems only. *)
From Coq Require Import ZArith List Bool.
From TV Require Import Common.LSet Common.Harness C19.Model C19.Law C19.Corr C19.Proofs.
Import ListNotations.
Open Scope Z_scope.

(* The whole law (8 clauses) holds at every step of the paired run (faulted object / twin), for every
   validator, getter, default, adapter behaviour, every start state, every history and every fault plan
   at every step (every ordinal k, every exception class, every handler). *)
Theorem law_holds_on_every_faulted_history :
  forall vld getter_c fac_value mdef_value adapt_value ydef_value fcalls (h : list (op * plan)) (s0 : st) (i : Z),
    law_hist i s0 (run2 vld getter_c fac_value mdef_value adapt_value ydef_value fcalls s0 s0 h) = [].
Proof. exact run2_law. Qed.
Print Assumptions law_holds_on_every_faulted_history.

(* A deciding callback that raises: no effect at all, no notification, and the caller sees the
   injected exception or TraitError (NotifierNotFound only for a removal with nothing registered). *)
Theorem deciding_callback_fault_inert :
  forall vld getter_c fac_value mdef_value adapt_value ydef_value fcalls k e s0 o s1 e' lg,
    step vld getter_c fac_value mdef_value adapt_value ydef_value fcalls (FaultCall k e) s0 o = (s1, Raise e', lg) ->
    s1 = s0 /\ lg = [] /\ (e' = e \/ e' = TraitError \/ e' = NotifierNotFound).
Proof. exact deciding_fault_inert. Qed.
Print Assumptions deciding_callback_fault_inert.

(* ... and it does reach the caller whenever the k-th callback invocation happens. *)
Theorem deciding_callback_fault_reaches_caller :
  forall vld getter_c fac_value mdef_value adapt_value ydef_value fcalls k e s0 o,
    fired vld getter_c fac_value mdef_value adapt_value ydef_value fcalls (FaultCall k e) s0 o = true ->
    step vld getter_c fac_value mdef_value adapt_value ydef_value fcalls (FaultCall k e) s0 o = (s0, Raise e, []).
Proof. exact deciding_fault_reached_raises. Qed.
Print Assumptions deciding_callback_fault_reaches_caller.

(* Any operation that raises, for whatever reason and under whatever plan, is inert. *)
Theorem raising_operation_inert :
  forall vld getter_c fac_value mdef_value adapt_value ydef_value fcalls pl s0 o s1 e lg,
    step vld getter_c fac_value mdef_value adapt_value ydef_value fcalls pl s0 o = (s1, Raise e, lg) -> s1 = s0 /\ lg = [].
Proof. exact step_raise_inert. Qed.
Print Assumptions raising_operation_inert.

(* A raising change handler: same final state, same outcome, every other handler called as without the fault. *)
Theorem handler_fault_operation_complete :
  forall vld getter_c fac_value mdef_value adapt_value ydef_value fcalls j e s0 o,
    let stp := step vld getter_c fac_value mdef_value adapt_value ydef_value fcalls in
    fst (fst (stp (FaultHandler j e) s0 o)) = fst (fst (stp NoFault s0 o)) /\
    snd (fst (stp (FaultHandler j e) s0 o)) = snd (fst (stp NoFault s0 o)) /\
    snd (stp (FaultHandler j e) s0 o) = drop_handler j (snd (stp NoFault s0 o)).
Proof. exact handler_fault_complete. Qed.
Print Assumptions handler_fault_operation_complete.

(* Every subsequent operation behaves as on an object that never saw the failure: along any history the
   faulted object and the twin that skipped the failed operations are in the same state. *)
Theorem faulted_object_indistinguishable_from_twin :
  forall vld getter_c fac_value mdef_value adapt_value ydef_value fcalls h a o pl fr oa ot,
    In (o, pl, fr, oa, ot) (run2 vld getter_c fac_value mdef_value adapt_value ydef_value fcalls a a h) -> o_st oa = o_st ot.
Proof. exact future_indistinguishable. Qed.
Print Assumptions faulted_object_indistinguishable_from_twin.

(* Non-vacuity: a history in which faults fire in an item validator (3rd item of an extend), in a dict
   value validator, in the second adapter factory, in a default factory and in a handler;
   then a rejected assignment to the PrototypedFrom attribute, which must leave the link to the prototype intact. *)
Example faults_fire :
  let s0 := mkSt 1 (1, 2) [1; 2] [(1, 1)] [1] None None 3 None 7 None (-1) 1%nat [] (-5) None 1 None false 1 in
  let h := [(LExtend [4; 5; 6], FaultCall 2 ValueError); (DUpdate [(1, 2); (3, 4)], FaultCall 3 RuntimeError);
            (SetAd 2 3, FaultCall 1 AttributeError); (ReadF, FaultCall 0 TraitError);
            (SetX 5, FaultHandler 1 ValueError); (LAppend 9, NoFault);
            (ObsRemove, FaultCall 17 RuntimeError); (AddZ, NoFault); (SetZ 0 4, NoFault); (ObsRemove, NoFault);
            (ObsRemove, NoFault); (SetZ 0 6, NoFault);
            (SetPV 5, FaultCall 0 ValueError); (SetDPV 4, NoFault); (SetPV 6, NoFault); (SetDPV 8, NoFault);
            (DelPV, FaultHandler 9 ValueError); (SetDPV 2, NoFault)] in
  map (fun st => let '(_, _, fr, oa, _) := st in (fr, o_out oa, length (o_log oa))) (run2 d_vld d_getter 41 42 d_adapt 43 (d_fcalls 38 2) s0 s0 h)
  = [(true, Raise ValueError, 0%nat); (true, Raise RuntimeError, 0%nat); (true, Raise AttributeError, 0%nat);
     (true, Raise TraitError, 0%nat); (true, Ok, 2%nat); (false, Ok, 2%nat);
     (true, Raise RuntimeError, 0%nat); (false, Ok, 0%nat); (false, Ok, 1%nat); (false, Ok, 0%nat);
     (false, Raise NotifierNotFound, 0%nat); (false, Ok, 0%nat);
     (true, Raise ValueError, 0%nat); (false, Ok, 1%nat); (false, Ok, 1%nat); (false, Ok, 0%nat);
     (true, Ok, 0%nat); (false, Ok, 1%nat)].
Proof. vm_compute. reflexivity. Qed.
