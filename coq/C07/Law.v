(* C07 — the property as a boolean checker on one observed history.
   It does not mention [Model.step]: it is applied verbatim to the observations
   recorded from the implementation, and proved of the model in Proofs.v.
   Clause codes (returned on failure):
     1 outcome class differs from the built-in set on validated items
     2 contents differ from the built-in set on validated items
     3 a failing operation changed the contents or notified
     4 more than one notification for one operation
     5 contents changed but no notification
     6 contents unchanged but a notification was sent (not silent)
     7 delta law: removed ⊆ old, added ## old, (old ∖ removed) ∪ added = new, not both empty
     8 a copy is not equal to the original or does not validate any more
     9 the SetChangeEvents delivered to an observer differ from the notifications (removed, added) *)
From Coq Require Import ZArith List Bool.
From TV Require Import Common.LSet Common.Harness C07.Model.
Import ListNotations.
Open Scope Z_scope.

Definition exn_eqb (a b : exn) : bool :=
  match a, b with
  | KeyError, KeyError | TraitError, TraitError | TypeError, TypeError
  | AttributeError, AttributeError | OtherError, OtherError => true
  | _, _ => false
  end.
Definition outcome_eqb (a b : outcome) : bool :=
  match a, b with Ok, Ok => true | Raise x, Raise y => exn_eqb x y | _, _ => false end.
Definition is_raise (o : outcome) : bool := match o with Ok => false | Raise _ => true end.

Section Law.
  Variable vld : Z -> option Z.

  (* The built-in set after the same operation on validated items.
     For ^= / symmetric_difference_update the reading fixed in DESIGN.md §6a:
     members to be added are validated, members to be removed are matched raw. *)
  Definition validated (xs : list Z) (k : list Z -> outcome * list Z) (s : list Z) : outcome * list Z :=
    match vld_all vld xs with None => (Raise TraitError, s) | Some vs => k vs end.

  Definition builtin (s : list Z) (o : op) (ret : option Z) : outcome * list Z :=
    match o with
    | Add x => validated [x] (fun vs => (Ok, union s vs)) s
    | Clear => (Ok, [])
    | Discard x => (Ok, remove1 x s)
    | Remove x => if mem x s then (Ok, remove1 x s) else (Raise KeyError, s)
    | Pop _ => if is_empty s then (Raise KeyError, s)
               else match ret with
                    | Some x => if mem x s then (Ok, remove1 x s) else (Raise OtherError, s)
                    | None => (Raise OtherError, s)
                    end
    | Update args => validated (concat args) (fun vs => (Ok, union s vs)) s
    | Ior (ASet l) => validated l (fun vs => (Ok, union s vs)) s
    | Iand (ASet l) => (Ok, inter s l)
    | Isub (ASet l) => (Ok, diff s l)
    | Ixor (ASet l) | SymDiffUpdate l =>
        validated (diff l s) (fun vs => (Ok, union (diff s l) (diff vs s))) s
    | Ior (AList _) | Iand (AList _) | Isub (AList _) | Ixor (AList _) => (Raise TypeError, s)
    | DiffUpdate args => (Ok, fold_left diff args s)
    | InterUpdate args => (Ok, fold_left inter args s)
    | Copy _ => (Ok, s)
    end.

  Definition event_ok (before after : list Z) (ev : list Z * list Z) : bool :=
    let '(removed, added) := ev in
    subset removed before && disjoint added before
    && seteq (union (diff before removed) added) after
    && negb (is_empty removed && is_empty added).

  Definition is_copy (o : op) : bool := match o with Copy _ => true | _ => false end.

  Definition law_step (before : list Z) (o : op) (ob : obs) : list Z :=
    let '(bo, ba) := builtin before o (o_ret ob) in
    let changed := negb (seteq before (o_after ob)) in
    chk 1 (outcome_eqb (o_out ob) bo)
    ++ chk 2 (seteq (o_after ob) ba)
    ++ chk 3 (negb (is_raise (o_out ob)) || (seteq (o_after ob) before && is_nil (o_events ob)))
    ++ chk 4 (Nat.leb (length (o_events ob)) 1)
    ++ chk 5 (negb changed || negb (is_nil (o_events ob)))
    ++ chk 6 (changed || is_nil (o_events ob))
    ++ chk 7 (forallb (event_ok before (o_after ob)) (o_events ob))
    ++ chk 8 (negb (is_copy o) ||
              (seteq (o_after ob) before && match o_copy_validates ob with Some true => true | _ => false end))
    ++ chk 9 (match o_observed ob with
              | None => true
              | Some oev => list_eqb (fun a b => seteq (fst a) (fst b) && seteq (snd a) (snd b)) (o_events ob) oev
              end).

  Fixpoint law_hist (i : Z) (before : list Z) (h : list (op * obs)) : list Z :=
    match h with
    | [] => []
    | (o, ob) :: r => map (fun c => 100 * i + c) (law_step before o ob) ++ law_hist (i + 1) (o_after ob) r
    end.
End Law.
