(* C07 — executable model of traits/trait_set_object.py: TraitSet.
   Items are integer atoms; a set is a list compared extensionally (Common/LSet).
   The item validator is an arbitrary function [vld : Z -> option Z]
   (Some y = accept and convert to y, None = raise TraitError).
   Each mutator is written after the method body it models; line references
   are to traits/trait_set_object.py. *)
From Coq Require Import ZArith List Bool.
From TV Require Import Common.LSet.
Import ListNotations.
Open Scope Z_scope.

Inductive exn := KeyError | TraitError | TypeError | AttributeError | OtherError.
Inductive outcome := Ok | Raise (e : exn).

(* An argument that is a set/frozenset, or some other iterable (a list). *)
Inductive arg := ASet (l : list Z) | AList (l : list Z).
(* CopyPickleDetached: a pickle round trip of a Set-trait value (TraitSetObject) taken alone: its __setstate__
   sets trait = None, so the copy is equal but no longer validates (known finding) *)
Inductive copykind := CopyCopy | CopyDeep | CopyPickle | CopyPickleDetached.

Inductive op :=
| Add (x : Z) | Discard (x : Z) | Remove (x : Z)
| Pop (hint : option Z)            (* hint: which element the implementation's pop returned *)
| Clear
| Update (args : list (list Z))
| Ior (a : arg) | Iand (a : arg) | Isub (a : arg) | Ixor (a : arg)
| DiffUpdate (args : list (list Z)) | InterUpdate (args : list (list Z))
| SymDiffUpdate (l : list Z)
| Copy (k : copykind).             (* copy, then continue the history on the copy *)

(* What one operation shows: outcome, contents afterwards, notifications
   (removed, added), the value returned by pop, and for a copy operation the
   contents of the copy and whether it still validates. *)
Record obs := mkObs {
  o_out : outcome;
  o_after : list Z;
  o_events : list (list Z * list Z);
  o_ret : option Z;
  o_copy_validates : option bool;
  o_observed : option (list (list Z * list Z))   (* implementation only: the (removed, added) of the SetChangeEvents an
                                                    observe("s:items") handler received during the operation *)
}.

Section WithValidator.
  Variable vld : Z -> option Z.

  (* {self.item_validator(item) for item in xs}: first rejection aborts *)
  Fixpoint vld_all (xs : list Z) : option (list Z) :=
    match xs with
    | [] => Some []
    | x :: r => match vld x with
                | None => None
                | Some y => match vld_all r with None => None | Some ys => Some (y :: ys) end
                end
    end.

  Definition ok (s : list Z) (evs : list (list Z * list Z)) : obs := mkObs Ok s evs None None None.
  Definition raise (e : exn) (s : list Z) : obs := mkObs (Raise e) s [] None None None.

  (* notify only when something was removed (the `if len(removed) > 0` idiom) *)
  Definition removed_only (old new : list Z) : obs :=
    let removed := diff old new in
    ok new (if is_empty removed then [] else [(removed, [])]).

  Definition inter_all (s : list Z) (args : list (list Z)) : list Z :=
    fold_left inter args s.
  Definition diff_all (s : list Z) (args : list (list Z)) : list Z :=
    fold_left diff args s.

  Definition step (s : list Z) (o : op) : obs :=
    match o with
    | Add x =>                                   (* add, l.276 *)
        match vld x with
        | None => raise TraitError s
        | Some v => if mem v s then ok s [] else ok (v :: s) [([], [v])]
        end
    | Clear =>                                   (* clear *)
        if is_empty s then ok [] [] else ok [] [(s, [])]
    | Discard x =>                               (* discard: raw containment *)
        if mem x s then ok (remove1 x s) [([x], [])] else ok s []
    | Remove x =>                                (* remove: set.remove raises KeyError *)
        if mem x s then ok (remove1 x s) [([x], [])] else raise KeyError s
    | Pop hint =>
        match s with
        | [] => raise KeyError s
        | h :: _ =>
            let x := match hint with Some y => if mem y s then y else h | None => h end in
            mkObs Ok (remove1 x s) [([x], [])] (Some x) None None
        end
    | Update args =>                             (* update, several iterables *)
        match vld_all (concat args) with
        | None => raise TraitError s
        | Some vs =>
            let added := diff vs s in
            ok (union s added) (if is_empty added then [] else [([], added)])
        end
    | Ior (ASet l) =>                            (* __ior__ with a set: validate every member *)
        match vld_all l with
        | None => raise TraitError s
        | Some vs =>
            let new := union s vs in
            let added := diff new s in
            ok new (if is_empty added then [] else [([], added)])
        end
    | Ior (AList _) => raise TypeError s         (* set.__ior__ -> NotImplemented -> TypeError *)
    | Iand (ASet l) => removed_only s (inter s l)
    | Iand (AList _) => raise TypeError s
    | Isub (ASet l) => removed_only s (diff s l)
    | Isub (AList _) => raise TypeError s
    | Ixor (ASet l) =>                           (* __ixor__ *)
        let removed := inter s l in
        let raw_added := diff l removed in
        match vld_all raw_added with
        | None => raise TraitError s
        | Some va =>
            let added := diff va s in
            ok (union (diff s removed) added)
               (if is_empty removed && is_empty added then [] else [(removed, added)])
        end
    | Ixor (AList _) => raise TypeError s
    | DiffUpdate args => removed_only s (diff_all s args)
    | InterUpdate args => removed_only s (inter_all s args)
    | SymDiffUpdate l =>                         (* symmetric_difference_update *)
        let removed := inter s l in
        let raw := diff l removed in
        match vld_all raw with
        | None => raise TraitError s
        | Some va =>
            let added := diff va s in
            ok (union (diff s removed) added)
               (if is_empty removed && is_empty added then [] else [(removed, added)])
        end
    | Copy CopyPickleDetached => mkObs Ok s [] None (Some false) None   (* trait_set_object.py:585-589 *)
    | Copy _ => mkObs Ok s [] None (Some true) None   (* equal contents, validator kept, no notification *)
    end.

  Fixpoint run (s : list Z) (ops : list op) : list (op * obs) :=
    match ops with
    | [] => []
    | o :: r => let ob := step s o in (o, ob) :: run (o_after ob) r
    end.
End WithValidator.

(* The validators the correspondence harness uses (atoms: 0..99 ints, 100+i the
   string "i", 200.. objects no validator accepts, 300+i the float i.0 — equal to
   the int i for Python but not an int: the harness offers it only to operations
   that validate before they test membership, and never with VAll). *)
Inductive vkind := VAll | VInt | VCInt.
Definition vld_of (k : vkind) (x : Z) : option Z :=
  match k with
  | VAll => Some x
  | VInt => if (0 <=? x) && (x <? 100) then Some x else None
  | VCInt => if (0 <=? x) && (x <? 100) then Some x
             else if (100 <=? x) && (x <? 200) then Some (x - 100)
             else if (300 <=? x) && (x <? 400) then Some (x - 300) else None
  end.
