(* C07 — proofs that the model of TraitSet satisfies the law, for every
   validator, every state and every operation / history. *)
From Coq Require Import ZArith List Bool Lia.
From TV Require Import Common.LSet Common.Harness C07.Model C07.Law.
Import ListNotations.
Open Scope Z_scope.

Lemma chk_nil k b : chk k b = [] <-> b = true.
Proof. destruct b; cbn; split; intros; congruence. Qed.

Lemma app_nil_iff {A} (a b : list A) : a ++ b = [] <-> a = [] /\ b = [].
Proof. split; [apply app_eq_nil | intros [-> ->]; reflexivity]. Qed.

Ltac seteq_tac :=
  match goal with
  | |- seteq _ _ = true => apply seteq_spec; let x := fresh "x" in intro x; lset_point x
  | |- subset _ _ = true => apply subset_spec; let x := fresh "x" in intros x ?; lset_point x
  | |- disjoint _ _ = true => apply disjoint_spec; let x := fresh "x" in intros x ?; lset_point x
  end.

Lemma seteq_cong_r s a b : seteq a b = true -> seteq s a = seteq s b.
Proof.
  intros H. destruct (seteq s b) eqn:E.
  - eapply seteq_trans; [exact E|]. rewrite seteq_sym. exact H.
  - destruct (seteq s a) eqn:E2; [|reflexivity].
    rewrite <- E. symmetry. eapply seteq_trans; [exact E2 | exact H].
Qed.

(* The heart of the silence / exactly-one-event clauses. *)
Lemma delta_changed s rem add :
  subset rem s = true -> disjoint add s = true ->
  seteq s (union (diff s rem) add) = is_empty rem && is_empty add.
Proof.
  intros Hs Hd. rewrite subset_spec in Hs. rewrite disjoint_spec in Hd.
  destruct (is_empty rem) eqn:Er.
  - rewrite is_empty_spec in Er. destruct (is_empty add) eqn:Ea.
    + rewrite is_empty_spec in Ea. apply seteq_spec. intro x. mem_norm.
      rewrite Er, Ea. destruct (mem x s); reflexivity.
    + apply is_empty_false in Ea. destruct Ea as [y Hy]. cbn.
      destruct (seteq _ _) eqn:E; [|reflexivity]. rewrite seteq_spec in E.
      specialize (E y). mem_norm. rewrite Hy, (Hd y Hy) in E. cbn in E. discriminate.
  - apply is_empty_false in Er. destruct Er as [y Hy]. cbn.
    destruct (seteq _ _) eqn:E; [|reflexivity]. rewrite seteq_spec in E.
    specialize (E y). mem_norm. pose proof (Hs y Hy) as Hys. rewrite Hy, Hys in E. cbn in E.
    symmetry in E. apply Hd in E. congruence.
Qed.

Lemma fold_diff_subset args : forall s x, mem x (fold_left diff args s) = true -> mem x s = true.
Proof.
  induction args as [|a args IH]; intros s x H; [exact H|]. cbn in H. apply IH in H.
  rewrite mem_diff in H. apply andb_true_iff in H. tauto.
Qed.
Lemma fold_inter_subset args : forall s x, mem x (fold_left inter args s) = true -> mem x s = true.
Proof.
  induction args as [|a args IH]; intros s x H; [exact H|]. cbn in H. apply IH in H.
  rewrite mem_inter in H. apply andb_true_iff in H. tauto.
Qed.


Definition clauses (s after : list Z) (evs : list (list Z * list Z)) : Prop :=
  let changed := negb (seteq s after) in
  (negb changed || negb (is_nil evs)) = true /\
  (changed || is_nil evs) = true /\
  forallb (event_ok s after) evs = true /\
  Nat.leb (length evs) 1 = true.

Lemma law_unchanged s after : seteq after s = true -> clauses s after [].
Proof.
  intros H. unfold clauses. rewrite seteq_sym in H. rewrite H. cbn. repeat split; reflexivity.
Qed.

Lemma law_changed s after rem add :
  subset rem s = true -> disjoint add s = true ->
  seteq after (union (diff s rem) add) = true ->
  is_empty rem && is_empty add = false ->
  clauses s after [(rem, add)].
Proof.
  intros Hs Hd Ha Hne. unfold clauses.
  rewrite (seteq_cong_r s _ _ Ha), delta_changed, Hne by assumption.
  cbn. rewrite Hs, Hd, Hne. rewrite seteq_sym in Ha. rewrite Ha. repeat split; reflexivity.
Qed.

Lemma law_delta s after rem add :
  subset rem s = true -> disjoint add s = true ->
  seteq after (union (diff s rem) add) = true ->
  clauses s after (if is_empty rem && is_empty add then [] else [(rem, add)]).
Proof.
  intros Hs Hd Ha. destruct (is_empty rem && is_empty add) eqn:E.
  - apply law_unchanged. eapply seteq_trans; [exact Ha|]. rewrite seteq_sym.
    rewrite delta_changed by assumption. exact E.
  - apply law_changed; assumption.
Qed.

Lemma clauses_chk s after evs :
  clauses s after evs ->
  chk 4 (Nat.leb (length evs) 1)
  ++ chk 5 (negb (negb (seteq s after)) || negb (is_nil evs))
  ++ chk 6 (negb (seteq s after) || is_nil evs)
  ++ chk 7 (forallb (event_ok s after) evs) = [].
Proof.
  intros (H5 & H6 & H7 & H4). cbn zeta in *. rewrite H4, H5, H6, H7. reflexivity.
Qed.

Lemma removed_only_clauses s new :
  (forall x, mem x new = true -> mem x s = true) ->
  clauses s (o_after (removed_only s new)) (o_events (removed_only s new)).
Proof.
  intros Hsub. unfold removed_only, ok. cbn [o_after o_events].
  assert (Hd : seteq new (union (diff s (diff s new)) []) = true).
  { apply seteq_spec. intro x. mem_norm. specialize (Hsub x).
    destruct (mem x new), (mem x s); cbn in *; try reflexivity. discriminate Hsub. reflexivity. }
  pose proof (law_delta s new (diff s new) []) as H. cbn [is_empty] in H. rewrite andb_true_r in H.
  apply H; [seteq_tac | reflexivity | exact Hd].
Qed.
