(* C07 — proofs that the model of TraitSet satisfies the law, for every
   validator, every state and every operation / history. *)
From Coq Require Import ZArith List Bool Lia.
From TV Require Import Common.LSet Common.Harness C07.Model C07.Law.
Import ListNotations.
Open Scope Z_scope.

Lemma chk_nil k b : chk k b = [] <-> b = true.
Proof. destruct b; cbn; split; intros; congruence. Qed.

Lemma app_nil_iff {A} (a b : list A) : a ++ b = [] <-> a = [] /\ b = [].
Proof. split; [apply app_eq_nil | intros [-> ->]; reflexivity]. Qed.

Ltac seteq_tac :=
  match goal with
  | |- seteq _ _ = true => apply seteq_spec; let x := fresh "x" in intro x; lset_point x
  | |- subset _ _ = true => apply subset_spec; let x := fresh "x" in intros x ?; lset_point x
  | |- disjoint _ _ = true => apply disjoint_spec; let x := fresh "x" in intros x ?; lset_point x
  end.

Lemma seteq_cong_r s a b : seteq a b = true -> seteq s a = seteq s b.
Proof.
  intros H. destruct (seteq s b) eqn:E.
  - eapply seteq_trans; [exact E|]. rewrite seteq_sym. exact H.
  - destruct (seteq s a) eqn:E2; [|reflexivity].
    rewrite <- E. symmetry. eapply seteq_trans; [exact E2 | exact H].
Qed.

(* The heart of the silence / exactly-one-event clauses. *)
Lemma delta_changed s rem add :
  subset rem s = true -> disjoint add s = true ->
  seteq s (union (diff s rem) add) = is_empty rem && is_empty add.
Proof.
  intros Hs Hd. rewrite subset_spec in Hs. rewrite disjoint_spec in Hd.
  destruct (is_empty rem) eqn:Er.
  - rewrite is_empty_spec in Er. destruct (is_empty add) eqn:Ea.
    + rewrite is_empty_spec in Ea. apply seteq_spec. intro x. mem_norm.
      rewrite Er, Ea. destruct (mem x s); reflexivity.
    + apply is_empty_false in Ea. destruct Ea as [y Hy]. cbn.
      destruct (seteq _ _) eqn:E; [|reflexivity]. rewrite seteq_spec in E.
      specialize (E y). mem_norm. rewrite Hy, (Hd y Hy) in E. cbn in E. discriminate.
  - apply is_empty_false in Er. destruct Er as [y Hy]. cbn.
    destruct (seteq _ _) eqn:E; [|reflexivity]. rewrite seteq_spec in E.
    specialize (E y). mem_norm. pose proof (Hs y Hy) as Hys. rewrite Hy, Hys in E. cbn in E.
    symmetry in E. apply Hd in E. congruence.
Qed.

Lemma fold_diff_subset args : forall s x, mem x (fold_left diff args s) = true -> mem x s = true.
Proof.
  induction args as [|a args IH]; intros s x H; [exact H|]. cbn in H. apply IH in H.
  rewrite mem_diff in H. apply andb_true_iff in H. tauto.
Qed.
Lemma fold_inter_subset args : forall s x, mem x (fold_left inter args s) = true -> mem x s = true.
Proof.
  induction args as [|a args IH]; intros s x H; [exact H|]. cbn in H. apply IH in H.
  rewrite mem_inter in H. apply andb_true_iff in H. tauto.
Qed.


Definition clauses (s after : list Z) (evs : list (list Z * list Z)) : Prop :=
  let changed := negb (seteq s after) in
  (negb changed || negb (is_nil evs)) = true /\
  (changed || is_nil evs) = true /\
  forallb (event_ok s after) evs = true /\
  Nat.leb (length evs) 1 = true.

Lemma law_unchanged s after : seteq after s = true -> clauses s after [].
Proof.
  intros H. unfold clauses. rewrite seteq_sym in H. rewrite H. cbn. repeat split; reflexivity.
Qed.

Lemma law_changed s after rem add :
  subset rem s = true -> disjoint add s = true ->
  seteq after (union (diff s rem) add) = true ->
  is_empty rem && is_empty add = false ->
  clauses s after [(rem, add)].
Proof.
  intros Hs Hd Ha Hne. unfold clauses.
  rewrite (seteq_cong_r s _ _ Ha), delta_changed, Hne by assumption.
  cbn. rewrite Hs, Hd, Hne. rewrite seteq_sym in Ha. rewrite Ha. repeat split; reflexivity.
Qed.

Lemma law_delta s after rem add :
  subset rem s = true -> disjoint add s = true ->
  seteq after (union (diff s rem) add) = true ->
  clauses s after (if is_empty rem && is_empty add then [] else [(rem, add)]).
Proof.
  intros Hs Hd Ha. destruct (is_empty rem && is_empty add) eqn:E.
  - apply law_unchanged. eapply seteq_trans; [exact Ha|]. rewrite seteq_sym.
    rewrite delta_changed by assumption. exact E.
  - apply law_changed; assumption.
Qed.

Lemma clauses_chk s after evs :
  clauses s after evs ->
  chk 4 (Nat.leb (length evs) 1)
  ++ chk 5 (negb (negb (seteq s after)) || negb (is_nil evs))
  ++ chk 6 (negb (seteq s after) || is_nil evs)
  ++ chk 7 (forallb (event_ok s after) evs) = [].
Proof.
  intros (H5 & H6 & H7 & H4). cbn zeta in *. rewrite H4, H5, H6, H7. reflexivity.
Qed.

Lemma removed_only_clauses s new :
  (forall x, mem x new = true -> mem x s = true) ->
  clauses s (o_after (removed_only s new)) (o_events (removed_only s new)).
Proof.
  intros Hsub. unfold removed_only, ok. cbn [o_after o_events].
  assert (Hd : seteq new (union (diff s (diff s new)) []) = true).
  { apply seteq_spec. intro x. mem_norm. specialize (Hsub x).
    destruct (mem x new), (mem x s); cbn in *; try reflexivity. discriminate Hsub. reflexivity. }
  pose proof (law_delta s new (diff s new) []) as H. cbn [is_empty] in H. rewrite andb_true_r in H.
  apply H; [seteq_tac | reflexivity | exact Hd].
Qed.

(* ------------------------------------------------------------------ *)
(* Every model step satisfies every clause of the law.                  *)

Section Main.
  Variable vld : Z -> option Z.

  Lemma law_step_intro s o ob bo ba :
    builtin vld s o (o_ret ob) = (bo, ba) ->
    outcome_eqb (o_out ob) bo = true ->
    seteq (o_after ob) ba = true ->
    (negb (is_raise (o_out ob)) || (seteq (o_after ob) s && is_nil (o_events ob))) = true ->
    clauses s (o_after ob) (o_events ob) ->
    (negb (is_copy o) ||
       (seteq (o_after ob) s && match o_copy_validates ob with Some true => true | _ => false end)) = true ->
    o_observed ob = None ->
    law_step vld s o ob = [].
  Proof.
    intros Hb H1 H2 H3 Hc H8 H9. unfold law_step. rewrite Hb, H1, H2, H3, H8, H9. cbn [chk app].
    pose proof (clauses_chk _ _ _ Hc) as H. cbn [chk app]. rewrite app_nil_r. exact H.
  Qed.

  Lemma clauses_raise s : clauses s s [].
  Proof. apply law_unchanged, seteq_refl. Qed.

  Lemma diff_inter_l l s : diff l (inter s l) = diff l s.
  Proof.
    unfold diff. apply filter_ext_in. intros x Hx. rewrite mem_inter.
    apply mem_In in Hx. rewrite Hx, andb_true_r. reflexivity.
  Qed.

  Lemma raise_law s o e :
    builtin vld s o None = (Raise e, s) -> is_copy o = false -> law_step vld s o (raise e s) = [].
  Proof.
    intros Hb Hc. eapply law_step_intro; cbn [raise o_out o_after o_events o_ret o_copy_validates o_observed].
    - exact Hb.
    - cbn. destruct e; reflexivity.
    - apply seteq_refl.
    - cbn. rewrite seteq_refl. reflexivity.
    - apply clauses_raise.
    - rewrite Hc. reflexivity.
    - reflexivity.
  Qed.

  Lemma ok_law s o new evs ba :
    builtin vld s o None = (Ok, ba) -> is_copy o = false ->
    seteq new ba = true -> clauses s new evs -> law_step vld s o (ok new evs) = [].
  Proof.
    intros Hb Hc H2 Hcl. eapply law_step_intro; cbn [ok o_out o_after o_events o_ret o_copy_validates o_observed].
    - exact Hb.
    - reflexivity.
    - exact H2.
    - reflexivity.
    - exact Hcl.
    - rewrite Hc. reflexivity.
    - reflexivity.
  Qed.

  Lemma removed_only_law s o new :
    builtin vld s o None = (Ok, new) -> is_copy o = false ->
    (forall x, mem x new = true -> mem x s = true) ->
    law_step vld s o (removed_only s new) = [].
  Proof.
    intros Hb Hc Hsub. pose proof (removed_only_clauses s new Hsub) as Hcl.
    unfold removed_only in *. apply ok_law with (ba := new); try assumption. apply seteq_refl.
  Qed.

  Lemma added_law s o vs ba :
    builtin vld s o None = (Ok, ba) -> is_copy o = false ->
    seteq (union s vs) ba = true ->
    law_step vld s o (ok (union s (diff vs s)) (if is_empty (diff vs s) then [] else [([], diff vs s)])) = [].
  Proof.
    intros Hb Hc Hba. apply ok_law with (ba := ba); try assumption.
    - eapply seteq_trans; [|exact Hba]. seteq_tac.
    - pose proof (law_delta s (union s (diff vs s)) [] (diff vs s)) as H. cbn [is_empty andb] in H.
      apply H; [reflexivity | seteq_tac | seteq_tac].
  Qed.

  Lemma xor_law s o l :
    builtin vld s o None
    = validated vld (diff l s) (fun vs => (Ok, union (diff s l) (diff vs s))) s ->
    is_copy o = false ->
    law_step vld s o
      (let removed := inter s l in
       let raw := diff l removed in
       match vld_all vld raw with
       | None => raise TraitError s
       | Some va =>
           let added := diff va s in
           ok (union (diff s removed) added)
             (if is_empty removed && is_empty added then [] else [(removed, added)])
       end) = [].
  Proof.
    intros Hb Hc. cbn zeta. rewrite diff_inter_l. unfold validated in Hb.
    destruct (vld_all vld (diff l s)) as [va|] eqn:Ev.
    - apply ok_law with (ba := union (diff s l) (diff va s)); try assumption.
      + seteq_tac.
      + apply law_delta; seteq_tac.
    - apply raise_law; assumption.
  Qed.

  Definition not_detached (o : op) : bool := match o with Copy CopyPickleDetached => false | _ => true end.

  Theorem step_law s o : not_detached o = true -> law_step vld s o (step vld s o) = [].
  Proof.
    intros Hnd.
    destruct o as [x|x|x|hint| |args|a|a|a|a|args|args|l|k]; cbn [step].
    - (* Add *)
      destruct (vld x) as [v|] eqn:Ev.
      + destruct (mem v s) eqn:Em.
        * apply ok_law with (ba := union s [v]); [cbn; unfold validated; cbn; rewrite Ev; reflexivity | reflexivity | | ].
          -- seteq_tac.
          -- apply law_unchanged, seteq_refl.
        * apply ok_law with (ba := union s [v]); [cbn; unfold validated; cbn; rewrite Ev; reflexivity | reflexivity | | ].
          -- seteq_tac.
          -- apply law_changed; [reflexivity | | | reflexivity].
             ++ cbn. rewrite Em. reflexivity.
             ++ seteq_tac.
      + apply raise_law; [cbn; unfold validated; cbn; rewrite Ev; reflexivity | reflexivity].
    - (* Discard *)
      destruct (mem x s) eqn:Em.
      + apply ok_law with (ba := remove1 x s); [reflexivity | reflexivity | apply seteq_refl |].
        apply law_changed; [ | reflexivity | | reflexivity].
        * cbn. rewrite Em. reflexivity.
        * seteq_tac.
      + apply ok_law with (ba := remove1 x s); [reflexivity | reflexivity | | apply law_unchanged, seteq_refl].
        seteq_tac.
    - (* Remove *)
      destruct (mem x s) eqn:Em.
      + apply ok_law with (ba := remove1 x s); [cbn; rewrite Em; reflexivity | reflexivity | apply seteq_refl |].
        apply law_changed; [ | reflexivity | | reflexivity].
        * cbn. rewrite Em. reflexivity.
        * seteq_tac.
      + apply raise_law; [cbn; rewrite Em; reflexivity | reflexivity].
    - (* Pop *)
      destruct s as [|h t].
      + apply raise_law; reflexivity.
      + cbn iota. set (s := h :: t).
        set (x := match hint with Some y => if mem y s then y else h | None => h end).
        assert (Hx : mem x s = true).
        { subst x. destruct hint as [y|]; [destruct (mem y s) eqn:E; [exact E|] |];
            subst s; rewrite mem_cons, Z.eqb_refl; reflexivity. }
        eapply law_step_intro with (bo := Ok) (ba := remove1 x s);
          cbn [o_out o_after o_events o_ret o_copy_validates o_observed].
        * assert (He : is_empty s = false) by reflexivity.
          cbn [builtin]. rewrite He.
          match goal with |- (if ?c then _ else _) = _ => replace c with true by (symmetry; exact Hx) end.
          reflexivity.
        * reflexivity.
        * apply seteq_refl.
        * reflexivity.
        * apply law_changed; [ | reflexivity | | reflexivity].
          -- unfold subset. cbn [forallb]. rewrite Hx. reflexivity.
          -- clearbody x s. seteq_tac.
        * reflexivity.
        * reflexivity.
    - (* Clear *)
      destruct (is_empty s) eqn:Ee.
      + apply ok_law with (ba := []); [reflexivity | reflexivity | reflexivity |].
        apply law_unchanged. destruct s; [reflexivity | discriminate].
      + apply ok_law with (ba := []); [reflexivity | reflexivity | reflexivity |].
        apply law_changed; [seteq_tac | reflexivity | seteq_tac | ]. cbn. rewrite Ee. reflexivity.
    - (* Update *)
      destruct (vld_all vld (concat args)) as [vs|] eqn:Ev.
      + apply added_law with (ba := union s vs);
          [cbn; unfold validated; rewrite Ev; reflexivity | reflexivity | apply seteq_refl].
      + apply raise_law; [cbn; unfold validated; rewrite Ev; reflexivity | reflexivity].
    - (* Ior *)
      destruct a as [l|l]; [| apply raise_law; reflexivity].
      destruct (vld_all vld l) as [vs|] eqn:Ev.
      + apply ok_law with (ba := union s vs);
          [cbn; unfold validated; rewrite Ev; reflexivity | reflexivity | apply seteq_refl |].
        pose proof (law_delta s (union s vs) [] (diff (union s vs) s)) as H. cbn [is_empty andb] in H.
        apply H; [reflexivity | seteq_tac | seteq_tac].
      + apply raise_law; [cbn; unfold validated; rewrite Ev; reflexivity | reflexivity].
    - (* Iand *)
      destruct a as [l|l]; [| apply raise_law; reflexivity].
      apply removed_only_law; [reflexivity | reflexivity |].
      intros x Hx. rewrite mem_inter in Hx. apply andb_true_iff in Hx. tauto.
    - (* Isub *)
      destruct a as [l|l]; [| apply raise_law; reflexivity].
      apply removed_only_law; [reflexivity | reflexivity |].
      intros x Hx. rewrite mem_diff in Hx. apply andb_true_iff in Hx. tauto.
    - (* Ixor *)
      destruct a as [l|l]; [| apply raise_law; reflexivity].
      apply xor_law; reflexivity.
    - (* DiffUpdate *)
      apply removed_only_law; [reflexivity | reflexivity | apply fold_diff_subset].
    - (* InterUpdate *)
      apply removed_only_law; [reflexivity | reflexivity | apply fold_inter_subset].
    - (* SymDiffUpdate *)
      apply xor_law; reflexivity.
    - (* Copy *)
      destruct k; try discriminate Hnd;
        (eapply law_step_intro with (bo := Ok) (ba := s);
         cbn [o_out o_after o_events o_ret o_copy_validates o_observed];
         [ reflexivity | reflexivity | apply seteq_refl | reflexivity | apply clauses_raise
         | cbn; rewrite seteq_refl; reflexivity | reflexivity ]).
  Qed.

  (* The law holds on every history of the model, from every state. *)
  Theorem run_law : forall ops s i, forallb not_detached ops = true -> law_hist vld i s (run vld s ops) = [].
  Proof.
    induction ops as [|o ops IH]; intros s i Hnd; cbn [run law_hist]; [reflexivity|].
    cbn [forallb] in Hnd. apply andb_true_iff in Hnd. destruct Hnd as [Ho Hr].
    rewrite (step_law s o Ho). cbn [map app]. apply IH. exact Hr.
  Qed.

  (* the known finding: the detached pickle copy fails the copy clause (and only it) *)
  Lemma detached_copy_refuted s : law_step vld s (Copy CopyPickleDetached) (step vld s (Copy CopyPickleDetached)) = [8].
  Proof.
    cbn [step]. unfold law_step. cbn [builtin o_ret o_out o_after o_events o_copy_validates o_observed outcome_eqb is_raise negb orb is_copy].
    rewrite !seteq_refl. cbn. reflexivity.
  Qed.
End Main.

(* ------------------------------------------------------------------ *)
(* Prop readings of the clauses (what the boolean law means).           *)

Lemma chk_app_nil k b r : chk k b ++ r = [] -> b = true /\ r = [].
Proof. destruct b; cbn; intros H; [split; [reflexivity | exact H] | discriminate]. Qed.

Section Readings.
  Variable vld : Z -> option Z.

  Lemma law_step_inv s o ob :
    law_step vld s o ob = [] ->
    let '(bo, ba) := builtin vld s o (o_ret ob) in
    outcome_eqb (o_out ob) bo = true /\
    seteq (o_after ob) ba = true /\
    (negb (is_raise (o_out ob)) || (seteq (o_after ob) s && is_nil (o_events ob))) = true /\
    Nat.leb (length (o_events ob)) 1 = true /\
    (negb (negb (seteq s (o_after ob))) || negb (is_nil (o_events ob))) = true /\
    (negb (seteq s (o_after ob)) || is_nil (o_events ob)) = true /\
    forallb (event_ok s (o_after ob)) (o_events ob) = true.
  Proof.
    unfold law_step. destruct (builtin vld s o (o_ret ob)) as [bo ba]. intros H.
    apply chk_app_nil in H; destruct H as [H1 H]. apply chk_app_nil in H; destruct H as [H2 H].
    apply chk_app_nil in H; destruct H as [H3 H]. apply chk_app_nil in H; destruct H as [H4 H].
    apply chk_app_nil in H; destruct H as [H5 H]. apply chk_app_nil in H; destruct H as [H6 H].
    apply chk_app_nil in H; destruct H as [H7 H]. repeat split; assumption.
  Qed.

  Lemma step_delta s o rem add (Hnd : not_detached o = true) :
    In (rem, add) (o_events (step vld s o)) ->
    (forall x, mem x rem = true -> mem x s = true) /\
    (forall x, mem x add = true -> mem x s = false) /\
    (forall x, mem x (o_after (step vld s o)) = (mem x s && negb (mem x rem)) || mem x add) /\
    (exists x, mem x rem = true \/ mem x add = true).
  Proof.
    intros Hin. pose proof (law_step_inv s o _ (step_law vld s o Hnd)) as H.
    destruct (builtin vld s o (o_ret (step vld s o))) as [bo ba].
    destruct H as (_ & _ & _ & _ & _ & _ & H7).
    rewrite forallb_forall in H7. specialize (H7 _ Hin). unfold event_ok in H7.
    apply andb_true_iff in H7; destruct H7 as [H7 Hne].
    apply andb_true_iff in H7; destruct H7 as [H7 Heq].
    apply andb_true_iff in H7; destruct H7 as [Hs Hd].
    rewrite subset_spec in Hs. rewrite disjoint_spec in Hd. rewrite seteq_spec in Heq.
    split; [exact Hs|]. split; [exact Hd|]. split.
    - intro x. rewrite <- Heq. mem_norm. reflexivity.
    - apply negb_true_iff, andb_false_iff in Hne. destruct Hne as [Hn|Hn];
        apply is_empty_false in Hn; destruct Hn as [x Hx]; exists x; tauto.
  Qed.

  Lemma step_one_event_iff_changed s o (Hnd : not_detached o = true) :
    (seteq s (o_after (step vld s o)) = true -> o_events (step vld s o) = []) /\
    (seteq s (o_after (step vld s o)) = false -> exists ev, o_events (step vld s o) = [ev]).
  Proof.
    pose proof (law_step_inv s o _ (step_law vld s o Hnd)) as H.
    destruct (builtin vld s o (o_ret (step vld s o))) as [bo ba].
    destruct H as (_ & _ & _ & H4 & H5 & H6 & _).
    destruct (o_events (step vld s o)) as [|ev [|ev2 r]]; split; intros Hs; rewrite Hs in *; cbn in *;
      try reflexivity; try discriminate; exists ev; reflexivity.
  Qed.

  Lemma step_failing_inert s o e (Hnd : not_detached o = true) :
    o_out (step vld s o) = Raise e ->
    (forall x, mem x (o_after (step vld s o)) = mem x s) /\ o_events (step vld s o) = [].
  Proof.
    intros He. pose proof (law_step_inv s o _ (step_law vld s o Hnd)) as H.
    destruct (builtin vld s o (o_ret (step vld s o))) as [bo ba].
    destruct H as (_ & _ & H3 & _). rewrite He in H3. cbn in H3.
    apply andb_true_iff in H3. destruct H3 as [Ha Hn].
    rewrite seteq_spec in Ha. split; [exact Ha|].
    destruct (o_events (step vld s o)); [reflexivity | discriminate].
  Qed.

  Lemma step_refines_builtin s o (Hnd : not_detached o = true) :
    let ob := step vld s o in
    let '(bo, ba) := builtin vld s o (o_ret ob) in
    o_out ob = bo /\ (forall x, mem x (o_after ob) = mem x ba).
  Proof.
    cbn zeta. pose proof (law_step_inv s o _ (step_law vld s o Hnd)) as H.
    destruct (builtin vld s o (o_ret (step vld s o))) as [bo ba].
    destruct H as (H1 & H2 & _). split.
    - destruct (o_out (step vld s o)) as [|e1], bo as [|e2]; cbn in H1; try discriminate; try reflexivity.
      destruct e1, e2; cbn in H1; try discriminate; reflexivity.
    - apply seteq_spec. exact H2.
  Qed.

  (* For a validator that never converts (accept-or-reject), ^= and
     symmetric_difference_update compute exactly the built-in symmetric difference. *)
  Lemma vld_all_id (Hid : forall x y, vld x = Some y -> y = x) xs vs : vld_all vld xs = Some vs -> vs = xs.
  Proof.
    revert vs. induction xs as [|x r IH]; cbn; intros vs H; [congruence|].
    destruct (vld x) as [y|] eqn:Ex; [|discriminate]. destruct (vld_all vld r) as [ys|]; [|discriminate].
    injection H as <-. rewrite (Hid _ _ Ex), (IH ys); reflexivity.
  Qed.

  Lemma sdu_is_symmetric_difference (Hid : forall x y, vld x = Some y -> y = x) s l :
    o_out (step vld s (SymDiffUpdate l)) = Ok ->
    forall x, mem x (o_after (step vld s (SymDiffUpdate l))) = xorb (mem x s) (mem x l).
  Proof.
    cbn [step]. rewrite diff_inter_l. destruct (vld_all vld (diff l s)) as [va|] eqn:Ev; [|discriminate].
    intros _ x. apply (vld_all_id Hid) in Ev. subst va. cbn [ok o_after]. mem_norm.
    destruct (mem x s), (mem x l); reflexivity.
  Qed.
End Readings.
