From TV Require Import C07.Model.
