(* C07 — property theorems only.  Each is closed by [exact] of a lemma of
   Proofs.v and followed by Print Assumptions. *)
From Coq Require Import ZArith List Bool.
From TV Require Import Common.LSet Common.Harness C07.Model C07.Law C07.Proofs.
Import ListNotations.
Open Scope Z_scope.

(* The whole law (all 8 clauses) holds at every step of every history, for
   every validator (accepting, rejecting, converting) and every start state. *)
Theorem law_holds_on_every_history :
  forall (vld : Z -> option Z) (ops : list op) (s : list Z) (i : Z),
    forallb not_detached ops = true ->
    law_hist vld i s (run vld s ops) = [].
Proof. exact run_law. Qed.
Print Assumptions law_holds_on_every_history.

Theorem refines_builtin_set :
  forall (vld : Z -> option Z) (s : list Z) (o : op), not_detached o = true ->
    let ob := step vld s o in
    let '(bo, ba) := builtin vld s o (o_ret ob) in
    o_out ob = bo /\ (forall x, mem x (o_after ob) = mem x ba).
Proof. exact step_refines_builtin. Qed.
Print Assumptions refines_builtin_set.

Theorem delta_law :
  forall (vld : Z -> option Z) (s : list Z) (o : op) (rem add : list Z), not_detached o = true ->
    In (rem, add) (o_events (step vld s o)) ->
    (forall x, mem x rem = true -> mem x s = true) /\
    (forall x, mem x add = true -> mem x s = false) /\
    (forall x, mem x (o_after (step vld s o)) = (mem x s && negb (mem x rem)) || mem x add) /\
    (exists x, mem x rem = true \/ mem x add = true).
Proof. exact step_delta. Qed.
Print Assumptions delta_law.

Theorem silent_iff_unchanged_and_single_event :
  forall (vld : Z -> option Z) (s : list Z) (o : op), not_detached o = true ->
    (seteq s (o_after (step vld s o)) = true -> o_events (step vld s o) = []) /\
    (seteq s (o_after (step vld s o)) = false -> exists ev, o_events (step vld s o) = [ev]).
Proof. exact step_one_event_iff_changed. Qed.
Print Assumptions silent_iff_unchanged_and_single_event.

Theorem failing_op_inert :
  forall (vld : Z -> option Z) (s : list Z) (o : op) (e : exn), not_detached o = true ->
    o_out (step vld s o) = Raise e ->
    (forall x, mem x (o_after (step vld s o)) = mem x s) /\ o_events (step vld s o) = [].
Proof. exact step_failing_inert. Qed.
Print Assumptions failing_op_inert.

Theorem xor_is_builtin_for_nonconverting_validators :
  forall (vld : Z -> option Z), (forall x y, vld x = Some y -> y = x) ->
  forall s l, o_out (step vld s (SymDiffUpdate l)) = Ok ->
    forall x, mem x (o_after (step vld s (SymDiffUpdate l))) = xorb (mem x s) (mem x l).
Proof. exact sdu_is_symmetric_difference. Qed.
Print Assumptions xor_is_builtin_for_nonconverting_validators.

(* The listed finding: a pickle round trip of a Set-trait value taken alone fails the copy clause, and only it
   (the hypothesis [not_detached] of the theorems above excludes exactly this operation). *)
Theorem detached_pickle_copy_refuted :
  forall (vld : Z -> option Z) (s : list Z),
    law_step vld s (Copy CopyPickleDetached) (step vld s (Copy CopyPickleDetached)) = [8].
Proof. exact detached_copy_refuted. Qed.
Print Assumptions detached_pickle_copy_refuted.

(* Non-vacuity: a concrete history with a converting validator in which
   events are emitted, an operation fails, and a copy is taken. *)
Example history_nontrivial :
  let h := run (vld_of VCInt) [1; 2; 3] [Ixor (ASet [101; 4]); Add 200; SymDiffUpdate [103; 5]; Copy CopyDeep; Pop None] in
  map (fun p => length (o_events (snd p))) h = [1; 0; 1; 0; 1]%nat
  /\ map (fun p => o_out (snd p)) h = [Ok; Raise TraitError; Ok; Ok; Ok].
Proof. vm_compute. split; reflexivity. Qed.
