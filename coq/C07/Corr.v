(* C07 — correspondence: one case = validator kind, initial contents and the
   history of (operation, observation recorded from the implementation). *)
From Coq Require Import ZArith List Bool.
From TV Require Import Common.LSet Common.Harness C07.Model C07.Law.
Import ListNotations.
Open Scope Z_scope.

Definition case := (vkind * list Z * list (op * obs))%type.

Definition event_eqb (a b : list Z * list Z) : bool :=
  seteq (fst a) (fst b) && seteq (snd a) (snd b).

(* codes: 100*step + 1 outcome, 2 contents, 3 events, 4 return value, 5 copy probe *)
Definition obs_diff (m i : obs) : list Z :=
  chk 1 (outcome_eqb (o_out m) (o_out i))
  ++ chk 2 (seteq (o_after m) (o_after i))
  ++ chk 3 (list_eqb event_eqb (o_events m) (o_events i))
  ++ chk 4 (opt_eqb Z.eqb (o_ret m) (o_ret i))
  ++ chk 5 (opt_eqb Bool.eqb (o_copy_validates m) (o_copy_validates i)).

(* The model is re-synchronised on the implementation's contents after every
   step, so one disagreement is reported once, at the step where it happens. *)
Fixpoint corr_hist (vk : vkind) (i : Z) (s : list Z) (h : list (op * obs)) : list Z :=
  match h with
  | [] => []
  | (o, ob) :: r =>
      map (fun c => 100 * i + c) (obs_diff (step (vld_of vk) s o) ob)
      ++ corr_hist vk (i + 1) (o_after ob) r
  end.

Definition corr_codes (c : case) : list Z := let '(vk, init, h) := c in corr_hist vk 0 init h.
Definition law_codes (c : case) : list Z := let '(vk, init, h) := c in law_hist (vld_of vk) 0 init h.
