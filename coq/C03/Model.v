(* C03/Model.v — executable model of trait validation on both paths.

   c_validate   = what CTrait.validate / setattr_trait run: the validate_trait_*
                  functions of ctraits.c (validate_trait_python -> the Python
                  validate for traits without a fast descriptor)
   c_case       = ONE case of the switch inside validate_trait_complex
                  (ctraits.c:4002-4272), written separately from c_validate, as
                  the C code duplicates it
   py_validate  = the `validate` methods of trait_types.py / trait_handlers.py

   Definitions only; the model follows the code that exists. *)
From Coq Require Import ZArith List Bool.
From TV Require Import Common.PyVal.
Import ListNotations.
Open Scope Z_scope.

(* ---------- environment: what the interpreter / third parties answer ---------- *)
Record env := mkEnv {
  e_sub : list (Z * Z);          (* (a, b): class a is a subclass of class b (reflexive pairs included) *)
  e_self : Z;                    (* type(obj) of the object owning the trait (This) *)
  e_orc : list (Z * pv * pv);    (* (f, v, w): oracle f answers w on v; 1 str(), 2 bytes(), 100+c adapt(v, class c) *)
  e_re : list (Z * list Z)       (* (r, s): compiled regex r matches string s *)
}.

Definition issub (E : env) (a b : Z) : bool :=
  existsb (fun p => (fst p =? a) && (snd p =? b)) (e_sub E).
(* PyObject_TypeCheck: the real type of the object *)
Definition typecheck (E : env) (v : pv) (c : Z) : bool := issub E (class_of v) c.
(* isinstance / PyObject_IsInstance: also what the object's __class__ attribute reports *)
Definition isinstance (E : env) (v : pv) (c : Z) : bool :=
  issub E (class_of v) c || match v with PProxy k _ => issub E k c | _ => false end.
Fixpoint orc_find (t : list (Z * pv * pv)) (f : Z) (v : pv) : option pv :=
  match t with
  | [] => None
  | (g, x, w) :: r => if (g =? f) && pv_eqb x v then Some w else orc_find r f v
  end.
Definition oracle (E : env) (f : Z) (v : pv) : option pv := orc_find (e_orc E) f v.
Definition re_match (E : env) (r : Z) (s : list Z) : bool :=
  existsb (fun p => (fst p =? r) && zlist_eqb (snd p) s) (e_re E).

(* ---------- trait descriptions ---------- *)
(* one dimension of an Array shape specification: None / an int / (lo, hi-or-None) *)
Inductive dim := DimAny | DimEq (n : Z) | DimRange (lo : Z) (hi : option Z).

Inductive cast_ty := CTInt | CTFloat | CTComplex | CTStr | CTBytes | CTBool.

Inductive desc :=
| DAny                                           (* no validator at all *)
| DInt | DFloat | DComplex                       (* fast kinds 20, 21, 23 *)
| DStr | DBytes | DBool | DModule                (* kind 11 (coerce) *)
| DCast (t : cast_ty)                            (* kind 12: CInt, CFloat, CComplex, CStr, CBytes, CBool *)
| DRangeF (lo hi : option fl) (mask : Z)         (* kind 4: Range with float bounds *)
| DRangeI (lo hi : option Z) (mask : Z)          (* Range with int bounds: Python only *)
| DEnum (vals : list pv)                         (* kind 5 *)
| DMap (m : list (pv * pv))                      (* kind 6, key -> shadow value *)
| DTuple (ds : list desc)                        (* kind 9 *)
| DInstance (cls : Z) (allow_none : bool) (tc : bool) (* kind 1, or kind 0 when the class is a built-in type (tc) *)
| DAdapt (cls : Z) (mode : Z) (allow_none : bool) (dflt : pv) (* kind 19: Instance(adapt='yes'|'default') *)
| DSelf (allow_none : bool)                      (* kind 2: This *)
| DCallable (allow_none : bool)                  (* kind 22 *)
| DType (cls : Z) (allow_none : bool)            (* Type: Python only *)
| DString (minlen maxlen : Z) (re : option Z)    (* String: Python only *)
| DPrefixList (vals : list (list Z))             (* Python only *)
| DPrefixMap (m : list (list Z * pv))            (* Python only *)
| DCompound (ds : list desc)                     (* kind 7: Either / Trait(...) -> TraitCompound *)
| DUnion (ds : list desc)                        (* Union: Python only *)
| DArray (dt : option Z) (shape : option (list dim)) (casting : Z)   (* numpy Array: Python only *)
| DProperty (d : desc)       (* settable validated Property(<trait>): validated with the trait's Python validate *)
| DVTuple (ds : list desc) (fv : option Z)    (* ValidatedTuple(traits.., fvalidate=f): Python only; f is oracle 500 + fv *)
| DList (d : desc) (minlen maxlen : Z)        (* List(<trait>, minlen=, maxlen=): Python only; a member of Tuple / Either / Union *)
| DRangeDyn (lo hi : Z) (mask : Z)            (* Range(low='lo', high='hi'): bounds are OTHER attributes of the instance (ids lo,
                                                 hi); validated against the instance state: see C01.Model.validate_s *)
| DDict (kd vd : desc)                        (* Dict(<key trait>, <value trait>): Python only *)
| DEnumDyn (src : Z).                         (* Enum(values='<name>'): the collection is ANOTHER attribute (id src) of the
                                                 instance; validated / read against the instance state: C01.Model *)

Inductive vres := Accept (w : pv) | Reject | Propagate (e : exn).

Definition vres_eqb (a b : vres) : bool :=
  match a, b with
  | Accept x, Accept y => pv_eqb x y
  | Reject, Reject => true
  | Propagate e, Propagate f => exn_eqb e f
  | _, _ => false
  end.

(* TypeError -> TraitError, other exceptions pass (ctraits.c:3380, trait_types.py:258-261) *)
Definition of_conv (c : conv pv) : vres :=
  match c with
  | Returns w => Accept w
  | Raises ETypeError => Reject
  | Raises e => Propagate e
  end.

(* ---------- does the handler carry a fast_validate tuple? ---------- *)
Fixpoint is_fast (d : desc) : bool :=
  match d with
  | DInt | DFloat | DComplex | DStr | DBytes | DBool | DModule | DCast _ | DRangeF _ _ _
  | DEnum _ | DMap _ | DInstance _ _ _ | DAdapt _ _ _ _ | DSelf _ | DCallable _ => true
  | DTuple ds => negb (is_nil_pv ds)                 (* trait_types.py:2333-2348 *)
  | DCompound ds => existsb is_fast ds               (* trait_handlers.py:680-686 *)
  | DAny | DRangeI _ _ _ | DType _ _ | DString _ _ _ | DPrefixList _ | DPrefixMap _ | DUnion _
  | DArray _ _ _ | DProperty _ | DVTuple _ _ | DList _ _ _ | DRangeDyn _ _ _ | DDict _ _ | DEnumDyn _ => false
  end.

(* ---------- ctraits.c:3535 in_float_range (reference; T2 regenerates it from the source) ---------- *)
Definition in_float_range (v : fl) (low high : option fl) (mask : Z) : Z :=
  match low with
  | Some lo =>
      if negb (Z.land mask 1 =? 0) then
        if negb (fl_gt v lo) then 0 else
          match high with
          | Some hi => if negb (Z.land mask 2 =? 0) then (if negb (fl_lt v hi) then 0 else 1)
                       else (if negb (fl_le v hi) then 0 else 1)
          | None => 1
          end
      else
        if negb (fl_ge v lo) then 0 else
          match high with
          | Some hi => if negb (Z.land mask 2 =? 0) then (if negb (fl_lt v hi) then 0 else 1)
                       else (if negb (fl_le v hi) then 0 else 1)
          | None => 1
          end
  | None =>
      match high with
      | Some hi => if negb (Z.land mask 2 =? 0) then (if negb (fl_lt v hi) then 0 else 1)
                   else (if negb (fl_le v hi) then 0 else 1)
      | None => 1
      end
  end.

(* trait_types.py:1791-1802 BaseRange.float_validate comparison (reference for the Python twin) *)
Definition py_float_in_range (v : fl) (low high : option fl) (mask : Z) : bool :=
  let xl := negb (Z.land mask 1 =? 0) in
  let xh := negb (Z.land mask 2 =? 0) in
  (match low with
   | None => true
   | Some lo => (xl && fl_lt lo v) || (negb xl && fl_le lo v)
   end)
  &&
  (match high with
   | None => true
   | Some hi => (xh && fl_gt hi v) || (negb xh && fl_ge hi v)
   end).

(* trait_types.py:1819-1830 BaseRange.int_validate comparison *)
Definition py_int_in_range (v : Z) (low high : option Z) (mask : Z) : bool :=
  let xl := negb (Z.land mask 1 =? 0) in
  let xh := negb (Z.land mask 2 =? 0) in
  (match low with
   | None => true
   | Some lo => (xl && (lo <? v)) || (negb xl && (lo <=? v))
   end)
  &&
  (match high with
   | None => true
   | Some hi => (xh && (hi >? v)) || (negb xh && (hi >=? v))
   end).

(* ---------- type_converter for the cast kinds ---------- *)
Definition cast_cls (t : cast_ty) : Z :=
  match t with CTInt => cINT | CTFloat => cFLOAT | CTComplex => cCOMPLEX
          | CTStr => cSTR | CTBytes => cBYTES | CTBool => cBOOL end.
Definition orc_conv (E : env) (f : Z) (v : pv) : conv pv :=
  match oracle E f v with Some w => Returns w | None => Raises EOtherError end.
Definition cast_fn (E : env) (t : cast_ty) (v : pv) : conv pv :=
  match t with
  | CTInt => cast_int v
  | CTFloat => cast_float v
  | CTComplex => cast_complex v
  | CTStr => match v with
             | PStr s | PStrSub s => Returns (PStr s)
             | _ => match oracle E 1 v with Some (PStr s) => Returns (PStr s) | _ => Raises EOtherError end
             end
  | CTBytes => match v with
               | PBytes s => Returns (PBytes s)
               | _ => match oracle E 2 v with Some (PBytes s) => Returns (PBytes s) | _ => Raises EOtherError end
               end
  | CTBool => Returns (PBool (truthy v))
  end.

(* trait_base.strx: str() of str/int/float/complex instances only *)
Definition strx (E : env) (v : pv) : option (list Z) :=
  match v with
  | PStr s | PStrSub s => Some s
  | _ => if isinstance E v cINT || isinstance E v cFLOAT || isinstance E v cCOMPLEX
         then match oracle E 1 v with Some (PStr s) => Some s | _ => None end
         else None
  end.

(* PrefixList._complete_value / PrefixMap._complete_value *)
Definition complete_value (keys : list (list Z)) (v : pv) (s : list Z) : option pv :=
  if existsb (zlist_eqb s) keys then Some v
  else match filter (fun k => is_prefix s k) keys with
       | [k] => Some (PStr k)
       | _ => None
       end.

(* ---------- list-level helpers (open recursion so that proofs can reuse them) ---------- *)
Inductive tres := TOk (l : list pv) | TRej | TExn (e : exn).

(* the item loop of validate_trait_tuple_check (ctraits.c:3676-3713) / the generator of
   Tuple.validate (trait_types.py:2482-2485): first failing item decides *)
Definition members (rec : desc -> pv -> vres) : list desc -> list pv -> tres :=
  fix go ds vs :=
    match ds, vs with
    | [], [] => TOk []
    | d :: ds', v :: vs' =>
        match rec d v with
        | Accept w => match go ds' vs' with TOk ws => TOk (w :: ws) | r => r end
        | Reject => TRej
        | Propagate e => TExn e
        end
    | _, _ => TRej
    end.

(* first alternative among those selected whose result is not Reject *)
Definition first_sel (sel : desc -> bool) (f : desc -> vres) : list desc -> vres :=
  fix go ds :=
    match ds with
    | [] => Reject
    | d :: r => if sel d then match f d with Reject => go r | x => x end else go r
    end.
Definition is_slow (d : desc) : bool := negb (is_fast d).

Definition tuple_items (v : pv) : option (list pv) :=
  match v with PTuple l | PTupleSub l => Some l | _ => None end.

(* validate_trait_tuple_check, ctraits.c:3665-3724: the value itself when no item changed,
   otherwise a new exact tuple *)
Definition tuple_check (cv : desc -> pv -> vres) (ds : list desc) (v : pv) : vres :=
  match tuple_items v with
  | Some vs =>
      if Nat.eqb (length ds) (length vs) then
        match members cv ds vs with
        | TOk ws => if pvs_eqb ws vs then Accept v else Accept (PTuple ws)
        | TRej => Reject
        | TExn e => Propagate e
        end
      else Reject
  | None => Reject
  end.

(* validate_trait_coerce_type, ctraits.c:3744-3780, for the tuples
   (coerce, str) (coerce, bytes) (coerce, bool, None, numpy.bool_) (coerce, ModuleType) *)
Definition coerce_info (d : desc) : Z * list Z :=
  match d with
  | DStr => (cSTR, []) | DBytes => (cBYTES, []) | DModule => (cMODULE, [])
  | _ => (cBOOL, [cNPBOOL])
  end.
Definition c_coerce (E : env) (d : desc) (v : pv) : vres :=
  let '(ty, ctys) := coerce_info d in
  if typecheck E v ty then Accept v
  else if existsb (typecheck E v) ctys then Accept (PBool (truthy v))   (* type_converter(bool, v) *)
  else Reject.

Definition c_adapt (E : env) (cls mode : Z) (allow_none : bool) (dflt v : pv) : vres :=
  match v with
  | PNone => if allow_none then Accept v else Reject
  | _ =>
      if mode =? 0 then (if isinstance E v cls then Accept v else Reject)
      else match oracle E (100 + cls) v with
           | Some w => Accept w
           | None => if isinstance E v cls then Accept v
                     else if mode =? 1 then Reject else Accept dflt
           end
  end.

(* ---------- Python-only leaf validators (reached from C through validate_trait_python) ---------- *)
Definition py_rangei (lo hi : option Z) (mask : Z) (v : pv) : vres :=      (* BaseRange.int_validate 1807 *)
  match as_integer v with
  | Raises ETypeError => Reject
  | Raises e => Propagate e
  | Returns (PInt z) => if py_int_in_range z lo hi mask then Accept (PInt z) else Reject
  | Returns _ => Reject
  end.
Definition py_type (E : env) (cls : Z) (an : bool) (v : pv) : vres :=          (* Type.validate 3801 *)
  match v with
  | PType c => if issub E c cls then Accept v else Reject
  | PNone => if an then Accept v else Reject
  | _ => Reject
  end.
Definition py_string (E : env) (minlen maxlen : Z) (re : option Z) (v : pv) : vres := (* String.validate_* 732-781 *)
  match strx E v with
  | Some s =>
      let n := Z.of_nat (length s) in
      if (minlen <=? n) && (n <=? maxlen) &&
         match re with Some r => re_match E r s | None => true end
      then Accept (PStr s) else Reject
  | None => Reject
  end.
Definition py_prefix (keys : list (list Z)) (v : pv) : vres :=   (* PrefixList.validate 2818 / PrefixMap.validate 3296 *)
  match str_of v with
  | Some s => match complete_value keys v s with Some w => Accept w | None => Reject end
  | None => Reject
  end.
Definition py_tuple0 (v : pv) : vres :=                          (* Tuple.validate 2467-2478 (no_type_check) *)
  match v with
  | PTuple _ | PTupleSub _ => Accept v
  | PList l => Accept (PTuple l)
  | _ => Reject
  end.

(* trait_numeric.py:122-162 AbstractArray.validate.  numpy is an oracle: 299 asarray(v), 300+t asarray(v, dtype t),
   400+10*t+casting  arr.astype(t, casting=...) — absent entry = numpy raised (caught by the bare except) *)
Definition dim_ok (d : dim) (n : Z) : bool :=
  match d with
  | DimAny => true
  | DimEq k => n =? k
  | DimRange lo hi => (lo <=? n) && match hi with Some h => n <=? h | None => true end
  end.
Fixpoint shape_ok (spec : list dim) (sh : list Z) : bool :=
  match spec, sh with
  | [], [] => true
  | d :: spec', n :: sh' => dim_ok d n && shape_ok spec' sh'
  | _, _ => false
  end.
Definition as_array (o : option pv) : option pv :=
  match o with Some (PArray k s c) => Some (PArray k s c) | _ => None end.
Definition arr_dtype_ok (dt : option Z) (a : pv) : bool :=
  match a with
  | PArray k _ _ => match dt with Some t => k =? t | None => true end
  | _ => false
  end.
Definition arr_shape_ok (shape : option (list dim)) (a : pv) : bool :=
  match a with
  | PArray _ sh _ => match shape with Some spec => shape_ok spec sh | None => true end
  | _ => false
  end.
Definition py_array (E : env) (dt : option Z) (shape : option (list dim)) (casting : Z) (v : pv) : vres :=
  let arr0 :=
    match v with
    | PArray _ _ _ => Some v                                               (* isinstance(value, ndarray) *)
    | PTuple _ | PTupleSub _ | PList _ =>                                  (* SequenceTypes: asarray(value[, dtype]) *)
        as_array (oracle E (match dt with Some t => 300 + t | None => 299 end) v)
    | _ => None
    end in
  match arr0 with
  | None => Reject
  | Some a0 =>
      let arr1 :=
        if arr_dtype_ok dt a0 then Some a0                                 (* value.dtype == self.dtype, or no dtype *)
        else match dt with
             | Some t => as_array (oracle E (400 + 10 * t + casting) a0)   (* value.astype(dtype, casting=...) *)
             | None => None
             end in
      match arr1 with
      | Some a1 =>
          (* astype yields the requested dtype (numpy's guarantee, re-checked on the oracle's answer); shape test 140-158 *)
          if arr_dtype_ok dt a1 && arr_shape_ok shape a1 then Accept a1 else Reject
      | None => Reject
      end
  end.

(* BaseTuple.validate (trait_types.py:2386-2413) + ValidatedTuple.validate (2526-2535): lists are accepted, members go
   through CTrait.validate, every exception of a member is swallowed by the bare except, the result is an exact tuple,
   then fvalidate decides (a total function: its answer is oracle 500 + fv on the converted tuple) *)
Definition seq_items (v : pv) : option (list pv) :=
  match v with PTuple l | PTupleSub l | PList l => Some l | _ => None end.
Definition fv_ok (E : env) (fv : option Z) (w : pv) : bool :=
  match fv with
  | None => true
  | Some f => match oracle E (500 + f) w with Some x => truthy x | None => false end
  end.
Definition vtuple_check (cv : desc -> pv -> vres) (E : env) (ds : list desc) (fv : option Z) (v : pv) : vres :=
  match seq_items v with
  | Some vs =>
      if Nat.eqb (length vs) (length ds) then
        match members cv ds vs with
        | TOk ws => if fv_ok E fv (PTuple ws) then Accept (PTuple ws) else Reject
        | _ => Reject
        end
      else Reject
  | None => Reject
  end.

(* List.validate (trait_types.py:2631-2648): a list within the length bounds is copied into a TraitListObject, whose
   constructor validates every item through item_trait.validate = CTrait.validate of the item trait, in order
   (trait_list_object.py:571-588, 854-870); the first failing item decides *)
Definition all_items (f : pv -> vres) : list pv -> tres :=
  fix go vs :=
    match vs with
    | [] => TOk []
    | x :: r =>
        match f x with
        | Accept w => match go r with TOk ws => TOk (w :: ws) | t => t end
        | Reject => TRej
        | Propagate e => TExn e
        end
    end.
Definition list_check (f : pv -> vres) (minlen maxlen : Z) (v : pv) : vres :=
  match v with
  | PList vs =>
      let n := Z.of_nat (length vs) in
      if (minlen <=? n) && (n <=? maxlen) then
        match all_items f vs with
        | TOk ws => Accept (PList ws)
        | TRej => Reject
        | TExn e => Propagate e
        end
      else Reject
  | _ => Reject
  end.

(* Dict.validate (trait_types.py:3037-3050): a dict is copied into a TraitDictObject, whose constructor builds
   {key_validator(k): value_validator(v) for k, v in items} (trait_dict_object.py:137-139) with key_trait.validate /
   value_trait.validate = CTrait.validate; item by item, key first; the first failure decides; converted keys that are
   equal collapse (first key object kept, last value wins).  (Converted keys are assumed hashable.) *)
Inductive dres := DOk (l : list (pv * pv)) | DRej | DExn (e : exn).
Definition all_pairs (fk fv : pv -> vres) : list (pv * pv) -> dres :=
  fix go kvs :=
    match kvs with
    | [] => DOk []
    | (k, x) :: r =>
        match fk k with
        | Accept k' =>
            match fv x with
            | Accept x' => match go r with DOk l => DOk ((k', x') :: l) | t => t end
            | Reject => DRej
            | Propagate e => DExn e
            end
        | Reject => DRej
        | Propagate e => DExn e
        end
    end.
Fixpoint dict_put (l : list (pv * pv)) (k x : pv) : list (pv * pv) :=
  match l with
  | [] => [(k, x)]
  | (k0, x0) :: r => if py_eq k k0 then (k0, x) :: r else (k0, x0) :: dict_put r k x
  end.
Definition dict_build (l : list (pv * pv)) : list (pv * pv) :=
  fold_left (fun acc kv => dict_put acc (fst kv) (snd kv)) l [].
Definition dict_check (fk fv : pv -> vres) (v : pv) : vres :=
  match v with
  | PDict kvs =>
      match all_pairs fk fv kvs with
      | DOk l => Accept (PDict (dict_build l))
      | DRej => Reject
      | DExn e => Propagate e
      end
  | _ => Reject
  end.

(* ---------- the validators ---------- *)
Fixpoint c_validate (E : env) (d : desc) (v : pv) {struct d} : vres :=
  match d with
  | DAny => Accept v                                            (* trait->validate == NULL *)
  | DInt => of_conv (as_integer v)                              (* validate_trait_integer 3372 *)
  | DFloat => of_conv (as_float v)                              (* validate_trait_float 3438 *)
  | DComplex => of_conv (as_complex v)                          (* validate_trait_complex_number 3508 *)
  | DStr | DBytes | DBool | DModule => c_coerce E d v           (* validate_trait_coerce_type 3744 *)
  | DCast t =>                                                  (* validate_trait_cast_type 3786 *)
      if class_of v =? cast_cls t then Accept v
      else match cast_fn E t v with Returns w => Accept w | Raises _ => Reject end
  | DRangeF lo hi mask =>                                       (* validate_trait_float_range 3581 *)
      match as_float v with
      | Returns (PFloat f) => if in_float_range f lo hi mask =? 1 then Accept (PFloat f) else Reject
      | Returns _ => Reject
      | Raises ETypeError => Reject
      | Raises e => Propagate e
      end
  | DEnum vals => if py_in v vals then Accept v else Reject     (* validate_trait_enum 3619 *)
  | DMap m =>                                                   (* validate_trait_map 3637 *)
      if hashable v then match dict_get m v with Some _ => Accept v | None => Reject end else Reject
  | DTuple [] => py_tuple0 v                                    (* no fast descriptor: validate_trait_python *)
  | DTuple ds => tuple_check (c_validate E) ds v                (* validate_trait_tuple 3726 *)
  | DInstance cls an tc =>                                      (* validate_trait_type 3258 / _instance 3280 *)
      if (an && pv_eqb v PNone) || (if tc then typecheck E v cls else isinstance E v cls) then Accept v else Reject
  | DAdapt cls mode an dflt => c_adapt E cls mode an dflt v     (* validate_trait_adapt 3903 *)
  | DSelf an =>                                                 (* validate_trait_self_type 3303 *)
      if (an && pv_eqb v PNone) || typecheck E v (e_self E) then Accept v else Reject
  | DCallable an =>                                             (* validate_trait_callable 3857 *)
      match v with
      | PNone => if an then Accept v else Reject
      | _ => if is_callable v then Accept v else Reject
      end
  | DCompound ds =>                                             (* validate_trait_complex 3988 *)
      (* no fast alternative: validate_trait_python -> TraitCompound.validate, whose fast loop is empty *)
      match first_sel is_fast (fun a => c_case E a v) ds with
      | Reject =>                                               (* case 8: handler.slow_validate *)
          first_sel is_slow (fun a => py_validate E a v) ds
      | x => x
      end
  (* validate_trait_python: the Python validate *)
  | DRangeI lo hi mask => py_rangei lo hi mask v
  | DType cls an => py_type E cls an v
  | DString mn mx re => py_string E mn mx re v
  | DPrefixList vals => py_prefix vals v
  | DPrefixMap m => py_prefix (map fst m) v
  | DUnion ds => first_sel (fun _ => true) (fun a => c_validate E a v) ds   (* Union.validate 4189 *)
  | DArray dt shape casting => py_array E dt shape casting v
  | DProperty d' => py_validate E d' v          (* traits.py:573-575: fvalidate = handler.validate *)
  | DVTuple ds fv => vtuple_check (c_validate E) E ds fv v
  | DList d' mn mx => list_check (c_validate E d') mn mx v
  | DRangeDyn _ _ _ => Reject                   (* no instance here: the state-dependent validator is C01.Model.validate_s *)
  | DDict kd vd => dict_check (c_validate E kd) (c_validate E vd) v
  | DEnumDyn _ => Reject                         (* no instance here: see C01.Model.validate_s *)
  end

(* one case of the switch in validate_trait_complex; `Reject` = `break` (try the next item) *)
with c_case (E : env) (d : desc) (v : pv) {struct d} : vres :=
  match d with
  | DInstance cls an tc =>                                      (* case 0 / case 1, 4003-4022 *)
      let inst := if tc then typecheck E v cls else isinstance E v cls in   (* case 0: TypeCheck, case 1: IsInstance *)
      if an then (if pv_eqb v PNone then Accept v else if inst then Accept v else Reject)
      else (if inst then Accept v else Reject)
  | DSelf an =>                                                 (* case 2, 4023 *)
      if an && pv_eqb v PNone then Accept v
      else if typecheck E v (e_self E) then Accept v else Reject
  | DRangeF lo hi mask =>                                       (* case 4, 4030-4056 *)
      match as_float v with
      | Raises ETypeError => Reject
      | Raises e => Propagate e
      | Returns (PFloat f) =>
          let r := in_float_range f lo hi mask in
          if r =? 1 then Accept (PFloat f) else Reject
      | Returns _ => Reject
      end
  | DEnum vals => if py_in v vals then Accept v else Reject     (* case 5, 4058 *)
  | DMap m =>                                                   (* case 6, 4068 *)
      match (if hashable v then dict_get m v else None) with Some _ => Accept v | None => Reject end
  | DTuple ds => tuple_check (c_validate E) ds v                (* case 9, 4087 *)
  | DStr | DBytes | DModule =>                                  (* case 11, 4097-4121 *)
      if typecheck E v (fst (coerce_info d)) then Accept v else Reject
  | DBool =>
      if typecheck E v cBOOL then Accept v
      else if typecheck E v cNPBOOL then Accept (PBool (truthy v)) else Reject
  | DCast t =>                                                  (* case 12, 4123-4134 *)
      if class_of v =? cast_cls t then Accept v
      else match cast_fn E t v with Returns w => Accept w | Raises _ => Reject end
  | DAdapt cls mode an dflt =>                                  (* case 19, 4150-4218 *)
      match v with
      | PNone => if an then Accept v else Reject
      | _ =>
          if mode =? 0 then (if isinstance E v cls then Accept v else Reject)
          else match oracle E (100 + cls) v with
               | Some w => Accept w
               | None => if isinstance E v cls then Accept v
                         else if mode =? 1 then Reject else Accept dflt
               end
      end
  | DInt =>                                                     (* case 20, 4220 *)
      match as_integer v with
      | Raises ETypeError => Reject
      | Raises e => Propagate e
      | Returns w => Accept w
      end
  | DFloat =>                                                   (* case 21, 4232 *)
      match as_float v with
      | Raises ETypeError => Reject
      | Raises e => Propagate e
      | Returns w => Accept w
      end
  | DCallable an =>                                             (* case 22, 4244 *)
      let valid := match v with PNone => an | _ => is_callable v end in
      if valid then Accept v else Reject
  | DComplex =>                                                 (* case 23, 4257 *)
      match as_complex v with
      | Raises ETypeError => Reject
      | Raises e => Propagate e
      | Returns w => Accept w
      end
  | DCompound ds =>
      (* a nested compound with a fast descriptor is flattened into the list (trait_handlers.py:650-653): its fast
         items in place, then its own (slow, inner) item — the same order as deciding the inner compound here *)
      match first_sel is_fast (fun a => c_case E a v) ds with
      | Reject => first_sel is_slow (fun a => py_validate E a v) ds
      | x => x
      end
  | DAny | DRangeI _ _ _ | DType _ _ | DString _ _ _ | DPrefixList _ | DPrefixMap _
  | DUnion _ | DArray _ _ _ | DProperty _ | DVTuple _ _ | DList _ _ _ | DRangeDyn _ _ _ | DDict _ _ | DEnumDyn _ => Reject    (* never in the fast list *)
  end

with py_validate (E : env) (d : desc) (v : pv) {struct d} : vres :=
  match d with
  | DAny => Accept v
  | DInt =>                                                     (* BaseInt.validate 255 *)
      match as_integer v with Returns w => Accept w | Raises ETypeError => Reject | Raises e => Propagate e end
  | DFloat =>                                                   (* BaseFloat.validate 300 *)
      match as_float v with Returns w => Accept w | Raises ETypeError => Reject | Raises e => Propagate e end
  | DComplex =>                                                 (* BaseComplex.validate 347 *)
      match as_complex v with Returns w => Accept w | Raises ETypeError => Reject | Raises e => Propagate e end
  | DStr => if isinstance E v cSTR then Accept v else Reject    (* BaseStr.validate 387 *)
  | DBytes => if isinstance E v cBYTES then Accept v else Reject (* BaseBytes.validate 449 *)
  | DBool =>                                                    (* BaseBool.validate 496 *)
      if isinstance E v cBOOL || isinstance E v cNPBOOL then Accept (PBool (truthy v)) else Reject
  | DModule => Reject                                           (* Module has no Python validate: outside C03 *)
  | DCast t =>                                                  (* BaseCInt.validate 529 ... BaseCBool 653 *)
      match cast_fn E t v with
      | Returns w => Accept w
      | Raises e =>
          match t with
          | CTInt | CTFloat | CTComplex =>                      (* except (ValueError, TypeError, OverflowError) *)
              match e with ETypeError | EValueError | EOverflowError => Reject | _ => Propagate e end
          | _ => Reject                                         (* bare except *)
          end
      end
  | DRangeF lo hi mask =>                                       (* BaseRange.float_validate 1779 *)
      match as_float v with
      | Raises ETypeError => Reject
      | Raises e => Propagate e
      | Returns (PFloat f) => if py_float_in_range f lo hi mask then Accept (PFloat f) else Reject
      | Returns _ => Reject
      end
  | DRangeI lo hi mask => py_rangei lo hi mask v
  | DEnum vals => if py_in v vals then Accept v else Reject     (* BaseEnum.validate 2125 *)
  | DMap m =>                                                   (* Map.validate 3170: TypeError -> error *)
      if hashable v then (if existsb (fun kv => py_eq v (fst kv)) m then Accept v else Reject) else Reject
  | DTuple [] => py_tuple0 v
  | DTuple ds =>                                                (* Tuple.validate 2480-2489: members through CTrait.validate *)
      match tuple_items v with
      | Some vs =>
          if Nat.eqb (length vs) (length ds) then
            match members (c_validate E) ds vs with
            | TOk ws => Accept (PTuple ws)
            | TRej => Reject
            | TExn e => Propagate e
            end
          else Reject
      | None => Reject
      end
  | DInstance cls an tc =>                                      (* BaseInstance.validate 3533, adapt == 0 *)
      match v with
      | PNone => if an then Accept v else Reject
      | _ => if isinstance E v cls then Accept v else Reject
      end
  | DAdapt cls mode an dflt =>                                  (* BaseInstance.validate 3533-3572 *)
      match v with
      | PNone => if an then Accept v else Reject
      | _ =>
          if mode =? 0 then (if isinstance E v cls then Accept v else Reject)
          else match oracle E (100 + cls) v with
               | Some w => Accept w
               | None => if isinstance E v cls then Accept v
                         else if mode =? 1 then Reject
                         else Accept PNone      (* 3568: self.default_value — the Instance's OWN default (None for
                                                   Instance(K, adapt='default')), whereas the compiled path returns
                                                   default_value_for(the trait being assigned) = dflt *)
               end
      end
  | DSelf an =>                                                 (* This.validate / validate_none 961-971 *)
      if an then (if isinstance E v (e_self E) || pv_eqb v PNone then Accept v else Reject)
      else (if isinstance E v (e_self E) then Accept v else Reject)
  | DCallable an =>                                             (* Callable.validate 910 *)
      match v with
      | PNone => if an then Accept v else Reject
      | _ => if is_callable v then Accept v else Reject
      end
  | DType cls an => py_type E cls an v
  | DString mn mx re => py_string E mn mx re v
  | DPrefixList vals => py_prefix vals v
  | DPrefixMap m => py_prefix (map fst m) v
  | DCompound ds =>                                             (* TraitCompound.validate 696-710 *)
      match first_sel is_fast (fun a => py_validate E a v) ds with
      | Reject => first_sel is_slow (fun a => py_validate E a v) ds      (* slow_validate *)
      | x => x
      end
  | DUnion ds =>                                                (* Union.validate 4189: CTrait.validate of each *)
      first_sel (fun _ => true) (fun a => c_validate E a v) ds
  | DArray dt shape casting => py_array E dt shape casting v
  | DProperty d' => py_validate E d' v
  | DVTuple ds fv => vtuple_check (c_validate E) E ds fv v
  | DList d' mn mx => list_check (c_validate E d') mn mx v
  | DRangeDyn _ _ _ => Reject
  | DDict kd vd => dict_check (c_validate E kd) (c_validate E vd) v
  | DEnumDyn _ => Reject
  end.

(* ---------- well-formedness of a description (what the constructors can build) ---------- *)
Definition is_property (d : desc) : bool := match d with DProperty _ => true | _ => false end.
Fixpoint wf_desc (d : desc) : bool :=
  match d with
  | DProperty d' => wf_desc d'
  | DVTuple ds _ => forallb wf_desc ds
  | DList d' _ _ => wf_desc d'
  | DDict kd vd => wf_desc kd && wf_desc vd
  | DTuple ds => forallb wf_desc ds
  | DCompound ds =>
      forallb wf_desc ds &&
      forallb (fun a => match a with DAny | DModule | DProperty _ => false | _ => true end) ds &&
      negb (is_nil_pv ds)
  | DUnion ds => forallb wf_desc ds && negb (is_nil_pv ds)
  | _ => true
  end.

(* the trait types C03 speaks about: a fast descriptor and a Python validate *)
Definition c03_scope (d : desc) : bool :=
  match d with
  | DModule | DAny => false
  | _ => is_fast d
  end.
