(* C03 — property theorems only.  Each is closed by [exact] of a lemma of Proofs.v and
   followed by Print Assumptions.  E ranges over every environment (class table, str()/bytes()/
   re/adapt answers), d over every trait description, v over every value of Common/PyVal.pv. *)
From Coq Require Import ZArith List Bool.
From TV Require Import Common.PyVal Common.Harness C03.Model C03.Law C03.Proofs.
Import ListNotations.
Open Scope Z_scope.

(* Main statement: for every trait type with a fast descriptor (alone, as Tuple with any member
   descriptions, or as compound of any alternatives) the compiled path and the Python path have the
   same accept set, yield structurally equal values of the same exact type, and a Python TraitError
   is a compiled TraitError.  [benign] excludes exactly the three recorded findings (tuple-subclass
   instances F4, a cast alternative whose Python validate lets an exception of the value's own protocol escape — the residue of F17 after its repair,
   Instance(C, allow_none=False) with None an instance of C F18, adapt='default' inside a compound
   F21), asks the class table not to declare subclasses of bool, and keeps transparent proxies away
   from the validators whose compiled form is an exact type check. *)
Theorem fast_eq_slow :
  forall E d v, wf_desc d = true -> c03_scope d = true -> benign E d v = true ->
    agrees (c_validate E d v) (py_validate E d v) = true.
Proof. exact fast_eq_slow_lemma. Qed.
Print Assumptions fast_eq_slow.

(* without the hypothesis the statement is false of the faithful model: the findings *)
Theorem fast_eq_slow_refuted_tuple_subclass :
  exists E d v, wf_desc d = true /\ c03_scope d = true /\ agrees (c_validate E d v) (py_validate E d v) = false.
Proof. exists E0, (DTuple [DInt; DInt]), (PTupleSub [PInt 1; PInt 2]). exact refuted_tuple_subclass. Qed.
Print Assumptions fast_eq_slow_refuted_tuple_subclass.

Theorem fast_eq_slow_refuted_cast_escape :
  exists E d v, wf_desc d = true /\ c03_scope d = true /\ agrees (c_validate E d v) (py_validate E d v) = false.
Proof.
  exists (mkEnv [(20, 20)] 110 [] []), (DCompound [DCast CTInt; DInstance cIDXOBJ false false]), (PIndexObj (Raises EOtherError)).
  exact refuted_cast_escape.
Qed.
Print Assumptions fast_eq_slow_refuted_cast_escape.

Theorem fast_eq_slow_refuted_adapt_default :   (* F21 *)
  exists E d v, wf_desc d = true /\ c03_scope d = true /\ agrees (c_validate E d v) (py_validate E d v) = false.
Proof.
  exists (mkEnv [(3, 3); (6, 6); (100, 100)] 110 [(1, PInt 5, PStr [53])] []),
         (DCompound [DAdapt 100 2 false (PStr [78; 111; 110; 101]); DCast CTStr]), (PInt 5).
  exact refuted_adapt_default.
Qed.
Print Assumptions fast_eq_slow_refuted_adapt_default.

Theorem fast_eq_slow_refuted_none_instance :
  exists E d v, wf_desc d = true /\ c03_scope d = true /\ agrees (c_validate E d v) (py_validate E d v) = false.
Proof. exists E0, (DInstance 0 false false), PNone. exact refuted_none_instance. Qed.
Print Assumptions fast_eq_slow_refuted_none_instance.

(* the copy of every validator inside the switch of validate_trait_complex decides like the
   stand-alone validate_trait_* function *)
Theorem case_eq_standalone :
  forall E a v, alt_ok a = true -> is_fast a = true -> c_case E a v = c_validate E a v.
Proof. exact case_eq_standalone_lemma. Qed.
Print Assumptions case_eq_standalone.

(* a compound yields the outcome of the first non-rejecting alternative of the effective order
   (fast alternatives in declaration order, then the slow ones), each validated alone *)
Theorem compound_first_accepting :
  forall E ds v, forallb alt_ok ds = true ->
    c_validate E (DCompound ds) v = first_outcome (map (fun d => c_validate E d v) (effective_order ds)).
Proof. exact compound_first_accepting_lemma. Qed.
Print Assumptions compound_first_accepting.

Theorem compound_eq_single :
  forall E ds v w, forallb alt_ok ds = true -> c_validate E (DCompound ds) v = Accept w ->
    exists pre a post, effective_order ds = pre ++ a :: post /\ c_validate E a v = Accept w
                       /\ Forall (fun b => c_validate E b v = Reject) pre.
Proof. exact compound_eq_single_lemma. Qed.
Print Assumptions compound_eq_single.

Theorem compound_rejects_iff_all_reject :
  forall E ds v, forallb alt_ok ds = true ->
    (c_validate E (DCompound ds) v = Reject <-> Forall (fun b => c_validate E b v = Reject) (effective_order ds)).
Proof. exact compound_rejects_iff_lemma. Qed.
Print Assumptions compound_rejects_iff_all_reject.

(* the law's clause (declaration order) holds whenever no slow alternative is declared before a fast one *)
Theorem compound_declaration_order :
  forall E ds v, forallb alt_ok ds = true -> order_preserved ds = true ->
    compound_ok (c_validate E (DCompound ds) v) (map (fun d => c_validate E d v) ds) = true.
Proof. exact compound_declaration_order_lemma. Qed.
Print Assumptions compound_declaration_order.

Theorem compound_declaration_order_refuted :   (* F5: Either(String(maxlen=5), CInt) <- "12" *)
  exists E ds v, wf_desc (DCompound ds) = true /\
    compound_ok (c_validate E (DCompound ds) v) (map (fun d => c_validate E d v) ds) = false.
Proof. exists E0, [DString 0 5 None; DCast CTInt], (PStr [49; 50]). exact refuted_declaration_order. Qed.
Print Assumptions compound_declaration_order_refuted.

(* the law that is evaluated on the implementation's outcomes holds, all four clauses, on the model's
   own outcomes (compiled path, Python path, every declared alternative alone) *)
Theorem law_holds_on_model :
  forall E d v, wf_desc d = true -> c03_scope d = true -> benign E d v = true ->
    (forall ds, d = DCompound ds -> order_preserved ds = true) ->
    law_obs (c_validate E d v, Some (py_validate E d v),
             match d with DCompound ds => Some (map (fun a => c_validate E a v) ds) | _ => None end) = [].
Proof. exact law_on_model_lemma. Qed.
Print Assumptions law_holds_on_model.

(* Tuple: accepted iff it is a tuple of the right length whose members are accepted one by one by
   the member traits; the result is the value itself when no member changed, else the exact tuple
   of the member results *)
Theorem tuple_members_pointwise :
  forall E d ds v w,
    c_validate E (DTuple (d :: ds)) v = Accept w <->
    exists vs ws, tuple_items v = Some vs /\ length (d :: ds) = length vs
                  /\ zipw (c_validate E) (d :: ds) vs = map Accept ws
                  /\ w = (if pvs_eqb ws vs then v else PTuple ws).
Proof. exact tuple_members_pointwise_lemma. Qed.
Print Assumptions tuple_members_pointwise.

(* float Range: the C test (reference of translator T2) and the Python test are the declared criterion *)
Theorem in_float_range_meets_spec :
  forall v low high mask, (in_float_range v low high mask =? 1) = in_range_spec v low high mask.
Proof. exact in_float_range_spec. Qed.
Print Assumptions in_float_range_meets_spec.

Theorem range_c_eq_py :
  forall v low high mask, (in_float_range v low high mask =? 1) = py_float_in_range v low high mask.
Proof. exact range_c_eq_py_model. Qed.
Print Assumptions range_c_eq_py.

(* Non-vacuity: a compound with a Tuple, an exclusive float Range, an Instance and a slow String
   alternative meets wf/scope/benign on values that are converted, rejected (NaN) and accepted. *)
Example hypotheses_nonvacuous :
  let d := DCompound [DTuple [DInt; DCast CTFloat]; DRangeF (Some (FFin false 0)) (Some (FFin false 1000)) 1;
                      DInstance 100 false false; DString 0 5 None] in
  wf_desc d = true /\ c03_scope d = true /\ bool_final E0 = true
  /\ benign E0 d (PTuple [PIntSub 3; PBool true]) = true
  /\ c_validate E0 d (PTuple [PIntSub 3; PBool true]) = Accept (PTuple [PInt 3; PFloat (FFin false 1000)])
  /\ benign E0 d (PFloat FNaN) = true /\ c_validate E0 d (PFloat FNaN) = Reject
  /\ c_validate E0 d (PStr [97]) = Accept (PStr [97])
  /\ c_validate E0 d (PObj 101 1) = Accept (PObj 101 1).
Proof. exact nonvacuous_example. Qed.

(* fast_eq_slow covers compounds with container alternatives: an Either of a Tuple, a List of Either(Int, Str) and a
   validated tuple meets wf / scope / benign; both paths convert the items alike *)
Example container_members_nonvacuous :
  let d := DCompound [DTuple [DInt; DList DFloat 0 3]; DList (DCompound [DInt; DStr]) 1 4; DVTuple [DInt; DInt] None] in
  let v := PList [PBool true; PStr [97]; PIntSub 3] in
  wf_desc d = true /\ c03_scope d = true /\ benign E0 d v = true /\
  c_validate E0 d v = Accept (PList [PInt 1; PStr [97]; PInt 3]) /\
  py_validate E0 d v = Accept (PList [PInt 1; PStr [97]; PInt 3]) /\
  c_validate E0 d (PTuple [PInt 1; PList [PInt 2; PBool false]]) = Accept (PTuple [PInt 1; PList [PFloat (FFin false 2000); PFloat (FFin false 0)]]).
Proof. vm_compute. repeat split. Qed.
