(* C03/Corr.v — correspondence: one case = environment, trait description, value and
   the outcomes recorded from the implementation (CTrait.validate, handler.validate,
   each declared alternative alone). *)
From Coq Require Import ZArith List Bool.
From TV Require Import Common.PyVal Common.Harness C03.Model C03.Law.
Import ListNotations.
Open Scope Z_scope.

Definition case := (env * desc * pv * obs)%type.

(* an alternative validated alone is a trait of its own: adapt='default' then yields that trait's default (None) *)
Definition alone (a : desc) : desc :=
  match a with DAdapt c m an _ => DAdapt c m an PNone | _ => a end.
Definition alts_of (d : desc) : list desc := match d with DCompound ds => map alone ds | _ => [] end.

(* codes: 1 compiled path, 2 Python path, 3 an alternative validated alone *)
Definition corr_codes (c : case) : list Z :=
  let '(E, d, v, (co, po, ao)) := c in
  chk 1 (vres_eqb (c_validate E d v) co)
  ++ (match po with Some p => chk 2 (vres_eqb (py_validate E d v) p) | None => [] end)
  ++ (match ao with
      | Some a => chk 3 (list_eqb vres_eqb (map (fun x => c_validate E x v) (alts_of d)) a)
      | None => []
      end).

Definition law_codes (c : case) : list Z := let '(_, _, _, o) := c in law_obs o.
