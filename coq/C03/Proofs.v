(* C03/Proofs.v — lemmas behind C03/Props.v *)
From Coq Require Import ZArith List Bool Lia.
From TV Require Import Common.PyVal Common.Harness C03.Model C03.Law.
Import ListNotations.
Open Scope Z_scope.

Ltac zcmp :=
  repeat match goal with
         | |- context [Z.ltb ?a ?b] => is_var a; is_var b; destruct (Z.ltb_spec a b)
         | |- context [Z.eqb ?a ?b] => is_var a; is_var b; destruct (Z.eqb_spec a b)
         | |- context [Z.leb ?a ?b] => is_var a; is_var b; destruct (Z.leb_spec a b)
         | |- context [Z.gtb ?a ?b] => is_var a; is_var b; rewrite (Z.gtb_ltb a b)
         | |- context [Z.geb ?a ?b] => is_var a; is_var b; rewrite (Z.geb_leb a b)
         end; cbn; try reflexivity; try lia.

(* ---------- the range test, both twins, against the declared criterion ---------- *)
Lemma in_float_range_spec v low high mask :
  (in_float_range v low high mask =? 1) = in_range_spec v low high mask.
Proof.
  unfold in_float_range, in_range_spec, fl_ge, fl_gt, fl_le.
  destruct (Z.land mask 1 =? 0), (Z.land mask 2 =? 0); cbn [negb];
  destruct low as [[| |nl l|]|], high as [[| |nh h|]|], v as [| |nv x|]; cbn; try reflexivity; zcmp.
Qed.

Lemma py_float_in_range_spec v low high mask :
  py_float_in_range v low high mask = in_range_spec v low high mask.
Proof.
  unfold py_float_in_range, in_range_spec, fl_ge, fl_gt, fl_le.
  destruct (Z.land mask 1 =? 0), (Z.land mask 2 =? 0); cbn [negb];
  destruct low as [[| |nl l|]|], high as [[| |nh h|]|], v as [| |nv x|]; cbn; try reflexivity; zcmp.
Qed.

Lemma py_int_in_range_spec v low high mask :
  py_int_in_range v low high mask = int_range_spec v low high mask.
Proof.
  unfold py_int_in_range, int_range_spec.
  destruct (Z.land mask 1 =? 0), (Z.land mask 2 =? 0); cbn [negb];
  destruct low as [l|], high as [h|]; cbn; try reflexivity; zcmp.
Qed.

Lemma range_c_eq_py_model v low high mask :
  (in_float_range v low high mask =? 1) = py_float_in_range v low high mask.
Proof. now rewrite in_float_range_spec, py_float_in_range_spec. Qed.

(* ---------- structural equality of values is sound and reflexive ---------- *)
Lemma fl_same_true a b : fl_same a b = true -> a = b.
Proof.
  destruct a, b; cbn; try discriminate; try reflexivity.
  intros H. apply andb_prop in H as [H1 H2].
  apply Bool.eqb_prop in H1. apply Z.eqb_eq in H2. now subst.
Qed.
Lemma fl_same_refl a : fl_same a a = true.
Proof. destruct a; cbn; try reflexivity. now rewrite Bool.eqb_reflx, Z.eqb_refl. Qed.

Lemma zlist_eqb_true a : forall b, zlist_eqb a b = true -> a = b.
Proof.
  unfold zlist_eqb. induction a as [|x a IH]; intros [|y b]; try discriminate; try reflexivity.
  intros H. apply andb_prop in H as [H1 H2]. apply Z.eqb_eq in H1. subst. f_equal. now apply IH.
Qed.
Lemma zlist_eqb_refl a : zlist_eqb a a = true.
Proof. unfold zlist_eqb. induction a; cbn; [reflexivity|]. now rewrite Z.eqb_refl. Qed.

Lemma exn_eqb_true a b : exn_eqb a b = true -> a = b.
Proof. destruct a, b; cbn; try discriminate; reflexivity. Qed.
Lemma exn_eqb_refl a : exn_eqb a a = true.
Proof. now destruct a. Qed.

Lemma conv_eqb_true {A} (eqb : A -> A -> bool) :
  (forall x y, eqb x y = true -> x = y) -> forall a b, conv_eqb eqb a b = true -> a = b.
Proof.
  intros H [x|e] [y|f]; cbn; try discriminate; intros E.
  - f_equal. now apply H.
  - f_equal. now apply exn_eqb_true.
Qed.
Lemma conv_eqb_refl {A} (eqb : A -> A -> bool) :
  (forall x, eqb x x = true) -> forall a, conv_eqb eqb a a = true.
Proof. intros H [x|e]; cbn; [apply H | apply exn_eqb_refl]. Qed.

Lemma pv_eqb_true : forall a b, pv_eqb a b = true -> a = b.
Proof.
  fix IH 1.
  assert (L : forall l m,
             (fix go (l m : list pv) : bool :=
                match l, m with
                | [], [] => true
                | x :: l', y :: m' => pv_eqb x y && go l' m'
                | _, _ => false
                end) l m = true -> l = m).
  { fix IHl 1. intros [|x l] [|y m]; try discriminate; try reflexivity.
    intros H. apply andb_prop in H as [H1 H2]. f_equal; [now apply IH | now apply IHl]. }
  assert (LP : forall l m,
             (fix gop (l m : list (pv * pv)) : bool :=
                match l, m with
                | [], [] => true
                | (k, x) :: l', (k', y) :: m' => pv_eqb k k' && pv_eqb x y && gop l' m'
                | _, _ => false
                end) l m = true -> l = m).
  { fix IHl 1. intros [|[k x] l] [|[k' y] m]; try discriminate; try reflexivity.
    intros H. apply andb_prop in H as [H1 H3]. apply andb_prop in H1 as [H1 H2].
    f_equal; [f_equal; now apply IH | now apply IHl]. }
  intros a b; destruct a, b; cbn; try discriminate; try reflexivity; intros H;
    try (apply LP in H; now subst);
    try (apply Z.eqb_eq in H; now subst);
    try (apply Bool.eqb_prop in H; now subst);
    try (apply fl_same_true in H; now subst);
    try (apply zlist_eqb_true in H; now subst);
    try (apply L in H; now subst).
  - apply andb_prop in H as [H1 H2]. apply fl_same_true in H1, H2. now subst.
  - apply andb_prop in H as [H1 H2]. apply Z.eqb_eq in H1, H2. now subst.
  - apply andb_prop in H as [H1 H2]. apply Z.eqb_eq in H1. apply fl_same_true in H2. now subst.
  - f_equal. revert H. apply conv_eqb_true. intros x y. apply Z.eqb_eq.
  - f_equal. revert H. apply conv_eqb_true. apply fl_same_true.
  - f_equal. revert H. apply conv_eqb_true. intros [x1 x2] [y1 y2]; cbn. intros H.
    apply andb_prop in H as [H1 H2]. apply fl_same_true in H1, H2. now subst.
  - apply andb_prop in H as [H1 H2]. apply Z.eqb_eq in H1, H2. now subst.
  - apply andb_prop in H as [H1 H3]. apply andb_prop in H1 as [H1 H2].
    apply Z.eqb_eq in H1, H3. apply zlist_eqb_true in H2. now subst.
  - apply andb_prop in H as [H1 H2]. apply Z.eqb_eq in H1, H2. now subst.
Qed.

Lemma pv_eqb_refl : forall a, pv_eqb a a = true.
Proof.
  fix IH 1.
  assert (L : forall l,
             (fix go (l m : list pv) : bool :=
                match l, m with
                | [], [] => true
                | x :: l', y :: m' => pv_eqb x y && go l' m'
                | _, _ => false
                end) l l = true).
  { fix IHl 1. intros [|x l]; [reflexivity|]. now rewrite IH, IHl. }
  assert (LP : forall l,
             (fix gop (l m : list (pv * pv)) : bool :=
                match l, m with
                | [], [] => true
                | (k, x) :: l', (k', y) :: m' => pv_eqb k k' && pv_eqb x y && gop l' m'
                | _, _ => false
                end) l l = true).
  { fix IHl 1. intros [|[k x] l]; [reflexivity|]. now rewrite !IH, IHl. }
  intros a; destruct a; cbn; try reflexivity; try apply LP;
    try apply Z.eqb_refl; try apply Bool.eqb_reflx; try apply fl_same_refl; try apply zlist_eqb_refl; try apply L.
  - now rewrite !fl_same_refl.
  - now rewrite !Z.eqb_refl.
  - now rewrite Z.eqb_refl, fl_same_refl.
  - apply conv_eqb_refl. apply Z.eqb_refl.
  - apply conv_eqb_refl. apply fl_same_refl.
  - apply conv_eqb_refl. intros [x y]; cbn. now rewrite !fl_same_refl.
  - now rewrite !Z.eqb_refl.
  - now rewrite !Z.eqb_refl, zlist_eqb_refl.
  - now rewrite !Z.eqb_refl.
Qed.

Lemma pvs_eqb_true : forall l m, pvs_eqb l m = true -> l = m.
Proof.
  induction l as [|x l IH]; intros [|y m]; cbn; try discriminate; try reflexivity.
  intros H. apply andb_prop in H as [H1 H2]. apply pv_eqb_true in H1. subst. f_equal. now apply IH.
Qed.
Lemma pvs_eqb_refl : forall l, pvs_eqb l l = true.
Proof. induction l; cbn; [reflexivity|]. now rewrite pv_eqb_refl. Qed.

Lemma vres_eqb_refl r : vres_eqb r r = true.
Proof. destruct r; cbn; [apply pv_eqb_refl | reflexivity | apply exn_eqb_refl]. Qed.

(* ---------- the duplicated switch agrees with the stand-alone validators ---------- *)
(* what TraitCompound.set_validate can put in the fast list *)
Definition alt_ok (a : desc) : bool :=
  match a with DAny | DModule | DProperty _ => false | _ => true end.

Ltac dm :=
  repeat (match goal with
          | |- context [if ?b then _ else _] => destruct b eqn:?
          | |- context [match ?x with _ => _ end] => destruct x eqn:?
          end; cbn in *; try reflexivity; try discriminate; try congruence).

Lemma case_eq_standalone_lemma E a v :
  alt_ok a = true -> is_fast a = true -> c_case E a v = c_validate E a v.
Proof.
  destruct a; cbn; try discriminate; intros _ Hf; try reflexivity;
    unfold c_coerce, c_adapt, of_conv; cbn; try (destruct ds; [discriminate | reflexivity]); dm.
Qed.

(* ---------- compounds: first non-rejecting alternative of the effective order ---------- *)
Definition effective_order (ds : list desc) : list desc := filter is_fast ds ++ filter is_slow ds.

Lemma first_sel_filter sel f ds : first_sel sel f ds = first_outcome (map f (filter sel ds)).
Proof.
  induction ds as [|d r IH]; cbn; [reflexivity|].
  destruct (sel d); cbn; [|exact IH]. destruct (f d); [reflexivity | exact IH | reflexivity].
Qed.

Lemma first_outcome_app a b :
  first_outcome (a ++ b) = match first_outcome a with Reject => first_outcome b | x => x end.
Proof. induction a as [|[w| |e] a IH]; cbn; try reflexivity. exact IH. Qed.

Lemma first_sel_none sel f ds : existsb sel ds = false -> first_sel sel f ds = Reject.
Proof.
  induction ds as [|d r IH]; cbn; [reflexivity|]. intros H. apply orb_false_iff in H as [H1 H2].
  rewrite H1. now apply IH.
Qed.

Lemma slow_alt_c_eq_py E a v :
  alt_ok a = true -> is_fast a = false -> c_validate E a v = py_validate E a v.
Proof.
  destruct a; cbn; try discriminate; try reflexivity.
  - destruct ds; [reflexivity | discriminate].
  - intros _ H. now rewrite !(first_sel_none is_fast _ ds H).
Qed.

Lemma map_ext_filter {A B} (p : A -> bool) (f g : A -> B) l :
  (forall x, In x l -> p x = true -> f x = g x) -> map f (filter p l) = map g (filter p l).
Proof.
  induction l as [|x l IH]; cbn; intros H; [reflexivity|].
  destruct (p x) eqn:Hp; cbn.
  - f_equal; [apply H; auto | apply IH; intros; apply H; auto].
  - apply IH; intros; apply H; auto.
Qed.

Lemma compound_first_accepting_lemma E ds v :
  forallb alt_ok ds = true ->
  c_validate E (DCompound ds) v = first_outcome (map (fun d => c_validate E d v) (effective_order ds)).
Proof.
  intros Hok. cbn [c_validate]. unfold effective_order.
  rewrite map_app, first_outcome_app, !first_sel_filter.
  rewrite forallb_forall in Hok.
  rewrite (map_ext_filter is_fast (fun a => c_case E a v) (fun d => c_validate E d v)).
  2:{ intros x Hin Hf. apply case_eq_standalone_lemma; auto. }
  rewrite (map_ext_filter is_slow (fun a => py_validate E a v) (fun d => c_validate E d v)).
  2:{ intros x Hin Hs. symmetry. apply slow_alt_c_eq_py; auto.
      unfold is_slow in Hs. now destruct (is_fast x). }
  reflexivity.
Qed.

Lemma first_outcome_accept rs w :
  first_outcome rs = Accept w ->
  exists pre post, rs = pre ++ Accept w :: post /\ Forall (fun r => r = Reject) pre.
Proof.
  induction rs as [|[x| |e] rs IH]; cbn; try discriminate.
  - intros H; inversion H; subst. exists [], rs. split; [reflexivity | constructor].
  - intros H. destruct (IH H) as (pre & post & -> & HF).
    exists (Reject :: pre), post. split; [reflexivity | constructor; auto].
Qed.

Lemma first_outcome_reject rs :
  first_outcome rs = Reject <-> Forall (fun r => r = Reject) rs.
Proof.
  induction rs as [|[x| |e] rs IH]; cbn.
  - split; [constructor | reflexivity].
  - split; [discriminate | intros H; inversion H; discriminate].
  - rewrite IH. split; [intros; constructor; auto | intros H; now inversion H].
  - split; [discriminate | intros H; inversion H; discriminate].
Qed.

Lemma filter_all {A} (p : A -> bool) l : forallb p l = true -> filter p l = l.
Proof.
  induction l as [|x l IH]; cbn; [reflexivity|]. intros H. apply andb_prop in H as [H1 H2].
  rewrite H1. f_equal. now apply IH.
Qed.
Lemma filter_none {A} (p : A -> bool) l : forallb (fun x => negb (p x)) l = true -> filter p l = [].
Proof.
  induction l as [|x l IH]; cbn; [reflexivity|]. intros H. apply andb_prop in H as [H1 H2].
  destruct (p x); [discriminate|]. now apply IH.
Qed.

(* when no slow alternative is declared before a fast one the effective order IS the declaration order *)
Fixpoint order_preserved (ds : list desc) : bool :=
  match ds with
  | [] => true
  | d :: r => (is_fast d || forallb is_slow r) && order_preserved r
  end.

Lemma effective_order_preserved ds : order_preserved ds = true -> effective_order ds = ds.
Proof.
  unfold effective_order. induction ds as [|d r IH]; cbn; [reflexivity|].
  intros H. apply andb_prop in H as [H1 H2]. specialize (IH H2).
  unfold is_slow at 1. destruct (is_fast d) eqn:Hf; cbn.
  - f_equal. exact IH.
  - cbn in H1. rewrite (filter_none is_fast r) by exact H1. cbn. f_equal.
    rewrite (filter_all is_slow r) by exact H1. reflexivity.
Qed.

Lemma compound_ok_first c rs : c = first_outcome rs -> compound_ok c rs = true.
Proof.
  intros ->. unfold compound_ok. destruct (first_outcome rs); cbn; auto using pv_eqb_refl.
Qed.

Lemma compound_declaration_order_lemma E ds v :
  forallb alt_ok ds = true -> order_preserved ds = true ->
  compound_ok (c_validate E (DCompound ds) v) (map (fun d => c_validate E d v) ds) = true.
Proof.
  intros Hok Hord. apply compound_ok_first.
  rewrite compound_first_accepting_lemma by exact Hok.
  now rewrite effective_order_preserved.
Qed.

(* ---------- tuples: member by member ---------- *)
Definition zipw (rec : desc -> pv -> vres) (ds : list desc) (vs : list pv) : list vres :=
  map (fun p => rec (fst p) (snd p)) (combine ds vs).

Lemma members_ok rec : forall ds vs ws,
  members rec ds vs = TOk ws <-> (length ds = length vs /\ zipw rec ds vs = map Accept ws).
Proof.
  unfold zipw. induction ds as [|d ds IH]; intros [|v vs] ws; cbn.
  - split.
    + intros H; inversion H; subst. split; reflexivity.
    + intros [_ H]. destruct ws; [reflexivity | discriminate].
  - split; [discriminate | intros [H _]; discriminate].
  - split; [discriminate | intros [H _]; discriminate].
  - destruct (rec d v) as [w| |e] eqn:Hr.
    + destruct (members rec ds vs) as [ws'| |e'] eqn:Hm.
      * split.
        -- intros H; inversion H; subst. apply IH in Hm as [Hl Hz]. split; [now f_equal|]. cbn. now f_equal.
        -- intros [Hl Hz]. destruct ws as [|w0 ws0]; [discriminate|]. cbn in Hz. inversion Hz; subst.
           assert (Hm' : members rec ds vs = TOk ws0) by (apply IH; split; [now inversion Hl | assumption]).
           rewrite Hm in Hm'. now inversion Hm'.
      * split; [discriminate|]. intros [Hl Hz]. destruct ws as [|w0 ws0]; [discriminate|].
        cbn in Hz. inversion Hz; subst.
        assert (Hm' : members rec ds vs = TOk ws0) by (apply IH; split; [now inversion Hl | assumption]).
        rewrite Hm in Hm'. discriminate.
      * split; [discriminate|]. intros [Hl Hz]. destruct ws as [|w0 ws0]; [discriminate|].
        cbn in Hz. inversion Hz; subst.
        assert (Hm' : members rec ds vs = TOk ws0) by (apply IH; split; [now inversion Hl | assumption]).
        rewrite Hm in Hm'. discriminate.
    + split; [discriminate|]. intros [_ Hz]. destruct ws; discriminate.
    + split; [discriminate|]. intros [_ Hz]. destruct ws; discriminate.
Qed.

Lemma tuple_members_pointwise_lemma E d ds v w :
  c_validate E (DTuple (d :: ds)) v = Accept w <->
  exists vs ws, tuple_items v = Some vs /\ length (d :: ds) = length vs
                /\ zipw (c_validate E) (d :: ds) vs = map Accept ws
                /\ w = (if pvs_eqb ws vs then v else PTuple ws).
Proof.
  cbn [c_validate]. unfold tuple_check. destruct (tuple_items v) as [vs|] eqn:Hv.
  - destruct (Nat.eqb (length (d :: ds)) (length vs)) eqn:Hl.
    + apply Nat.eqb_eq in Hl.
      destruct (members (c_validate E) (d :: ds) vs) as [ws| |e] eqn:Hm.
      * apply members_ok in Hm as [_ Hz]. split.
        -- intros H. exists vs, ws. repeat split; auto. destruct (pvs_eqb ws vs); now inversion H.
        -- intros (vs' & ws' & Hv' & _ & Hz' & ->). inversion Hv'; subst vs'.
           rewrite Hz in Hz'. assert (ws = ws') as ->.
           { clear -Hz'. revert ws' Hz'. induction ws as [|a ws IH]; intros [|b ws'] H; try discriminate; auto.
             cbn in H. inversion H; subst. f_equal. now apply IH. }
           now destruct (pvs_eqb ws' vs).
      * split; [discriminate|]. intros (vs' & ws' & Hv' & Hl' & Hz' & _). inversion Hv'; subst vs'.
        assert (members (c_validate E) (d :: ds) vs = TOk ws') by (apply members_ok; auto). congruence.
      * split; [discriminate|]. intros (vs' & ws' & Hv' & Hl' & Hz' & _). inversion Hv'; subst vs'.
        assert (members (c_validate E) (d :: ds) vs = TOk ws') by (apply members_ok; auto). congruence.
    + split; [discriminate|]. intros (vs' & ws' & Hv' & Hl' & _). inversion Hv'; subst vs'.
      apply Nat.eqb_neq in Hl. contradiction.
  - split; [discriminate|]. intros (vs' & ws' & Hv' & _). discriminate.
Qed.

(* ---------- the compiled path decides like the Python path ---------- *)
(* the class table does not make anything but bool a subclass of bool *)
Definition bool_final (E : env) : bool :=
  forallb (fun p => implb (snd p =? cBOOL) (fst p =? cBOOL)) (e_sub E).
(* the Python cast validator does not let a non-TraitError escape on v (excludes the residue of finding F17) *)
Definition cast_no_escape (E : env) (v : pv) (a : desc) : bool :=
  match a with
  | DCast _ => match py_validate E a v with Propagate _ => false | _ => true end
  | _ => true
  end.
(* Instance(C, allow_none=False) where None is an instance of C (excludes finding F18) *)
Definition none_ok (E : env) (a : desc) : bool :=
  match a with DInstance cls false _ => negb (issub E cNONE cls) | _ => true end.
(* a transparent proxy (its __class__ lies about its type) meets a validator whose compiled form uses the exact
   PyObject_TypeCheck where the Python form uses isinstance: Str, Bytes, Bool, This, Instance of a built-in type *)
Definition uses_typecheck (a : desc) : bool :=
  match a with
  | DStr | DBytes | DBool | DModule | DSelf _ => true
  | DInstance _ _ tc => tc
  | _ => false
  end.
Definition proxy_ok (a : desc) (v : pv) : bool := negb (is_proxy v) || negb (uses_typecheck a).
(* adapt='default': the default the compiled path falls back to is the Instance's own (excludes finding F21) *)
Definition adapt_ok (a : desc) : bool :=
  match a with DAdapt _ mode _ dflt => (mode =? 0) || (mode =? 1) || pv_eqb dflt PNone | _ => true end.
(* the alternatives of a compound, through nested compounds *)
Fixpoint alt_benign (E : env) (v : pv) (a : desc) : bool :=
  match a with
  | DCompound ds => forallb (alt_benign E v) ds
  | _ => cast_no_escape E v a && none_ok E a && proxy_ok a v && adapt_ok a
  end.
Definition benign (E : env) (d : desc) (v : pv) : bool :=
  bool_final E && no_tuplesub v && none_ok E d && proxy_ok d v && adapt_ok d &&
  match d with
  | DCompound ds => forallb (alt_benign E v) ds
  | _ => true
  end.

Lemma class_bool v : class_of v = cBOOL -> exists b, v = PBool b.
Proof.
  destruct v; cbn; try discriminate; try (intros _; eauto; fail).
  - destruct ((14 <=? k) && (k <=? 16)) eqn:H; [|discriminate]. intros ->. discriminate.
  - destruct ((17 <=? k) && (k <=? 18)) eqn:H; [|discriminate]. intros ->. discriminate.
  - destruct (100 <=? cls) eqn:H; [|discriminate]. intros ->. discriminate.
  - destruct (n =? 0); discriminate.
Qed.

Lemma typecheck_bool E v :
  bool_final E = true -> typecheck E v cBOOL = true -> exists b, v = PBool b.
Proof.
  unfold bool_final, typecheck, issub. rewrite forallb_forall, existsb_exists.
  intros HF ([a b] & Hin & H). cbn in H. apply andb_prop in H as [H1 H2].
  specialize (HF _ Hin). cbn in HF. rewrite H2 in HF. cbn in HF.
  apply Z.eqb_eq in H1, HF. subst. now apply class_bool.
Qed.

Lemma notproxy_isinstance E v c : is_proxy v = false -> isinstance E v c = typecheck E v c.
Proof. unfold isinstance, typecheck. destruct v; cbn; try discriminate; intros _; apply orb_false_r. Qed.

Lemma typecheck_isinstance E v c : typecheck E v c = true -> isinstance E v c = true.
Proof. unfold isinstance, typecheck. intros ->. reflexivity. Qed.

Lemma proxy_ok_notproxy a v : proxy_ok a v = true -> uses_typecheck a = true -> is_proxy v = false.
Proof. unfold proxy_ok. intros H Hu. rewrite Hu in H. cbn in H. rewrite orb_false_r in H. now apply negb_true_iff. Qed.

Lemma exact_class_cast E t v : class_of v = cast_cls t -> cast_fn E t v = Returns v.
Proof.
  destruct t, v; cbn; try discriminate; try reflexivity;
    try (destruct ((14 <=? k) && (k <=? 16)); discriminate);
    try (destruct ((17 <=? k) && (k <=? 18)); discriminate);
    try (destruct (100 <=? cls); discriminate);
    try (destruct (n =? 0); discriminate).
  all: try (intros H; destruct ((14 <=? k) && (k <=? 16)) eqn:G; [subst; discriminate | discriminate]).
  all: try (intros H; destruct ((17 <=? k) && (k <=? 18)) eqn:G; [subst; discriminate | discriminate]).
  all: try (intros H; destruct (100 <=? cls) eqn:G; [subst; discriminate | discriminate]).
  all: try (intros _; now destruct b).
Qed.

Lemma dict_get_existsb m v :
  (match dict_get m v with Some _ => true | None => false end) = existsb (fun kv => py_eq v (fst kv)) m.
Proof.
  induction m as [|[k x] m IH]; cbn; [reflexivity|]. destruct (py_eq v k); cbn; [reflexivity | exact IH].
Qed.

Lemma pv_eqb_none v : pv_eqb v PNone = true <-> v = PNone.
Proof. split; [apply pv_eqb_true | intros ->; reflexivity]. Qed.

Lemma tuple_items_exact v vs : no_tuplesub v = true -> tuple_items v = Some vs -> v = PTuple vs.
Proof. destruct v; cbn; try discriminate. intros _ H; now inversion H. Qed.

Lemma leaf_eq E a v :
  alt_ok a = true -> is_fast a = true -> bool_final E = true -> no_tuplesub v = true ->
  cast_no_escape E v a = true -> none_ok E a = true -> proxy_ok a v = true -> adapt_ok a = true ->
  (forall ds, a <> DCompound ds) ->
  c_case E a v = py_validate E a v.
Proof.
  intros Hok Hf HB HT HC HN HP HA Hnc.
  destruct a; cbn in Hok, Hf; try discriminate; try (exfalso; eapply Hnc; reflexivity).
  - (* DInt *) cbn. dm.
  - (* DFloat *) cbn. dm.
  - (* DComplex *) cbn. dm.
  - (* DStr *) cbn. now rewrite (notproxy_isinstance E v _ (proxy_ok_notproxy _ _ HP eq_refl)).
  - (* DBytes *) cbn. now rewrite (notproxy_isinstance E v _ (proxy_ok_notproxy _ _ HP eq_refl)).
  - (* DBool *) cbn. rewrite !(notproxy_isinstance E v _ (proxy_ok_notproxy _ _ HP eq_refl)).
    destruct (typecheck E v cBOOL) eqn:H1; cbn.
    + destruct (typecheck_bool E v HB H1) as [b ->]. reflexivity.
    + reflexivity.
  - (* DCast *) cbn in HC. cbn [c_case py_validate] in *.
    destruct (class_of v =? cast_cls t) eqn:Hc.
    + apply Z.eqb_eq in Hc. now rewrite (exact_class_cast E t v Hc).
    + destruct (cast_fn E t v) as [w|e]; [reflexivity|]. destruct t, e; cbn in *; try reflexivity; discriminate.
  - (* DRangeF *) cbn. destruct (as_float v) as [[]|[]]; try reflexivity.
    now rewrite range_c_eq_py_model.
  - (* DEnum *) reflexivity.
  - (* DMap *) cbn. destruct (hashable v); [|reflexivity].
    rewrite <- dict_get_existsb. now destruct (dict_get m v).
  - (* DTuple *) destruct ds as [|d0 ds]; [discriminate|]. cbn [c_case py_validate]. unfold tuple_check.
    destruct (tuple_items v) as [vs|] eqn:Hv; [|reflexivity].
    rewrite (Nat.eqb_sym (length vs)).
    destruct (Nat.eqb (length (d0 :: ds)) (length vs)); [|reflexivity].
    destruct (members (c_validate E) (d0 :: ds) vs) as [ws| |e]; try reflexivity.
    destruct (pvs_eqb ws vs) eqn:He; [|reflexivity].
    apply pvs_eqb_true in He. subst. now rewrite (tuple_items_exact v vs HT Hv).
  - (* DInstance *)
    assert (Hinst : (if tc then typecheck E v cls else isinstance E v cls) = isinstance E v cls).
    { destruct tc; [|reflexivity]. symmetry. apply notproxy_isinstance. apply (proxy_ok_notproxy _ _ HP). reflexivity. }
    cbn [c_case py_validate]. cbv zeta. rewrite Hinst. cbn in HN. destruct allow_none.
    + destruct (pv_eqb v PNone) eqn:Hn.
      * apply pv_eqb_none in Hn. now subst.
      * destruct v; try reflexivity. discriminate.
    + destruct v; try reflexivity. unfold isinstance. cbn.
      apply negb_true_iff in HN. fold cNONE. now rewrite HN.
  - (* DAdapt *) cbn in HA. cbn [c_case py_validate].
    destruct v; try reflexivity; destruct (mode =? 0) eqn:H0; try reflexivity;
      destruct (oracle E (100 + cls) _); try reflexivity;
      match goal with |- context [isinstance E ?x cls] => destruct (isinstance E x cls) end; try reflexivity;
      destruct (mode =? 1) eqn:H1; try reflexivity;
      cbn in HA; apply pv_eqb_true in HA; now subst.
  - (* DSelf *) cbn. rewrite (notproxy_isinstance E v _ (proxy_ok_notproxy _ _ HP eq_refl)).
    destruct allow_none, (pv_eqb v PNone), (typecheck E v (e_self E)); reflexivity.
  - (* DCallable *) cbn. destruct v; cbn; try reflexivity; now destruct allow_none.
Qed.

Lemma agrees_refl r : agrees r r = true.
Proof.
  unfold agrees, same_accept_set, same_value_and_type, reject_implies_reject.
  destruct r; cbn; auto. now rewrite pv_eqb_refl.
Qed.

Lemma wf_compound_alts ds : wf_desc (DCompound ds) = true -> forallb alt_ok ds = true.
Proof.
  cbn. intros H. apply andb_prop in H as [H _]. apply andb_prop in H as [_ H]. exact H.
Qed.

(* induction on trait descriptions with the nested lists *)
Section desc_ind_nested.
  Variable P : desc -> Prop.
  Hypothesis Hleaf : forall d, (forall ds, d <> DTuple ds /\ d <> DCompound ds /\ d <> DUnion ds) ->
                               (forall d', d <> DProperty d' /\ (forall ds fv, d <> DVTuple ds fv) /\ (forall mn mx, d <> DList d' mn mx)
                                           /\ forall d2, d <> DDict d' d2) -> P d.
  Hypothesis Hprop : forall d, P d -> P (DProperty d).
  Hypothesis Hvtuple : forall ds fv, Forall P ds -> P (DVTuple ds fv).
  Hypothesis Hlist : forall d mn mx, P d -> P (DList d mn mx).
  Hypothesis Hdict : forall kd vd, P kd -> P vd -> P (DDict kd vd).
  Hypothesis Htuple : forall ds, Forall P ds -> P (DTuple ds).
  Hypothesis Hcomp : forall ds, Forall P ds -> P (DCompound ds).
  Hypothesis Hunion : forall ds, Forall P ds -> P (DUnion ds).

  Fixpoint desc_ind' (d : desc) : P d.
  Proof.
    assert (L : forall ds, Forall P ds).
    { fix IHl 1. intros [|a ds]; [constructor | constructor; [apply desc_ind' | apply IHl]]. }
    destruct d.
    all: try (apply Hleaf; [intros ds0; repeat split; discriminate | intros d0; repeat split; intros; discriminate]).
    - apply Htuple, L.
    - apply Hcomp, L.
    - apply Hunion, L.
    - apply Hprop, desc_ind'.
    - apply Hvtuple, L.
    - apply Hlist, desc_ind'.
    - apply Hdict; apply desc_ind'.
  Defined.
End desc_ind_nested.

Lemma first_sel_ext sel f g ds :
  (forall a, In a ds -> sel a = true -> f a = g a) -> first_sel sel f ds = first_sel sel g ds.
Proof.
  induction ds as [|d r IH]; cbn; intros H; [reflexivity|].
  destruct (sel d) eqn:Hs.
  - rewrite (H d (or_introl eq_refl) Hs). rewrite IH; [reflexivity|]. intros a Ha. apply H. now right.
  - apply IH. intros a Ha. apply H. now right.
Qed.

Definition alt_eq_at (E : env) (v : pv) (a : desc) : Prop :=
  wf_desc a = true -> alt_ok a = true -> is_fast a = true -> alt_benign E v a = true ->
  c_case E a v = py_validate E a v.

Lemma alt_eq E v : bool_final E = true -> no_tuplesub v = true -> forall a, alt_eq_at E v a.
Proof.
  intros HB HT a. induction a as [d H Hnp|d IHd|ds fv H|d mn mx IHd|kd vd IHk IHv|ds H|ds H|ds H] using desc_ind'.
  2,3,4,5: (intros _ _ Hf; discriminate).      (* Property, ValidatedTuple, List, Dict: never fast *)
  - (* leaves *) intros _ Hok Hf Hb.
    assert (Hb' : cast_no_escape E v d && none_ok E d && proxy_ok d v && adapt_ok d = true).
    { destruct d; try exact Hb. exfalso. destruct (H ds) as (_ & Hc & _). now apply Hc. }
    apply andb_prop in Hb' as [Hb' Had]. apply andb_prop in Hb' as [Hb' Hpx]. apply andb_prop in Hb' as [Hc Hn].
    apply leaf_eq; auto. intros ds Hd. destruct (H ds) as (_ & Hx & _). now apply Hx.
  - (* Tuple *) intros _ Hok Hf Hb. apply leaf_eq; auto; try reflexivity; try discriminate;
      try (unfold proxy_ok; cbn; apply orb_true_r).
  - (* Compound *) intros Hwf _ _ Hb. cbn [c_case py_validate].
    rewrite (first_sel_ext is_fast (fun a => c_case E a v) (fun a => py_validate E a v)); [reflexivity|].
    intros a Hin Hfa. rewrite Forall_forall in H.
    pose proof (wf_compound_alts ds Hwf) as Hok. cbn [wf_desc] in Hwf.
    apply andb_prop in Hwf as [Hwf _]. apply andb_prop in Hwf as [Hwf _]. cbn [alt_benign] in Hb.
    rewrite forallb_forall in Hwf, Hok, Hb. apply (H a Hin); auto.
  - (* Union: never fast *) intros _ _ Hf. discriminate.
Qed.

Lemma first_sel_fast_eq E v ds :
  wf_desc (DCompound ds) = true -> bool_final E = true -> no_tuplesub v = true ->
  forallb (alt_benign E v) ds = true ->
  first_sel is_fast (fun a => c_case E a v) ds = first_sel is_fast (fun a => py_validate E a v) ds.
Proof.
  intros Hwf HB HT Hb. apply first_sel_ext. intros a Hin Hf.
  pose proof (wf_compound_alts ds Hwf) as Hok. cbn [wf_desc] in Hwf.
  apply andb_prop in Hwf as [Hwf _]. apply andb_prop in Hwf as [Hwf _].
  rewrite forallb_forall in Hwf, Hok, Hb. apply alt_eq; auto.
Qed.

Lemma fast_eq_slow_lemma E d v :
  wf_desc d = true -> c03_scope d = true -> benign E d v = true ->
  agrees (c_validate E d v) (py_validate E d v) = true.
Proof.
  intros Hwf Hs Hb. unfold benign in Hb.
  apply andb_prop in Hb as [Hb Hcomp]. apply andb_prop in Hb as [Hb HA]. apply andb_prop in Hb as [Hb HP].
  apply andb_prop in Hb as [Hb HN]. apply andb_prop in Hb as [HB HT].
  destruct d; cbn in Hs; try discriminate;
    lazymatch goal with
    | |- agrees (c_validate E (DCast ?t) v) _ = true =>
        (* stand-alone, the compiled path turns every failure of the cast into TraitError *)
        cbn [c_validate py_validate]; destruct (class_of v =? cast_cls t) eqn:Hc;
        [ apply Z.eqb_eq in Hc; rewrite (exact_class_cast E t v Hc); apply agrees_refl
        | destruct (cast_fn E t v) as [w|e]; [apply agrees_refl | destruct t, e; reflexivity] ]
    | |- agrees (c_validate E (DCompound ?ds) v) _ = true =>
        cbn [c_validate py_validate];
        rewrite (first_sel_fast_eq E v ds Hwf HB HT Hcomp); apply agrees_refl
    | |- _ =>
        (* the stand-alone validator equals its switch case, which equals the Python validate *)
        rewrite <- case_eq_standalone_lemma by (try reflexivity; exact Hs);
        rewrite leaf_eq by (try reflexivity; try assumption; try discriminate); apply agrees_refl
    end.
Qed.

Lemma first_outcome_map_accept {A} (f : A -> vres) l w :
  first_outcome (map f l) = Accept w ->
  exists pre a post, l = pre ++ a :: post /\ f a = Accept w /\ Forall (fun b => f b = Reject) pre.
Proof.
  induction l as [|a l IH]; cbn; [discriminate|]. destruct (f a) as [x| |e] eqn:Hf; try discriminate.
  - intros H; inversion H; subst. exists [], a, l. repeat split; auto.
  - intros H. destruct (IH H) as (pre & b & post & -> & Hb & HF).
    exists (a :: pre), b, post. repeat split; auto.
Qed.

Lemma compound_eq_single_lemma E ds v w :
  forallb alt_ok ds = true -> c_validate E (DCompound ds) v = Accept w ->
  exists pre a post, effective_order ds = pre ++ a :: post /\ c_validate E a v = Accept w
                     /\ Forall (fun b => c_validate E b v = Reject) pre.
Proof.
  intros Hok. rewrite compound_first_accepting_lemma by exact Hok. apply first_outcome_map_accept.
Qed.

Lemma compound_rejects_iff_lemma E ds v :
  forallb alt_ok ds = true ->
  (c_validate E (DCompound ds) v = Reject <-> Forall (fun b => c_validate E b v = Reject) (effective_order ds)).
Proof.
  intros Hok. rewrite compound_first_accepting_lemma by exact Hok. rewrite first_outcome_reject.
  rewrite Forall_map. reflexivity.
Qed.

(* ---------- witnesses of the findings still present in the code ---------- *)
Definition E0 : env :=
  mkEnv [(0,0); (1,0); (1,1); (2,2); (2,3); (3,3); (4,4); (6,6); (8,8); (13,8); (13,13); (100,100); (101,100); (101,101)]
        110 [] [].

Lemma refuted_tuple_subclass :   (* F4 *)
  let d := DTuple [DInt; DInt] in let v := PTupleSub [PInt 1; PInt 2] in
  wf_desc d = true /\ c03_scope d = true /\ agrees (c_validate E0 d v) (py_validate E0 d v) = false.
Proof. vm_compute. repeat split. Qed.

Lemma refuted_cast_escape :    (* residue of F17: an exception of the value's own __index__ other than
                                  TypeError/ValueError/OverflowError is swallowed by the compiled compound only *)
  let d := DCompound [DCast CTInt; DInstance cIDXOBJ false false] in let v := PIndexObj (Raises EOtherError) in
  wf_desc d = true /\ c03_scope d = true /\
  agrees (c_validate (mkEnv [(20, 20)] 110 [] []) d v) (py_validate (mkEnv [(20, 20)] 110 [] []) d v) = false.
Proof. vm_compute. repeat split. Qed.

Lemma refuted_adapt_default :    (* F21 *)
  let E := mkEnv [(3, 3); (6, 6); (100, 100)] 110 [(1, PInt 5, PStr [53])] [] in
  let d := DCompound [DAdapt 100 2 false (PStr [78; 111; 110; 101]); DCast CTStr] in let v := PInt 5 in
  wf_desc d = true /\ c03_scope d = true /\ agrees (c_validate E d v) (py_validate E d v) = false.
Proof. vm_compute. repeat split. Qed.

Lemma refuted_none_instance :    (* F18 *)
  let d := DInstance 0 false false in let v := PNone in
  wf_desc d = true /\ c03_scope d = true /\ agrees (c_validate E0 d v) (py_validate E0 d v) = false.
Proof. vm_compute. repeat split. Qed.

Lemma refuted_declaration_order : (* F5 *)
  let ds := [DString 0 5 None; DCast CTInt] in let v := PStr [49; 50] in
  wf_desc (DCompound ds) = true /\
  compound_ok (c_validate E0 (DCompound ds) v) (map (fun d => c_validate E0 d v) ds) = false.
Proof. vm_compute. repeat split. Qed.

Lemma nonvacuous_example :
  let d := DCompound [DTuple [DInt; DCast CTFloat]; DRangeF (Some (FFin false 0)) (Some (FFin false 1000)) 1;
                      DInstance 100 false false; DString 0 5 None] in
  wf_desc d = true /\ c03_scope d = true /\ bool_final E0 = true
  /\ benign E0 d (PTuple [PIntSub 3; PBool true]) = true
  /\ c_validate E0 d (PTuple [PIntSub 3; PBool true]) = Accept (PTuple [PInt 3; PFloat (FFin false 1000)])
  /\ benign E0 d (PFloat FNaN) = true /\ c_validate E0 d (PFloat FNaN) = Reject
  /\ c_validate E0 d (PStr [97]) = Accept (PStr [97])
  /\ c_validate E0 d (PObj 101 1) = Accept (PObj 101 1).
Proof. vm_compute. repeat split. Qed.

(* ---------- the whole law on the model's own observation ---------- *)
Lemma law_on_model_lemma E d v :
  wf_desc d = true -> c03_scope d = true -> benign E d v = true ->
  (forall ds, d = DCompound ds -> order_preserved ds = true) ->
  law_obs (c_validate E d v, Some (py_validate E d v),
           match d with DCompound ds => Some (map (fun a => c_validate E a v) ds) | _ => None end) = [].
Proof.
  intros Hwf Hs Hb Hord. pose proof (fast_eq_slow_lemma E d v Hwf Hs Hb) as Ha.
  unfold agrees in Ha. apply andb_prop in Ha as [Ha H3]. apply andb_prop in Ha as [H1 H2].
  unfold law_obs. rewrite H1, H2, H3. cbn [chk app].
  destruct d; try reflexivity.
  rewrite (compound_declaration_order_lemma E ds v (wf_compound_alts ds Hwf) (Hord ds eq_refl)). reflexivity.
Qed.
