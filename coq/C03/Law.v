(* C03/Law.v — the property as a boolean checker on ONE observation: the outcome of
   the compiled path, of the Python path and (for compounds) of each declared
   alternative validated alone.  Never mentions the model's validators. *)
From Coq Require Import ZArith List Bool.
From TV Require Import Common.PyVal Common.Harness C03.Model.
Import ListNotations.
Open Scope Z_scope.

Definition is_accept (r : vres) : bool := match r with Accept _ => true | _ => false end.
Definition is_reject (r : vres) : bool := match r with Reject => true | _ => false end.

(* "accepts exactly the values the Python validate accepts and stores an equal value of the
   same exact type; whenever the Python method raises TraitError the fast path does too" *)
Definition same_accept_set (c p : vres) : bool := Bool.eqb (is_accept c) (is_accept p).
Definition same_value_and_type (c p : vres) : bool :=
  match c, p with Accept x, Accept y => pv_eqb x y | _, _ => true end.
Definition reject_implies_reject (c p : vres) : bool :=
  match p with Reject => is_reject c | _ => true end.
Definition agrees (c p : vres) : bool :=
  same_accept_set c p && same_value_and_type c p && reject_implies_reject c p.

(* first alternative, in DECLARATION order, whose outcome is not a rejection *)
Fixpoint first_outcome (rs : list vres) : vres :=
  match rs with
  | [] => Reject
  | Reject :: r => first_outcome r
  | x :: _ => x
  end.

(* "accepts iff at least one alternative accepts and yields the result of the first
   accepting alternative, identical to validating against that alternative alone";
   when the deciding alternative lets an exception of the value's own protocol through,
   the statement says nothing *)
Definition compound_ok (c : vres) (alts : list vres) : bool :=
  match first_outcome alts with
  | Accept w => match c with Accept x => pv_eqb x w | _ => false end
  | Reject => is_reject c
  | Propagate _ => true
  end.

(* one observation: compiled path, Python path (None: the handler has no Python validate),
   the declared alternatives alone (None: not a compound) *)
Definition obs := (vres * option vres * option (list vres))%type.

(* codes: 1 accept sets differ, 2 value/type differs, 3 Python rejects but C does not,
   4 compound is not the first accepting alternative in declaration order *)
Definition law_obs (o : obs) : list Z :=
  let '(c, p, alts) := o in
  (match p with
   | Some p => chk 1 (same_accept_set c p) ++ chk 2 (same_value_and_type c p)
               ++ chk 3 (reject_implies_reject c p)
   | None => []
   end)
  ++ (match alts with Some a => chk 4 (compound_ok c a) | None => [] end).

(* the declared criterion of a Range: low <(=) v <(=) high, exclusivity by mask bits 1 and 2
   (hence false for NaN) *)
Definition in_range_spec (v : fl) (low high : option fl) (mask : Z) : bool :=
  (match low with None => true | Some lo => if Z.land mask 1 =? 0 then fl_le lo v else fl_lt lo v end) &&
  (match high with None => true | Some hi => if Z.land mask 2 =? 0 then fl_le v hi else fl_lt v hi end).
Definition int_range_spec (v : Z) (low high : option Z) (mask : Z) : bool :=
  (match low with None => true | Some lo => if Z.land mask 1 =? 0 then lo <=? v else lo <? v end) &&
  (match high with None => true | Some hi => if Z.land mask 2 =? 0 then v <=? hi else v <? hi end).
