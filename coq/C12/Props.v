(* C12 — property theorems only.  All statements hold for every world type W, every getter f, cached
   or not, every observed view with [getter_reads_only_observed : view w = view w' -> f w = f w'], every
   start state satisfying the cache invariant and every history that is [faithful] — the interface to
   C08: the observe machinery calls the property's handler exactly once for a mutation that changes the
   observed view, only for mutations of matched dependencies and at most once per mutation. *)
From Coq Require Import ZArith List Bool Arith Lia.
From TV Require Import C12.Model C12.Law C12.Proofs.
Import ListNotations.
Open Scope Z_scope.

(* the cache is empty or holds what the getter computes from the current state, after every history *)
Theorem cache_inv : forall (W : Type) (f : W -> Z) (cached : bool) (view : W -> list Z),
  (forall w w', view w = view w' -> f w = f w') ->
  forall ops s, inv W f s -> faithful_hist W f cached view s ops ->
  inv W f (snd (run W f cached s ops)).
Proof. exact run_inv. Qed.
Print Assumptions cache_inv.

Theorem read_is_current : forall (W : Type) (f : W -> Z) (cached : bool) s,
  inv W f s -> o_val (snd (step W f cached s Read)) = Some (f (world s)).
Proof. exact read_current. Qed.
Print Assumptions read_is_current.

(* however often the property is read (and whatever else happens that is not a mutation of a dependency
   or a copy), the cached getter runs at most once — and not at all if the cache is filled *)
Theorem getter_at_most_once_between_changes : forall (W : Type) (f : W -> Z) (cached : bool) (view : W -> list Z),
  cached = true -> forall ops s, faithful_hist W f cached view s ops -> forallb (quiet W) ops = true ->
  (total_getter W (fst (run W f cached s ops)) <= slack W s)%nat.
Proof. exact quiet_run. Qed.
Print Assumptions getter_at_most_once_between_changes.

(* a mutation that alters the computed value delivers exactly one change event (old, new = current value)
   to a listener of the property *)
Theorem value_change_notified : forall (W : Type) (f : W -> Z) (cached : bool) (view : W -> list Z),
  (forall w w', view w = view w' -> f w = f w') ->
  forall s w' t d, faithful W view s (Mut w' t d) -> f (world s) <> f w' -> (0 < listeners s)%nat ->
  exists old, o_events (snd (step W f cached s (Mut w' t d))) = [(old, f w')].
Proof. exact change_notified. Qed.
Print Assumptions value_change_notified.

(* the whole law (clauses 1-4 of Law.v: reads current, getter at most once between dependency mutations,
   value changes notified, events announce the current value) holds on the model's own observations of
   every faithful history *)
Theorem law_holds_on_every_faithful_history :
  forall (W : Type) (f : W -> Z) (cached : bool) (view : W -> list Z),
  (forall w w', view w = view w' -> f w = f w') ->
  forall ops s i runs, inv W f s -> faithful_hist W f cached view s ops ->
  (cached = true -> (runs + slack W s <= 1)%nat) ->
  law_hist cached i (f (world s)) runs (listeners s) (observe W f cached view s ops) = [].
Proof. exact law_model. Qed.
Print Assumptions law_holds_on_every_faithful_history.

(* ---------- non-vacuity: a world of two numbers, the getter reads only the first ---------- *)
Definition exW := (Z * Z)%type.
Definition ex_f (w : exW) : Z := 3 * fst w + 1.
Definition ex_view (w : exW) : list Z := [fst w].
Example ex_reads_only_observed : forall w w', ex_view w = ex_view w' -> ex_f w = ex_f w'.
Proof. intros [a b] [a' b'] E. inversion E. reflexivity. Qed.

Definition ex_ops : list (op exW) :=
  [Read; Read; Mut (1, 5) false 0; Read; Listen; Mut (2, 5) true 1; Read; Mut (2, 5) true 0; Read;
   Unlisten; Mut (4, 5) true 1; Read; Read; Copy (4, 5); Read].
Example ex_faithful : faithful_hist exW ex_f true ex_view (mkState (1, 0) None 0%nat) ex_ops.
Proof. cbn. repeat split; intros; try congruence; try lia; auto; exfalso; apply H; reflexivity. Qed.
Example history_nontrivial :
  map (fun p => (o_val (snd p), o_getter (snd p), o_events (snd p)))
      (fst (run exW ex_f true (mkState (1, 0) None 0%nat) ex_ops))
  = [(Some 4, 1%nat, []); (Some 4, 0%nat, []); (None, 0%nat, []); (Some 4, 0%nat, []); (None, 0%nat, []);
     (None, 1%nat, [(Some 4, 7)]); (Some 7, 0%nat, []); (None, 0%nat, []); (Some 7, 0%nat, []);
     (None, 0%nat, []); (None, 0%nat, []); (Some 13, 1%nat, []); (Some 13, 0%nat, []); (None, 0%nat, []);
     (Some 13, 1%nat, [])].
Proof. vm_compute. reflexivity. Qed.
