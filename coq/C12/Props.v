(* C12 — property theorems only.  All statements hold for every world type W, every getter f, cached
   or not, every observed view with [getter_reads_only_observed : view w = view w' -> f w = f w'], every
   start state satisfying the cache invariant and every history that is [faithful] — the interface to
   C08: the observe machinery calls the property's handler exactly once for a mutation that changes the
   observed view, only for mutations of matched dependencies and at most once per mutation. *)
From Coq Require Import ZArith List Bool Arith Lia.
From TV Require Import C12.Model C12.Law C12.Proofs C12.Compose.
From TV Require C09.Model C09.Proofs C09.DynCount C09.DynSlot C09.DynAdd C09.Dyn C09.Law.
Import ListNotations.
Open Scope Z_scope.

(* the cache is empty or holds what the getter computes from the current state, after every history *)
Theorem cache_inv : forall (W : Type) (f : W -> Z) (cached : bool) (view : W -> list Z),
  (forall w w', view w = view w' -> f w = f w') ->
  forall ops s, inv W f s -> faithful_hist W f cached view s ops ->
  inv W f (snd (run W f cached s ops)).
Proof. exact run_inv. Qed.
Print Assumptions cache_inv.

Theorem read_is_current : forall (W : Type) (f : W -> Z) (cached : bool) s,
  inv W f s -> o_val (snd (step W f cached s Read)) = Some (f (world s)).
Proof. exact read_current. Qed.
Print Assumptions read_is_current.

(* however often the property is read (and whatever else happens that is not a mutation of a dependency
   or a copy), the cached getter runs at most once — and not at all if the cache is filled *)
Theorem getter_at_most_once_between_changes : forall (W : Type) (f : W -> Z) (cached : bool) (view : W -> list Z),
  cached = true -> forall ops s, faithful_hist W f cached view s ops -> forallb (quiet W) ops = true ->
  (total_getter W (fst (run W f cached s ops)) <= slack W s)%nat.
Proof. exact quiet_run. Qed.
Print Assumptions getter_at_most_once_between_changes.

(* a mutation that alters the computed value delivers exactly one change event (old, new = current value)
   to a listener of the property *)
Theorem value_change_notified : forall (W : Type) (f : W -> Z) (cached : bool) (view : W -> list Z),
  (forall w w', view w = view w' -> f w = f w') ->
  forall s w' t d, faithful W view s (Mut w' t d) -> f (world s) <> f w' -> (0 < listeners s)%nat ->
  exists old, o_events (snd (step W f cached s (Mut w' t d))) = [(old, f w')].
Proof. exact change_notified. Qed.
Print Assumptions value_change_notified.

(* the whole law (clauses 1-4 of Law.v: reads current, getter at most once between dependency mutations,
   value changes notified, events announce the current value) holds on the model's own observations of
   every faithful history *)
Theorem law_holds_on_every_faithful_history :
  forall (W : Type) (f : W -> Z) (cached : bool) (view : W -> list Z),
  (forall w w', view w = view w' -> f w = f w') ->
  forall ops s i runs, inv W f s -> faithful_hist W f cached view s ops ->
  (cached = true -> (runs + slack W s <= 1)%nat) ->
  law_hist cached i (f (world s)) runs (listeners s) (observe W f cached view s ops) = [].
Proof. exact law_model. Qed.
Print Assumptions law_holds_on_every_faithful_history.

(* Re-entrant histories: a listener of the property that assigns another dependency from inside the property's own
   notification.  The nested delivery (Model.step_nested, following the un-guarded handler of
   _create_property_observe_state) is exactly the outer mutation followed by the nested one, so cache_inv,
   read_is_current and the law carry over; the cache ends up holding the value of the LAST world and both values
   are announced.  (This is what the re-entrancy guard of the seeded change C12-t2 broke.) *)
Theorem nested_delivery_is_two_steps : forall (W : Type) (f : W -> Z) (cached : bool) (s : state W) (w1 w2 : W) (t1 t2 : bool),
  (0 < listeners s)%nat ->
  step_nested W f cached s w1 w2
  = (let '(s1, ob1) := step W f cached s (Mut w1 t1 1) in
     let '(s2, ob2) := step W f cached s1 (Mut w2 t2 1) in
     (s2, mkObs None (o_getter ob1 + o_getter ob2)%nat (o_events ob1 ++ o_events ob2))).
Proof. exact nested_is_two_steps. Qed.
Print Assumptions nested_delivery_is_two_steps.

Theorem nested_delivery_keeps_cache_inv : forall (W : Type) (f : W -> Z) (cached : bool) (s : state W) (w1 w2 : W),
  inv W f (fst (step_nested W f cached s w1 w2)).
Proof. exact nested_inv. Qed.
Print Assumptions nested_delivery_keeps_cache_inv.

Theorem nested_delivery_announces_both : forall (W : Type) (f : W -> Z) (cached : bool) (s : state W) (w1 w2 : W),
  (0 < listeners s)%nat ->
  exists old1 old2, o_events (snd (step_nested W f cached s w1 w2)) = [(old1, f w1); (old2, f w2)]
                    /\ (cached = true -> cache (fst (step_nested W f cached s w1 w2)) = Some (f w2)).
Proof. exact nested_announces. Qed.
Print Assumptions nested_delivery_announces_both.

(* The interface hypothesis is a THEOREM of the C09 registration model for changes of scalar
   dependencies on a fixed object graph: with the property's handler (hd, x, dp) registered once on the
   expression gs when the object x is created, a change of the trait o delivers to the handler exactly
   once iff the registration placed a user notifier on o ([targets]), so the mutation step built from it
   is faithful for the view "values of the targets".  (With mutations of the object graph in between,
   the hypothesis is property C08.) *)
Theorem static_scalar_changes_are_faithful :
  forall (h : C09.Model.heap) (x : C09.Model.oid) (hd dp : nat) (gs : list C09.Model.graph)
         (s0 s1 : C09.Model.state) (ob : C09.Model.obs),
    C09.Proofs.wfH (C09.Model.st_hooks s0) ->
    (forall o, C09.Proofs.cntH (C09.Model.st_hooks s0) o (C09.Proofs.CK (C09.Model.AUser (hd, x, dp))) = 0%nat) ->
    C09.Model.step h s0 (C09.Model.Register x hd dp gs) = (s1, ob) -> C09.Model.o_out ob = None ->
    C09.Model.alive s1 (hd, x, dp) = true ->
    forall (cs : state World) (o : C09.Model.obsv) (v : Z) s2 ob2,
      C09.Model.step h s1 (C09.Model.Change (fst o) (snd o)) = (s2, ob2) ->
      faithful World (view h x hd dp gs) cs
               (Mut (wupd (world cs) o v) (existsb (C09.Model.obsv_eqb o) (targets h x hd dp gs))
                    (C09.Proofs.ncalls (hd, x, dp) (C09.Model.o_calls ob2))).
Proof. exact Compose.static_scalar_changes_are_faithful. Qed.
Print Assumptions static_scalar_changes_are_faithful.

(* ... and for MUTATIONS OF THE OBJECT GRAPH (Instance-link reassignment, in-place list / dict / set mutation), on
   top of the invariant proved in C09/DynCount.v and DynSlot.v for acyclic reassignments: the mutated slot's
   notifier loop calls the property's handler exactly once iff a live registration of it matches the slot, so the
   mutation step is faithful for every view that untouched mutations leave unchanged. *)
Theorem graph_mutations_are_faithful :
  forall (W : Type) (view : W -> list Z)
         (h hrun : C09.Model.heap) (R : list C09.DynCount.reg) (H : C09.Model.hooks) (s : C09.Model.state)
         (sg : C09.Model.obsv) (t : bool) (olds news : list C09.Model.oid) H' calls (k : C09.Model.key),
    C09.DynCount.dinv h H R -> C09.Proofs.wfH H ->
    C09.Model.dead_handlers s = [] -> C09.Model.dead_objs s = [] ->
    C09.Dyn.run_notifiers hrun s t (H sg) olds news H [] = (H', calls, None) ->
    forall (cs : state W) (w' : W),
      (touched_by h R k sg = false -> view (world cs) = view w') ->
      faithful W view cs (Mut w' (touched_by h R k sg) (C09.Proofs.ncalls k calls)).
Proof. exact Compose.graph_mutations_are_faithful. Qed.
Print Assumptions graph_mutations_are_faithful.

(* scalar changes after ANY admissible history of graph mutations and add_trait (C09's dynamic invariant): faithful with
   respect to the registrations matched on the heap as it is now *)
Theorem changes_are_faithful_on_the_current_heap :
  forall (W : Type) (view : W -> list Z)
         (d : C09.Dyn.dstate) (R : list C09.DynCount.reg) o f s' ob (k : C09.Model.key),
    C09.DynCount.dstate_inv d R -> C09.Proofs.wfH (C09.Model.st_hooks (C09.Dyn.d_st d)) ->
    C09.Model.step (C09.Dyn.d_heap d) (C09.Dyn.d_st d) (C09.Model.Change o f) = (s', ob) ->
    forall (cs : state W) (w' : W),
      (touched_by (C09.Dyn.d_heap d) R k (o, f) = false -> view (world cs) = view w') ->
      faithful W view cs (Mut w' (touched_by (C09.Dyn.d_heap d) R k (o, f)) (C09.Proofs.ncalls k (C09.Model.o_calls ob))).
Proof. exact Compose.changes_are_faithful_on_the_current_heap. Qed.
Print Assumptions changes_are_faithful_on_the_current_heap.

(* obj.add_trait of a dependency the property names as OPTIONAL: C09 proves that the hooks are completed
   (C09.add_trait_completes_the_registrations), so later changes of the new trait are faithful by the theorem above; the
   add_trait step itself calls the property's handler iff one of its registrations matches the object's trait_added --
   a Property's own graph never does, so the step is faithful only for getters whose view does not depend on whether
   the optional dependency is defined (adjudicated as outside property C12, design.d/C12.md) *)
Theorem add_trait_is_faithful_iff_matched :
  forall (W : Type) (view : W -> list Z)
         (h hrun : C09.Model.heap) (R : list C09.DynCount.reg) (H : C09.Model.hooks) (s : C09.Model.state)
         x f H' calls (k : C09.Model.key),
    C09.DynCount.dinv h H R -> C09.Proofs.wfH H ->
    C09.Model.dead_handlers s = [] -> C09.Model.dead_objs s = [] ->
    C09.Dyn.run_ta_notifiers hrun s x f (H (x, C09.Model.F_TA)) H [] = (H', calls, None) ->
    forall (cs : state W) (w' : W),
      (touched_by h R k (x, C09.Model.F_TA) = false -> view (world cs) = view w') ->
      faithful W view cs (Mut w' (touched_by h R k (x, C09.Model.F_TA)) (C09.Proofs.ncalls k calls)).
Proof. exact Compose.add_trait_is_faithful_iff_matched. Qed.
Print Assumptions add_trait_is_faithful_iff_matched.

(* REFUTED without the interface hypothesis, the other way round (known finding, family `afterreset`: after `del obj.m`
   the new default value is hooked twice, so a change of an item that has left the container is still delivered): a
   delivery for a mutation that does NOT touch the observed view makes a cached getter run again between two relevant
   changes, and the law reports it.  Witness: one listener, read, an untouched mutation delivered once. *)
Theorem spurious_delivery_refuted :
  exists (ops : list (op (Z * Z))),
    let f := fun w : Z * Z => 3 * fst w + 1 in
    let view := fun w : Z * Z => [fst w] in
    let s0 := mkState (1, 0) None 1%nat in
    ~ faithful_hist (Z * Z) f true view s0 ops
    /\ map (fun p => o_getter (snd p)) (fst (run (Z * Z) f true s0 ops)) = [1%nat; 1%nat]
    /\ law_hist true 0 (f (world s0)) 0 (listeners s0) (observe (Z * Z) f true view s0 ops) <> [].
Proof.
  exists [Read; Mut (1, 7) false 1]. cbn zeta. split; [|split].
  - cbn [faithful_hist faithful]. intros [_ [[_ [H _]] _]]. specialize (H eq_refl). destruct H as [H _]. discriminate H.
  - vm_compute. reflexivity.
  - vm_compute. discriminate.
Qed.
Print Assumptions spurious_delivery_refuted.

(* HISTORIES (Compose.ComposeHist): along any admissible C09 history -- registrations and removals of any handlers,
   scalar changes, Instance-link reassignments, in-place container mutations, add_trait -- interleaved with reads of
   the property and listeners coming and going, the interface hypothesis is a theorem, and hence the law, provided
   only that a step firing no slot matched by the property's live registrations leaves the observed view unchanged *)
Theorem dynamic_histories_are_faithful :
  forall (W : Type) (f : W -> Z) (cached : bool) (view : W -> list Z) (k : C09.Model.key)
         (ops : list (jop W)) (d : C09.Dyn.dstate) (R : list C09.DynCount.reg) (cs : state W),
    C09.DynCount.dstate_inv d R -> C09.Proofs.wfH (C09.Model.st_hooks (C09.Dyn.d_st d)) ->
    C09.DynAdd.admissible_run3 d R (cops W ops) ->
    coherent W view k d R (world cs) ops ->
    faithful_hist W f cached view cs (joint W k d R ops).
Proof. exact Compose.dynamic_histories_are_faithful. Qed.
Print Assumptions dynamic_histories_are_faithful.

Theorem law_holds_on_dynamic_histories :
  forall (W : Type) (f : W -> Z) (cached : bool) (view : W -> list Z) (k : C09.Model.key),
    (forall w w', view w = view w' -> f w = f w') ->
    forall (ops : list (jop W)) (d : C09.Dyn.dstate) (R : list C09.DynCount.reg) (cs : state W) i runs,
      C09.DynCount.dstate_inv d R -> C09.Proofs.wfH (C09.Model.st_hooks (C09.Dyn.d_st d)) ->
      C09.DynAdd.admissible_run3 d R (cops W ops) ->
      coherent W view k d R (world cs) ops ->
      inv W f cs -> (cached = true -> (runs + slack W cs <= 1)%nat) ->
      law_hist cached i (f (world cs)) runs (listeners cs) (observe W f cached view cs (joint W k d R ops)) = [].
Proof. exact Compose.law_holds_on_dynamic_histories. Qed.
Print Assumptions law_holds_on_dynamic_histories.

(* REFUTED without the interface hypothesis (listed finding F23): when the observe machinery delivers nothing
   for a relevant change — which is what happens to a Property(observe=...) added with add_trait /
   add_class_trait, whose observers are never installed — a cached property is stale and a listener hears
   nothing.  Witness: world (value, _), f = 3*value + 1, read, change value 1 -> 4 with 0 deliveries, read. *)
Theorem unhooked_property_refuted :
  exists (ops : list (op (Z * Z))) ,
    let f := fun w : Z * Z => 3 * fst w + 1 in
    let '(tr, s) := run (Z * Z) f true (mkState (1, 0) None 1%nat) ops in
    map (fun p => o_val (snd p)) tr = [Some 4; None; Some 4] /\ f (world s) = 13
    /\ map (fun p => o_events (snd p)) tr = [[]; []; []].
Proof. exists [Read; Mut (4, 0) true 0; Read]. vm_compute. repeat split; reflexivity. Qed.
Print Assumptions unhooked_property_refuted.

(* ---------- non-vacuity: a world of two numbers, the getter reads only the first ---------- *)
Definition exW := (Z * Z)%type.
Definition ex_f (w : exW) : Z := 3 * fst w + 1.
Definition ex_view (w : exW) : list Z := [fst w].
Example ex_reads_only_observed : forall w w', ex_view w = ex_view w' -> ex_f w = ex_f w'.
Proof. intros [a b] [a' b'] E. inversion E. reflexivity. Qed.

Definition ex_ops : list (op exW) :=
  [Read; Read; Mut (1, 5) false 0; Read; Listen; Mut (2, 5) true 1; Read; Mut (2, 5) true 0; Read;
   Unlisten; Mut (4, 5) true 1; Read; Read; Copy (4, 5); Read].
Example ex_faithful : faithful_hist exW ex_f true ex_view (mkState (1, 0) None 0%nat) ex_ops.
Proof. cbn. repeat split; intros; try congruence; try lia; auto; exfalso; apply H; reflexivity. Qed.
Example history_nontrivial :
  map (fun p => (o_val (snd p), o_getter (snd p), o_events (snd p)))
      (fst (run exW ex_f true (mkState (1, 0) None 0%nat) ex_ops))
  = [(Some 4, 1%nat, []); (Some 4, 0%nat, []); (None, 0%nat, []); (Some 4, 0%nat, []); (None, 0%nat, []);
     (None, 1%nat, [(Some 4, 7)]); (Some 7, 0%nat, []); (None, 0%nat, []); (Some 7, 0%nat, []);
     (None, 0%nat, []); (None, 0%nat, []); (Some 13, 1%nat, []); (Some 13, 0%nat, []); (None, 0%nat, []);
     (Some 13, 1%nat, [])].
Proof. vm_compute. reflexivity. Qed.

(* non-vacuity of the composition: object 0 with child 1 (field 3), expression child.value (field 2) *)
Definition cx_heap : C09.Model.heap :=
  C09.Model.mkHeap (fun _ => C09.Model.KObj)
                   (fun x f => ((x =? 0) || (x =? 1))%nat && ((f =? 1) || (f =? 2) || (f =? 3))%nat)
                   (fun x f => if ((x =? 0) && (f =? 3))%nat then [1%nat] else []) (fun _ => []).
Example composition_nontrivial :
  let g := C09.Model.G (C09.Model.NNamed 3%nat true false) [C09.Model.G (C09.Model.NNamed 2%nat true false) []] in
  let s0 := C09.Model.mkState (fun _ => []) [] [] in
  let '(s1, ob) := C09.Model.step cx_heap s0 (C09.Model.Register 0%nat 7%nat 0%nat [g]) in
  C09.Model.o_out ob = None /\ C09.Model.alive s1 (7, 0, 0)%nat = true
  /\ targets cx_heap 0%nat 7%nat 0%nat [g] = [(0, 3); (1, 2)]%nat
  /\ map (fun o => C09.Proofs.ncalls (7, 0, 0)%nat
                     (C09.Model.o_calls (snd (C09.Model.step cx_heap s1 (C09.Model.Change (fst o) (snd o))))))
         [(1, 2); (0, 2); (0, 3)]%nat = [1; 0; 1]%nat.
Proof. vm_compute. repeat split; reflexivity. Qed.

(* non-vacuity of graph_mutations_are_faithful: after registering child.value on object 0 (child = object 1) the
   invariant holds, the slot (0, child) is touched, and un-linking the child calls the handler exactly once *)
Example graph_mutation_nontrivial :
  let g := C09.Model.G (C09.Model.NNamed 3%nat true false) [C09.Model.G (C09.Model.NNamed 2%nat true false) []] in
  let k := (7, 0, 0)%nat in
  let s0 := C09.Model.mkState (fun _ => []) [] [] in
  let s1 := fst (C09.Model.step cx_heap s0 (C09.Model.Register 0%nat 7%nat 0%nat [g])) in
  C09.DynCount.dinv cx_heap (C09.Model.st_hooks s1) [(k, g, 0%nat)]
  /\ touched_by cx_heap [(k, g, 0%nat)] k (0, 3)%nat = true
  /\ (let '(_, calls, e) := C09.Dyn.run_notifiers (C09.Dyn.set_links cx_heap 0%nat 3%nat []) s1 true
                               (C09.Model.st_hooks s1 (0, 3)%nat) [1%nat] [] (C09.Model.st_hooks s1) [] in
      e = None /\ C09.Proofs.ncalls k calls = 1%nat).
Proof.
  intros g k s0 s1. split; [|split].
  - pose proof (C09.DynCount.register_step cx_heap (fun _ => []) [] 0%nat 7%nat 0%nat g s0 s1
                  (snd (C09.Model.step cx_heap s0 (C09.Model.Register 0%nat 7%nat 0%nat [g])))) as Rs.
    assert (C09.DynCount.dinv cx_heap (fun _ => []) []) as I0.
    { split; [intros o; reflexivity|split; [intros; reflexivity|intros ? ? ? []]]. }
    specialize (Rs I0 eq_refl). unfold s1 in *.
    destruct (C09.Model.step cx_heap s0 (C09.Model.Register 0%nat 7%nat 0%nat [g])) as [s' ob] eqn:St.
    specialize (Rs eq_refl). cbn [fst snd] in *.
    assert (C09.Model.o_out ob = None) as Ok by (vm_compute in St; inversion St; reflexivity).
    rewrite Ok in Rs. exact Rs.
  - vm_compute. reflexivity.
  - vm_compute. split; reflexivity.
Qed.

(* non-vacuity of add_trait_is_faithful_iff_matched: object 0 observes the optional, not yet defined trait 9; the
   invariant holds, trait_added of object 0 is NOT touched by the registration; add_trait(9) runs the trait_added
   maintainer, which hooks the handler on the new trait -- and does not call it *)
Example add_trait_nontrivial :
  let g := C09.Model.G (C09.Model.NNamed 9%nat true true) [] in
  let k := (7, 0, 0)%nat in
  let s0 := C09.Model.mkState (fun _ => []) [] [] in
  let s1 := fst (C09.Model.step cx_heap s0 (C09.Model.Register 0%nat 7%nat 0%nat [g])) in
  C09.DynCount.dinv cx_heap (C09.Model.st_hooks s1) [(k, g, 0%nat)]
  /\ touched_by cx_heap [(k, g, 0%nat)] k (0%nat, C09.Model.F_TA) = false
  /\ C09.Proofs.cntH (C09.Model.st_hooks s1) (0, 9)%nat (C09.Proofs.CK (C09.Model.AUser k)) = 0%nat
  /\ (let '(H', calls, e) := C09.Dyn.run_ta_notifiers (C09.Dyn.add_trait_h cx_heap 0%nat 9%nat []) s1 0%nat 9%nat
                               (C09.Model.st_hooks s1 (0%nat, C09.Model.F_TA)) (C09.Model.st_hooks s1) [] in
      e = None /\ C09.Proofs.ncalls k calls = 0%nat
      /\ C09.Proofs.cntH H' (0, 9)%nat (C09.Proofs.CK (C09.Model.AUser k)) = 1%nat).
Proof.
  intros g k s0 s1. split; [|split; [|split]].
  - pose proof (C09.DynCount.register_step cx_heap (fun _ => []) [] 0%nat 7%nat 0%nat g s0 s1
                  (snd (C09.Model.step cx_heap s0 (C09.Model.Register 0%nat 7%nat 0%nat [g])))) as Rs.
    assert (C09.DynCount.dinv cx_heap (fun _ => []) []) as I0.
    { split; [intros o; reflexivity|split; [intros; reflexivity|intros ? ? ? []]]. }
    specialize (Rs I0 eq_refl). unfold s1 in *.
    destruct (C09.Model.step cx_heap s0 (C09.Model.Register 0%nat 7%nat 0%nat [g])) as [s' ob] eqn:St.
    specialize (Rs eq_refl). cbn [fst snd] in *.
    assert (C09.Model.o_out ob = None) as Ok by (vm_compute in St; inversion St; reflexivity).
    rewrite Ok in Rs. exact Rs.
  - vm_compute. reflexivity.
  - vm_compute. reflexivity.
  - vm_compute. repeat split; reflexivity.
Qed.

(* non-vacuity of the joint theorem: the property of object 0 observes child.value (child = object 1); the world is
   the observed view itself.  The child's value changes (delivered), the child is un-linked (delivered), the former
   child's value changes again (not matched any more, not delivered, view unchanged); reads in between *)
Example dynamic_history_nontrivial :
  let g := C09.Model.G (C09.Model.NNamed 3%nat true false) [C09.Model.G (C09.Model.NNamed 2%nat true false) []] in
  let k := (7, 0, 0)%nat in
  let s0 := C09.Model.mkState (fun _ => []) [] [] in
  let s1 := fst (C09.Model.step cx_heap s0 (C09.Model.Register 0%nat 7%nat 0%nat [g])) in
  let d := C09.Dyn.mkD cx_heap s1 in
  let R := [(k, g, 0%nat)] in
  let chg := C09.DynAdd.C2 (C09.DynSlot.C1 (C09.DynCount.CChange 1%nat 2%nat)) in
  let ops := [JRead (list Z); JListen (list Z); JStep (list Z) chg [5]; JRead (list Z);
              JStep (list Z) (C09.DynAdd.C2 (C09.DynSlot.C1 (C09.DynCount.CLink 0%nat 3%nat []))) []; JRead (list Z);
              JStep (list Z) chg []; JRead (list Z)] in
  C09.DynCount.dstate_inv d R /\ C09.Proofs.wfH (C09.Model.st_hooks s1)
  /\ C09.DynAdd.admissible_run3 d R (cops (list Z) ops)
  /\ coherent (list Z) (fun w => w) k d R [3] ops
  /\ joint (list Z) k d R ops
     = [Read; Listen; Mut [5] true 1%nat; Read; Mut [] true 1%nat; Read; Mut [] false 0%nat; Read].
Proof.
  intros g k s0 s1 d R chg ops.
  assert (C09.DynCount.dinv cx_heap (C09.Model.st_hooks s1) R) as I.
  { pose proof (C09.DynCount.register_step cx_heap (fun _ => []) [] 0%nat 7%nat 0%nat g s0 s1
                  (snd (C09.Model.step cx_heap s0 (C09.Model.Register 0%nat 7%nat 0%nat [g])))) as Rs.
    assert (C09.DynCount.dinv cx_heap (fun _ => []) []) as I0.
    { split; [intros o; reflexivity|split; [intros; reflexivity|intros ? ? ? []]]. }
    specialize (Rs I0 eq_refl). unfold s1 in *.
    destruct (C09.Model.step cx_heap s0 (C09.Model.Register 0%nat 7%nat 0%nat [g])) as [s' ob] eqn:St.
    specialize (Rs eq_refl). cbn [fst snd] in *.
    assert (C09.Model.o_out ob = None) as Ok by (vm_compute in St; inversion St; reflexivity).
    rewrite Ok in Rs. exact Rs. }
  split; [split; [exact I|split; reflexivity]|]. split.
  { apply (C09.Proofs.step_wf cx_heap s0 (C09.Model.Register 0%nat 7%nat 0%nat [g]) s1
             (snd (C09.Model.step cx_heap s0 (C09.Model.Register 0%nat 7%nat 0%nat [g]))) C09.Proofs.wf_empty).
    unfold s1. destruct (C09.Model.step cx_heap s0 (C09.Model.Register 0%nat 7%nat 0%nat [g])); reflexivity. }
  split; [|split].
  - cbn [cops flat_map app C09.DynAdd.admissible_run3 C09.DynAdd.admissible3 C09.DynSlot.admissible2 C09.DynCount.admissible].
    repeat split; try exact Logic.I.
    + intros ch y Hy. change (C09.Dyn.d_heap (fst (C09.Dyn.dstep d (C09.DynAdd.dop_of3 chg)))) with cx_heap in *.
      assert (y = 1%nat) as -> by (vm_compute in Hy; intuition). destruct ch as [n cs]. cbn [C09.DynCount.visits].
      assert (C09.DynCount.hits cx_heap 0%nat 3%nat n 1%nat = false) as -> by (destruct n; cbn; rewrite ?andb_false_r; reflexivity).
      assert (C09.DynCount.nexts cx_heap n 1%nat = []) as ->.
      { destruct n as [f0 nt opt|ck nt opt]; unfold C09.DynCount.nexts; cbn;
          repeat (match goal with |- context [if ?b then _ else _] => destruct b end; try reflexivity). }
      cbn. induction cs; cbn; auto.
    + intros k' g' x' Hin. vm_compute in Hin. destruct Hin as [E|[]]. inversion E; subst. vm_compute. reflexivity.
  - vm_compute. repeat split; congruence.
  - vm_compute. reflexivity.
Qed.

Example nested_nontrivial :
  let '(s, ob) := step_nested exW ex_f true (mkState (1, 0) (Some 4) 1%nat) (5, 0) (2, 0) in
  cache s = Some 7 /\ o_events ob = [(Some 4, 16); (Some 16, 7)] /\ o_getter ob = 2%nat.
Proof. vm_compute. repeat split; reflexivity. Qed.
