(* C12 — observed / cached properties: executable model (definitions only).

   Modelled code (enthought/traits, current tree):
     traits/has_traits.py:302-339  _create_property_observe_state: the handler installed on the observe
                                   expression of a Property: `old = __dict__.pop(cache_name, Undefined)`
                                   when cached, else Undefined; `trait_property_changed(name, old)`
     traits/has_traits.py:870-911  cached_property: `result = __dict__.get(cache, Undefined)`; when
                                   Undefined: `__dict__[cache] = result = getter(self)`
     traits/has_traits.py:3408-3419 _init_trait_observers (observers installed before the state is set,
                                   also by __setstate__ :1353-1354 and clone_traits :1676-1677)
     traits/ctraits.c:1093-1131    trait_property_changed: only if the property has notifiers the new
                                   value is fetched with getattr (the getter runs, the cache is refilled)
                                   and the notifiers are called with (old, new)

   Interface to C08 (observer maintenance): WHEN the handler is called.  A mutation step carries the
   number [d] of handler invocations the observe machinery performed for it and the flag [touched]
   (the mutated trait / container is matched by the dependency expression); the theorems assume
   [faithful] (delivered exactly once iff touched-and-changed ... see Proofs.v), which is C08's
   theorem; the correspondence records [d] from the implementation and checks the interface. *)
From Coq Require Import ZArith List Bool.
Import ListNotations.
Open Scope Z_scope.

Section Model.
  Variable W : Type.              (* the world: everything a getter could read *)
  Variable f : W -> Z.            (* the getter *)
  Variable cached : bool.         (* @cached_property or not *)

  Record state := mkState {
    world : W;
    cache : option Z;             (* __dict__['_traits_cache_<name>'], None = absent *)
    listeners : nat }.            (* handlers observing the property itself *)

  Inductive op :=
  | Read
  | Mut (w' : W) (touched : bool) (d : nat)   (* a mutation somewhere in the object graph *)
  | Listen | Unlisten
  | Copy (w' : W).                (* continue on an unpickled / deep-copied / cloned object *)

  (* what one step shows: the value read, how often the getter ran, the (old, new) events one
     listener of the property received (old = None is Undefined) *)
  Record obs := mkObs { o_val : option Z; o_getter : nat; o_events : list (option Z * Z) }.

  (* reading the property: cached_property.decorator / plain getter *)
  Definition read (s : state) : state * Z * nat :=
    if cached then
      match cache s with
      | Some v => (s, v, 0%nat)
      | None => (mkState (world s) (Some (f (world s))) (listeners s), f (world s), 1%nat)
      end
    else (s, f (world s), 1%nat).

  (* one invocation of the property's observe handler *)
  Definition deliver (s : state) : state * nat * list (option Z * Z) :=
    let old := if cached then cache s else None in
    let s1 := mkState (world s) None (listeners s) in
    match listeners s with
    | O => (s1, 0%nat, [])                       (* no notifiers: trait_property_changed does nothing *)
    | S _ => let '(s2, v, n) := read s1 in (s2, n, [(old, v)])
    end.

  Fixpoint deliver_n (d : nat) (s : state) : state * nat * list (option Z * Z) :=
    match d with
    | O => (s, 0%nat, [])
    | S d' => let '(s1, n1, e1) := deliver s in
              let '(s2, n2, e2) := deliver_n d' s1 in (s2, (n1 + n2)%nat, e1 ++ e2)
    end.

  Definition step (s : state) (o : op) : state * obs :=
    match o with
    | Read => let '(s', v, n) := read s in (s', mkObs (Some v) n [])
    | Mut w' _ d =>
        (* the value is stored / the container mutated first, then the notifiers run *)
        let '(s', n, ev) := deliver_n d (mkState w' (cache s) (listeners s)) in (s', mkObs None n ev)
    | Listen => (mkState (world s) (cache s) (S (listeners s)), mkObs None 0%nat [])
    | Unlisten => (mkState (world s) (cache s) (pred (listeners s)), mkObs None 0%nat [])
    | Copy w' => (mkState w' None 0%nat, mkObs None 0%nat [])
    end.

  (* Re-entrant delivery: a listener of the property assigns ANOTHER dependency from inside the property's own
     notification (has_traits.py:319-326 is not guarded against re-entrance).  The outer handler has popped the
     cache and trait_property_changed has fetched the new value v1 (cache refilled) when the listener is entered
     with (old1, v1); its assignment stores the world w2 and runs the handler again, nested: the cache (now v1) is
     popped, the value fetched again, the listeners notified with (v1, v2); then the outer call returns. *)
  Definition step_nested (s : state) (w1 w2 : W) : state * obs :=
    let old1 := if cached then cache s else None in
    match listeners s with
    | O => (mkState w1 None 0%nat, mkObs None 0%nat [])      (* nobody listens: nothing can re-enter *)
    | S l =>
        let '(s1, v1, n1) := read (mkState w1 None (S l)) in
        let old2 := if cached then cache s1 else None in
        let '(s2, v2, n2) := read (mkState w2 None (S l)) in
        (s2, mkObs None (n1 + n2)%nat [(old1, v1); (old2, v2)])
    end.

  Fixpoint run (s : state) (ops : list op) : list (op * obs) * state :=
    match ops with
    | [] => ([], s)
    | o :: r => let '(s1, ob) := step s o in
                let '(tr, s2) := run s1 r in ((o, ob) :: tr, s2)
    end.
End Model.

Arguments mkState {W}.
Arguments world {W}.
Arguments cache {W}.
Arguments listeners {W}.
Arguments Read {W}.
Arguments Mut {W}.
Arguments Listen {W}.
Arguments Unlisten {W}.
Arguments Copy {W}.
