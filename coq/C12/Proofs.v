(* C12 — lemmas.  Style: stdlib + lia. *)
From Coq Require Import ZArith List Bool Arith Lia.
From TV Require Import C12.Model C12.Law.
Import ListNotations.
Open Scope Z_scope.

Section Proofs.
  Variable W : Type.
  Variable f : W -> Z.
  Variable cached : bool.
  (* the observed dependency view: what the observe expression of the property matches *)
  Variable view : W -> list Z.
  (* getter_reads_only_observed *)
  Hypothesis reads_only_observed : forall w w', view w = view w' -> f w = f w'.

  Notation state := (state W).
  Notation op := (op W).
  Notation step := (step W f cached).
  Notation run := (run W f cached).
  Notation read := (read W f cached).
  Notation deliver := (deliver W f cached).
  Notation deliver_n := (deliver_n W f cached).

  (* delivered_iff_relevant — the interface to C08: the handler of the property is called exactly once
     when a mutation changes the observed view, only for mutations of matched dependencies, and never
     more than once per mutation *)
  Definition faithful (s : state) (o : op) : Prop :=
    match o with
    | Mut w' t d => (view (world s) <> view w' -> (1 <= d)%nat)
                    /\ (t = false -> d = 0%nat /\ view (world s) = view w')
                    /\ (d <= 1)%nat
    | _ => True
    end.
  Fixpoint faithful_hist (s : state) (ops : list op) : Prop :=
    match ops with
    | [] => True
    | o :: r => faithful s o /\ faithful_hist (fst (step s o)) r
    end.

  Definition inv (s : state) : Prop :=
    match cache s with None => True | Some v => v = f (world s) end.

  Lemma view_dec (a b : list Z) : {a = b} + {a <> b}.
  Proof. apply list_eq_dec, Z.eq_dec. Qed.

  Lemma read_spec s : inv s ->
    let '(s', v, n) := read s in
    inv s' /\ v = f (world s) /\ world s' = world s /\ listeners s' = listeners s /\
    n = (if cached then match cache s with Some _ => 0 | None => 1 end else 1)%nat /\
    cache s' = (if cached then Some (f (world s)) else cache s).
  Proof.
    unfold read, inv. intros I. destruct cached.
    - destruct (cache s) as [v|] eqn:C; cbn [cache world listeners].
      + rewrite C. subst v. repeat split; try reflexivity; exact C.
      + repeat split; reflexivity.
    - repeat split; try reflexivity; exact I.
  Qed.

  Lemma deliver_spec s :
    let '(s', n, ev) := deliver s in
    inv s' /\ world s' = world s /\ listeners s' = listeners s /\
    n = (match listeners s with O => 0 | S _ => 1 end)%nat /\
    ev = (match listeners s with O => [] | S _ => [(if cached then cache s else None, f (world s))] end) /\
    (cached = true -> cache s' = match listeners s with O => None | S _ => Some (f (world s)) end).
  Proof.
    unfold deliver. destruct (listeners s) as [|l] eqn:L.
    - cbn [inv cache world listeners]. unfold inv. cbn. repeat split; reflexivity.
    - pose proof (read_spec (mkState (world s) None (S l)) I) as R.
      destruct (read (mkState (world s) None (S l))) as [[s2 v] n]. cbn [world cache listeners] in R.
      destruct R as (I2 & -> & Wd & Ls & Nn & Cc). repeat split; auto.
      + rewrite Nn. destruct cached; reflexivity.
      + intros ->. exact Cc.
  Qed.

  Lemma step_inv s o : inv s -> faithful s o -> inv (fst (step s o)).
  Proof.
    intros I F. destruct o as [|w' t d| | |w']; cbn [step].
    - pose proof (read_spec s I) as R. destruct (read s) as [[s' v] n]. cbn [fst]. apply R.
    - cbn [faithful] in F. destruct F as (F1 & F2 & F3).
      destruct d as [|[|d]]; [| |lia].
      + cbn [deliver_n fst]. unfold inv in *. cbn [cache world].
        destruct (cache s) as [v|]; [|exact I]. rewrite I.
        destruct (view_dec (view (world s)) (view w')) as [E|N]; [apply reads_only_observed, E|].
        specialize (F1 N). lia.
      + cbn [deliver_n]. pose proof (deliver_spec (mkState w' (cache s) (listeners s))) as D.
        destruct (deliver (mkState w' (cache s) (listeners s))) as [[s1 n1] e1]. cbn [fst]. apply D.
    - exact I.
    - exact I.
    - unfold inv. cbn. trivial.
  Qed.

  Lemma run_inv : forall ops s, inv s -> faithful_hist s ops -> inv (snd (run s ops)).
  Proof.
    induction ops as [|o ops IH]; intros s I F; cbn [run]; [exact I|].
    destruct F as [F1 F2]. pose proof (step_inv s o I F1) as I1.
    destruct (step s o) as [s1 ob]. cbn [fst] in *. specialize (IH s1 I1 F2).
    destruct (run s1 ops) as [tr s2]. exact IH.
  Qed.

  Lemma read_current s : inv s -> o_val (snd (step s Read)) = Some (f (world s)).
  Proof.
    intros I. cbn [step]. pose proof (read_spec s I) as R. destruct (read s) as [[s' v] n].
    cbn [snd o_val]. destruct R as (_ & -> & _). reflexivity.
  Qed.

  Lemma change_notified s w' t d :
    faithful s (Mut w' t d) -> f (world s) <> f w' -> (0 < listeners s)%nat ->
    exists old, o_events (snd (step s (Mut w' t d))) = [(old, f w')].
  Proof.
    intros (F1 & F2 & F3) N L. assert (d = 1%nat) as ->.
    { destruct (view_dec (view (world s)) (view w')) as [E|Nv]; [elim N; apply reads_only_observed, E|].
      specialize (F1 Nv). lia. }
    cbn [step deliver_n]. pose proof (deliver_spec (mkState w' (cache s) (listeners s))) as D.
    destruct (deliver (mkState w' (cache s) (listeners s))) as [[s1 n1] e1]. cbn [snd o_events].
    cbn [world listeners cache] in D. destruct D as (_ & _ & _ & _ & -> & _).
    destruct (listeners s); [lia|]. rewrite app_nil_r. eexists. reflexivity.
  Qed.

  (* ---------- re-entrant delivery = the outer mutation followed by the nested one ---------- *)
  Lemma nested_is_two_steps s w1 w2 t1 t2 : (0 < listeners s)%nat ->
    Model.step_nested W f cached s w1 w2
    = (let '(s1, ob1) := step s (Mut w1 t1 1) in
       let '(s2, ob2) := step s1 (Mut w2 t2 1) in
       (s2, mkObs None (o_getter ob1 + o_getter ob2)%nat (o_events ob1 ++ o_events ob2))).
  Proof.
    intros L. unfold Model.step_nested. destruct (listeners s) as [|l] eqn:Ls; [lia|].
    cbn [Model.step Model.deliver_n Model.deliver world cache listeners]. rewrite Ls.
    unfold Model.read. cbn [cache world listeners]. destruct cached; cbn [cache world listeners app];
      rewrite ?Nat.add_0_r; reflexivity.
  Qed.
  Lemma nested_inv s w1 w2 : inv (fst (Model.step_nested W f cached s w1 w2)).
  Proof.
    unfold Model.step_nested, inv. destruct (listeners s) as [|l]; [cbn; trivial|].
    unfold Model.read. cbn [cache world listeners]. destruct cached; cbn; trivial.
  Qed.
  Lemma nested_announces s w1 w2 : (0 < listeners s)%nat ->
    exists old1 old2, o_events (snd (Model.step_nested W f cached s w1 w2)) = [(old1, f w1); (old2, f w2)]
                      /\ (cached = true -> cache (fst (Model.step_nested W f cached s w1 w2)) = Some (f w2)).
  Proof.
    intros L. unfold Model.step_nested. destruct (listeners s) as [|l]; [lia|].
    unfold Model.read. cbn [cache world listeners]. destruct cached; cbn; eexists; eexists; split; try reflexivity; intros; congruence.
  Qed.

  (* ---------- quiet segments: no mutation of a dependency, no copy ---------- *)
  Definition quiet (o : op) : bool :=
    match o with Mut _ t _ => negb t | Copy _ => false | _ => true end.
  Fixpoint total_getter (tr : list (op * obs)) : nat :=
    match tr with [] => 0%nat | (_, ob) :: r => (o_getter ob + total_getter r)%nat end.

  Definition slack (s : state) : nat := match cache s with Some _ => 0%nat | None => 1%nat end.

  Lemma quiet_step s o : cached = true -> faithful s o -> quiet o = true ->
    (o_getter (snd (step s o)) + slack (fst (step s o)) <= slack s)%nat.
  Proof.
    intros Cd F Q. destruct o as [|w' t d| | |w']; cbn [step]; try discriminate Q.
    - unfold read, slack. rewrite Cd. destruct (cache s) as [v|] eqn:C; cbn [fst snd o_getter cache]; [rewrite C|]; lia.
    - cbn [quiet] in Q. apply negb_true_iff in Q. subst t. destruct F as (_ & F & _).
      destruct (F eq_refl) as [-> _]. cbn [deliver_n fst snd o_getter]. unfold slack. cbn [cache]. lia.
    - unfold slack. cbn [fst snd o_getter cache]. lia.
    - unfold slack. cbn [fst snd o_getter cache]. lia.
  Qed.

  Lemma quiet_run : cached = true -> forall ops s, faithful_hist s ops -> forallb quiet ops = true ->
    (total_getter (fst (run s ops)) <= slack s)%nat.
  Proof.
    intros Cd. induction ops as [|o ops IH]; intros s F Q; cbn [run]; [cbn; lia|].
    destruct F as [F1 F2]. cbn [forallb] in Q. apply andb_true_iff in Q. destruct Q as [Qo Q].
    pose proof (quiet_step s o Cd F1 Qo) as S1. specialize (IH (fst (step s o)) F2 Q).
    destruct (step s o) as [s1 ob]. cbn [fst snd] in *. destruct (run s1 ops) as [tr s2].
    cbn [fst total_getter] in *. lia.
  Qed.

  (* ---------- the model's own observations satisfy the whole law ---------- *)
  Definition kind_of (o : op) : okind :=
    match o with Read => KRead | Mut _ t _ => KMut t | Listen => KListen | Unlisten => KUnlisten | Copy _ => KCopy end.
  Definition delivered_of (o : op) : nat := match o with Mut _ _ d => d | _ => 0%nat end.
  Definition observe1 (s : state) (o : op) : okind * iobs :=
    let '(s', ob) := step s o in
    (kind_of o, mkI (o_val ob) (f (world s')) (view (world s')) (o_getter ob) (o_events ob) (delivered_of o) (cache s')).
  Fixpoint observe (s : state) (ops : list op) : list (okind * iobs) :=
    match ops with [] => [] | o :: r => observe1 s o :: observe (fst (step s o)) r end.

  Lemma law_step_ok s o runs : inv s -> faithful s o -> (cached = true -> (runs + slack s <= 1)%nat) ->
    exists runs',
      law_step cached (f (world s)) runs (listeners s) (fst (observe1 s o)) (snd (observe1 s o))
        = ([], runs', listeners (fst (step s o)))
      /\ i_oracle (snd (observe1 s o)) = f (world (fst (step s o)))
      /\ (cached = true -> (runs' + slack (fst (step s o)) <= 1)%nat).
  Proof.
    intros I F J. unfold observe1, law_step. destruct o as [|w' t d| | |w'].
    - (* Read *)
      cbn [step]. pose proof (read_spec s I) as R. destruct (read s) as [[s' v] n].
      destruct R as (I' & -> & Wd & Ls & Nn & Cc). cbn [fst snd kind_of i_val i_oracle i_getter i_events o_val o_getter o_events].
      rewrite Wd, Ls. cbn [optz_eqb]. rewrite Z.eqb_refl. cbn [chk app forallb].
      eexists. split; [|split; [reflexivity|]].
      + destruct cached eqn:Cd; cbn [negb orb].
        * specialize (J eq_refl). unfold slack in J. subst n. destruct (cache s); 
            (replace (Nat.leb _ 1) with true by (symmetry; apply Nat.leb_le; lia)); reflexivity.
        * reflexivity.
      + intros Cd. specialize (J Cd). unfold slack in *. rewrite Cc, Cd. subst n. rewrite Cd.
        destruct (cache s); lia.
    - (* Mut *)
      cbn [faithful] in F. destruct F as (F1 & F2 & F3). cbn [step kind_of delivered_of].
      destruct d as [|[|d]]; [| |lia].
      + assert (f (world s) = f w') as E.
        { destruct (view_dec (view (world s)) (view w')) as [E|N]; [apply reads_only_observed, E|].
          specialize (F1 N). lia. }
        cbn [deliver_n fst snd i_val i_oracle i_getter i_events o_val o_getter o_events world listeners].
        rewrite E, Z.eqb_refl. cbn [chk app forallb orb]. rewrite Nat.add_0_r.
        eexists. split; [|split; [reflexivity|]].
        * destruct cached eqn:Cd; cbn [negb orb]; [|reflexivity]. specialize (J eq_refl).
          replace (Nat.leb _ 1) with true; [reflexivity|]. symmetry. apply Nat.leb_le. destruct t; lia.
        * intros Cd. specialize (J Cd). unfold slack in *. cbn [cache]. destruct t; destruct (cache s); lia.
      + assert (t = true) as -> by (destruct t; [reflexivity|destruct (F2 eq_refl); discriminate]).
        cbn [deliver_n]. pose proof (deliver_spec (mkState w' (cache s) (listeners s))) as D.
        destruct (deliver (mkState w' (cache s) (listeners s))) as [[s1 n1] e1].
        cbn [world listeners cache] in D. destruct D as (I1 & Wd & Ls & Nn & Ev & Cc).
        cbn [fst snd i_val i_oracle i_getter i_events o_val o_getter o_events]. rewrite Wd, Ls, !Nat.add_0_r, app_nil_r.
        subst n1 e1. destruct (listeners s) as [|l]; (eexists; split; [|split; [reflexivity|]]).
        * cbn [is_nil negb forallb snd Nat.eqb orb app chk].
          destruct (f (world s) =? f w'); destruct cached; reflexivity.
        * intros Cd. unfold slack. rewrite (Cc Cd). lia.
        * cbn [is_nil negb forallb snd Nat.eqb orb app chk].
          rewrite Z.eqb_refl. destruct (f (world s) =? f w'); destruct cached; reflexivity.
        * intros Cd. unfold slack. rewrite (Cc Cd). lia.
    - (* Listen *)
      cbn [step fst snd kind_of i_val i_oracle i_getter i_events o_val o_getter o_events world listeners chk app forallb].
      rewrite Nat.add_0_r. eexists. split; [|split; [reflexivity|]].
      + destruct cached eqn:Cd; cbn [negb orb]; [|reflexivity]. specialize (J eq_refl).
        replace (Nat.leb runs 1) with true; [reflexivity|]. symmetry. apply Nat.leb_le. lia.
      + intros Cd. specialize (J Cd). unfold slack in *. cbn [cache]. exact J.
    - (* Unlisten *)
      cbn [step fst snd kind_of i_val i_oracle i_getter i_events o_val o_getter o_events world listeners chk app forallb].
      rewrite Nat.add_0_r. eexists. split; [|split; [reflexivity|]].
      + destruct cached eqn:Cd; cbn [negb orb]; [|reflexivity]. specialize (J eq_refl).
        replace (Nat.leb runs 1) with true; [reflexivity|]. symmetry. apply Nat.leb_le. lia.
      + intros Cd. specialize (J Cd). unfold slack in *. cbn [cache]. exact J.
    - (* Copy *)
      cbn [step fst snd kind_of i_val i_oracle i_getter i_events o_val o_getter o_events world listeners chk app forallb].
      eexists. split; [|split; [reflexivity|]].
      + destruct cached; reflexivity.
      + intros _. unfold slack. cbn. lia.
  Qed.

  Lemma law_model : forall ops s i runs, inv s -> faithful_hist s ops ->
    (cached = true -> (runs + slack s <= 1)%nat) ->
    law_hist cached i (f (world s)) runs (listeners s) (observe s ops) = [].
  Proof.
    induction ops as [|o ops IH]; intros s i runs I F J; [reflexivity|].
    destruct F as [F1 F2]. cbn [observe law_hist].
    destruct (law_step_ok s o runs I F1 J) as (runs' & L & O & J').
    destruct (observe1 s o) as [k ob] eqn:Ob. cbn [fst snd] in *. rewrite L. cbn [map app].
    rewrite O. apply IH; [apply (step_inv s o I F1)|exact F2|exact J'].
  Qed.
End Proofs.
