(* C12 — the property as a boolean checker on ONE observed history.  It never mentions Model.step.
   Every step records: the value read (reads), the value an INDEPENDENT recomputation from the raw
   object graph gives after the step ([i_oracle]), how often the getter ran during the step, the
   (old, new) events one listener of the property received, and whether the mutation touched a
   dependency matched by the observe expression ([KMut touched], from a from-scratch walk).

   Clause codes (100*step + clause):
     1  a read returned something else than the recomputation (stale or wrong value)
     2  cached property: the getter ran more than once since the last mutation of a dependency
        (reads and listener-triggered recomputations together)
     3  a mutation changed the computed value, the property has a listener, but no change event
        for the property was delivered
     4  a change event announced a `new` value that is not the current value *)
From Coq Require Import ZArith List Bool Arith.
Import ListNotations.
Open Scope Z_scope.

Inductive okind := KRead | KMut (touched : bool) | KListen | KUnlisten | KCopy.

Record iobs := mkI {
  i_val : option Z;
  i_oracle : Z;
  i_view : list Z;
  i_getter : nat;
  i_events : list (option Z * Z);
  i_delivered : nat;
  i_cache : option Z }.

Definition chk (c : nat) (b : bool) : list nat := if b then [] else [c].
Definition optz_eqb (a b : option Z) : bool :=
  match a, b with Some x, Some y => Z.eqb x y | None, None => true | _, _ => false end.
Definition is_nil {A} (l : list A) : bool := match l with [] => true | _ => false end.

Section Law.
  Variable cached : bool.

  (* law state: oracle before the step, getter runs since the last touched mutation, listeners *)
  Definition law_step (prev : Z) (runs : nat) (ls : nat) (k : okind) (ob : iobs) : list nat * nat * nat :=
    let runs' := ((match k with KMut true | KCopy => 0 | _ => runs end) + i_getter ob)%nat in
    let ls' := match k with KListen => S ls | KUnlisten => pred ls | KCopy => 0%nat | _ => ls end in
    (match k with KRead => chk 1 (optz_eqb (i_val ob) (Some (i_oracle ob))) | _ => [] end
     ++ chk 2 (negb cached || Nat.leb runs' 1)
     ++ match k with
        | KMut _ => chk 3 (Z.eqb prev (i_oracle ob) || Nat.eqb ls 0 || negb (is_nil (i_events ob)))
        | _ => []
        end
     ++ chk 4 (forallb (fun e => Z.eqb (snd e) (i_oracle ob)) (i_events ob)),
     runs', ls').

  Fixpoint law_hist (i : nat) (prev : Z) (runs ls : nat) (h : list (okind * iobs)) : list nat :=
    match h with
    | [] => []
    | (k, ob) :: r =>
        let '(codes, runs', ls') := law_step prev runs ls k ob in
        map (fun c => (100 * i + c)%nat) codes ++ law_hist (S i) (i_oracle ob) runs' ls' r
    end.
End Law.
