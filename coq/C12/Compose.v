(* C12 over C09 — for changes of scalar dependencies on a fixed object graph the interface hypothesis
   [faithful] (delivered_iff_relevant) of C12 is a theorem of the C09 registration model: the handler of
   the property, registered once when the object is created (has_traits._init_trait_observers ->
   apply_observers), is called exactly once by a change of a trait on which the registration placed a
   user notifier, and never otherwise.  (For histories that also mutate the object graph the hypothesis
   is property C08.) *)
From Coq Require Import ZArith List Bool Arith PeanoNat Lia.
From TV Require Import C09.Model C09.Law C09.Proofs C09.Dyn C09.DynProofs C09.DynCount C09.DynSlot C09.DynAdd C12.Model C12.Law C12.Proofs.
Import ListNotations.

Section Compose.
  Variable h : heap.
  Variable x : oid.
  Variables hd dp : nat.
  Variable gs : list graph.
  Let k : key := (hd, x, dp).

  Definition is_user_k (e : entry) : bool := akey_eqb (snd e) (AUser k).
  (* the observables on which the registration places the handler *)
  Definition targets : list obsv :=
    flat_map (fun g => map fst (filter is_user_k (fst (plan h k false g x)))) gs.

  Definition World := obsv -> Z.
  Definition view (w : World) : list Z := map w targets.
  Definition wupd (w : World) (o : obsv) (v : Z) : World := fun o' => if obsv_eqb o' o then v else w o'.

  Lemma ecnt_user_targets o es : (0 < ecnt o (CK (AUser k)) es)%nat <-> In o (map fst (filter is_user_k es)).
  Proof.
    induction es as [|e r IH]; cbn [ecnt filter map]; [split; [lia|intros []]|].
    unfold eind, is_user_k at 1. cbn [ckey_eqb].
    destruct (akey_eqb (snd e) (AUser k)) eqn:Q.
    - rewrite andb_true_r. cbn [map In]. destruct (obsv_eqb (fst e) o) eqn:P.
      + apply obsv_eqb_spec in P. split; [intros _; left; exact P|intros _; cbn; lia].
      + cbn [b2n]. rewrite IH. split; [right; assumption|intros [E|H]; [|exact H]].
        subst. rewrite obsv_eqb_refl in P. discriminate.
    - rewrite andb_false_r. cbn [b2n]. exact IH.
  Qed.

  Lemma gsum_targets o : (0 < gsum h k gs x o (CK (AUser k)))%nat <-> In o targets.
  Proof.
    unfold targets. induction gs as [|g r IH]; cbn [gsum flat_map]; [split; [lia|intros []]|].
    rewrite in_app_iff, <- IH, <- ecnt_user_targets. unfold pcnt. lia.
  Qed.

  Lemma view_upd_outside w o v : ~ In o targets -> view (wupd w o v) = view w.
  Proof.
    intros N. unfold view. apply map_ext_in. intros o' Ho. unfold wupd.
    destruct (obsv_eqb o' o) eqn:Q; [|reflexivity]. apply obsv_eqb_spec in Q. subst. contradiction.
  Qed.

  Theorem static_scalar_changes_are_faithful :
    forall (s0 s1 : C09.Model.state) (ob : C09.Model.obs),
      wfH (st_hooks s0) ->
      (forall o, cntH (st_hooks s0) o (CK (AUser k)) = 0%nat) ->          (* the handler is new *)
      C09.Model.step h s0 (Register x hd dp gs) = (s1, ob) -> o_out ob = None ->
      alive s1 k = true ->
      forall (cs : C12.Model.state World) (o : obsv) (v : Z) s2 ob2,
        C09.Model.step h s1 (Change (fst o) (snd o)) = (s2, ob2) ->
        faithful World view cs
                 (Mut (wupd (world cs) o v) (existsb (obsv_eqb o) targets) (ncalls k (o_calls ob2))).
  Proof.
    intros s0 s1 ob W0 Z0 S1 Ok1 A cs o v s2 ob2 S2.
    pose proof (step_wf _ _ _ _ _ W0 S1) as W1.
    destruct (step_spec _ _ _ _ _ (proj1 W0) S1) as [_ Q]. cbn beta iota in Q. rewrite Ok1 in Q.
    assert (cntH (st_hooks s1) o (CK (AUser k)) = gsum h k gs x o (CK (AUser k))) as Cn.
    { specialize (Q o (CK (AUser k))). cbn beta iota in Q. rewrite Z0 in Q. exact Q. }
    destruct o as [oo ff]. cbn [fst snd] in S2.
    rewrite (change_calls h s1 oo ff s2 ob2 k W1 S2), A, Cn. cbn [andb].
    assert (existsb (obsv_eqb (oo, ff)) targets = true <-> In (oo, ff) targets) as Ex.
    { rewrite existsb_exists. split.
      - intros (o' & Ho & E). apply obsv_eqb_spec in E. subst. exact Ho.
      - intros Hin. exists (oo, ff). split; [exact Hin|apply obsv_eqb_refl]. }
    cbn [faithful]. destruct (0 <? gsum h k gs x (oo, ff) (CK (AUser k)))%nat eqn:G.
    - apply Nat.ltb_lt in G. split; [intros _; lia|]. split; [|lia].
      intros T. apply gsum_targets, Ex in G. congruence.
    - apply Nat.ltb_ge in G. assert (~ In (oo, ff) targets) as N by (intros Hin; apply gsum_targets in Hin; lia).
      split; [|split; [|lia]].
      + intros Nv. elim Nv. symmetry. apply view_upd_outside, N.
      + intros _. split; [reflexivity|]. symmetry. apply view_upd_outside, N.
  Qed.
End Compose.

(* The same for MUTATIONS OF THE OBJECT GRAPH (Instance-link reassignment, in-place list / dict / set mutation), on
   top of the invariant of C09/DynCount.v + DynSlot.v (the hooks are what the live registrations plan on the current
   heap, [dinv]): the notifier loop of the mutated slot [sg] calls the property's handler k exactly once if a live
   registration of k matches the slot, and not at all otherwise.  With [touched] := "some live registration of k
   matches the slot", the mutation step is [faithful] for every view that does not change under untouched
   mutations. *)
Section ComposeDyn.
  Variable W : Type.
  Variable view : W -> list Z.

  Definition touched_by (h : heap) (R : list reg) (k : key) (sg : obsv) : bool :=
    existsb (fun r : reg => let '(k', g, x) := r in key_eqb k' k && l_matched h g x sg) R.

  Theorem graph_mutations_are_faithful :
    forall (h hrun : heap) (R : list reg) (H : hooks) (s : C09.Model.state) (sg : obsv) (t : bool)
           (olds news : list oid) H' calls (k : key),
      dinv h H R -> wfH H -> dead_handlers s = [] -> dead_objs s = [] ->
      run_notifiers hrun s t (H sg) olds news H [] = (H', calls, None) ->
      forall (cs : C12.Model.state W) (w' : W),
        (touched_by h R k sg = false -> view (world cs) = view w') ->
        faithful W view cs (Mut w' (touched_by h R k sg) (ncalls k calls)).
  Proof.
    intros h hrun R H s sg t olds news H' calls k I Wf Dh Do Rn cs w' Vl.
    destruct (slot_calls h hrun R H s sg t olds news H' calls k I Wf Dh Do Rn) as [Le Iff].
    assert (touched_by h R k sg = true <-> exists g x, In (k, g, x) R /\ l_matched h g x sg = true) as T.
    { unfold touched_by. rewrite existsb_exists. split.
      - intros ([[k' g] x] & Hin & Q). apply andb_true_iff in Q. destruct Q as [Qk M]. apply key_eqb_spec in Qk. subst.
        exists g, x. split; assumption.
      - intros (g & x & Hin & M). exists (k, g, x). split; [exact Hin|]. rewrite key_eqb_refl, M. reflexivity. }
    cbn [faithful]. destruct (touched_by h R k sg) eqn:Tb.
    - assert (ncalls k calls = 1%nat) as -> by (apply Iff, T; reflexivity).
      split; [intros _; lia|]. split; [discriminate|lia].
    - assert (ncalls k calls = 0%nat) as ->.
      { destruct (Nat.eq_dec (ncalls k calls) 1) as [E|E]; [|lia]. apply Iff, T in E. discriminate. }
      split; [intros N; elim N; apply Vl; reflexivity|]. split; [intros _; split; [reflexivity|apply Vl; reflexivity]|lia].
  Qed.

  (* the same from any "exactly once iff matched" statement about the calls of one step *)
  Lemma faithful_of_calls (h : heap) (R : list reg) (k : key) (sg : obsv) (calls : list key) :
    (ncalls k calls <= 1)%nat ->
    (ncalls k calls = 1%nat <-> exists g x, In (k, g, x) R /\ l_matched h g x sg = true) ->
    forall (cs : C12.Model.state W) (w' : W),
      (touched_by h R k sg = false -> view (world cs) = view w') ->
      faithful W view cs (Mut w' (touched_by h R k sg) (ncalls k calls)).
  Proof.
    intros Le Iff cs w' Vl.
    assert (touched_by h R k sg = true <-> exists g x, In (k, g, x) R /\ l_matched h g x sg = true) as T.
    { unfold touched_by. rewrite existsb_exists. split.
      - intros ([[k' g] x] & Hin & Q). apply andb_true_iff in Q. destruct Q as [Qk M]. apply key_eqb_spec in Qk. subst.
        exists g, x. split; assumption.
      - intros (g & x & Hin & M). exists (k, g, x). split; [exact Hin|]. rewrite key_eqb_refl, M. reflexivity. }
    cbn [faithful]. destruct (touched_by h R k sg) eqn:Tb.
    - assert (ncalls k calls = 1%nat) as -> by (apply Iff, T; reflexivity).
      split; [intros _; lia|]. split; [discriminate|lia].
    - assert (ncalls k calls = 0%nat) as ->.
      { destruct (Nat.eq_dec (ncalls k calls) 1) as [E|E]; [|lia]. apply Iff, T in E. discriminate. }
      split; [intros N; elim N; apply Vl; reflexivity|]. split; [intros _; split; [reflexivity|apply Vl; reflexivity]|lia].
  Qed.

  (* scalar changes AFTER any admissible history of graph mutations and add_trait: faithful w.r.t. the registrations
     matched on the heap as it is now *)
  Theorem changes_are_faithful_on_the_current_heap :
    forall (d : dstate) (R : list reg) o f s' ob (k : key),
      dstate_inv d R -> wfH (st_hooks (d_st d)) ->
      C09.Model.step (d_heap d) (d_st d) (Change o f) = (s', ob) ->
      forall (cs : C12.Model.state W) (w' : W),
        (touched_by (d_heap d) R k (o, f) = false -> view (world cs) = view w') ->
        faithful W view cs (Mut w' (touched_by (d_heap d) R k (o, f)) (ncalls k (o_calls ob))).
  Proof.
    intros d R o f s' ob k I Wf S. destruct (dyn_once_per_change d R o f s' ob k I Wf S) as [Le Iff].
    apply (faithful_of_calls (d_heap d) R k (o, f) (o_calls ob) Le Iff).
  Qed.

  (* obj.add_trait: the property's handler is called iff one of its registrations matches the object's trait_added.
     A Property's own graphs never do (they name the dependency, the trait_added node is the maintainers' extra graph), so
     [touched_by] is false for them and the step is faithful exactly when the getter's view does not depend on whether the
     optional dependency is defined (adjudicated as outside property C12, see design.d/C12.md). *)
  Theorem add_trait_is_faithful_iff_matched :
    forall (h hrun : heap) (R : list reg) (H : hooks) (s : C09.Model.state) x f H' calls (k : key),
      dinv h H R -> wfH H -> dead_handlers s = [] -> dead_objs s = [] ->
      run_ta_notifiers hrun s x f (H (x, F_TA)) H [] = (H', calls, None) ->
      forall (cs : C12.Model.state W) (w' : W),
        (touched_by h R k (x, F_TA) = false -> view (world cs) = view w') ->
        faithful W view cs (Mut w' (touched_by h R k (x, F_TA)) (ncalls k calls)).
  Proof.
    intros h hrun R H s x f H' calls k I Wf Dh Do Rn.
    destruct (add_trait_calls h hrun R H s x f H' calls k I Wf Dh Do Rn) as [Le Iff].
    apply (faithful_of_calls h R k (x, F_TA) calls Le Iff).
  Qed.
End ComposeDyn.

(* HISTORIES: the per-step theorems above chained along any admissible C09 history (registrations and removals of any
   handlers, scalar changes, link reassignments, container mutations, add_trait), interleaved with reads of the property
   and listeners coming and going.  The interface hypothesis [faithful_hist] of C12 is then a THEOREM, and so is the
   law of C12, under one condition on the worlds: a step that fires no slot matched by the property's registrations
   leaves the observed view unchanged. *)
Section ComposeHist.
  Variable W : Type.
  Variable f : W -> Z.
  Variable cached : bool.
  Variable view : W -> list Z.
  Variable k : key.                 (* the property's handler *)

  Lemma read_world (s : C12.Model.state W) : world (fst (fst (read W f cached s))) = world s.
  Proof. unfold read. destruct cached; [destruct (cache s)|]; reflexivity. Qed.
  Lemma deliver_world (s : C12.Model.state W) : world (fst (fst (deliver W f cached s))) = world s.
  Proof.
    unfold deliver. destruct (listeners s); [reflexivity|].
    pose proof (read_world (mkState (world s) None (S n))) as R.
    destruct (read W f cached (mkState (world s) None (S n))) as [[s2 v] m]. exact R.
  Qed.
  Lemma deliver_n_world d : forall s : C12.Model.state W, world (fst (fst (deliver_n W f cached d s))) = world s.
  Proof.
    induction d as [|d IH]; intros s; [reflexivity|]. cbn [deliver_n].
    pose proof (deliver_world s) as D. destruct (deliver W f cached s) as [[s1 n1] e1]. cbn [fst] in D.
    specialize (IH s1). destruct (deliver_n W f cached d s1) as [[s2 n2] e2]. cbn [fst] in *. congruence.
  Qed.
  Lemma mut_world (s : C12.Model.state W) w' t d : world (fst (C12.Model.step W f cached s (Mut w' t d))) = w'.
  Proof.
    cbn [C12.Model.step]. pose proof (deliver_n_world d (mkState w' (cache s) (listeners s))) as D.
    destruct (deliver_n W f cached d (mkState w' (cache s) (listeners s))) as [[s' n] ev]. exact D.
  Qed.

  (* a C09 history in which every step comes with the world it leaves behind, seen from the property: every step that
     fires a slot is a [Mut] whose [touched] flag is "a live registration of the property's handler matches the slot
     on the heap as it is now" and whose delivery count is how often the C09 model calls the handler; reads of the
     property and listeners coming and going are interleaved *)
  Inductive jop := JStep (c : cop3) (w' : W) | JRead | JListen | JUnlisten.
  Definition cops (ops : list jop) : list cop3 :=
    flat_map (fun j => match j with JStep c _ => [c] | _ => [] end) ops.
  Fixpoint joint (d : dstate) (R : list reg) (ops : list jop) : list (op W) :=
    match ops with
    | [] => []
    | JStep c w' :: r =>
        let '(d1, ob) := dstep d (dop_of3 c) in
        let rest := joint d1 (live_after3 R c ob) r in
        match slot_of3 c with
        | Some sg => Mut w' (touched_by (d_heap d) R k sg) (ncalls k (o_calls ob)) :: rest
        | None => rest
        end
    | JRead :: r => Read :: joint d R r
    | JListen :: r => Listen :: joint d R r
    | JUnlisten :: r => Unlisten :: joint d R r
    end.
  (* the only thing asked of the worlds: a step that fires no matched slot leaves the observed view unchanged *)
  Fixpoint coherent (d : dstate) (R : list reg) (w : W) (ops : list jop) : Prop :=
    match ops with
    | [] => True
    | JStep c w' :: r =>
        let '(d1, ob) := dstep d (dop_of3 c) in
        match slot_of3 c with
        | Some sg => (touched_by (d_heap d) R k sg = false -> view w = view w') /\ coherent d1 (live_after3 R c ob) w' r
        | None => coherent d1 (live_after3 R c ob) w r
        end
    | _ :: r => coherent d R w r
    end.

  Theorem dynamic_histories_are_faithful : forall ops d R (cs : C12.Model.state W),
    dstate_inv d R -> wfH (st_hooks (d_st d)) -> admissible_run3 d R (cops ops) ->
    coherent d R (world cs) ops ->
    faithful_hist W f cached view cs (joint d R ops).
  Proof.
    induction ops as [|[c w'| | |] ops IH]; intros d R cs I Wf Ad Co; [exact Logic.I| | | |].
    - cbn [cops flat_map app admissible_run3] in Ad. fold (cops ops) in Ad. destruct Ad as [Ad1 Ad2]. cbn [joint coherent] in *.
      destruct (dstep d (dop_of3 c)) as [d1 ob] eqn:S. cbn [fst snd] in Ad2.
      destruct (cstep3 d R c d1 ob I Ad1 S) as [I1 _]. pose proof (dstep_wf _ _ _ _ Wf S) as Wf1.
      pose proof (cstep3_calls d R c d1 ob k I Wf Ad1 S) as Cl.
      destruct (slot_of3 c) as [sg|].
      + destruct Co as [Vl Co]. destruct Cl as [Le Iff]. cbn [faithful_hist]. split.
        * apply (faithful_of_calls W view (d_heap d) R k sg (o_calls ob) Le Iff cs w' Vl).
        * apply (IH d1 _ _ I1 Wf1 Ad2). rewrite mut_world. exact Co.
      + apply (IH d1 _ cs I1 Wf1 Ad2 Co).
    - cbn [joint faithful_hist faithful]. split; [exact Logic.I|]. apply (IH d R _ I Wf Ad).
      cbn [C12.Model.step]. pose proof (read_world cs) as Rw. destruct (read W f cached cs) as [[s' v] n]. cbn [fst] in *.
      rewrite Rw. exact Co.
    - cbn [joint faithful_hist faithful]. split; [exact Logic.I|]. apply (IH d R _ I Wf Ad). exact Co.
    - cbn [joint faithful_hist faithful]. split; [exact Logic.I|]. apply (IH d R _ I Wf Ad). exact Co.
  Qed.

  (* ... and therefore the whole law of C12 holds on them, with NO interface hypothesis left *)
  Corollary law_holds_on_dynamic_histories :
    (forall w w', view w = view w' -> f w = f w') ->
    forall ops d R (cs : C12.Model.state W) i runs,
      dstate_inv d R -> wfH (st_hooks (d_st d)) -> admissible_run3 d R (cops ops) ->
      coherent d R (world cs) ops ->
      inv W f cs -> (cached = true -> (runs + slack W cs <= 1)%nat) ->
      C12.Law.law_hist cached i (f (world cs)) runs (listeners cs) (observe W f cached view cs (joint d R ops)) = [].
  Proof.
    intros Ro ops d R cs i runs I Wf Ad Co Iv Sl.
    apply (law_model W f cached view Ro (joint d R ops) cs i runs Iv (dynamic_histories_are_faithful ops d R cs I Wf Ad Co) Sl).
  Qed.
End ComposeHist.
