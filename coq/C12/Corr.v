(* C12 — correspondence: one case = cached flag, the initial world (view, oracle value) and the history of
   (step kind, observation recorded from the implementation).  The model runs over the world
   W := (view, value) with f := snd; each mutation step takes the new world, the touched flag and the
   number of handler deliveries from the observation. *)
From Coq Require Import ZArith List Bool Arith.
From TV Require Import Common.Harness C12.Model C12.Law.
Import ListNotations.
Open Scope Z_scope.

Definition W := (list Z * Z)%type.
Definition fW (w : W) : Z := snd w.

(* [c_hooked] = false marks the listed finding: a Property(observe=...) added with add_trait /
   add_class_trait gets no observers at all (has_traits.add_trait ignores the metadata); the interface
   check (code 8) is then meaningless and skipped, the model follows the code with 0 deliveries, and
   the law — the unrestricted property — fails on those cases. *)
Record case := mkCase {
  c_cached : bool;
  c_hooked : bool;
  c_init : W;
  c_hist : list (okind * iobs) }.

Definition op_of (k : okind) (ob : iobs) : op W :=
  match k with
  | KRead => Read
  | KMut t => Mut (i_view ob, i_oracle ob) t (i_delivered ob)
  | KListen => Listen
  | KUnlisten => Unlisten
  | KCopy => Copy (i_view ob, i_oracle ob)
  end.

Fixpoint zlist_eqb (a b : list Z) : bool :=
  match a, b with
  | [], [] => true
  | x :: a', y :: b' => Z.eqb x y && zlist_eqb a' b'
  | _, _ => false
  end.
Definition ev_eqb (a b : option Z * Z) : bool := optz_eqb (fst a) (fst b) && Z.eqb (snd a) (snd b).

(* codes: 100*step + 1 value read, 2 getter runs, 3 events, 4 cache slot,
   8 interface to C08 broken (view changed but no delivery / untouched but delivered or view changed /
     more than one delivery), 9 the test getter read something outside its observed view *)
Fixpoint corr_hist (cached hooked : bool) (i : nat) (s : state W) (h : list (okind * iobs)) : list nat :=
  match h with
  | [] => []
  | (k, ob) :: r =>
      let '(s', m) := step W fW cached s (op_of k ob) in
      let same_view := zlist_eqb (fst (world s)) (i_view ob) in
      map (fun c => (100 * i + c)%nat)
          (chk 1 (optz_eqb (o_val m) (i_val ob))
           ++ chk 2 (Nat.eqb (o_getter m) (i_getter ob))
           ++ chk 3 (list_eqb ev_eqb (o_events m) (i_events ob))
           ++ chk 4 (optz_eqb (cache s') (i_cache ob))
           ++ match k with
              | KMut t => chk 8 (negb hooked || (same_view || Nat.leb 1 (i_delivered ob))
                                 && (t || (Nat.eqb (i_delivered ob) 0 && same_view))
                                 && Nat.leb (i_delivered ob) 1)
              | KRead | KListen | KUnlisten => chk 8 (same_view && Nat.eqb (i_delivered ob) 0)
              | KCopy => []
              end
           ++ chk 9 (negb same_view || Z.eqb (snd (world s)) (i_oracle ob) || match k with KCopy => true | _ => false end))
      ++ corr_hist cached hooked (S i) (mkState (i_view ob, i_oracle ob) (i_cache ob) (listeners s')) r
  end.

Definition corr_codes (c : case) : list Z :=
  map Z.of_nat (corr_hist (c_cached c) (c_hooked c) 0 (mkState (c_init c) None 0%nat) (c_hist c)).
Definition law_codes (c : case) : list Z :=
  map Z.of_nat (law_hist (c_cached c) 0 (snd (c_init c)) 0 0 (c_hist c)).
