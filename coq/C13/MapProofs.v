(* C13 — the law on histories of one mapped pair (name, name_), proved directly on Model.step
   (no use of the plain-trait invariant of Proofs.v).  Setting: any class-level rule, any
   class tables, any object state in which add_trait(name, Map(m, default d)) has installed
   the pair (instance traits PMap at name, PShadow at name_), d a key of m; histories of
   get / set / del on name and name_ of any length. *)
From Coq Require Import ZArith List Bool Lia.
From TV Require Import Common.Harness C13.Model C13.Law C13.Corr C13.Proofs.
Import ListNotations.
Open Scope Z_scope.

Lemma removelast_snoc : forall (n : name) x, removelast (n ++ [x]) = n.
Proof. intros. apply removelast_last. Qed.
Lemma ends_us_snoc : forall (n : name), ends_us (n ++ [US]) = true.
Proof. intro n. unfold ends_us. rewrite rev_app_distr. simpl. reflexivity. Qed.

(* re-reading the true value of a name *)
Lemma resync_true : forall (l od' : list (name * Z)) a k,
  assoc k (resync a (assoc a od') l) = if name_eqb a k then assoc k od' else assoc k l.
Proof.
  intros l od' a k. unfold resync. destruct (assoc a od') as [x|] eqn:E;
    rewrite ?assoc_aset, ?assoc_adel; destruct (name_eqb a k) eqn:Ea; auto;
    apply name_eqb_eq in Ea; subst; auto.
Qed.

Section Pair.
  Variable crule : name -> rule.
  Variable pt : ptab.
  Variable n : name.
  Variable m : list (Z * Z).
  Variable d wd : Z.
  Hypothesis d_key : zassoc d m = Some wd.
  Notation n_ := (n ++ [US]).

  Definition Pair (s : state) : Prop :=
    assoc n (s_itd s) = Some (PMap m d) /\ assoc n_ (s_itd s) = Some (PShadow m).
  (* the law's bookkeeping agrees with the object *)
  Definition Agree (s : state) (ls : lstate) : Prop :=
    l_itd ls = s_itd s /\ forall k, assoc k (l_od ls) = assoc k (s_od s).
  Definition pair_op (o : op) : bool :=
    is_access o && (name_eqb (op_name o) n || name_eqb (op_name o) n_).

  Lemma nn_ : name_eqb n n_ = false /\ name_eqb n_ n = false.
  Proof. split; [apply name_app_neq|rewrite name_eqb_sym; apply name_app_neq]. Qed.

  Lemma nested_set_pair : forall s w, Pair s ->
    nested_set pt s n_ w = (set_od s (aset n_ w (s_od s)), None).
  Proof.
    intros s w [_ H2]. unfold nested_set, lookup_set. rewrite H2. reflexivity.
  Qed.
  Lemma post_map_pair : forall s v w, Pair s -> zassoc v m = Some w ->
    post_map pt s n m v = (set_od s (aset n_ w (s_od s)), None).
  Proof. intros s v w H E. unfold post_map. rewrite E. apply nested_set_pair. exact H. Qed.
  Lemma Pair_set_od : forall s od, Pair s -> Pair (set_od s od).
  Proof. intros s od H. exact H. Qed.

  (* after an access of name or name_ that changed obj.__dict__ at most at these two names,
     the law's bookkeeping (three names re-read from the observation) agrees again *)
  Lemma agree_after : forall s ls o s' x,
    is_access o = true -> (op_name o = n \/ op_name o = n_) ->
    Agree s ls -> s_itd s' = s_itd s ->
    (forall k, name_eqb n k = false -> name_eqb n_ k = false -> assoc k (s_od s') = assoc k (s_od s)) ->
    Agree s' (law_next crule ls o (snd (out s' (op_name o) x))).
  Proof.
    intros s ls o s' x Ha Hn [Ai Ao] Hi Hf. unfold Agree, law_next, out.
    cbn [snd o_stored o_shadow o_base o_out l_itd l_od]. split.
    - destruct o; try discriminate Ha; simpl; congruence.
    - intro k.
      assert (Ew : forall A B, (match o, x, found_trait crule ls (op_name o) with
                                | ORem _, Val _, Some PList => A | _, _, _ => B end : list (name * Z)) = B)
        by (intros A B; destruct o; try discriminate Ha; reflexivity).
      rewrite Ew. clear Ew.
      assert (Base : forall k, assoc k (resync (op_name o ++ [US]) (assoc (op_name o ++ [US]) (s_od s'))
                                 (resync (op_name o) (assoc (op_name o) (s_od s')) (l_od ls))) =
                     if name_eqb (op_name o ++ [US]) k then assoc k (s_od s')
                     else if name_eqb (op_name o) k then assoc k (s_od s') else assoc k (l_od ls))
        by (intro j; rewrite !resync_true; reflexivity).
      destruct Hn as [Hn|Hn]; rewrite Hn; rewrite Hn in Base.
      + (* the operation is on name *)
        assert (G : assoc k (resync n_ (assoc n_ (s_od s')) (resync n (assoc n (s_od s')) (l_od ls))) = assoc k (s_od s')).
        { rewrite Base. destruct (name_eqb n_ k) eqn:E1; auto. destruct (name_eqb n k) eqn:E2; auto.
          rewrite Ao. symmetry. apply Hf; auto. }
        destruct (ends_us n); [|exact G]. rewrite resync_true.
        destruct (name_eqb (removelast n) k); auto.
      + (* the operation is on name_ : name[:-1] of it is name *)
        rewrite ends_us_snoc, removelast_snoc, resync_true.
        destruct (name_eqb n k) eqn:E2; auto. rewrite Base.
        destruct (name_eqb (n_ ++ [US]) k); auto. destruct (name_eqb n_ k) eqn:E1; auto.
        rewrite Ao. symmetry. apply Hf; auto.
  Qed.

  Lemma gov_n : forall s ls, Pair s -> Agree s ls -> governing crule ls n = RPol (PMap m d).
  Proof. intros s ls [H _] [A _]. unfold governing. rewrite A, H. reflexivity. Qed.
  Lemma gov_n_ : forall s ls, Pair s -> Agree s ls -> governing crule ls n_ = RPol (PShadow m).
  Proof. intros s ls [_ H] [A _]. unfold governing. rewrite A, H. reflexivity. Qed.

  Ltac frame := intros k K1 K2; simpl; rewrite ?assoc_aset, ?assoc_adel, ?K1, ?K2; reflexivity.

  Definition Good (s : state) (ls : lstate) (o : op) : Prop :=
    law_step crule ls o (snd (step pt s o)) = [] /\ Pair (fst (step pt s o)) /\
    Agree (fst (step pt s o)) (law_next crule ls o (snd (step pt s o))).

  Lemma pair_get_n : forall s ls, Pair s -> Agree s ls -> Good s ls (OGet n).
  Proof.
    intros s ls HP HA. unfold Good. pose proof HA as [Ai Ao]. pose proof HP as [P1 P2].
    destruct nn_ as [N1 N2].
    assert (LS : forall ob, law_step crule ls (OGet n) ob =
                 let '(w, ws) := demand_m crule ls (RPol (PMap m d)) (assoc n (s_od s)) (OGet n) in
                 chk (10 * 6 + 1) (class_ok w (o_out ob)) ++ chk (10 * 6 + 2) (value_ok w (o_out ob))
                 ++ chk (10 * 6 + 3) (stored_ok ws (o_stored ob))).
    { intro ob. unfold law_step. cbn [op_name]. rewrite (gov_n s ls HP HA), Ao. reflexivity. }
    simpl step. unfold get_with. destruct (assoc n (s_od s)) as [v|] eqn:Eo.
    - split; [|split].
      + rewrite LS. unfold demand_m. cbn [op_name]. rewrite (gov_n_ s ls HP HA). cbn. rewrite Z.eqb_refl. reflexivity.
      + exact HP.
      + apply (agree_after s ls (OGet n) s (Val v)); auto.
    - rewrite P1. unfold getattr_m, getattr0, getattr_map.
      rewrite (post_map_pair _ d wd (Pair_set_od s _ HP) d_key).
      split; [|split].
      + rewrite LS. unfold demand_m. cbn [op_name]. rewrite (gov_n_ s ls HP HA). cbn. rewrite Z.eqb_refl. reflexivity.
      + exact HP.
      + match goal with |- Agree (fst (out ?S _ ?X)) _ => apply (agree_after s ls (OGet n) S X); auto end.
        frame.
  Qed.

  Lemma LS_n : forall s ls o ob, Pair s -> Agree s ls -> is_access o = true -> op_name o = n ->
    law_step crule ls o ob =
    let '(w, ws) := demand_m crule ls (RPol (PMap m d)) (assoc n (s_od s)) o in
    chk (10 * 6 + 1) (class_ok w (o_out ob)) ++ chk (10 * 6 + 2) (value_ok w (o_out ob))
    ++ chk (10 * 6 + 3) (stored_ok ws (o_stored ob)).
  Proof.
    intros s ls o ob HP HA Ha Hn. pose proof HA as [Ai Ao]. unfold law_step. rewrite Hn.
    rewrite (gov_n s ls HP HA), Ao. destruct o; try discriminate Ha; reflexivity.
  Qed.
  Lemma LS_n_ : forall s ls o ob, Pair s -> Agree s ls -> is_access o = true -> op_name o = n_ ->
    law_step crule ls o ob =
    let '(w, ws) := demand_m crule ls (RPol (PShadow m)) (assoc n_ (s_od s)) o in
    chk (10 * 1 + 1) (class_ok w (o_out ob)) ++ chk (10 * 1 + 2) (value_ok w (o_out ob))
    ++ chk (10 * 1 + 3) (stored_ok ws (o_stored ob)).
  Proof.
    intros s ls o ob HP HA Ha Hn. pose proof HA as [Ai Ao]. unfold law_step. rewrite Hn.
    rewrite (gov_n_ s ls HP HA), Ao. destruct o; try discriminate Ha; reflexivity.
  Qed.

  Lemma pair_del_n : forall s ls, Pair s -> Agree s ls -> Good s ls (ODel n).
  Proof.
    intros s ls HP HA. unfold Good. pose proof HP as [P1 P2]. destruct nn_ as [N1 N2].
    simpl step. unfold lookup_set. rewrite P1. cbn [delattr].
    split; [|split].
    - rewrite (LS_n s ls (ODel n) _ HP HA eq_refl eq_refl). unfold demand_m. cbn [op_name].
      rewrite (gov_n_ s ls HP HA). cbn. rewrite assoc_adel, name_eqb_refl. reflexivity.
    - exact HP.
    - match goal with |- Agree (fst (out ?S _ ?X)) _ => apply (agree_after s ls (ODel n) S X); auto end. frame.
  Qed.

  Lemma pair_set_n_ : forall s ls v, Pair s -> Agree s ls -> Good s ls (OSet n_ v).
  Proof.
    intros s ls v HP HA. unfold Good. pose proof HP as [P1 P2]. destruct nn_ as [N1 N2].
    simpl step. unfold lookup_set. rewrite P2. cbn [setattr_m setattr].
    split; [|split].
    - rewrite (LS_n_ s ls (OSet n_ v) _ HP HA eq_refl eq_refl). cbn. rewrite assoc_aset, name_eqb_refl. cbn.
      rewrite Z.eqb_refl. reflexivity.
    - exact HP.
    - match goal with |- Agree (fst (out ?S _ ?X)) _ => apply (agree_after s ls (OSet n_ v) S X); auto end. frame.
  Qed.

  Lemma pair_del_n_ : forall s ls, Pair s -> Agree s ls -> Good s ls (ODel n_).
  Proof.
    intros s ls HP HA. unfold Good. pose proof HP as [P1 P2]. destruct nn_ as [N1 N2].
    simpl step. unfold lookup_set. rewrite P2. cbn [delattr].
    split; [|split].
    - rewrite (LS_n_ s ls (ODel n_) _ HP HA eq_refl eq_refl). cbn. rewrite assoc_adel, name_eqb_refl. reflexivity.
    - exact HP.
    - match goal with |- Agree (fst (out ?S _ ?X)) _ => apply (agree_after s ls (ODel n_) S X); auto end. frame.
  Qed.

  Lemma pair_get_n_ : forall s ls, Pair s -> Agree s ls -> Good s ls (OGet n_).
  Proof.
    intros s ls HP HA. unfold Good. pose proof HA as [Ai Ao]. pose proof HP as [P1 P2].
    destruct nn_ as [N1 N2].
    simpl step. unfold get_with. destruct (assoc n_ (s_od s)) as [v|] eqn:Eo.
    - split; [|split].
      + rewrite (LS_n_ s ls (OGet n_) _ HP HA eq_refl eq_refl). cbn. rewrite Eo. cbn. rewrite Z.eqb_refl. reflexivity.
      + exact HP.
      + apply (agree_after s ls (OGet n_) s (Val v)); auto.
    - rewrite P2. unfold getattr_m. rewrite removelast_snoc. unfold get_with.
      assert (LSx : forall ob, law_step crule ls (OGet n_) ob =
                match zassoc (match assoc n (s_od s) with Some x => x | None => d end) m with
                | Some w => chk 11 (class_ok (WVal w) (o_out ob)) ++ chk 12 (value_ok (WVal w) (o_out ob)) ++ []
                | None => []
                end).
      { intro ob. rewrite (LS_n_ s ls (OGet n_) _ HP HA eq_refl eq_refl). unfold demand_m. cbn [op_name].
        rewrite Eo, removelast_snoc, (gov_n s ls HP HA), Ao.
        destruct (zassoc (match assoc n (s_od s) with Some x => x | None => d end) m); reflexivity. }
      destruct (assoc n (s_od s)) as [x|] eqn:En.
      + (* the value of name is there *)
        set (r := out s n (Val x)). unfold out in r. subst r. cbn [o_out].
        match goal with |- context [match ?Z with Some _ => _ | None => out s n_ _ end] => destruct Z as [w|] eqn:Ez end.
        * split; [|split].
          -- rewrite LSx. simpl. rewrite Z.eqb_refl. reflexivity.
          -- exact HP.
          -- match goal with |- Agree (fst (out ?S _ ?X)) _ => apply (agree_after s ls (OGet n_) S X); auto end. frame.
        * split; [|split].
          -- rewrite LSx. reflexivity.
          -- exact HP.
          -- match goal with |- Agree (fst (out ?S _ ?X)) _ => apply (agree_after s ls (OGet n_) S X); auto end.
      + (* the default of name is materialised first (and post_setattr writes name_) *)
        rewrite P1. unfold getattr0, getattr_map.
        rewrite (post_map_pair _ d wd (Pair_set_od s _ HP) d_key).
        match goal with |- context [let '(s1, ob) := out ?S n (Val d) in _] => set (r := out S n (Val d)) end.
        unfold out in r. subst r. cbn [o_out]. rewrite d_key.
        split; [|split].
        * rewrite LSx. simpl. rewrite ?d_key. simpl. rewrite Z.eqb_refl. reflexivity.
        * exact HP.
        * match goal with |- Agree (fst (out ?S _ ?X)) _ => apply (agree_after s ls (OGet n_) S X); auto end. frame.
  Qed.

  (* setattr_trait of the Map: whatever happens, only name and name_ change in obj.__dict__ *)
  Lemma setattr_m_shape : forall s v, Pair s ->
    exists s' x, setattr_m pt s n (PMap m d) v = out s' n x /\ s_itd s' = s_itd s /\
      (forall k, name_eqb n k = false -> name_eqb n_ k = false -> assoc k (s_od s') = assoc k (s_od s)).
  Proof.
    intros s v HP. unfold setattr_m.
    destruct (negb (Z.eqb v VUndef) && match zassoc v m with Some _ => false | None => true end).
    { do 2 eexists. split; [reflexivity|split; [reflexivity|frame]]. }
    destruct (assoc n (s_od s)) as [o|] eqn:En.
    - destruct (Z.eqb o v).
      { do 2 eexists. split; [reflexivity|split; [reflexivity|frame]]. }
      destruct (zassoc v m) as [w|] eqn:Ez.
      + rewrite (post_map_pair _ v w (Pair_set_od s _ HP) Ez).
        do 2 eexists. split; [reflexivity|split; [reflexivity|frame]].
      + unfold post_map. rewrite Ez.
        do 2 eexists. split; [reflexivity|split; [reflexivity|frame]].
    - rewrite (post_map_pair _ d wd (Pair_set_od s _ HP) d_key).
      destruct (Z.eqb d v).
      { do 2 eexists. split; [reflexivity|split; [reflexivity|frame]]. }
      destruct (zassoc v m) as [w|] eqn:Ez.
      + match goal with |- context [post_map pt ?S n m v] =>
          rewrite (post_map_pair S v w (Pair_set_od _ _ (Pair_set_od s _ HP)) Ez) end.
        do 2 eexists. split; [reflexivity|split; [reflexivity|frame]].
      + unfold post_map. rewrite Ez.
        do 2 eexists. split; [reflexivity|split; [reflexivity|frame]].
  Qed.

  Lemma pair_set_n : forall s ls v, Pair s -> Agree s ls -> Good s ls (OSet n v).
  Proof.
    intros s ls v HP HA. unfold Good. pose proof HP as [P1 P2]. destruct nn_ as [N1 N2].
    simpl step. unfold lookup_set. rewrite P1.
    assert (HL : law_step crule ls (OSet n v) (snd (setattr_m pt s n (PMap m d) v)) = []).
    { rewrite (LS_n s ls (OSet n v) _ HP HA eq_refl eq_refl). unfold demand_m. cbn [op_name].
      rewrite (gov_n_ s ls HP HA). destruct (Z.eqb v VUndef) eqn:Eu; [reflexivity|].
      unfold setattr_m. rewrite Eu. destruct (zassoc v m) as [w|] eqn:Ez; cbn [negb andb].
      - (* a key: accepted, and it is the value of name afterwards *)
        destruct (assoc n (s_od s)) as [o|] eqn:En.
        + destruct (Z.eqb o v).
          * cbn. rewrite assoc_aset, name_eqb_refl. cbn. rewrite Z.eqb_refl. reflexivity.
          * rewrite (post_map_pair _ v w (Pair_set_od s _ HP) Ez).
            cbn. rewrite !assoc_aset, N2, name_eqb_refl. cbn. rewrite Z.eqb_refl. reflexivity.
        + rewrite (post_map_pair _ d wd (Pair_set_od s _ HP) d_key). destruct (Z.eqb d v).
          * cbn. rewrite assoc_aset, name_eqb_refl. cbn. rewrite Z.eqb_refl. reflexivity.
          * match goal with |- context [post_map pt ?S n m v] =>
              rewrite (post_map_pair S v w (Pair_set_od _ _ (Pair_set_od s _ HP)) Ez) end.
            cbn. rewrite !assoc_aset, N2, name_eqb_refl. cbn. rewrite Z.eqb_refl. reflexivity.
      - (* not a key: TraitError, nothing changes *)
        cbn. rewrite opt_eqb_refl. reflexivity. }
    destruct (setattr_m_shape s v HP) as (s' & x & E & Hi & Hf). rewrite E in *.
    split; [exact HL|split].
    - unfold Pair. cbn [fst out]. rewrite Hi. exact HP.
    - apply (agree_after s ls (OSet n v) s' x); auto.
  Qed.

  (* every get / set / del on name or name_ *)
  Lemma pair_step : forall s ls o, Pair s -> Agree s ls -> pair_op o = true -> Good s ls o.
  Proof.
    intros s ls o HP HA Ho. unfold pair_op in Ho. apply andb_true_iff in Ho. destruct Ho as [Ha Hn].
    apply orb_true_iff in Hn.
    destruct o as [k|k v|k|k q|k]; try discriminate Ha; cbn [op_name] in Hn;
      destruct Hn as [Hn|Hn]; apply name_eqb_eq in Hn; subst k;
      auto using pair_get_n, pair_get_n_, pair_set_n, pair_set_n_, pair_del_n, pair_del_n_.
  Qed.

  Lemma pair_histories : forall ops s ls i, Pair s -> Agree s ls -> forallb pair_op ops = true ->
    law_hist crule i ls (run pt s ops) = [].
  Proof.
    induction ops as [|o r IH]; intros s ls i HP HA Hf; simpl; auto.
    simpl in Hf. apply andb_true_iff in Hf. destruct Hf as [Ho Hr].
    destruct (pair_step s ls o HP HA Ho) as (A & B & C).
    destruct (step pt s o) as [s' ob]. simpl in *. rewrite A. simpl. apply IH; auto.
  Qed.

  (* re-reading true values never breaks an agreement that holds outside name and name_ *)
  Lemma agree_od_gen : forall (l od od' : list (name * Z)) N,
    (N = n \/ N = n_) -> (forall k, assoc k l = assoc k od) ->
    (forall k, name_eqb n k = false -> name_eqb n_ k = false -> assoc k od' = assoc k od) ->
    (N = n_ \/ (assoc n od' = assoc n od /\ assoc n_ od' = assoc n_ od) \/ N = n) ->
    forall k,
      assoc k (let od2 := resync (N ++ [US]) (assoc (N ++ [US]) od') (resync N (assoc N od') l) in
               if ends_us N then resync (removelast N) (if ends_us N then assoc (removelast N) od' else None) od2
               else od2) = assoc k od'.
  Proof.
    intros l od od' N HN Ao Hf _ k. cbv zeta.
    assert (Base : forall j, assoc j (resync (N ++ [US]) (assoc (N ++ [US]) od') (resync N (assoc N od') l)) =
                     if name_eqb (N ++ [US]) j then assoc j od'
                     else if name_eqb N j then assoc j od' else assoc j l)
      by (intro j; rewrite !resync_true; reflexivity).
    destruct HN as [HN|HN]; subst N.
    - assert (G : assoc k (resync n_ (assoc n_ od') (resync n (assoc n od') l)) = assoc k od').
      { rewrite Base. destruct (name_eqb n_ k) eqn:E1; auto. destruct (name_eqb n k) eqn:E2; auto.
        rewrite Ao. symmetry. apply Hf; auto. }
      destruct (ends_us n); [|exact G]. rewrite resync_true. destruct (name_eqb (removelast n) k); auto.
    - rewrite ends_us_snoc, removelast_snoc, resync_true.
      destruct (name_eqb n k) eqn:E2; auto. rewrite Base.
      destruct (name_eqb (n_ ++ [US]) k); auto. destruct (name_eqb n_ k) eqn:E1; auto.
      rewrite Ao. symmetry. apply Hf; auto.
  Qed.

  (* add_trait(name, Map(m, d)): accepted, installs the pair, and the bookkeeping agrees *)
  Lemma pair_add : forall s ls, Agree s ls ->
    law_step crule ls (OAdd n (PMap m d)) (snd (step pt s (OAdd n (PMap m d)))) = [] /\
    Pair (fst (step pt s (OAdd n (PMap m d)))) /\
    Agree (fst (step pt s (OAdd n (PMap m d))))
          (law_next crule ls (OAdd n (PMap m d)) (snd (step pt s (OAdd n (PMap m d))))).
  Proof.
    intros s ls [Ai Ao]. destruct (add_mapped_installs pt s n m d) as (A & B & C).
    split; [reflexivity|split; [split; assumption|]].
    unfold Agree, law_next. simpl step. unfold out. cbn [fst snd o_out o_stored o_shadow o_base l_itd l_od op_name s_itd s_od].
    split.
    - simpl. rewrite Ai. reflexivity.
    - intro k. apply (agree_od_gen (l_od ls) (s_od s) (s_od s) n); auto.
  Qed.

  (* remove_trait(name): returns True, leaves nothing behind, and the bookkeeping agrees *)
  Lemma pair_rem : forall s ls, Pair s -> Agree s ls ->
    law_step crule ls (ORem n) (snd (step pt s (ORem n))) = [] /\
    Agree (fst (step pt s (ORem n))) (law_next crule ls (ORem n) (snd (step pt s (ORem n)))).
  Proof.
    intros s ls HP HA. pose proof HP as [P1 P2]. pose proof HA as [Ai Ao]. destruct nn_ as [N1 N2].
    assert (Hs : assoc n_ (s_itd s) <> None \/ amem n_ (s_ctd s) = true) by (left; congruence).
    destruct (remove_mapped_clears pt s n m d P1 Hs) as (R0 & R1 & R2 & R3 & R4).
    destruct (step_out pt s (ORem n)) as (s' & x & E). rewrite E in *. cbn [fst snd out o_out] in *. subst x.
    assert (Hitd : s_itd s' = adel n (adel n_ (s_itd s))).
    { assert (E' : s' = fst (step pt s (ORem n))) by (rewrite E; reflexivity). rewrite E'.
      simpl. rewrite P1. simpl. unfold rem1 at 2. rewrite P2. unfold rem1. simpl.
      rewrite assoc_adel, N2, P1. reflexivity. }
    assert (Hod : forall k, name_eqb n k = false -> name_eqb n_ k = false -> assoc k (s_od s') = assoc k (s_od s)).
    { assert (E' : s' = fst (step pt s (ORem n))) by (rewrite E; reflexivity). rewrite E'.
      intros k K1 K2. simpl. rewrite P1. simpl. unfold rem1 at 2. rewrite P2. unfold rem1. simpl.
      rewrite assoc_adel, N2, P1. simpl. rewrite !assoc_adel, K1, K2. reflexivity. }
    split.
    - unfold law_step. cbn [op_name o_out o_stored o_shadow]. unfold amem. rewrite Ai, P1. cbn.
      rewrite R3, R4. reflexivity.
    - unfold Agree, law_next. cbn [op_name o_out o_stored o_shadow o_base l_itd l_od].
      unfold found_trait. rewrite Ai, P1. cbn [subs map fst fold_left]. split.
      + rewrite Hitd. reflexivity.
      + intro k. apply (agree_od_gen (l_od ls) (s_od s) (s_od s') n); auto.
  Qed.

  Lemma pair_histories_rem : forall ops s ls i, Pair s -> Agree s ls -> forallb pair_op ops = true ->
    law_hist crule i ls (run pt s (ops ++ [ORem n])) = [].
  Proof.
    induction ops as [|o r IH]; intros s ls i HP HA Hf.
    - destruct (pair_rem s ls HP HA) as [A _]. cbn [app run].
      destruct (step pt s (ORem n)) as [s' ob]. cbn [law_hist snd fst run] in *. rewrite A. reflexivity.
    - simpl in Hf. apply andb_true_iff in Hf. destruct Hf as [Ho Hr].
      destruct (pair_step s ls o HP HA Ho) as (A & B & C). simpl.
      destruct (step pt s o) as [s' ob]. simpl in *. rewrite A. simpl. apply IH; auto.
  Qed.

  (* the whole life of a mapped instance trait, from any state whose bookkeeping agrees *)
  Lemma mapped_life : forall ops s ls i, Agree s ls -> forallb pair_op ops = true ->
    law_hist crule i ls (run pt s (OAdd n (PMap m d) :: ops)) = [] /\
    law_hist crule i ls (run pt s (OAdd n (PMap m d) :: ops ++ [ORem n])) = [].
  Proof.
    intros ops s ls i HA Hf. destruct (pair_add s ls HA) as (A & B & C).
    cbn [run app]. destruct (step pt s (OAdd n (PMap m d))) as [s' ob].
    cbn [law_hist snd fst] in *. rewrite A. cbn [map app].
    split; [apply pair_histories|apply pair_histories_rem]; auto.
  Qed.

  (* the rest of the object is untouched by operations on the pair *)
  Ltac pair_crush P1 P2 :=
    repeat (simpl; rewrite ?P1, ?P2, ?d_key;
            match goal with
            | |- context [zassoc ?a ?b] => destruct (zassoc a b) eqn:?
            | |- context [assoc ?a (s_od ?t)] => destruct (assoc a (s_od t)) eqn:?
            | |- context [Z.eqb ?a ?b] => destruct (Z.eqb a b) eqn:?
            end).
  Lemma pair_step_rest : forall s o, Pair s -> pair_op o = true ->
    s_ctd (fst (step pt s o)) = s_ctd s /\
    (forall k, name_eqb n k = false -> name_eqb n_ k = false ->
       assoc k (s_od (fst (step pt s o))) = assoc k (s_od s)).
  Proof.
    intros s o [P1 P2] Ho. unfold pair_op in Ho. apply andb_true_iff in Ho. destruct Ho as [Ha Hn].
    apply orb_true_iff in Hn.
    destruct o as [k|k v|k|k q|k]; try discriminate Ha; cbn [op_name] in Hn;
      destruct Hn as [Hn|Hn]; apply name_eqb_eq in Hn; subst k;
      unfold step, get_with, lookup_set, getattr_m, getattr0, getattr_map, setattr_m, post_map,
             nested_set, lookup_set, getattr, setattr, delattr, get_with, out;
      rewrite ?removelast_snoc; pair_crush P1 P2; simpl; rewrite ?P1, ?P2, ?d_key; simpl;
      (split; [reflexivity|intros j K1 K2; simpl; rewrite ?assoc_aset, ?assoc_adel, ?K1, ?K2; reflexivity]).
  Qed.
End Pair.

Lemma Agree_init : forall ct, Agree (init_state ct) l_init.
Proof. intro ct. split; reflexivity. Qed.

(* a fresh object of any class of any hierarchy, either reading of "inherited" *)
Lemma mapped_life_fresh : forall (crule : name -> rule) ct pt n m d wd ops i,
  zassoc d m = Some wd -> forallb (pair_op n) ops = true ->
  law_hist crule i l_init (run pt (init_state ct) (OAdd n (PMap m d) :: ops)) = [] /\
  law_hist crule i l_init (run pt (init_state ct) (OAdd n (PMap m d) :: ops ++ [ORem n])) = [].
Proof. intros. eapply mapped_life; eauto using Agree_init. Qed.

(* after any clean history on plain traits the bookkeeping agrees, so the above applies there too *)
Lemma Inv_Agree : forall ct0 pt s ls, Inv ct0 pt s ls -> Agree s ls.
Proof. intros ct0 pt s ls H. split; [apply (inv_itd _ _ _ _ H)|apply (inv_od _ _ _ _ H)]. Qed.

(* ---- a clean history on plain traits first, then the life of a mapped trait ---- *)
Fixpoint lfinal (crule : name -> rule) (ls : lstate) (h : list (op * obs)) : lstate :=
  match h with [] => ls | (o, ob) :: r => lfinal crule (law_next crule ls o ob) r end.

Lemma law_hist_app : forall crule h1 h2 i ls,
  law_hist crule i ls (h1 ++ h2) =
  law_hist crule i ls h1 ++ law_hist crule (i + Z.of_nat (length h1)) (lfinal crule ls h1) h2.
Proof.
  intros crule. induction h1 as [|[o ob] r IH]; intros h2 i ls.
  - simpl. rewrite Z.add_0_r. reflexivity.
  - cbn [app law_hist lfinal length]. rewrite IH, <- app_assoc. do 3 f_equal. lia.
Qed.

Lemma run_app : forall pt a b s, run pt s (a ++ b) = run pt s a ++ run pt (final_state pt s a) b.
Proof.
  intros pt. induction a as [|o r IH]; intros b s; [reflexivity|].
  cbn [app run final_state]. destruct (step pt s o) as [s' ob]. cbn [fst]. rewrite IH. reflexivity.
Qed.

Lemma run_Inv_final : forall ct0 pt ops s ls, Inv ct0 pt s ls -> clean_run pt s ops = true ->
  Inv ct0 pt (final_state pt s ops) (lfinal (model_rule ct0 pt) ls (run pt s ops)).
Proof.
  intros ct0 pt. induction ops as [|o r IH]; intros s ls HI Hc; [exact HI|].
  simpl in Hc. apply andb_true_iff in Hc. destruct Hc as [H1 H2].
  destruct (step_ok ct0 pt s ls o HI H1) as [_ Hn].
  cbn [run final_state]. destruct (step pt s o) as [s' ob]. cbn [fst snd lfinal] in *. apply IH; auto.
Qed.

Lemma plain_then_mapped_life : forall ct0 pt pre n m d wd ops i,
  plain_tab ct0 = true -> plain_tab pt = true ->
  clean_run pt (init_state ct0) pre = true ->
  zassoc d m = Some wd -> forallb (pair_op n) ops = true ->
  law_hist (model_rule ct0 pt) i l_init (run pt (init_state ct0) (pre ++ OAdd n (PMap m d) :: ops)) = [] /\
  law_hist (model_rule ct0 pt) i l_init (run pt (init_state ct0) (pre ++ OAdd n (PMap m d) :: ops ++ [ORem n])) = [].
Proof.
  intros ct0 pt pre n m d wd ops i P1 P2 Hc Hd Hf.
  pose proof (Inv_init ct0 pt P1 P2) as HI0.
  pose proof (run_law_inv ct0 pt pre _ _ i HI0 Hc) as Hpre.
  pose proof (run_Inv_final ct0 pt pre _ _ HI0 Hc) as HIf.
  pose proof (Inv_Agree _ _ _ _ HIf) as HA.
  destruct (mapped_life (model_rule ct0 pt) pt n m d wd Hd ops _ _
              (i + Z.of_nat (length (run pt (init_state ct0) pre))) HA Hf) as [A B].
  rewrite !run_app, !law_hist_app, Hpre. split; [exact A|exact B].
Qed.

Lemma plain_then_mapped_life_spec : forall h c pre n m d wd ops i,
  plain_class h c = true ->
  let t := class_tables h c in
  clean_run (snd t) (init_state (fst t)) pre = true ->
  zassoc d m = Some wd -> forallb (pair_op n) ops = true ->
  law_hist (spec_rule h c) i l_init (run (snd t) (init_state (fst t)) (pre ++ OAdd n (PMap m d) :: ops)) = [] /\
  law_hist (spec_rule h c) i l_init (run (snd t) (init_state (fst t)) (pre ++ OAdd n (PMap m d) :: ops ++ [ORem n])) = [].
Proof.
  intros h c pre n m d wd ops i Hp t Hc Hd Hf. apply andb_true_iff in Hp. destruct Hp as [P1 P2].
  rewrite <- !(law_hist_ext _ _ (class_tables_rule h c)).
  apply (plain_then_mapped_life (fst t) (snd t) pre n m d wd ops i); auto.
Qed.

(* ---- after remove_trait the object is again in a state of the plain-trait invariant, so
        plain phases and mapped lives can alternate ---- *)
Lemma In_adel : forall {A} (l : list (name * A)) a k p, In (k, p) (adel a l) -> In (k, p) l /\ k <> a.
Proof.
  induction l as [|[k0 v] r IH]; intros a k p H; simpl in *; [contradiction|].
  destruct (name_eqb k0 a) eqn:E.
  - apply IH in H. tauto.
  - destruct H as [H|H].
    + inversion H; subst. split; auto. intro; subst. rewrite name_eqb_refl in E. discriminate.
    + apply IH in H. tauto.
Qed.
Lemma In_aset : forall {A} (l : list (name * A)) a q k p, In (k, p) (aset a q l) -> (k = a /\ p = q) \/ In (k, p) l.
Proof.
  induction l as [|[k0 v] r IH]; intros a q k p H; simpl in *.
  - destruct H as [H|H]; [inversion H; auto|contradiction].
  - destruct (name_eqb k0 a) eqn:E.
    + apply name_eqb_eq in E. subst. destruct H as [H|H]; [inversion H; auto|auto].
    + destruct H as [H|H]; [auto|]. apply IH in H. tauto.
Qed.
Lemma plain_tab_In : forall l, plain_tab l = true <-> (forall k p, In (k, p) l -> plainp p = true).
Proof.
  intro l. unfold plain_tab. rewrite forallb_forall. split.
  - intros H k p Hi. apply (H (k, p) Hi).
  - intros H [k p] Hi. apply (H k p Hi).
Qed.

Section Phase.
  Variable ct0 : ctab.
  Variable pt : ptab.
  Variable n : name.
  Variable m : list (Z * Z).
  Variable d wd : Z.
  Hypothesis d_key : zassoc d m = Some wd.
  Notation n_ := (n ++ [US]).
  Notation crule := (model_rule ct0 pt).

  (* the state during the life of the mapped trait, relative to the state s0 before add_trait *)
  Definition During (s0 s : state) : Prop :=
    s_ctd s = s_ctd s0 /\
    s_itd s = aset n (PMap m d) (aset n_ (PShadow m) (s_itd s0)) /\
    (forall k, name_eqb n k = false -> name_eqb n_ k = false -> assoc k (s_od s) = assoc k (s_od s0)).

  Lemma During_Pair : forall s0 s, During s0 s -> Pair n m d s.
  Proof.
    intros s0 s (_ & Hi & _). destruct (nn_ n) as [N1 N2]. unfold Pair. rewrite Hi.
    rewrite !assoc_aset, name_eqb_refl, N1, name_eqb_refl. auto.
  Qed.

  Lemma During_add : forall s0, During s0 (fst (step pt s0 (OAdd n (PMap m d)))).
  Proof. intro s0. unfold During. simpl. auto. Qed.

  Lemma During_step : forall s0 s o, During s0 s -> pair_op n o = true -> During s0 (fst (step pt s o)).
  Proof.
    intros s0 s o HD Ho. pose proof (During_Pair _ _ HD) as HP. destruct HD as (Hc & Hi & Ho').
    destruct (pair_step_rest pt n m d wd d_key s o HP Ho) as [Rc Ro].
    assert (Ha : is_access o = true) by (unfold pair_op in Ho; apply andb_true_iff in Ho; tauto).
    unfold During. rewrite Rc, (step_itd_access pt s o Ha). repeat split; auto.
    intros k K1 K2. rewrite Ro; auto.
  Qed.

  (* remove_trait at the end: the plain-trait invariant holds again *)
  Lemma Inv_after_life : forall s0 ls0 s ls, Inv ct0 pt s0 ls0 -> During s0 s -> Agree s ls ->
    Inv ct0 pt (fst (step pt s (ORem n))) (law_next crule ls (ORem n) (snd (step pt s (ORem n)))).
  Proof.
    intros s0 ls0 s ls HI0 HD HA. pose proof (During_Pair _ _ HD) as HP. pose proof HP as [P1 P2].
    destruct (nn_ n) as [N1 N2].
    destruct (pair_rem crule pt n m d s ls HP HA) as [_ HA'].
    assert (Hs : assoc n_ (s_itd s) <> None \/ amem n_ (s_ctd s) = true) by (left; congruence).
    destruct (remove_mapped_clears pt s n m d P1 Hs) as (_ & R1 & R2 & R3 & R4).
    set (s' := fst (step pt s (ORem n))) in *.
    set (ls' := law_next crule ls (ORem n) (snd (step pt s (ORem n)))) in *.
    destruct HD as (Hc & Hi & Ho). destruct HA' as [Ai' Ao'].
    assert (Es : s_ctd s' = s_ctd s /\ s_itd s' = adel n (adel n_ (s_itd s)) /\
                 (forall k, name_eqb n k = false -> name_eqb n_ k = false -> assoc k (s_od s') = assoc k (s_od s))).
    { unfold s'. simpl. rewrite P1. simpl. unfold rem1 at 2 4 6. rewrite P2. unfold rem1. simpl.
      rewrite assoc_adel, N2, P1. simpl. repeat split; auto.
      intros k K1 K2. rewrite !assoc_adel, K1, K2. reflexivity. }
    destruct Es as (Ec & Ei & Eo).
    destruct (inv_plain4 _ _ _ _ HI0) as (Q1 & Q2 & Q3 & Q4).
    assert (Gov : forall k, name_eqb n k = false -> name_eqb n_ k = false -> gov ct0 pt s' k = gov ct0 pt s0 k).
    { intros k K1 K2. unfold gov. rewrite Ei, Hi, !assoc_adel, !assoc_aset, K1, K2. reflexivity. }
    constructor.
    - exact Ai'.
    - exact Ao'.
    - intros k p Hk. rewrite Ec, Hc. apply (inv_c1 _ _ _ _ HI0 _ _ Hk).
    - intros k p Hk. rewrite Ec, Hc in Hk. apply (inv_c2 _ _ _ _ HI0 _ _ Hk).
    - intros k v Hk. destruct (name_eqb n k) eqn:K1; [apply name_eqb_eq in K1; subst; congruence|].
      destruct (name_eqb n_ k) eqn:K2; [apply name_eqb_eq in K2; subst; congruence|].
      rewrite Gov by auto. rewrite Eo, Ho in Hk by auto. apply (inv_st _ _ _ _ HI0 _ _ Hk).
    - apply plain4; auto; [|rewrite Ec, Hc; exact Q4].
      apply plain_tab_In. intros k p Hin. rewrite Ei, Hi in Hin.
      apply In_adel in Hin. destruct Hin as [Hin K1]. apply In_adel in Hin. destruct Hin as [Hin K2].
      apply In_aset in Hin. destruct Hin as [[E _]|Hin]; [contradiction|].
      apply In_aset in Hin. destruct Hin as [[E _]|Hin]; [contradiction|].
      apply (proj1 (plain_tab_In _) Q3 _ _ Hin).
  Qed.
End Phase.

(* ---- histories that alternate clean plain phases and lives of mapped traits ---- *)
Lemma final_state_app : forall pt a b s, final_state pt s (a ++ b) = final_state pt (final_state pt s a) b.
Proof. intros pt. induction a as [|o r IH]; intros b s; [reflexivity|]. cbn [app final_state]. apply IH. Qed.
Lemma lfinal_app : forall crule h1 h2 ls, lfinal crule ls (h1 ++ h2) = lfinal crule (lfinal crule ls h1) h2.
Proof.
  intros crule. induction h1 as [|[o ob] r IH]; intros h2 ls; [reflexivity|]. cbn [app lfinal]. apply IH.
Qed.

Section Life.
  Variable ct0 : ctab.
  Variable pt : ptab.
  Notation crule := (model_rule ct0 pt).

  (* the state and the law's bookkeeping at the end of a complete life *)
  Lemma life_tail_final : forall n m d wd, zassoc d m = Some wd ->
    forall s0 ls0, Inv ct0 pt s0 ls0 ->
    forall ops s ls, During n m d s0 s -> Agree s ls -> forallb (pair_op n) ops = true ->
    Inv ct0 pt (final_state pt s (ops ++ [ORem n])) (lfinal crule ls (run pt s (ops ++ [ORem n]))).
  Proof.
    intros n m d wd Hd s0 ls0 HI0. induction ops as [|o r IH]; intros s ls HD HA Hf.
    - cbn [app run final_state]. pose proof (Inv_after_life ct0 pt n m d s0 ls0 s ls HI0 HD HA) as H.
      destruct (step pt s (ORem n)) as [s' ob]. exact H.
    - simpl in Hf. apply andb_true_iff in Hf. destruct Hf as [Ho Hr].
      pose proof (During_Pair n m d _ _ HD) as HP.
      destruct (pair_step crule pt n m d wd Hd s ls o HP HA Ho) as (_ & _ & HA').
      pose proof (During_step pt n m d wd Hd s0 s o HD Ho) as HD'.
      cbn [app run final_state]. destruct (step pt s o) as [s' ob]. cbn [fst snd lfinal] in *.
      apply IH; auto.
  Qed.

  Lemma life_final : forall n m d wd ops s0 ls0, zassoc d m = Some wd -> Inv ct0 pt s0 ls0 ->
    forallb (pair_op n) ops = true ->
    Inv ct0 pt (final_state pt s0 (OAdd n (PMap m d) :: ops ++ [ORem n]))
               (lfinal crule ls0 (run pt s0 (OAdd n (PMap m d) :: ops ++ [ORem n]))).
  Proof.
    intros n m d wd ops s0 ls0 Hd HI0 Hf.
    destruct (pair_add crule pt n m d s0 ls0 (Inv_Agree _ _ _ _ HI0)) as (_ & _ & HA).
    pose proof (During_add pt n m d s0) as HD.
    cbn [run final_state]. destruct (step pt s0 (OAdd n (PMap m d))) as [s1 ob]. cbn [fst snd lfinal] in *.
    eapply life_tail_final; eauto.
  Qed.

  Inductive seg :=
  | SPlain (ops : list op)                                          (* operations on plain traits *)
  | SMap (n : name) (m : list (Z * Z)) (d : Z) (ops : list op).      (* add_trait(n, Map(m, d)); ops on n, n_; remove_trait(n) *)
  Definition seg_ops (g : seg) : list op :=
    match g with SPlain ops => ops | SMap n m d ops => OAdd n (PMap m d) :: ops ++ [ORem n] end.
  Definition seg_ok (s : state) (g : seg) : bool :=
    match g with
    | SPlain ops => clean_run pt s ops
    | SMap n m d ops => (match zassoc d m with Some _ => true | None => false end) && forallb (pair_op n) ops
    end.
  Fixpoint segs_ok (s : state) (gs : list seg) : bool :=
    match gs with
    | [] => true
    | g :: r => seg_ok s g && segs_ok (final_state pt s (seg_ops g)) r
    end.

  Lemma segs_law : forall gs s ls i, Inv ct0 pt s ls -> segs_ok s gs = true ->
    law_hist crule i ls (run pt s (flat_map seg_ops gs)) = [] /\
    Inv ct0 pt (final_state pt s (flat_map seg_ops gs)) (lfinal crule ls (run pt s (flat_map seg_ops gs))).
  Proof.
    induction gs as [|g r IH]; intros s ls i HI Hok; [split; [reflexivity|exact HI]|].
    simpl in Hok. apply andb_true_iff in Hok. destruct Hok as [Hg Hr].
    cbn [flat_map]. rewrite run_app, law_hist_app, final_state_app, lfinal_app.
    assert (Hseg : law_hist crule i ls (run pt s (seg_ops g)) = [] /\
                   Inv ct0 pt (final_state pt s (seg_ops g)) (lfinal crule ls (run pt s (seg_ops g)))).
    { destruct g as [ops|n m d ops]; simpl in Hg.
      - split; [apply run_law_inv; auto|apply run_Inv_final; auto].
      - apply andb_true_iff in Hg. destruct Hg as [Hd Hf].
        destruct (zassoc d m) as [wd|] eqn:Ed; [|discriminate]. split.
        + apply (mapped_life crule pt n m d wd Ed ops s ls i (Inv_Agree _ _ _ _ HI) Hf).
        + apply (life_final n m d wd ops s ls Ed HI Hf). }
    destruct Hseg as [A B]. rewrite A. cbn [app].
    apply IH; auto.
  Qed.
End Life.

Lemma law_alternating_tables : forall ct0 pt gs i,
  plain_tab ct0 = true -> plain_tab pt = true ->
  segs_ok pt (init_state ct0) gs = true ->
  law_hist (model_rule ct0 pt) i l_init (run pt (init_state ct0) (flat_map seg_ops gs)) = [] /\
  forall n m d wd ops, zassoc d m = Some wd -> forallb (pair_op n) ops = true ->
    law_hist (model_rule ct0 pt) i l_init
             (run pt (init_state ct0) (flat_map seg_ops gs ++ OAdd n (PMap m d) :: ops)) = [].
Proof.
  intros ct0 pt gs i P1 P2 Hok.
  destruct (segs_law ct0 pt gs _ _ i (Inv_init _ _ P1 P2) Hok) as [A B]. split; [exact A|].
  intros n m d wd ops Hd Hf. rewrite run_app, law_hist_app, A. cbn [app].
  apply (mapped_life _ pt n m d wd Hd ops _ _ _ (Inv_Agree _ _ _ _ B) Hf).
Qed.

(* third form of the main theorem: any class without Map/List declarations; plain phases and complete
   lives of mapped instance traits in any number and order, and possibly one more, unfinished life *)
Lemma law_alternating : forall h c gs i,
  plain_class h c = true ->
  let t := class_tables h c in
  segs_ok (snd t) (init_state (fst t)) gs = true ->
  law_hist (spec_rule h c) i l_init (run (snd t) (init_state (fst t)) (flat_map seg_ops gs)) = [] /\
  forall n m d wd ops, zassoc d m = Some wd -> forallb (pair_op n) ops = true ->
    law_hist (spec_rule h c) i l_init
             (run (snd t) (init_state (fst t)) (flat_map seg_ops gs ++ OAdd n (PMap m d) :: ops)) = [].
Proof.
  intros h c gs i Hp t Hok. apply andb_true_iff in Hp. destruct Hp as [P1 P2].
  destruct (law_alternating_tables (fst t) (snd t) gs i P1 P2 Hok) as [A B].
  split.
  - rewrite <- (law_hist_ext _ _ (class_tables_rule h c)). exact A.
  - intros n m d wd ops Hd Hf. rewrite <- (law_hist_ext _ _ (class_tables_rule h c)). eapply B; eauto.
Qed.
