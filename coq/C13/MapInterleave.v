(* C13 — the life of a mapped trait INTERLEAVED with operations on other names.
   Idea: erase the pair (name, name_) from the object and from the law's bookkeeping; operations on
   names far from the pair commute with the erasure, so the plain-trait invariant of Proofs.v is
   kept on the erased state, while MapProofs.pair_step handles the pair itself. *)
From Coq Require Import ZArith List Bool Lia.
From TV Require Import Common.Harness C13.Model C13.Law C13.Corr C13.Proofs C13.MapProofs.
Import ListNotations.
Open Scope Z_scope.

Section ListFacts.
  Context {A : Type}.
  Implicit Types l : list (name * A).

  Lemma aset_adel_comm : forall l a k v, name_eqb a k = false -> aset k v (adel a l) = adel a (aset k v l).
  Proof.
    induction l as [|[x w] r IH]; intros a k v H; simpl.
    - rewrite name_eqb_sym, H. reflexivity.
    - destruct (name_eqb x a) eqn:Ea; destruct (name_eqb x k) eqn:Ek; simpl; rewrite ?Ea, ?Ek; auto.
      + apply name_eqb_eq in Ea. apply name_eqb_eq in Ek. subst. rewrite name_eqb_refl in H. discriminate.
      + rewrite IH; auto.
  Qed.
  Lemma adel_adel_comm : forall l a b, adel a (adel b l) = adel b (adel a l).
  Proof.
    induction l as [|[x w] r IH]; intros a b; simpl; auto.
    destruct (name_eqb x b) eqn:Eb; destruct (name_eqb x a) eqn:Ea; simpl; rewrite ?Ea, ?Eb; auto.
    rewrite IH. reflexivity.
  Qed.
End ListFacts.

Section Erase.
  Variable n : name.
  Notation n_ := (n ++ [US]).

  Definition erase_l {A} (l : list (name * A)) : list (name * A) := adel n (adel n_ l).
  Definition erase (s : state) : state := mkState (s_ctd s) (erase_l (s_itd s)) (erase_l (s_od s)).
  Definition lerase (ls : lstate) : lstate := mkL (erase_l (l_itd ls)) (erase_l (l_od ls)).

  (* k is neither name nor name_ *)
  Definition off (k : name) : bool := negb (name_eqb n k) && negb (name_eqb n_ k).
  (* ... and neither are the names an operation on k reports: k_ and k[:-1] *)
  Definition far (k : name) : bool :=
    off k && off (k ++ [US]) && (if ends_us k then off (removelast k) else true).

  Lemma assoc_erase : forall {A} (l : list (name * A)) k, assoc k (erase_l l) = if off k then assoc k l else None.
  Proof.
    intros A l k. unfold erase_l, off. rewrite !assoc_adel.
    destruct (name_eqb n k); simpl; auto. destruct (name_eqb n_ k); reflexivity.
  Qed.
  Lemma off_split : forall k, off k = true -> name_eqb n k = false /\ name_eqb n_ k = false.
  Proof. intros k H. unfold off in H. apply andb_true_iff in H. destruct H as [A B]. apply negb_true_iff in A. apply negb_true_iff in B. auto. Qed.
  Lemma erase_aset : forall {A} (l : list (name * A)) k v, off k = true -> erase_l (aset k v l) = aset k v (erase_l l).
  Proof.
    intros A l k v H. destruct (off_split k H) as [H1 H2]. unfold erase_l.
    rewrite <- (aset_adel_comm l n_ k v H2), <- (aset_adel_comm _ n k v H1). reflexivity.
  Qed.
  Lemma erase_adel : forall {A} (l : list (name * A)) k, erase_l (adel k l) = adel k (erase_l l).
  Proof. intros A l k. unfold erase_l. rewrite (adel_adel_comm l n_ k), (adel_adel_comm _ n k). reflexivity. Qed.
  Lemma amem_erase : forall {A} (l : list (name * A)) k, off k = true -> amem k (erase_l l) = amem k l.
  Proof. intros A l k H. unfold amem. rewrite assoc_erase, H. reflexivity. Qed.
End Erase.

Section Commute.
  Variable n : name.
  Variable pt : ptab.
  Notation n_ := (n ++ [US]).
  Notation erase := (erase n).
  Notation erase_l := (erase_l n).
  Notation off := (off n).
  Notation far := (far n).

  Lemma far_split : forall k, far k = true ->
    off k = true /\ off (k ++ [US]) = true /\ (if ends_us k then off (removelast k) else true) = true.
  Proof.
    intros k H. unfold MapInterleave.far in H. apply andb_true_iff in H. destruct H as [H H3].
    apply andb_true_iff in H. destruct H as [H1 H2]. auto.
  Qed.

  Lemma out_far : forall s k x, far k = true -> out (erase s) k x = (erase s, snd (out s k x)).
  Proof.
    intros s k x H. destruct (far_split k H) as (H1 & H2 & H3). unfold out. cbn [snd].
    unfold MapInterleave.erase. cbn [s_od].
    rewrite (assoc_erase n (s_od s) k), (assoc_erase n (s_od s) (k ++ [US])), H1, H2.
    destruct (ends_us k); [rewrite (assoc_erase n (s_od s) (removelast k)), H3|]; reflexivity.
  Qed.
  Lemma out_far' : forall S S0 k x, far k = true -> S = erase S0 ->
    out S k x = (erase (fst (out S0 k x)), snd (out S0 k x)).
  Proof. intros S S0 k x H E. subst S. rewrite out_far by exact H. reflexivity. Qed.

  Ltac st H1 := unfold MapInterleave.erase, set_od; cbn [s_ctd s_itd s_od];
                rewrite ?erase_aset, ?erase_adel by exact H1; reflexivity.

  Lemma getattr_far : forall s k p, far k = true -> plainp p = true ->
    getattr (erase s) k p = (erase (fst (getattr s k p)), snd (getattr s k p)).
  Proof.
    intros s k p H Hp. destruct (far_split k H) as (H1 & _ & _).
    destruct p; try discriminate Hp; unfold getattr; (apply out_far'; [exact H|st H1]).
  Qed.

  Lemma setattr_far : forall s k p v, far k = true -> plainp p = true ->
    setattr (erase s) k p v = (erase (fst (setattr s k p v)), snd (setattr s k p v)).
  Proof.
    intros s k p v H Hp. destruct (far_split k H) as (H1 & _ & _).
    assert (Ho : assoc k (s_od (erase s)) = assoc k (s_od s))
      by (unfold MapInterleave.erase; cbn [s_od]; rewrite assoc_erase, H1; reflexivity).
    destruct p as [ |d| |d|c|e|e d|m d|m| ]; try discriminate Hp; unfold setattr; rewrite ?Ho;
      repeat match goal with
             | |- context [if ?b then _ else _] => destruct b
             | |- context [match assoc k (s_od s) with _ => _ end] => destruct (assoc k (s_od s))
             | |- context [match validate ?a ?b with _ => _ end] => destruct (validate a b)
             | |- context [match ?o with Some _ => _ | None => _ end] => is_var o; destruct o
             end; (apply out_far'; [exact H|st H1]).
  Qed.

  Lemma delattr_far : forall s k p, far k = true -> plainp p = true ->
    delattr (erase s) k p = (erase (fst (delattr s k p)), snd (delattr s k p)).
  Proof.
    intros s k p H Hp. destruct (far_split k H) as (H1 & _ & _).
    assert (Ho : amem k (s_od (erase s)) = amem k (s_od s))
      by (unfold MapInterleave.erase; cbn [s_od]; apply amem_erase; exact H1).
    destruct p; try discriminate Hp; unfold delattr; rewrite ?Ho;
      try destruct (amem k (s_od s)); (apply out_far'; [exact H|st H1]).
  Qed.

  Lemma prefix_trait_far : forall s k b,
    prefix_trait pt (erase s) k b =
    match prefix_trait pt s k b with inl (p, s') => inl (p, erase s') | inr e => inr e end.
  Proof.
    intros s k b. unfold prefix_trait. destruct (dunder k); [destruct b; reflexivity|].
    destruct (first_match k pt) as [[q p]|]; reflexivity.
  Qed.
  Lemma prefix_trait_od_itd : forall s k b p s', prefix_trait pt s k b = inl (p, s') ->
    s_od s' = s_od s /\ s_itd s' = s_itd s.
  Proof.
    intros s k b p s'. unfold prefix_trait. destruct (dunder k).
    - destruct b; [|discriminate]. intro E. inversion E. auto.
    - destruct (first_match k pt) as [[q p1]|]; [|discriminate]. intro E. inversion E. auto.
  Qed.

  (* every trait an operation on k can find is plain *)
  Definition plain_at (s : state) (k : name) : Prop :=
    (forall p, assoc k (s_itd s) = Some p -> plainp p = true) /\
    (forall p, assoc k (s_ctd s) = Some p -> plainp p = true) /\
    (forall q p, first_match k pt = Some (q, p) -> plainp p = true).

  Lemma prefix_plain : forall s k b p s', plain_at s k -> prefix_trait pt s k b = inl (p, s') -> plainp p = true.
  Proof.
    intros s k b p s' (_ & _ & H3). unfold prefix_trait. destruct (dunder k).
    - destruct b; [|discriminate]. intro E. inversion E. reflexivity.
    - destruct (first_match k pt) as [[q p1]|] eqn:Ef; [|discriminate]. intro E. inversion E; subst. eauto.
  Qed.

  Lemma lookup_set_far : forall s k, off k = true ->
    lookup_set pt (erase s) k =
    match lookup_set pt s k with inl (p, s') => inl (p, erase s') | inr e => inr e end.
  Proof.
    intros s k H. unfold lookup_set.
    replace (assoc k (s_itd (erase s))) with (assoc k (s_itd s))
      by (unfold MapInterleave.erase; cbn [s_itd]; rewrite (assoc_erase n (s_itd s) k), H; reflexivity).
    replace (assoc k (s_ctd (erase s))) with (assoc k (s_ctd s)) by reflexivity.
    destruct (assoc k (s_itd s)); [reflexivity|].
    destruct (assoc k (s_ctd s)); [reflexivity|]. apply prefix_trait_far.
  Qed.
  Lemma lookup_set_plain : forall s k p s', plain_at s k -> lookup_set pt s k = inl (p, s') -> plainp p = true.
  Proof.
    intros s k p s' HP. pose proof HP as (H1 & H2 & _). unfold lookup_set.
    destruct (assoc k (s_itd s)) eqn:Ei; [intro E; inversion E; subst; auto|].
    destruct (assoc k (s_ctd s)) eqn:Ec; [intro E; inversion E; subst; auto|]. apply prefix_plain. exact HP.
  Qed.

  Lemma getattr_m_plain' : forall s k p, plainp p = true -> getattr_m pt s k p = getattr s k p.
  Proof. intros s k p H. destruct p; try discriminate H; reflexivity. Qed.
  Lemma setattr_m_plain' : forall s k p v, plainp p = true -> setattr_m pt s k p v = setattr s k p v.
  Proof. intros s k p v H. destruct p; try discriminate H; reflexivity. Qed.

  (* an operation on a name far from the pair, finding plain traits only, commutes with the erasure *)
  Lemma step_far : forall s o, far (op_name o) = true -> plain_at s (op_name o) ->
    (forall k q, o = OAdd k q -> plainp q = true) ->
    step pt (erase s) o = (erase (fst (step pt s o)), snd (step pt s o)).
  Proof.
    intros s o H HP Hq. destruct (far_split _ H) as (H1 & _ & _). pose proof HP as (Pi & Pc & Pp).
    destruct o as [k|k v|k|k q|k]; cbn [op_name] in *.
    - (* Get *)
      simpl step. unfold get_with.
      replace (assoc k (s_od (erase s))) with (assoc k (s_od s))
        by (unfold MapInterleave.erase; cbn [s_od]; rewrite (assoc_erase n (s_od s) k), H1; reflexivity).
      replace (assoc k (s_itd (erase s))) with (assoc k (s_itd s))
        by (unfold MapInterleave.erase; cbn [s_itd]; rewrite (assoc_erase n (s_itd s) k), H1; reflexivity).
      replace (assoc k (s_ctd (erase s))) with (assoc k (s_ctd s)) by reflexivity.
      destruct (assoc k (s_od s)) as [v|].
      { apply out_far'; [exact H|reflexivity]. }
      destruct (assoc k (s_itd s)) as [p|] eqn:Ei.
      { rewrite !getattr_m_plain' by (apply Pi; reflexivity). apply getattr_far; auto. }
      destruct (assoc k (s_ctd s)) as [p|] eqn:Ec.
      { rewrite !getattr_m_plain' by (apply Pc; reflexivity). apply getattr_far; auto. }
      rewrite prefix_trait_far.
      destruct (prefix_trait pt s k false) as [[p s']|e] eqn:Ep.
      + rewrite !getattr_m_plain' by (eapply prefix_plain; eauto). apply getattr_far; auto. eapply prefix_plain; eauto.
      + apply out_far'; [exact H|reflexivity].
    - simpl step. rewrite lookup_set_far by exact H1.
      destruct (lookup_set pt s k) as [[p s']|e] eqn:El.
      + rewrite !setattr_m_plain' by (eapply lookup_set_plain; eauto). apply setattr_far; auto.
        eapply lookup_set_plain; eauto.
      + apply out_far'; [exact H|reflexivity].
    - simpl step. rewrite lookup_set_far by exact H1.
      destruct (lookup_set pt s k) as [[p s']|e] eqn:El.
      + apply delattr_far; auto. eapply lookup_set_plain; eauto.
      + apply out_far'; [exact H|reflexivity].
    - (* add_trait of a plain trait *)
      pose proof (Hq k q eq_refl) as Hpq.
      assert (Es : subs k q = []) by (destruct q; try discriminate Hpq; reflexivity).
      simpl step. rewrite Es. cbn [fold_left]. apply out_far'; [exact H|].
      unfold MapInterleave.erase. cbn [s_ctd s_itd s_od]. rewrite (erase_aset n (s_itd s) k q H1). reflexivity.
    - (* remove_trait *)
      assert (R1 : forall S, rem1 (erase S) k = erase (rem1 S k)).
      { intros S. unfold rem1.
        replace (assoc k (s_itd (erase S))) with (assoc k (s_itd S))
          by (unfold MapInterleave.erase; cbn [s_itd]; rewrite (assoc_erase n (s_itd S) k), H1; reflexivity).
        replace (amem k (s_ctd (erase S))) with (amem k (s_ctd S)) by reflexivity.
        destruct (assoc k (s_itd S)).
        - unfold MapInterleave.erase. cbn [s_ctd s_itd s_od]. rewrite !erase_adel. reflexivity.
        - destruct (amem k (s_ctd S)); [|reflexivity].
          unfold MapInterleave.erase, set_od. cbn [s_ctd s_itd s_od]. rewrite erase_adel. reflexivity. }
      simpl step. rewrite (assoc_erase n (s_itd s) k), H1.
      destruct (assoc k (s_itd s)) as [p|] eqn:Ei.
      + assert (Es : subs k p = []) by (pose proof (Pi p eq_refl) as Hpp; destruct p; try discriminate Hpp; reflexivity).
        rewrite Es. cbn [map fold_left].
        replace (amem k (s_itd (erase s))) with (amem k (s_itd s))
          by (unfold MapInterleave.erase; cbn [s_itd]; symmetry; apply amem_erase; exact H1).
        apply out_far'; [exact H|]. apply R1.
      + destruct (assoc k (s_ctd s)) as [p|] eqn:Ec.
        * assert (Es : subs k p = []) by (pose proof (Pc p eq_refl) as Hpp; destruct p; try discriminate Hpp; reflexivity).
          rewrite Es. cbn [map fold_left].
        replace (amem k (s_itd (erase s))) with (amem k (s_itd s))
          by (unfold MapInterleave.erase; cbn [s_itd]; symmetry; apply amem_erase; exact H1).
          apply out_far'; [exact H|]. apply R1.
        * apply out_far'; [exact H|reflexivity].
  Qed.
End Commute.

(* ---- the law's bookkeeping commutes with the erasure, too ---- *)
Section LawCommute.
  Variable n : name.
  Variable crule : name -> rule.
  Notation n_ := (n ++ [US]).
  Notation erase_l := (erase_l n).
  Notation lerase := (lerase n).
  Notation off := (off n).
  Notation far := (far n).

  Definition plainish (g : rule) : Prop := match g with RPol p => plainp p = true | _ => True end.

  Lemma demand_m_plainish : forall ls g sb o, plainish g -> demand_m crule ls g sb o = demand g sb o.
  Proof. intros ls g sb o H. destruct g as [p| |]; try reflexivity. simpl in H. destruct p; try discriminate H; reflexivity. Qed.

  Lemma governing_lerase : forall ls k, off k = true -> governing crule (lerase ls) k = governing crule ls k.
  Proof. intros ls k H. unfold governing, MapInterleave.lerase. cbn [l_itd]. rewrite (assoc_erase n (l_itd ls) k), H. reflexivity. Qed.
  Lemma found_lerase : forall ls k, off k = true -> found_trait crule (lerase ls) k = found_trait crule ls k.
  Proof. intros ls k H. unfold found_trait, MapInterleave.lerase. cbn [l_itd]. rewrite (assoc_erase n (l_itd ls) k), H. reflexivity. Qed.

  Lemma law_step_far : forall ls o ob, off (op_name o) = true -> plainish (governing crule ls (op_name o)) ->
    law_step crule (lerase ls) o ob = law_step crule ls o ob.
  Proof.
    intros ls o ob H Hg.
    assert (Ei : l_itd (lerase ls) = erase_l (l_itd ls)) by reflexivity.
    assert (Eo : l_od (lerase ls) = erase_l (l_od ls)) by reflexivity.
    unfold law_step. rewrite (governing_lerase ls _ H), Eo, (assoc_erase n (l_od ls) (op_name o)), H.
    rewrite !demand_m_plainish by exact Hg.
    destruct o; try reflexivity.
    cbn [op_name] in *. rewrite Ei, (amem_erase n (l_itd ls) _ H), (assoc_erase n (l_itd ls) _), H. reflexivity.
  Qed.

  Lemma erase_resync : forall a v (l : list (name * Z)), off a = true -> erase_l (resync a v l) = resync a v (erase_l l).
  Proof. intros a v l H. unfold resync. destruct v; [apply erase_aset; exact H|apply erase_adel]. Qed.

  Lemma law_next_far : forall ls o ob, far (op_name o) = true ->
    (forall k q, o = OAdd k q -> plainp q = true) ->
    (forall p, found_trait crule ls (op_name o) = Some p -> plainp p = true) ->
    lerase (law_next crule ls o ob) = law_next crule (lerase ls) o ob.
  Proof.
    intros ls o ob H Hq Hf.
    assert (H' : off (op_name o) = true /\ off (op_name o ++ [US]) = true /\
                 (if ends_us (op_name o) then off (removelast (op_name o)) else true) = true).
    { unfold MapInterleave.far in H. apply andb_true_iff in H. destruct H as [H H3].
      apply andb_true_iff in H. destruct H as [H1 H2]. auto. }
    destruct H' as (H1 & H2 & H3).
    unfold law_next. rewrite (found_lerase ls _ H1). unfold MapInterleave.lerase. cbn [l_itd l_od]. f_equal.
    - (* instance traits *)
      destruct o as [k|k v|k|k q|k]; try reflexivity; cbn [op_name] in *.
      + destruct (o_out ob); try reflexivity.
        assert (Es : subs k q = []) by (pose proof (Hq k q eq_refl) as Hp; destruct q; try discriminate Hp; reflexivity).
        rewrite Es. cbn [fold_left]. apply erase_aset. exact H1.
      + destruct (o_out ob); try reflexivity. rewrite erase_adel. f_equal.
        destruct (found_trait crule ls k) as [p|] eqn:Ef; [|reflexivity].
        assert (Es : subs k p = []) by (pose proof (Hf p eq_refl) as Hp; destruct p; try discriminate Hp; reflexivity).
        rewrite Es. reflexivity.
    - (* stored values *)
      assert (E3 : erase_l (if ends_us (op_name o)
                            then resync (removelast (op_name o)) (o_base ob)
                                   (resync (op_name o ++ [US]) (o_shadow ob) (resync (op_name o) (o_stored ob) (l_od ls)))
                            else resync (op_name o ++ [US]) (o_shadow ob) (resync (op_name o) (o_stored ob) (l_od ls))) =
                   (if ends_us (op_name o)
                    then resync (removelast (op_name o)) (o_base ob)
                           (resync (op_name o ++ [US]) (o_shadow ob) (resync (op_name o) (o_stored ob) (erase_l (l_od ls))))
                    else resync (op_name o ++ [US]) (o_shadow ob) (resync (op_name o) (o_stored ob) (erase_l (l_od ls))))).
      { destruct (ends_us (op_name o)); rewrite ?erase_resync by assumption; reflexivity. }
      destruct o as [k|k v|k|k q|k]; try exact E3. cbn [op_name] in *.
      destruct (o_out ob); try exact E3.
      destruct (found_trait crule ls k) as [p|] eqn:Ef; [|exact E3].
      pose proof (Hf p eq_refl) as Hp. destruct p; try discriminate Hp; exact E3.
  Qed.
End LawCommute.

(* ---- the interleaved life ---- *)
Section Inter.
  Variable ct0 : ctab.
  Variable pt : ptab.
  Variable n : name.
  Variable m : list (Z * Z).
  Variable d wd : Z.
  Hypothesis d_key : zassoc d m = Some wd.
  Notation n_ := (n ++ [US]).
  Notation crule := (model_rule ct0 pt).
  Notation erase := (erase n).
  Notation erase_l := (erase_l n).
  Notation lerase := (lerase n).
  Notation off := (off n).
  Notation far := (far n).

  Definition K (s : state) (ls : lstate) : Prop :=
    Inv ct0 pt (erase s) (lerase ls) /\ Pair n m d s /\ Agree s ls.

  Lemma plain_erase : forall l, plain_tab l = true -> plain_tab (erase_l l) = true.
  Proof. intros l H. unfold MapInterleave.erase_l. apply plain_adel. apply plain_adel. exact H. Qed.

  (* forgetting two names keeps the plain-trait invariant *)
  Lemma Inv_erase : forall s ls, Inv ct0 pt s ls -> Inv ct0 pt (erase s) (lerase ls).
  Proof.
    intros s ls HI. destruct (inv_plain4 _ _ _ _ HI) as (P1 & P2 & P3 & P4).
    constructor; unfold MapInterleave.erase, MapInterleave.lerase; cbn [s_ctd s_itd s_od l_itd l_od].
    - rewrite (inv_itd _ _ _ _ HI). reflexivity.
    - intro k. rewrite !assoc_erase, (inv_od _ _ _ _ HI). reflexivity.
    - apply (inv_c1 _ _ _ _ HI).
    - apply (inv_c2 _ _ _ _ HI).
    - intros k v Hk. rewrite assoc_erase in Hk. destruct (off k) eqn:Ho; [|discriminate].
      unfold gov. cbn [s_itd]. rewrite assoc_erase, Ho. apply (inv_st _ _ _ _ HI _ _ Hk).
    - apply plain4; auto. apply plain_erase. exact P3.
  Qed.

  Lemma plain_at_K : forall s ls k, Inv ct0 pt (erase s) (lerase ls) -> off k = true -> plain_at pt s k.
  Proof.
    intros s ls k HI Ho. destruct (inv_plain4 _ _ _ _ HI) as (P1 & P2 & P3 & P4).
    unfold MapInterleave.erase in P3, P4. cbn [s_itd s_ctd] in P3, P4. repeat split.
    - intros p Hp. apply (plain_assoc _ k p P3). rewrite assoc_erase, Ho. exact Hp.
    - intros p Hp. apply (plain_assoc _ k p P4 Hp).
    - intros q p Hp. apply (plain_first_match _ _ _ _ P2 Hp).
  Qed.

  Lemma lookup_set_od : forall s k p s', lookup_set pt s k = inl (p, s') -> s_od s' = s_od s /\ s_itd s' = s_itd s.
  Proof.
    intros s k p s'. unfold lookup_set. destruct (assoc k (s_itd s)); [intro E; inversion E; auto|].
    destruct (assoc k (s_ctd s)); [intro E; inversion E; auto|]. apply prefix_trait_od_itd.
  Qed.

  (* an operation on k that finds plain traits only touches nothing but k in itd and __dict__ *)
  Lemma step_far_frame : forall s o, plain_at pt s (op_name o) ->
    (forall k q, o = OAdd k q -> plainp q = true) ->
    forall a, name_eqb (op_name o) a = false ->
      assoc a (s_itd (fst (step pt s o))) = assoc a (s_itd s) /\
      assoc a (s_od (fst (step pt s o))) = assoc a (s_od s).
  Proof.
    intros s o HP Hq a Ha. pose proof HP as (Pi & Pc & Pp).
    assert (Hne : a <> op_name o) by (intro E; subst a; rewrite name_eqb_refl in Ha; discriminate).
    destruct o as [k|k v|k|k q|k]; cbn [op_name] in *.
    - split; [rewrite (step_itd_access pt s (OGet k) eq_refl); reflexivity|].
      simpl step. unfold get_with. destruct (assoc k (s_od s)); [reflexivity|].
      destruct (assoc k (s_itd s)) as [p|] eqn:Ei.
      { rewrite getattr_m_plain' by (apply Pi; reflexivity). apply (handler_frame (OGet k) s p a eq_refl Hne). }
      destruct (assoc k (s_ctd s)) as [p|] eqn:Ec.
      { rewrite getattr_m_plain' by (apply Pc; reflexivity). apply (handler_frame (OGet k) s p a eq_refl Hne). }
      destruct (prefix_trait pt s k false) as [[p s']|e] eqn:Ep; [|reflexivity].
      rewrite getattr_m_plain' by (eapply prefix_plain; eauto).
      destruct (prefix_trait_od_itd pt s k false p s' Ep) as [E _]. rewrite <- E.
      apply (handler_frame (OGet k) s' p a eq_refl Hne).
    - split; [rewrite (step_itd_access pt s (OSet k v) eq_refl); reflexivity|].
      simpl step. destruct (lookup_set pt s k) as [[p s']|e] eqn:El; [|reflexivity].
      rewrite setattr_m_plain' by (eapply lookup_set_plain; eauto).
      destruct (lookup_set_od s k p s' El) as [E _]. rewrite <- E.
      apply (handler_frame (OSet k v) s' p a eq_refl Hne).
    - split; [rewrite (step_itd_access pt s (ODel k) eq_refl); reflexivity|].
      simpl step. destruct (lookup_set pt s k) as [[p s']|e] eqn:El; [|reflexivity].
      destruct (lookup_set_od s k p s' El) as [E _]. rewrite <- E.
      apply (handler_frame (ODel k) s' p a eq_refl Hne).
    - pose proof (Hq k q eq_refl) as Hpq.
      assert (Es : subs k q = []) by (destruct q; try discriminate Hpq; reflexivity).
      simpl. rewrite Es. cbn [fold_left]. rewrite assoc_aset, Ha. auto.
    - simpl step.
      assert (R : forall S, assoc a (s_itd (rem1 S k)) = assoc a (s_itd S) /\ assoc a (s_od (rem1 S k)) = assoc a (s_od S)).
      { intro S. unfold rem1. destruct (assoc k (s_itd S)); simpl; [rewrite !assoc_adel, Ha; auto|].
        destruct (amem k (s_ctd S)); simpl; [rewrite assoc_adel, Ha; auto|auto]. }
      destruct (assoc k (s_itd s)) as [p|] eqn:Ei.
      + assert (Es : subs k p = []) by (pose proof (Pi p eq_refl) as Hpp; destruct p; try discriminate Hpp; reflexivity).
        rewrite Es. cbn [map fold_left fst out]. apply R.
      + destruct (assoc k (s_ctd s)) as [p|] eqn:Ec; [|simpl; auto].
        assert (Es : subs k p = []) by (pose proof (Pc p eq_refl) as Hpp; destruct p; try discriminate Hpp; reflexivity).
        rewrite Es. cbn [map fold_left fst out]. apply R.
  Qed.

  (* re-reading the true values of k, k_ and k[:-1] after a step that changed __dict__ at k only *)
  Lemma agree_od_k : forall (l od od' : list (name * Z)) k,
    (forall a, assoc a l = assoc a od) ->
    (forall a, name_eqb k a = false -> assoc a od' = assoc a od) ->
    forall a,
      assoc a (let od2 := resync (k ++ [US]) (assoc (k ++ [US]) od') (resync k (assoc k od') l) in
               if ends_us k then resync (removelast k) (if ends_us k then assoc (removelast k) od' else None) od2
               else od2) = assoc a od'.
  Proof.
    intros l od od' k Ao Hf a. cbv zeta.
    assert (Base : assoc a (resync (k ++ [US]) (assoc (k ++ [US]) od') (resync k (assoc k od') l)) = assoc a od').
    { rewrite !resync_true. destruct (name_eqb (k ++ [US]) a); auto. destruct (name_eqb k a) eqn:E; auto.
      rewrite Ao. symmetry. apply Hf. exact E. }
    destruct (ends_us k); [|exact Base]. rewrite resync_true. destruct (name_eqb (removelast k) a); auto.
  Qed.

  Lemma off_sym : forall k, off k = true -> name_eqb k n = false /\ name_eqb k n_ = false.
  Proof. intros k H. destruct (off_split n k H) as [A B]. rewrite (name_eqb_sym k n), (name_eqb_sym k n_). auto. Qed.

  (* an operation on a name far from the pair *)
  Lemma K_far : forall s ls o, K s ls -> far (op_name o) = true -> clean_step s o = true ->
    law_step crule ls o (snd (step pt s o)) = [] /\ K (fst (step pt s o)) (law_next crule ls o (snd (step pt s o))).
  Proof.
    intros s ls o (HI & HP & HA) Hfar Hc.
    destruct (far_split n _ Hfar) as (H1 & H2 & H3). destruct (off_sym _ H1) as [N1 N2].
    pose proof (plain_at_K s ls _ HI H1) as PA.
    assert (Hq : forall k q, o = OAdd k q -> plainp q = true).
    { intros k q E. subst o. simpl in Hc. apply andb_true_iff in Hc. tauto. }
    assert (Hce : clean_step (erase s) o = true).
    { destruct o as [k|k v|k|k q|k]; auto. cbn [op_name] in *. simpl in *.
      unfold MapInterleave.erase. cbn [s_od]. rewrite (amem_erase n (s_od s) k H1). exact Hc. }
    pose proof (step_far n pt s o Hfar PA Hq) as Sfar.
    destruct (step_ok ct0 pt (erase s) (lerase ls) o HI Hce) as [Hl Hn]. rewrite Sfar in Hl, Hn. cbn [fst snd] in Hl, Hn.
    destruct (inv_plain4 _ _ _ _ HI) as (P1 & P2 & P3 & P4).
    assert (Hg : plainish (governing crule ls (op_name o))).
    { rewrite <- (governing_lerase n crule ls _ H1), (governing_gov ct0 pt _ _ _ HI).
      unfold plainish. destruct (gov ct0 pt (erase s) (op_name o)) as [p| |] eqn:Eg; auto.
      apply (gov_plain ct0 pt _ _ HI _ _ Eg). }
    assert (Hfd : forall p, found_trait crule ls (op_name o) = Some p -> plainp p = true).
    { intros p. rewrite <- (found_lerase n crule ls _ H1). unfold found_trait.
      rewrite (inv_itd _ _ _ _ HI). destruct (assoc (op_name o) (s_itd (erase s))) as [x|] eqn:Ei.
      - intro E. inversion E; subst. apply (plain_assoc _ _ _ P3 Ei).
      - destruct (crule (op_name o)) as [x| |] eqn:Er; try discriminate. intro E. inversion E; subst.
        apply (model_rule_plain ct0 pt P1 P2 (op_name o)). left. exact Er. }
    split; [rewrite <- (law_step_far n crule ls o _ H1 Hg); exact Hl|].
    pose proof HA as [Ai Ao]. pose proof HP as [Pn Pn_].
    split; [|split].
    - rewrite (law_next_far n crule ls o _ Hfar Hq Hfd). exact Hn.
    - destruct (step_far_frame s o PA Hq n N1) as [F1 _]. destruct (step_far_frame s o PA Hq n_ N2) as [F2 _].
      unfold Pair. rewrite F1, F2. auto.
    - destruct (step_out pt s o) as (s2 & x & E). rewrite E. cbn [fst snd].
      assert (Es2 : s2 = fst (step pt s o)) by (rewrite E; reflexivity).
      split.
      + (* instance traits *)
        unfold law_next, out. cbn [l_itd fst snd o_out]. rewrite Es2.
        destruct o as [k|k v|k|k q|k]; cbn [op_name] in *.
        * rewrite (step_itd_access pt s (OGet k) eq_refl). exact Ai.
        * rewrite (step_itd_access pt s (OSet k v) eq_refl). exact Ai.
        * rewrite (step_itd_access pt s (ODel k) eq_refl). exact Ai.
        * simpl in E. inversion E; subst x. rewrite Ai. reflexivity.
        * assert (Ex : exists z, x = Val z).
          { simpl in E. destruct (match assoc k (s_itd s) with Some p => Some p | None => assoc k (s_ctd s) end);
              unfold out in E; inversion E; eauto. }
          destruct Ex as [z ->].
          destruct PA as (Pi & Pc & _).
          assert (Lw : adel k (match found_trait crule ls k with
                               | Some p => fold_left (fun t a => adel a t) (map fst (subs k p)) (l_itd ls)
                               | None => l_itd ls end) = adel k (l_itd ls)).
          { destruct (found_trait crule ls k) as [p|] eqn:Ef; auto.
            pose proof (Hfd p eq_refl) as Hpp. destruct p; try discriminate Hpp; reflexivity. }
          rewrite Lw, Ai. simpl.
          destruct (assoc k (s_itd s)) as [p|] eqn:Ei.
          -- assert (Es : subs k p = []) by (pose proof (Pi p eq_refl) as Hpp; destruct p; try discriminate Hpp; reflexivity).
             rewrite Es. cbn [map fold_left]. unfold rem1. rewrite Ei. reflexivity.
          -- destruct (assoc k (s_ctd s)) as [p|] eqn:Ec.
             ++ assert (Es : subs k p = []) by (pose proof (Pc p eq_refl) as Hpp; destruct p; try discriminate Hpp; reflexivity).
                rewrite Es. cbn [map fold_left]. unfold rem1, amem. rewrite Ei, Ec. simpl. apply adel_absent. exact Ei.
             ++ simpl. apply adel_absent. exact Ei.
      + (* stored values *)
        intro a. unfold law_next, out. cbn [l_od fst snd o_out o_stored o_shadow o_base].
        assert (Fr : forall b, name_eqb (op_name o) b = false -> assoc b (s_od s2) = assoc b (s_od s)).
        { intros b Hb. rewrite Es2. apply (step_far_frame s o PA Hq b Hb). }
        pose proof (agree_od_k (l_od ls) (s_od s) (s_od s2) (op_name o) Ao Fr a) as G. cbv zeta in G.
        destruct o as [k|k v|k|k q|k]; try exact G. cbn [op_name] in *.
        destruct x; try exact G. destruct (found_trait crule ls k) as [p|] eqn:Ef; [|exact G].
        pose proof (Hfd p eq_refl) as Hpp. destruct p; try discriminate Hpp; exact G.
  Qed.

  (* an operation on the pair itself: the erased state is untouched *)
  Lemma K_pair : forall s ls o, K s ls -> pair_op n o = true ->
    law_step crule ls o (snd (step pt s o)) = [] /\ K (fst (step pt s o)) (law_next crule ls o (snd (step pt s o))).
  Proof.
    intros s ls o (HI & HP & HA) Ho.
    destruct (pair_step crule pt n m d wd d_key s ls o HP HA Ho) as (Hl & HP' & HA').
    destruct (pair_step_rest pt n m d wd d_key s o HP Ho) as [Rc Ro].
    assert (Ha : is_access o = true) by (unfold pair_op in Ho; apply andb_true_iff in Ho; tauto).
    pose proof (step_itd_access pt s o Ha) as Ri.
    split; [exact Hl|]. split; [|split; assumption].
    destruct HA' as [Ai' Ao']. destruct (inv_plain4 _ _ _ _ HI) as (P1 & P2 & P3 & P4).
    set (s' := fst (step pt s o)) in *. set (ls' := law_next crule ls o (snd (step pt s o))) in *.
    constructor; unfold MapInterleave.erase, MapInterleave.lerase; cbn [s_ctd s_itd s_od l_itd l_od].
    - rewrite Ai'. reflexivity.
    - intro k. rewrite !assoc_erase, Ao'. reflexivity.
    - intros k p Hk. rewrite Rc. apply (inv_c1 _ _ _ _ HI _ _ Hk).
    - intros k p Hk. rewrite Rc in Hk. apply (inv_c2 _ _ _ _ HI _ _ Hk).
    - intros k v Hk. rewrite assoc_erase in Hk. destruct (off k) eqn:Hoff; [|discriminate].
      destruct (off_split n k Hoff) as [K1 K2]. rewrite (Ro k K1 K2) in Hk.
      unfold gov. cbn [s_itd]. rewrite Ri.
      pose proof (inv_st _ _ _ _ HI k v) as St. unfold gov, MapInterleave.erase in St. cbn [s_itd s_od] in St.
      apply St. rewrite assoc_erase, Hoff. exact Hk.
    - rewrite Ri, Rc. exact (inv_plain _ _ _ _ HI).
  Qed.

  (* add_trait(n, Map(m, d)) in a state of the plain invariant starts the interleaved life *)
  Lemma K_start : forall s ls, Inv ct0 pt s ls ->
    law_step crule ls (OAdd n (PMap m d)) (snd (step pt s (OAdd n (PMap m d)))) = [] /\
    K (fst (step pt s (OAdd n (PMap m d)))) (law_next crule ls (OAdd n (PMap m d)) (snd (step pt s (OAdd n (PMap m d))))).
  Proof.
    intros s ls HI. destruct (pair_add crule pt n m d s ls (Inv_Agree _ _ _ _ HI)) as (Hl & HP & HA).
    split; [exact Hl|]. split; [|split; assumption].
    pose proof (Inv_erase s ls HI) as HE. destruct HA as [Ai Ao].
    destruct (inv_plain4 _ _ _ _ HE) as (P1 & P2 & P3 & P4).
    set (s' := fst (step pt s (OAdd n (PMap m d)))) in *.
    set (ls' := law_next crule ls (OAdd n (PMap m d)) (snd (step pt s (OAdd n (PMap m d))))) in *.
    assert (Ec : s_ctd s' = s_ctd s) by reflexivity.
    assert (Eo : s_od s' = s_od s) by reflexivity.
    assert (Eitd : forall k, off k = true -> assoc k (s_itd s') = assoc k (s_itd s)).
    { intros k Hk. destruct (off_split n k Hk) as [K1 K2]. unfold s'. simpl. rewrite !assoc_aset, K1, K2. reflexivity. }
    constructor; unfold MapInterleave.erase, MapInterleave.lerase; cbn [s_ctd s_itd s_od l_itd l_od].
    - rewrite Ai. reflexivity.
    - intro k. rewrite !assoc_erase, Ao. reflexivity.
    - rewrite Ec. apply (inv_c1 _ _ _ _ HI).
    - rewrite Ec. apply (inv_c2 _ _ _ _ HI).
    - intros k v Hk. rewrite assoc_erase in Hk. destruct (off k) eqn:Hoff; [|discriminate].
      unfold gov. cbn [s_itd]. rewrite assoc_erase, Hoff, (Eitd k Hoff). rewrite Eo in Hk.
      apply (inv_st _ _ _ _ HI _ _ Hk).
    - apply plain4; [exact P1|exact P2| |rewrite Ec; exact P4].
      (* the erased instance-trait list has no mapped entry: the pair was erased *)
      apply (proj2 (plain_tab_In _)). intros k p Hin. unfold MapInterleave.erase_l in Hin.
      apply In_adel in Hin. destruct Hin as [Hin K1]. apply In_adel in Hin. destruct Hin as [Hin K2].
      unfold s' in Hin. simpl in Hin.
      apply In_aset in Hin. destruct Hin as [[E _]|Hin]; [contradiction|].
      apply In_aset in Hin. destruct Hin as [[E _]|Hin]; [contradiction|].
      destruct (inv_plain4 _ _ _ _ HI) as (_ & _ & Q3 & _). apply (proj1 (plain_tab_In _) Q3 _ _ Hin).
  Qed.

  (* remove_trait(n) ends it: the object is the erased object, in the plain invariant *)
  Lemma K_end : forall s ls, K s ls ->
    law_step crule ls (ORem n) (snd (step pt s (ORem n))) = [] /\
    Inv ct0 pt (fst (step pt s (ORem n))) (law_next crule ls (ORem n) (snd (step pt s (ORem n)))).
  Proof.
    intros s ls (HI & HP & HA). pose proof HP as [P1 P2].
    destruct (pair_rem crule pt n m d s ls HP HA) as [Hl [Ai' Ao']]. split; [exact Hl|].
    destruct (nn_ n) as [N1 N2].
    set (s' := fst (step pt s (ORem n))) in *. set (ls' := law_next crule ls (ORem n) (snd (step pt s (ORem n)))) in *.
    assert (Es : s' = erase s).
    { unfold s'. simpl. rewrite P1. simpl. unfold rem1 at 2. rewrite P2. unfold rem1. simpl.
      rewrite assoc_adel, N2, P1. reflexivity. }
    assert (El : l_itd ls' = l_itd (lerase ls)).
    { rewrite Ai', Es. unfold MapInterleave.erase, MapInterleave.lerase. cbn [s_itd l_itd].
      destruct HA as [Ai _]. rewrite Ai. reflexivity. }
    assert (Hx : ls' = mkL (l_itd (lerase ls)) (l_od ls')) by (rewrite <- El; destruct ls'; reflexivity).
    rewrite Hx, Es. apply (Inv_od_ext ct0 pt (erase s) (l_itd (lerase ls)) (l_od (lerase ls)) (l_od ls')).
    - destruct (lerase ls) eqn:E. exact HI.
    - intro k. rewrite Ao', Es. symmetry. apply (inv_od _ _ _ _ HI).
  Qed.
End Inter.

(* ------------------------------------------------------------------ *)
(* Histories in which mapped traits live one at a time, interleaved with anything on far names *)

Definition life : Type := option (name * list (Z * Z) * Z).

Definition is_end (n : name) (o : op) : bool :=
  match o with ORem k => name_eqb k n | _ => false end.

Definition starts (o : op) : life :=
  match o with
  | OAdd k (PMap m d) => match zassoc d m with Some _ => Some (k, m, d) | None => None end
  | _ => None
  end.

(* the boolean hypothesis: outside a life, any clean operation or the add_trait of a mapped trait
   with a usable default; inside the life of (n, Map(m, d)): remove_trait(n) ends it, reads, writes
   and deletions of n / n_ are free, every other operation must be clean and on a name far from
   the pair *)
Fixpoint iclean (pt : ptab) (md : life) (s : state) (os : list op) : bool :=
  match os with
  | [] => true
  | o :: r =>
    let s' := fst (step pt s o) in
    match md with
    | Some (n, m, d) =>
        if is_end n o then iclean pt None s' r
        else (pair_op n o || (far n (op_name o) && clean_step s o)) && iclean pt md s' r
    | None =>
        match starts o with
        | Some l => iclean pt (Some l) s' r
        | None => clean_step s o && iclean pt None s' r
        end
    end
  end.

Definition KI (ct0 : ctab) (pt : ptab) (md : life) (s : state) (ls : lstate) : Prop :=
  match md with
  | None => Inv ct0 pt s ls
  | Some (n, m, d) => K ct0 pt n m d s ls /\ exists wd, zassoc d m = Some wd
  end.

Lemma is_end_eq : forall n o, is_end n o = true -> o = ORem n.
Proof. intros n [k|k v|k|k q|k]; simpl; try discriminate. intro H. apply name_eqb_eq in H. subst. reflexivity. Qed.

Lemma starts_eq : forall o n m d, starts o = Some (n, m, d) ->
  o = OAdd n (PMap m d) /\ exists wd, zassoc d m = Some wd.
Proof.
  intros [k|k v|k|k q|k] n m d; simpl; try discriminate.
  destruct q; try discriminate. destruct (zassoc _ _) eqn:E; [|discriminate].
  intro H. inversion H. subst. split; [reflexivity|eauto].
Qed.


Theorem interleaved_lives : forall ct0 pt os md s ls i,
  KI ct0 pt md s ls -> iclean pt md s os = true ->
  law_hist (model_rule ct0 pt) i ls (run pt s os) = [].
Proof.
  intros ct0 pt. induction os as [|o r IH]; intros md s ls i HK Hc; [reflexivity|].
  assert (X : law_step (model_rule ct0 pt) ls o (snd (step pt s o)) = [] /\
              exists md', KI ct0 pt md' (fst (step pt s o)) (law_next (model_rule ct0 pt) ls o (snd (step pt s o))) /\
                          iclean pt md' (fst (step pt s o)) r = true).
  { cbn [iclean] in Hc. destruct md as [[[n m] d]|].
    - destruct HK as [HK [wd Hd]]. destruct (is_end n o) eqn:Ee.
      + apply is_end_eq in Ee. subst o. destruct (K_end ct0 pt n m d s ls HK) as [A B].
        split; [exact A|]. exists None. split; [exact B|exact Hc].
      + apply andb_true_iff in Hc. destruct Hc as [H1 H2]. apply orb_true_iff in H1. destruct H1 as [H1|H1].
        * destruct (K_pair ct0 pt n m d wd Hd s ls o HK H1) as [A B].
          split; [exact A|]. exists (Some (n, m, d)). split; [split; [exact B|eauto]|exact H2].
        * apply andb_true_iff in H1. destruct H1 as [H1 H3].
          destruct (K_far ct0 pt n m d s ls o HK H1 H3) as [A B].
          split; [exact A|]. exists (Some (n, m, d)). split; [split; [exact B|eauto]|exact H2].
    - destruct (starts o) as [[[n m] d]|] eqn:Es.
      + apply starts_eq in Es. destruct Es as [-> [wd Hd]].
        destruct (K_start ct0 pt n m d s ls HK) as [A B].
        split; [exact A|]. exists (Some (n, m, d)). split; [split; [exact B|eauto]|exact Hc].
      + apply andb_true_iff in Hc. destruct Hc as [H1 H2].
        destruct (step_ok ct0 pt s ls o HK H1) as [A B].
        split; [exact A|]. exists None. split; [exact B|exact H2]. }
  destruct X as [A [md' [B C]]].
  cbn [run]. destruct (step pt s o) as [s' ob]. cbn [fst snd law_hist] in *. rewrite A. cbn [map app].
  apply (IH md' s' _ _ B C).
Qed.

Lemma interleaved_lives_tables : forall ct0 pt os i,
  plain_tab ct0 = true -> plain_tab pt = true ->
  iclean pt None (init_state ct0) os = true ->
  law_hist (model_rule ct0 pt) i l_init (run pt (init_state ct0) os) = [].
Proof. intros ct0 pt os i P1 P2 H. apply (interleaved_lives ct0 pt os None _ _ i (Inv_init _ _ P1 P2) H). Qed.

(* fourth form of the main theorem: any class without Map/List declarations, either reading of
   "inherited" where they agree *)
Lemma interleaved_lives_spec : forall h c os i,
  plain_class h c = true ->
  let t := class_tables h c in
  iclean (snd t) None (init_state (fst t)) os = true ->
  law_hist (spec_rule h c) i l_init (run (snd t) (init_state (fst t)) os) = [].
Proof.
  intros h c os i Hp t H. apply andb_true_iff in Hp. destruct Hp as [P1 P2].
  rewrite <- (law_hist_ext _ _ (class_tables_rule h c)).
  apply (interleaved_lives_tables (fst t) (snd t) os i P1 P2 H).
Qed.

Lemma interleaved_lives_single : forall h c os i,
  single h = true -> (c < length (roots ++ h))%nat ->
  plain_class h c = true ->
  let t := class_tables h c in
  iclean (snd t) None (init_state (fst t)) os = true ->
  law_hist (mro_rule h c) i l_init (run (snd t) (init_state (fst t)) os) = [].
Proof.
  intros h c os i Hs Hc Hp t H.
  rewrite (law_hist_ext _ _ (fun k => mro_spec_single h c k Hs Hc)).
  apply interleaved_lives_spec; auto.
Qed.

(* the new hypothesis contains the old ones: a clean plain history is an interleaved one *)
Lemma iclean_clean_run : forall pt os s, clean_run pt s os = true -> iclean pt None s os = true.
Proof.
  intros pt. induction os as [|o r IH]; intros s H; [reflexivity|].
  cbn [clean_run] in H. apply andb_true_iff in H. destruct H as [H1 H2]. cbn [iclean].
  destruct (starts o) as [[[n m] d]|] eqn:E.
  - apply starts_eq in E. destruct E as [-> _]. simpl in H1. discriminate.
  - rewrite H1. simpl. apply IH. exact H2.
Qed.
