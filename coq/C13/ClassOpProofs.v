(* C13 — add_class_trait (seeded change C13-t2): wildcards added at run time keep the prefix list
   sorted longest first, so the first match is still the longest matching wildcard. *)
From Coq Require Import ZArith List Bool Lia Sorted.
From TV Require Import Common.Harness C13.Model C13.Law C13.Corr C13.Proofs.
From TV Require C13.CorrT.   (* so that the checker's class-operation evaluation is built with the proofs *)
Import ListNotations.
Open Scope Z_scope.

(* _add_class_trait, wildcard branch (has_traits.py l.1163-1170): append, then sort *)
Definition add_wild (pt : ptab) (e : name * policy) : ptab := sort_len (pt ++ [e]).

Lemma add_class1_wildcard : forall ct pt n p, ends_us n = true -> amem (removelast n) pt = false ->
  add_class1 false (ct, pt) n p = Some (ct, add_wild pt (removelast n, p)) /\
  add_class1 true (ct, pt) n p = Some (ct, add_wild pt (removelast n, p)).
Proof. intros ct pt n p H1 H2. unfold add_class1. rewrite H1, H2. auto. Qed.

(* an existing definition: TraitError on the class itself, silently kept on subclasses *)
Lemma add_class1_existing : forall ct pt n p,
  (if ends_us n then amem (removelast n) pt else amem n ct) = true ->
  add_class1 false (ct, pt) n p = None /\ add_class1 true (ct, pt) n p = Some (ct, pt).
Proof. intros ct pt n p H. unfold add_class1. destruct (ends_us n); rewrite H; auto. Qed.

Lemma add_class1_explicit : forall ct pt n p, ends_us n = false -> amem n ct = false ->
  add_class1 false (ct, pt) n p = Some (aset n p ct, pt).
Proof. intros ct pt n p H1 H2. unfold add_class1. rewrite H1, H2. reflexivity. Qed.

(* after ANY sequence of run-time wildcard additions the list is sorted longest first and the
   first match is the longest matching wildcard of all declarations, old and new, whatever the
   order in which they were added (specific then general, or general then specific) *)
Lemma runtime_wildcards_sorted : forall adds pt,
  StronglySorted len_ge pt ->
  let pt' := fold_left add_wild adds pt in
  StronglySorted len_ge pt' /\ tab_eq pt' (pt ++ adds) /\
  forall n, wild (first_match n pt') = wild (best n (pt ++ adds)).
Proof.
  assert (Core : forall adds pt, StronglySorted len_ge pt ->
            StronglySorted len_ge (fold_left add_wild adds pt) /\ tab_eq (fold_left add_wild adds pt) (pt ++ adds)).
  { induction adds as [|e r IH]; intros pt Hs; simpl.
    - rewrite app_nil_r. split; [exact Hs|intro; reflexivity].
    - destruct (IH (add_wild pt e) (sort_len_sorted _)) as [A B]. split; [exact A|].
      intro k. rewrite B. unfold add_wild.
      replace (pt ++ e :: r) with ((pt ++ [e]) ++ r) by (rewrite <- app_assoc; reflexivity).
      apply tab_eq_app. intro j. apply assoc_sort_len. }
  intros adds pt Hs. destruct (Core adds pt Hs) as [A B]. cbv zeta. repeat split; auto.
  intro n. apply first_match_best; auto.
Qed.

(* histories with class operations on the model (CorrT.step_t) *)
Fixpoint run_t (h : list classdef) (objs : list nat) (s : CorrT.tstate) (ops : list CorrT.top)
  : list (CorrT.top * obs) :=
  match ops with
  | [] => []
  | t :: r => let '(s', ob) := CorrT.step_t h objs s t in (t, ob) :: run_t h objs s' r
  end.
