(* C13 — correspondence and law for histories with on_trait_change listeners attached to and
   detached from names (seeded change C13-u2).  One case = user classes, the class of the object,
   the history of object operations, Listen(name) and Unlisten(name) with the observations. *)
From Coq Require Import ZArith List Bool.
From TV Require Import Common.Harness C13.Model C13.Law C13.Corr.
Import ListNotations.
Open Scope Z_scope.

Definition case := (list classdef * nat * list (nop * obs))%type.

Fixpoint corr_hist_n (pt : ptab) (i : Z) (s : state) (h : list (nop * obs)) : list Z :=
  match h with
  | [] => []
  | (x, ob) :: r =>
      let '(s', m) := step_n pt s x in
      map (fun c => 100 * i + c) (obs_diff m ob) ++ corr_hist_n pt (i + 1) s' r
  end.

Definition corr_codes (c : case) : list Z :=
  let '(h, cl, hist) := c in
  let t := class_tables h cl in
  corr_hist_n (snd t) 0 (init_state (fst t)) hist.

(* The law.  Listening is policy-neutral: "the instance trait of that name if one was added, else
   the class rule" governs before and after, and an instance trait added with add_trait keeps
   governing until remove_trait.  The bookkeeping records that the name has an instance trait from
   now on (remove_trait reports it): the trait that governed the name anyway.  Clause 94: attaching
   a listener to a name governed by a trait succeeds; clause 95: detaching succeeds. *)
Definition listen_next (mr : name -> rule) (ls : lstate) (n : name) : lstate :=
  if amem n (l_itd ls) then ls
  else match mr n with
       | RPol p => mkL (aset n p (l_itd ls)) (l_od ls)
       | _ => ls
       end.

Definition is_done (o : outcome) : bool := match o with Done => true | _ => false end.

Definition law_step_n (mr : name -> rule) (ls : lstate) (x : nop) (ob : obs) : list Z :=
  match x with
  | NOp o => law_step mr ls o ob
  | NListen n => match governing mr ls n with
                 | RPol _ => chk 94 (is_done (o_out ob))
                 | _ => []
                 end
  | NUnlisten _ => chk 95 (is_done (o_out ob))
  end.

Definition law_next_n (mr : name -> rule) (ls : lstate) (x : nop) (ob : obs) : lstate :=
  match x with
  | NOp o => law_next mr ls o ob
  | NListen n => if is_done (o_out ob) then listen_next mr ls n else ls
  | NUnlisten _ => ls
  end.

Definition nop_name (x : nop) : name :=
  match x with NOp o => op_name o | NListen n | NUnlisten n => n end.

Fixpoint law_hist_n (mr : name -> rule) (i : Z) (ls : lstate) (h : list (nop * obs)) : list Z :=
  match h with
  | [] => []
  | (x, ob) :: r =>
      map (fun c => 100 * i + c) (law_step_n mr ls x ob) ++ law_hist_n mr (i + 1) (law_next_n mr ls x ob) r
  end.

(* failure codes re-labelled as in Corr.law_tag (clause 99: the MRO and base-order readings differ) *)
Fixpoint law_tag_n (mr sr : name -> rule) (i : Z) (ls : lstate) (h : list (nop * obs)) : list Z :=
  match h with
  | [] => []
  | (x, ob) :: r =>
      (match law_step_n mr ls x ob with
       | [] => []
       | codes => if rule_eqb (mr (nop_name x)) (sr (nop_name x))
                  then map (fun c => 100 * i + c) codes else [100 * i + 99]
       end) ++ law_tag_n mr sr (i + 1) (law_next_n mr ls x ob) r
  end.

Definition law_codes (c : case) : list Z :=
  let '(h, cl, hist) := c in
  law_tag_n (mro_rule h cl) (spec_rule h cl) 0 l_init hist.
