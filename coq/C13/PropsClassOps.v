(* C13 — property theorems (continued: add_class_trait histories); same conventions as Props.v. *)
From Coq Require Import ZArith List Bool Lia.
From TV Require Import Common.Harness C13.Model C13.Law C13.Corr C13.Proofs C13.MapProofs C13.ListenerProofs C13.ClassOpProofs C13.ListenerInd C13.ClassOpInd C13.ClassOpSub C13.MapInterleave C13.ClassOpDag C13.ClassOpSubRun C13.ClassOpGlobal C13.ClassOpChain C13.ListLife C13.ListenerInd2 C13.ClassOpTie.
Import ListNotations.
Open Scope Z_scope.


(* add_class_trait, inductively.  ANY class of ANY hierarchy (hh = pre ++ cd :: post, k = its
   position; ancestors arbitrary, multiple inheritance included), tables without Map/List;
   ANY sequence of add_class_trait(name, trait) calls on that class — accepted or rejected
   (already defined), explicit names and wildcards in any order, plain traits — [class_phase];
   then EVERY clean history on a fresh instance: the law holds with the class-level rule computed
   from the hierarchy WITH the accepted run-time declarations appended to the class body
   ([snd (class_phase ...)], the checker's CorrT.add_decl: [runtime_declarations_bookkeeping]).
   Behind it: [add_class_trait_is_a_declaration] — one accepted call keeps the class's tables in
   agreement (dictionaries equal, prefix list sorted longest first) with the declarative tables
   of the class body extended by that declaration. *)
Theorem law_holds_after_runtime_declarations :
  forall pre cd post adds ops i,
    let hh := pre ++ cd :: post in
    let k := length pre in
    plain_t (tabs_nth (tables hh) k) = true ->
    forallb (fun e => plainp (snd e)) adds = true ->
    let ph := class_phase hh k (tables hh) hh adds in
    let t := tabs_nth (fst ph) k in
    clean_run (snd t) (init_state (fst t)) ops = true ->
    law_hist (class_rule (vis_nth (visible (snd ph)) k)) i l_init (run (snd t) (init_state (fst t)) ops) = [].
Proof. exact class_ops_then_history. Qed.
Print Assumptions law_holds_after_runtime_declarations.

(* the same for the runs the checker evaluates (CorrT.step_t on the tables of all classes) *)
Theorem law_holds_on_class_operation_runs :
  forall pre cd post adds ops i,
    let hh := pre ++ cd :: post in
    let k := length pre in
    plain_t (tabs_nth (tables hh) k) = true ->
    forallb (fun e => plainp (snd e)) adds = true ->
    let t := tabs_nth (fst (class_phase hh k (tables hh) hh adds)) k in
    clean_run (snd t) (init_state (fst t)) ops = true ->
    law_hist_ta [k] hh i [l_init]
      (run_t hh [k] (tables hh, [([], [])])
             (map (fun e => C13.CorrT.TClass k (fst e) (snd e)) adds ++ map (C13.CorrT.TObj 0) ops)) = [].
Proof. exact class_ops_run. Qed.
Print Assumptions law_holds_on_class_operation_runs.

Theorem add_class_trait_is_a_declaration :
  forall V cd t n p t', plainp p = true ->
    Agr t (vis_class V cd) -> add_class1 false t n p = Some t' ->
    Agr t' (vis_class V (mkClass (c_decls cd ++ [(n, p)]) (c_bases cd))).
Proof. exact Agr_add. Qed.
Print Assumptions add_class_trait_is_a_declaration.

Theorem runtime_declarations_bookkeeping :
  forall h k n p, (3 <= k)%nat -> app_decl (roots ++ h) k (n, p) = roots ++ C13.CorrT.add_decl h k n p.
Proof. exact app_decl_roots. Qed.
Print Assumptions runtime_declarations_bookkeeping.

(* the two cached-name findings: when the name was touched (resolved, cached) BEFORE the matching
   add_class_trait the law fails on the model too — which is why the theorem above has the class
   operations before the first use of the instance *)
Theorem runtime_wildcard_after_use_refuted :
  let hh := roots ++ [mkClass [] [0%nat]] in
  law_hist_ta [3%nat] hh 0 [l_init]
    (run_t hh [3%nat] (tables hh, [([], [])])
       [C13.CorrT.TObj 0 (OGet n_cax); C13.CorrT.TClass 3 [99; 95] (PTyped VInt 7); C13.CorrT.TObj 0 (OGet n_cax)]) <> [].
Proof. exact cached_wildcard_refutes. Qed.
Print Assumptions runtime_wildcard_after_use_refuted.

Theorem runtime_class_trait_after_use_refuted :
  let hh := roots ++ [mkClass [] [0%nat]; mkClass [] [3%nat]] in
  law_hist_ta [4%nat] hh 0 [l_init]
    (run_t hh [4%nat] (tables hh, [([], [])])
       [C13.CorrT.TObj 0 (OGet n_zz); C13.CorrT.TClass 3 n_zz (PTyped VStr 102); C13.CorrT.TObj 0 (OGet n_zz)]) <> [].
Proof. exact cached_class_trait_refutes. Qed.
Print Assumptions runtime_class_trait_after_use_refuted.

(* Non-vacuity: strict class B(A) in a hierarchy with a sibling; on B: cab_ = Int accepted, c_ = Str
   accepted, c_ again rejected, explicit cq = ReadOnly accepted, a wildcard declared in the body rejected;
   then a history: cabx is an Int, cx a Str, cq write-once, cz still rejected by the strict default *)
Example runtime_declarations_nontrivial :
  let pre := roots ++ [mkClass [([100; 95], PEvent None)] [1%nat]] in
  let cd := mkClass [([101; 95], PAny 5)] [3%nat] in
  let post := [mkClass [] [3%nat]] in
  let adds := [([99; 97; 98; 95], PTyped VInt 7); ([99; 95], PTyped VStr 102); ([99; 95], PDisallow);
               ([99; 113], PReadOnly VUndef); ([101; 95], PDisallow)] in
  let hh := pre ++ cd :: post in
  let ph := class_phase hh 4 (tables hh) hh adds in
  let t := tabs_nth (fst ph) 4 in
  let ops := [OGet [99; 97; 98; 120]; OSet [99; 97; 98; 120] 101; OGet [99; 120]; OSet [99; 113] 1; OSet [99; 113] 2;
              OGet [122]; OSet [100; 120] 1; OGet [101; 120]] in
  plain_t (tabs_nth (tables hh) 4) = true /\
  clean_run (snd t) (init_state (fst t)) ops = true /\
  map (fun e => length (c_decls e)) (snd ph) = [3; 1; 2; 1; 4; 0]%nat /\
  map (fun x => o_out (snd x)) (run (snd t) (init_state (fst t)) ops) =
  [Val 7; Raise TraitError; Val 102; Done; Raise TraitError; Raise AttributeError; Done; Val 5].
Proof. vm_compute. repeat split; reflexivity. Qed.


(* add_class_trait on the object's own class INTERLEAVED with the object's operations, any order and
   number ([orun]: the object and the prefix list of its class; [law_hist_o]: the law with the
   class-level rule recomputed from the hierarchy after every accepted call).  Hypothesis
   [oclean_run] (boolean, evaluated along the run): finding 1, Map/List traits, and the cached-name
   finding are excluded — an accepted run-time wildcard must not match a name already cached in the
   class dictionary or stored in the object unless that name is declared, governed by an instance
   trait, or a __x__ name; an accepted explicit name must not already hold a value unless its trait
   stores values.  ([runtime_wildcard_after_use_refuted] shows the exclusion is needed.) *)
Theorem law_holds_on_interleaved_class_operations :
  forall pre cd post xs i,
    let hh := pre ++ cd :: post in
    let k := length pre in
    let t := tabs_nth (tables hh) k in
    plain_t t = true ->
    oclean_run k (init_state (fst t), snd t) hh xs = true ->
    law_hist_o k hh i l_init (orun (init_state (fst t), snd t) xs) = [].
Proof. exact interleaved_class_ops. Qed.
Print Assumptions law_holds_on_interleaved_class_operations.

(* Non-vacuity: HasTraits-derived class with a declared wildcard; use; add a longer and a shorter wildcard;
   use names matching both / one; add an explicit write-once name; a rejected repetition; a late
   wildcard for names not touched so far; uses in between *)
Example interleaved_class_operations_nontrivial :
  let hh := roots ++ [mkClass [([100; 95], PTyped VInt 7)] [0%nat]] in
  let t := tabs_nth (tables hh) 3 in
  let xs := [OObj (OSet [122] 1); OObj (OGet [100; 120]); OCls [99; 97; 98; 95] (PTyped VInt 7);
             OCls [99; 95] (PTyped VStr 102); OObj (OGet [99; 97; 98; 120]); OObj (OSet [99; 97; 98; 121] 101);
             OObj (OGet [99; 120]); OCls [99; 113] (PReadOnly VUndef); OObj (OSet [99; 113] 1); OObj (OSet [99; 113] 2);
             OCls [99; 95] PDisallow; OObj (OGet [122]); OCls [101; 95] (PEvent None); OObj (OGet [101; 120])] in
  plain_t t = true /\
  oclean_run 3 (init_state (fst t), snd t) hh xs = true /\
  map (fun x => o_out (snd x)) (orun (init_state (fst t), snd t) xs) =
  [Done; Val 7; Done; Done; Val 7; Raise TraitError; Val 102; Done; Done; Raise TraitError; Raise TraitError;
   Val 1; Done; Raise AttributeError].
Proof. vm_compute. repeat split; reflexivity. Qed.

(* ... and the same for the runs the checker evaluates (CorrT.step_t on the tables of all classes) *)
Theorem law_holds_on_interleaved_class_operation_runs :
  forall pre cd post xs i,
    let hh := pre ++ cd :: post in
    let k := length pre in
    let t := tabs_nth (tables hh) k in
    plain_t t = true ->
    oclean_run k (init_state (fst t), snd t) hh xs = true ->
    law_hist_ta [k] hh i [l_init] (run_t hh [k] (tables hh, [([], [])]) (map (top_of k) xs)) = [].
Proof. exact interleaved_class_ops_run. Qed.
Print Assumptions law_holds_on_interleaved_class_operation_runs.

(* Subclasses.  [Ext v v' n p]: the declarative tables v' are v with the declaration (n -> p) added
   if absent (explicit name or wildcard).  An accepted add_class_trait extends the declarative
   tables of the class itself; the extension is inherited through the body of every class that has
   that class as its single base; and _add_class_trait(is_subclass=True) keeps a subclass's model
   tables in agreement with the extended declarative tables. *)
Theorem accepted_add_class_trait_extends_the_class :
  forall V cd n p, plainp p = true ->
    (if ends_us n then amem (removelast n) (snd (vis_class V cd)) else amem n (fst (vis_class V cd))) = false ->
    Ext (vis_class V cd) (vis_class V (mkClass (c_decls cd ++ [(n, p)]) (c_bases cd))) n p.
Proof. exact Ext_own. Qed.
Print Assumptions accepted_add_class_trait_extends_the_class.

Theorem runtime_declaration_is_inherited_by_single_base_subclass :
  forall V V' cd b n p, c_bases cd = [b] ->
    Ext (vis_nth V b) (vis_nth V' b) n p -> assoc [] (snd (vis_nth V b)) <> None ->
    Ext (vis_class V cd) (vis_class V' cd) n p.
Proof. exact Ext_inherit. Qed.
Print Assumptions runtime_declaration_is_inherited_by_single_base_subclass.

Theorem add_class_trait_on_subclass_agrees_with_inherited_declaration :
  forall t v v' n p t', plainp p = true ->
    Agr t v -> Ext v v' n p -> add_class1 true t n p = Some t' -> Agr t' v'.
Proof. exact Agr_add_sub. Qed.
Print Assumptions add_class_trait_on_subclass_agrees_with_inherited_declaration.

(* ... and the hierarchy-level theorem.  [Path hh k j]: class j is reached from class k through
   classes that each have exactly one base (any hierarchy around them).  Any sequence of
   add_class_trait calls on the BASE class k (accepted or rejected, explicit names and wildcards),
   then every clean history on a fresh instance of the SUBCLASS j: the law holds with the rule of j
   computed from the hierarchy with the accepted declarations appended to the body of k, i.e.
   inherited by j unless j or a class in between defines the name itself. *)
Theorem law_holds_for_subclass_instances_after_runtime_declarations :
  forall hh k j adds ops i,
    Path hh k j -> j <> k ->
    plain_t (tabs_nth (tables hh) k) = true -> plain_t (tabs_nth (tables hh) j) = true ->
    forallb (fun e => plainp (snd e)) adds = true ->
    let ph := class_phase hh k (tables hh) hh adds in
    let t := tabs_nth (fst ph) j in
    clean_run (snd t) (init_state (fst t)) ops = true ->
    law_hist (class_rule (vis_nth (visible (snd ph)) j)) i l_init (run (snd t) (init_state (fst t)) ops) = [].
Proof. exact subclass_runtime_declarations. Qed.
Print Assumptions law_holds_for_subclass_instances_after_runtime_declarations.

Theorem runtime_declaration_reaches_the_whole_single_base_path :
  forall hh k n p, (k < length hh)%nat -> plainp p = true ->
    (if ends_us n then amem (removelast n) (snd (vis_nth (visible hh) k)) else amem n (fst (vis_nth (visible hh) k))) = false ->
    forall j, Path hh k j -> Ext (vis_nth (visible hh) j) (vis_nth (visible (app_decl hh k (n, p))) j) n p.
Proof. exact Ext_path. Qed.
Print Assumptions runtime_declaration_reaches_the_whole_single_base_path.

(* Non-vacuity (the second half of the C13-t2 demo, one level deeper): Base(HasStrictTraits) declares
   tr_ = ReadOnly; Derived(Base); Leaf(Derived) declares z = Any(5).  On Base at run time: t_ = Int (accepted),
   tr_ = Disallow (rejected), tq = Constant(3) (accepted), z = Event (accepted on Base, kept out of Leaf).
   On a Leaf instance: trx is still write-once, tc is an Int, tq the constant, z Leaf's own, w rejected. *)
Example subclass_runtime_declarations_nontrivial :
  let hh := roots ++ [mkClass [([116; 114; 95], PReadOnly VUndef)] [1%nat]; mkClass [] [3%nat]; mkClass [([122], PAny 5)] [4%nat]] in
  let adds := [([116; 95], PTyped VInt 7); ([116; 114; 95], PDisallow); ([116; 113], PConstant 3); ([122], PEvent None)] in
  let ph := class_phase hh 3 (tables hh) hh adds in
  let t := tabs_nth (fst ph) 5 in
  let ops := [OSet [116; 114; 120] 101; OSet [116; 114; 120] 102; OGet [116; 114; 120]; OGet [116; 99]; OSet [116; 99] 101;
              OGet [116; 113]; OGet [122]; OGet [119]] in
  Path hh 3 5 /\
  plain_t (tabs_nth (tables hh) 3) = true /\ plain_t (tabs_nth (tables hh) 5) = true /\
  clean_run (snd t) (init_state (fst t)) ops = true /\
  map (fun e => length (c_decls e)) (snd ph) = [3; 1; 2; 4; 0; 1]%nat /\
  map (fun x => o_out (snd x)) (run (snd t) (init_state (fst t)) ops) =
  [Done; Raise TraitError; Val 101; Val 7; Raise TraitError; Val 3; Val 5; Raise AttributeError].
Proof.
  split.
  - apply (PS _ _ 4%nat 5%nat); [apply (PS _ _ 3%nat 4%nat); [constructor| | |]| | |]; simpl; try lia; reflexivity.
  - vm_compute. repeat split; reflexivity.
Qed.

(* ------------------------------------------------------------------ *)
(* Depth round, item 3: the life of a mapped trait interleaved with operations on other names
   (coq/C13/MapInterleave.v).  The hypothesis is one boolean over the run, [iclean]: outside a
   life any clean operation, or add_trait(n, Map(m, d)) with d a key of m, which opens a life;
   inside the life of n: remove_trait(n) closes it, get/set/del of n and n_ are unrestricted,
   and every other operation (get, set, del, add_trait of a plain trait, remove_trait) must be
   clean and on a name k "far" from the pair: k, k_ and (when k ends in _) k without its last
   character are all different from n and n_.  Lives may follow each other in any number, each
   with its own n, m, d. *)

Theorem law_holds_on_mapped_lives_interleaved_with_other_names :
  forall (h : list classdef) (c : nat) (os : list op) (i : Z),
    plain_class h c = true ->
    let t := class_tables h c in
    iclean (snd t) None (init_state (fst t)) os = true ->
    law_hist (spec_rule h c) i l_init (run (snd t) (init_state (fst t)) os) = [].
Proof. exact interleaved_lives_spec. Qed.
Print Assumptions law_holds_on_mapped_lives_interleaved_with_other_names.

(* the same under the MRO reading the checker uses, for single-inheritance hierarchies *)
Theorem law_holds_on_interleaved_mapped_lives_under_mro_reading :
  forall (h : list classdef) (c : nat) (os : list op) (i : Z),
    single h = true -> (c < length (roots ++ h))%nat ->
    plain_class h c = true ->
    let t := class_tables h c in
    iclean (snd t) None (init_state (fst t)) os = true ->
    law_hist (mro_rule h c) i l_init (run (snd t) (init_state (fst t)) os) = [].
Proof. exact interleaved_lives_single. Qed.
Print Assumptions law_holds_on_interleaved_mapped_lives_under_mro_reading.

(* the general form: from any state of the invariant (outside a life: the plain invariant; inside
   the life of n: the plain invariant of the object with n and n_ erased, the pair installed, the
   law's bookkeeping in agreement) *)
Theorem law_holds_on_interleaved_mapped_lives_from_any_invariant_state :
  forall ct0 pt (os : list op) (md : life) s ls (i : Z),
    KI ct0 pt md s ls -> iclean pt md s os = true ->
    law_hist (model_rule ct0 pt) i ls (run pt s os) = [].
Proof. exact interleaved_lives. Qed.
Print Assumptions law_holds_on_interleaved_mapped_lives_from_any_invariant_state.

(* the hypothesis is a generalisation: every clean history on plain traits satisfies it *)
Theorem clean_histories_are_interleaved_histories :
  forall pt os s, clean_run pt s os = true -> iclean pt None s os = true.
Proof. exact iclean_clean_run. Qed.
Print Assumptions clean_histories_are_interleaved_histories.

(* the step lemma that is new: during the life of n, a clean operation on a far name passes the
   law's step check and preserves the in-life invariant *)
Theorem far_operation_during_a_mapped_life_obeys_the_law :
  forall ct0 pt n m d s ls o,
    K ct0 pt n m d s ls -> far n (op_name o) = true -> clean_step s o = true ->
    law_step (model_rule ct0 pt) ls o (snd (step pt s o)) = [] /\
    K ct0 pt n m d (fst (step pt s o)) (law_next (model_rule ct0 pt) ls o (snd (step pt s o))).
Proof. exact K_far. Qed.
Print Assumptions far_operation_during_a_mapped_life_obeys_the_law.

(* and the reason: on a far name whose traits are plain the model's step commutes with erasing
   the pair from the object, and so does the law's bookkeeping *)
Theorem far_step_commutes_with_erasing_the_pair :
  forall n pt s o,
    far n (op_name o) = true -> plain_at pt s (op_name o) ->
    (forall k q, o = OAdd k q -> plainp q = true) ->
    step pt (MapInterleave.erase n s) o = (MapInterleave.erase n (fst (step pt s o)), snd (step pt s o)).
Proof. exact step_far. Qed.
Print Assumptions far_step_commutes_with_erasing_the_pair.

Theorem far_law_update_commutes_with_erasing_the_pair :
  forall n (crule : name -> rule) ls o ob,
    far n (op_name o) = true ->
    (forall k q, o = OAdd k q -> plainp q = true) ->
    (forall p, found_trait crule ls (op_name o) = Some p -> plainp p = true) ->
    lerase n (law_next crule ls o ob) = law_next crule (lerase n ls) o ob.
Proof. exact law_next_far. Qed.
Print Assumptions far_law_update_commutes_with_erasing_the_pair.

(* opening and closing a life between states of the two invariants *)
Theorem add_trait_of_a_mapped_trait_opens_a_life :
  forall ct0 pt n m d s ls, Inv ct0 pt s ls ->
    law_step (model_rule ct0 pt) ls (OAdd n (PMap m d)) (snd (step pt s (OAdd n (PMap m d)))) = [] /\
    K ct0 pt n m d (fst (step pt s (OAdd n (PMap m d))))
      (law_next (model_rule ct0 pt) ls (OAdd n (PMap m d)) (snd (step pt s (OAdd n (PMap m d))))).
Proof. exact K_start. Qed.
Print Assumptions add_trait_of_a_mapped_trait_opens_a_life.

Theorem remove_trait_closes_a_life_into_the_plain_invariant :
  forall ct0 pt n m d s ls, K ct0 pt n m d s ls ->
    law_step (model_rule ct0 pt) ls (ORem n) (snd (step pt s (ORem n))) = [] /\
    Inv ct0 pt (fst (step pt s (ORem n))) (law_next (model_rule ct0 pt) ls (ORem n) (snd (step pt s (ORem n)))).
Proof. exact K_end. Qed.
Print Assumptions remove_trait_closes_a_life_into_the_plain_invariant.

(* Non-vacuity: strict class with the wildcard a_; during the life of "ab" (Map({1: 11, 2: 12}))
   the object gets add_trait("c"), writes, reads and deletes of "c", add_trait("d", Int),
   remove_trait("c"); then remove_trait("ab"); then a life of "c" during which "ab" is used.
   None of the earlier mapped-trait theorems covers this history. *)
Example interleaved_lives_nontrivial :
  let t := class_tables [mkClass [([97; 95], PTyped VInt 7)] [1%nat]] 3 in
  let os := [OSet [99] 4; OAdd [99] (PAny 5); OSet [99] 6;
             OAdd [97; 98] (PMap [(1, 11); (2, 12)] 1);
             OGet [97; 98; 95]; OSet [99] 7; OSet [97; 98] 2; OAdd [100] (PTyped VInt 0);
             OGet [100]; OSet [100] 101; ODel [99]; OGet [97; 98; 95]; OGet [99; 95]; ORem [99]; OGet [99];
             OSet [97; 98] 5; OSet [97; 98; 95] 9; ODel [97; 98];
             ORem [97; 98];
             OGet [97; 98]; OSet [97; 98; 95] 3;
             OAdd [99] (PMap [(2, 3); (6, 5)] 6);
             OSet [97; 98] 1; OGet [99; 95]; OGet [97; 98; 95]; OSet [99] 2; ODel [100]; OGet [99; 95];
             ORem [99]; OGet [99]] in
  iclean (snd t) None (init_state (fst t)) os = true /\
  length (run (snd t) (init_state (fst t)) os) = 30%nat.
Proof. vm_compute. split; reflexivity. Qed.

(* ------------------------------------------------------------------ *)
(* Depth round, item 2 continued: add_class_trait on a base class and instances of subclasses
   with SEVERAL bases (multiple inheritance, diamonds, mixins; coq/C13/ClassOpDag.v).
   [Reach hh k n j]: class j descends from class k; every base of every class on the way either
   descends from k in the same manner or has no ancestor k at all ([Unaff]); and at every class on
   the way the name n is new (absent from the class's declarative pair), or defined in the class's
   own body, or the class has exactly one base (so single-inheritance chains always qualify).  [phase_ok] asks this for each ACCEPTED call, in the hierarchy as declared so far. *)

Theorem law_holds_for_multiple_inheritance_subclass_instances_after_runtime_declarations :
  forall hh k j adds ops i,
    (k < j)%nat -> (j < length hh)%nat ->
    phase_ok hh k j (tables hh) hh adds ->
    plain_t (tabs_nth (tables hh) k) = true -> plain_t (tabs_nth (tables hh) j) = true ->
    forallb (fun e => plainp (snd e)) adds = true ->
    let ph := class_phase hh k (tables hh) hh adds in
    let t := tabs_nth (fst ph) j in
    clean_run (snd t) (init_state (fst t)) ops = true ->
    law_hist (class_rule (vis_nth (visible (snd ph)) j)) i l_init (run (snd t) (init_state (fst t)) ops) = [].
Proof. exact dag_runtime_declarations. Qed.
Print Assumptions law_holds_for_multiple_inheritance_subclass_instances_after_runtime_declarations.

(* the declarative side: one class with any number of bases ... *)
Theorem runtime_declaration_is_inherited_through_several_bases :
  forall V V' cd n p,
    (forall b, In b (c_bases cd) -> Ext (vis_nth V b) (vis_nth V' b) n p \/ vis_nth V b = vis_nth V' b) ->
    (exists b, In b (c_bases cd) /\ Ext (vis_nth V b) (vis_nth V' b) n p) ->
    vis_has (vis_class V cd) n = false \/ own_has cd n = true ->
    Ext (vis_class V cd) (vis_class V' cd) n p.
Proof. exact Ext_multi. Qed.
Print Assumptions runtime_declaration_is_inherited_through_several_bases.

(* ... the whole set of descendants ... *)
Theorem runtime_declaration_reaches_every_descendant :
  forall hh k n p, (k < length hh)%nat -> plainp p = true ->
    (if ends_us n then amem (removelast n) (snd (vis_nth (visible hh) k)) else amem n (fst (vis_nth (visible hh) k))) = false ->
    forall j, Reach hh k n j -> Ext (vis_nth (visible hh) j) (vis_nth (visible (app_decl hh k (n, p))) j) n p.
Proof. exact Ext_reach. Qed.
Print Assumptions runtime_declaration_reaches_every_descendant.

(* ... and the classes that do not descend from k keep their declarative pair *)
Theorem runtime_declaration_leaves_unrelated_classes_alone :
  forall hh k d, (k < length hh)%nat ->
    forall j, Unaff hh k j -> vis_nth (visible (app_decl hh k d)) j = vis_nth (visible hh) j.
Proof. exact unaff_vis. Qed.
Print Assumptions runtime_declaration_leaves_unrelated_classes_alone.
