(* C13 — property theorems (sixth wave: keyword-stem wildcards, copies of an object); same conventions as Props.v. *)
From Coq Require Import ZArith List Bool Lia.
From TV Require Import Common.Harness C13.Model C13.Law C13.Corr C13.CorrC C13.Proofs C13.Wave6.
Import ListNotations.
Open Scope Z_scope.

(* ---- C13-w1: `is_ = Int`, `in_ = Str`, `from_ = ReadOnly` are wildcards like any other ---- *)
Theorem keyword_stem_wildcards_are_wildcards :
  forall ct pt n p, ends_us n = true -> own_step (ct, pt) (n, p) = (ct, aset (removelast n) p pt).
Proof. exact trailing_underscore_declares_a_wildcard. Qed.
Print Assumptions keyword_stem_wildcards_are_wildcards.

(* the demo: strict class with is_ = Int(7): is_r is an Int, "in" is undeclared *)
Example keyword_stem_wildcard_nontrivial :
  let h := [mkClass [([105; 115; 95], PTyped VInt 7)] [1%nat]] in
  let t := class_tables h 3 in
  let ops := [OGet [105; 115; 95; 114]; OSet [105; 115; 95; 114] 101; OSet [105; 115; 95; 114] 5; OGet [105; 115; 95; 114];
              OSet [105; 110] 1] in
  plain_class h 3 = true /\ clean_run (snd t) (init_state (fst t)) ops = true /\
  map (fun x => o_out (snd x)) (run (snd t) (init_state (fst t)) ops) =
  [Val 7; Raise TraitError; Done; Val 5; Raise TraitError].
Proof. vm_compute. repeat split; reflexivity. Qed.

(* ---- C13-w3: copy.copy / pickle round trip — the copy is governed by its own rules ---- *)
Theorem the_copy_has_no_instance_traits :
  forall ct0 pt ctd a b s2' st cp,
    clone ct0 pt (ctd, a, b) = (s2', Done, st, cp) -> fst (snd s2') = [].
Proof. exact copy_has_no_instance_traits. Qed.
Print Assumptions the_copy_has_no_instance_traits.

Theorem a_refused_copy_is_dropped :
  forall ct0 pt ctd a b s2' x st cp,
    clone ct0 pt (ctd, a, b) = (s2', Raise x, st, cp) -> snd s2' = b.
Proof. exact refused_copy_is_dropped. Qed.
Print Assumptions a_refused_copy_is_dropped.

Theorem restoring_never_adds_instance_traits :
  forall pt st s, s_itd (fst (restore pt s st)) = s_itd s.
Proof. exact restore_itd. Qed.
Print Assumptions restoring_never_adds_instance_traits.

Theorem a_copy_is_refused_only_by_an_assignment_its_own_rules_refuse :
  forall pt st s s' e, restore pt s st = (s', Some e) ->
    exists n v s1, In (n, v) st /\ o_out (snd (step pt s1 (OSet n v))) = Raise e.
Proof. exact restore_refusal. Qed.
Print Assumptions a_copy_is_refused_only_by_an_assignment_its_own_rules_refuse.

(* the demo of C13-w3: strict class with x = Int; add_trait("l", Str), l = "1": the copy is refused
   (TraitError: l is undeclared on the copy); after remove_trait("l") the copy is made, x is copied, and
   l is not readable on it *)
Example copy_of_a_strict_object_nontrivial :
  let t := class_tables [mkClass [([120], PTyped VInt 7)] [1%nat]] 3 in
  let s1 := fst (step2 (snd t) (fst (step2 (snd t) (fst (step2 (snd t) (init_state2 (fst t)) false (OSet [120] 1)))
                                       false (OAdd [108] (PTyped VStr 102)))) false (OSet [108] 101)) in
  let s2 := fst (step2 (snd t) s1 false (ORem [108])) in
  let r := clone (fst t) (snd t) s2 in
  (snd (fst (fst (clone (fst t) (snd t) s1))), snd (fst (clone (fst t) (snd t) s1))) =
    (Raise TraitError, [([120], 1); ([108], 101)]) /\
  (snd (fst (fst r)), snd (fst r), snd r) = (Done, [([120], 1)], [([120], Some 1)]) /\
  o_out (snd (step2 (snd t) (fst (fst (fst r))) true (OGet [108]))) = Raise AttributeError /\
  o_out (snd (step2 (snd t) (fst (fst (fst r))) true (OGet [120]))) = Val 1.
Proof. vm_compute. repeat split; reflexivity. Qed.
