(* C13 — correspondence and law for histories with copies of the object (copy.copy / pickle round
   trip; seeded change C13-w3).  Two instances of one class: a (flag false) and b (flag true); a
   successful Clone makes the copy of a the new b. *)
From Coq Require Import ZArith List Bool.
From TV Require Import Common.Harness C13.Model C13.Law C13.Corr.
Import ListNotations.
Open Scope Z_scope.

Inductive cev :=
| CEv (w : bool) (o : op) (ob : obs)
| CCl (out : outcome) (st : list (name * Z)) (cp : list (name * option Z)).

Definition case := (list classdef * nat * list cev)%type.

Definition nv_eqb (a b : name * Z) : bool := name_eqb (fst a) (fst b) && Z.eqb (snd a) (snd b).
Definition no_eqb (a b : name * option Z) : bool := name_eqb (fst a) (fst b) && opt_eqb Z.eqb (snd a) (snd b).

(* codes: as Corr.obs_diff for operations; for a copy 1 outcome, 6 the state dictionary (names, order,
   values), 7 what the copy holds *)
Fixpoint corr_hist_c (ct0 : ctab) (pt : ptab) (i : Z) (s : state2) (h : list cev) : list Z :=
  match h with
  | [] => []
  | CEv w o ob :: r =>
      let '(s', m) := step2 pt s w o in
      map (fun c => 100 * i + c) (obs_diff m ob) ++ corr_hist_c ct0 pt (i + 1) s' r
  | CCl out st cp :: r =>
      let '(s', mout, mst, mcp) := clone ct0 pt s in
      map (fun c => 100 * i + c)
          (chk 1 (outcome_eqb mout out) ++ chk 6 (list_eqb nv_eqb mst st)
           ++ chk 7 (match out with Done => list_eqb no_eqb mcp cp | _ => true end))
      ++ corr_hist_c ct0 pt (i + 1) s' r
  end.

Definition corr_codes (c : case) : list Z :=
  let '(h, cl, hist) := c in
  let t := class_tables h cl in
  corr_hist_c (fst t) (snd t) 0 (init_state2 (fst t)) hist.

(* The law.  Every name of the copy is governed by the copy's own rule — the class-level rule, the
   copy has no instance traits — exactly as for an ordinary assignment of the state's value to a
   fresh object: clause 96, the copy is refused (TraitError) iff one of these assignments is refused;
   clause 97, otherwise the copy holds for each name what that assignment stores. *)
Definition refused (mr : name -> rule) (nv : name * Z) : bool :=
  match fst (demand (mr (fst nv)) None (OSet (fst nv) (snd nv))) with WRaise _ => true | _ => false end.

Definition law_clone (mr : name -> rule) (out : outcome) (st : list (name * Z)) (cp : list (name * option Z)) : list Z :=
  if existsb (refused mr) st
  then chk 96 (match out with Raise TraitError => true | _ => false end)
  else chk 96 (match out with Done => true | _ => false end)
       ++ chk 97 (match out with
                  | Done => forallb (fun nv => stored_ok (snd (demand (mr (fst nv)) None (OSet (fst nv) (snd nv))))
                                                         (match assoc (fst nv) cp with Some x => x | None => None end)) st
                  | _ => true
                  end).

Definition od_of (cp : list (name * option Z)) : list (name * Z) :=
  fold_left (fun od e => match snd e with Some v => aset (fst e) v od | None => od end) cp [].

Fixpoint law_tag_c (mr sr : name -> rule) (i : Z) (la lb : lstate) (h : list cev) : list Z :=
  match h with
  | [] => []
  | CEv w o ob :: r =>
      let me := if w then lb else la in
      (match law_step mr me o ob with
       | [] => []
       | codes => if rule_eqb (mr (op_name o)) (sr (op_name o))
                  then map (fun c => 100 * i + c) codes else [100 * i + 99]
       end) ++ law_tag_c mr sr (i + 1) (if w then la else law_next mr me o ob) (if w then law_next mr me o ob else lb) r
  | CCl out st cp :: r =>
      (match law_clone mr out st cp with
       | [] => []
       | codes => if forallb (fun nv => rule_eqb (mr (fst nv)) (sr (fst nv))) st
                  then map (fun c => 100 * i + c) codes else [100 * i + 99]
       end)
      (* the original now holds every value of the state dictionary; the copy starts afresh *)
      ++ law_tag_c mr sr (i + 1)
           (mkL (l_itd la) (fold_left (fun od nv => aset (fst nv) (snd nv) od) st (l_od la)))
           (match out with Done => mkL [] (od_of cp) | _ => lb end) r
  end.

Definition law_codes (c : case) : list Z :=
  let '(h, cl, hist) := c in
  law_tag_c (mro_rule h cl) (spec_rule h cl) 0 l_init l_init hist.
