(* C13 — fourth wave: state round trip of a trait definition (C13-u1), on_trait_change listeners
   attached and detached (C13-u2), access through a delegating attribute (C13-u3). *)
From Coq Require Import ZArith List Bool Lia.
From TV Require Import Common.Harness C13.Model C13.Law C13.Corr C13.CorrN C13.Proofs C13.MapProofs C13.ListenerProofs C13.ListenerInd.
Import ListNotations.
Open Scope Z_scope.

(* ---------- C13-u1 ---------- *)
Lemma round_trip_id : forall p, round_trip p = p.
Proof. reflexivity. Qed.

Lemma round_trip_add : forall pt s n p, step pt s (OAdd n (round_trip p)) = step pt s (OAdd n p).
Proof. reflexivity. Qed.

Lemma round_trip_add_class : forall h T k n p, add_class h T k n (round_trip p) = add_class h T k n p.
Proof. reflexivity. Qed.

(* a copied ReadOnly definition is still write-once: from any state of the invariant in which the
   instance trait of n is the round-tripped ReadOnly and a defined value is stored *)
Lemma round_trip_readonly_write_once : forall pt s n v w,
  assoc n (s_itd s) = Some (round_trip (PReadOnly VUndef)) -> assoc n (s_od s) = Some w -> Z.eqb w VUndef = false ->
  o_out (snd (step pt s (OSet n v))) = Raise TraitError /\ o_out (snd (step pt s (ODel n))) = Raise TraitError /\
  assoc n (s_od (fst (step pt s (OSet n v)))) = Some w.
Proof.
  intros pt s n v w Hi Ho Hw. unfold round_trip in Hi.
  simpl step. unfold lookup_set. rewrite Hi. cbn [setattr_m setattr delattr]. rewrite Ho, Hw. cbn. auto.
Qed.

(* ---------- C13-u3 ---------- *)
Lemma via_is_the_delegates_access : forall pt s a t v,
  step pt s (via_get a t) = step pt s (OGet t) /\
  step pt s (via_set a t v) = step pt s (OSet t v) /\
  step pt s (via_del a t) = step pt s (ODel t).
Proof. intros. repeat split; reflexivity. Qed.

(* the write is governed by the DELEGATE's rule: undeclared on a strict delegate -> TraitError, nothing stored *)
Lemma via_strict_rejected : forall ct pt s ls a t v, Inv ct pt s ls -> gov ct pt s t = RPol PDisallow ->
  o_out (snd (step pt s (via_set a t v))) = Raise TraitError /\
  assoc t (s_od (fst (step pt s (via_set a t v)))) = assoc t (s_od s) /\
  (assoc t (s_od s) = None -> o_out (snd (step pt s (via_get a t))) = Raise AttributeError).
Proof.
  intros ct pt s ls a t v HI Hg. destruct (disallow_rejects ct pt s ls t v HI Hg) as (A & B & C & D).
  unfold via_set, via_get. auto.
Qed.

(* ---------- C13-u2 ---------- *)
Lemma unlisten_changes_nothing : forall pt s n, fst (step_n pt s (NUnlisten n)) = s.
Proof. reflexivity. Qed.

Lemma listen_keeps_instance_trait : forall pt s n p,
  assoc n (s_itd s) = Some p -> fst (step_n pt s (NListen n)) = s /\ o_out (snd (step_n pt s (NListen n))) = Done.
Proof. intros pt s n p H. cbn [step_n]. unfold listen. rewrite H. split; reflexivity. Qed.

Lemma listen_clones_class_trait : forall pt s n p,
  assoc n (s_itd s) = None -> assoc n (s_ctd s) = Some p ->
  fst (step_n pt s (NListen n)) = mkState (s_ctd s) (aset n p (s_itd s)) (s_od s).
Proof. intros pt s n p H1 H2. cbn [step_n]. unfold listen. rewrite H1, H2. reflexivity. Qed.

(* the law's side: recording the clone changes the governing rule of no name *)
Lemma listen_next_neutral : forall mr ls n m, governing mr (listen_next mr ls n) m = governing mr ls m.
Proof.
  intros mr ls n m. unfold listen_next. destruct (amem n (l_itd ls)) eqn:Ea; [reflexivity|].
  destruct (mr n) as [p| |] eqn:Er; try reflexivity.
  unfold governing. cbn [l_itd]. rewrite assoc_aset. destruct (name_eqb n m) eqn:E; [|reflexivity].
  apply name_eqb_eq in E. subst m. unfold amem in Ea. destruct (assoc n (l_itd ls)); [discriminate|]. symmetry. exact Er.
Qed.

(* detaching never touches the bookkeeping: an instance trait added with add_trait is still there *)
Lemma unlisten_keeps_bookkeeping : forall mr ls n ob, law_next_n mr ls (NUnlisten n) ob = ls.
Proof. reflexivity. Qed.

(* ----- the law on every history with listeners attached and detached ----- *)
Fixpoint run_n (pt : ptab) (s : state) (xs : list nop) : list (nop * obs) :=
  match xs with
  | [] => []
  | x :: r => let '(s', ob) := step_n pt s x in (x, ob) :: run_n pt s' r
  end.

(* excluded: finding 1 and Map/List add_trait (clean_step); listening to a __x__ name *)
Definition nclean (s : state) (x : nop) : bool :=
  match x with
  | NOp o => clean_step s o
  | NListen n => negb (dunder n)
  | NUnlisten _ => true
  end.
Fixpoint nclean_run (pt : ptab) (s : state) (xs : list nop) : bool :=
  match xs with
  | [] => true
  | x :: r => nclean s x && nclean_run pt (fst (step_n pt s x)) r
  end.

Section N.
  Variable ct0 : ctab.
  Variable pt : ptab.
  Notation crule := (model_rule ct0 pt).

  Lemma clone_ok : forall s ls n p, Inv ct0 pt s ls -> assoc n (s_itd s) = None -> model_rule ct0 pt n = RPol p ->
    plainp p = true ->
    Inv ct0 pt (mkState (s_ctd s) (aset n p (s_itd s)) (s_od s)) (mkL (aset n p (l_itd ls)) (l_od ls)).
  Proof.
    intros s ls n p HI Hi Hr Hp. apply Inv_set_itd; auto.
    unfold amem. destruct (assoc n (s_od s)) as [v|] eqn:Eo; [|apply orb_true_r].
    pose proof (inv_st _ _ _ _ HI n v Eo) as St. unfold gov in St. rewrite Hi, Hr in St. rewrite St. reflexivity.
  Qed.

  Lemma step_n_ok : forall s ls x, Inv ct0 pt s ls -> nclean s x = true ->
    law_step_n crule ls x (snd (step_n pt s x)) = [] /\
    Inv ct0 pt (fst (step_n pt s x)) (law_next_n crule ls x (snd (step_n pt s x))).
  Proof.
    intros s ls x HI Hc. destruct x as [o|n|n].
    - apply step_ok; assumption.
    - cbn [step_n law_step_n law_next_n nclean] in *. apply negb_true_iff in Hc.
      destruct (inv_plain4 _ _ _ _ HI) as (P1 & P2 & P3 & P4).
      unfold listen. rewrite (governing_gov ct0 pt s ls n HI). unfold gov.
      destruct (assoc n (s_itd s)) as [p|] eqn:Ei.
      + cbn. split; [reflexivity|]. unfold listen_next, amem. rewrite (inv_itd _ _ _ _ HI), Ei. exact HI.
      + assert (Ha : amem n (l_itd ls) = false) by (unfold amem; rewrite (inv_itd _ _ _ _ HI), Ei; reflexivity).
        destruct (assoc n (s_ctd s)) as [p|] eqn:Ec.
        * destruct (inv_c2 _ _ _ _ HI n p Ec) as [Hr|[Hr _]].
          -- rewrite Hr. cbn. split; [reflexivity|]. unfold listen_next. rewrite Ha, Hr.
             apply clone_ok; auto. apply (plain_assoc _ n p P4 Ec).
          -- exfalso. unfold model_rule in Hr. destruct (assoc n ct0); [discriminate|]. rewrite Hc in Hr.
             destruct (first_match n pt) as [[q x]|]; discriminate.
        * destruct (prefix_trait pt s n false) as [[p s']|e] eqn:Ep.
          -- destruct (Inv_prefix_trait ct0 pt s ls n false p s' HI Ei Ec Ep) as (HI' & Hi' & Ho').
             assert (Hr : model_rule ct0 pt n = RPol p).
             { revert Ep. unfold prefix_trait, model_rule. rewrite (ct0_none ct0 pt _ _ _ HI Ec), Hc.
               destruct (first_match n pt) as [[q x]|]; [|discriminate]. intro E. inversion E. reflexivity. }
             rewrite Hr. cbn. split; [reflexivity|]. unfold listen_next. rewrite Ha, Hr.
             apply clone_ok; auto; [rewrite Hi'; exact Ei|].
             revert Ep. unfold prefix_trait. rewrite Hc. destruct (first_match n pt) as [[q x]|] eqn:Ef; [|discriminate].
             intro E. inversion E; subst. apply (plain_first_match _ _ _ _ P2 Ef).
          -- cbn. split; [|exact HI].
             assert (Hr : model_rule ct0 pt n = RNone).
             { revert Ep. unfold prefix_trait, model_rule. rewrite (ct0_none ct0 pt _ _ _ HI Ec), Hc.
               destruct (first_match n pt) as [[q x]|]; [discriminate|]. reflexivity. }
             rewrite Hr. reflexivity.
    - cbn. split; [reflexivity|exact HI].
  Qed.

  Lemma run_n_law : forall xs s ls i, Inv ct0 pt s ls -> nclean_run pt s xs = true ->
    law_hist_n crule i ls (run_n pt s xs) = [].
  Proof.
    induction xs as [|x r IH]; intros s ls i HI Hc; [reflexivity|].
    cbn [nclean_run] in Hc. apply andb_true_iff in Hc. destruct Hc as [H1 H2].
    destruct (step_n_ok s ls x HI H1) as [A B].
    cbn [run_n]. destruct (step_n pt s x) as [s' ob]. cbn [fst snd law_hist_n] in *.
    rewrite A. cbn [map app]. apply IH; auto.
  Qed.
End N.

Lemma law_step_n_ext : forall r1 r2 : name -> rule, (forall n, r1 n = r2 n) ->
  forall ls x ob, law_step_n r1 ls x ob = law_step_n r2 ls x ob.
Proof.
  intros r1 r2 E ls x ob. destruct x as [o|n|n]; cbn [law_step_n]; [apply law_step_ext; exact E| |reflexivity].
  unfold governing. rewrite (E n). reflexivity.
Qed.
Lemma law_next_n_ext : forall r1 r2 : name -> rule, (forall n, r1 n = r2 n) ->
  forall ls x ob, law_next_n r1 ls x ob = law_next_n r2 ls x ob.
Proof.
  intros r1 r2 E ls x ob. destruct x as [o|n|n]; cbn [law_next_n]; [apply law_next_ext; exact E| |reflexivity].
  unfold listen_next. rewrite (E n). reflexivity.
Qed.

(* every class without Map/List declarations, every history of get / set / del / add_trait /
   remove_trait / Listen / Unlisten on one object *)
Lemma law_listen_histories : forall h c xs i,
  plain_class h c = true ->
  let t := class_tables h c in
  nclean_run (snd t) (init_state (fst t)) xs = true ->
  law_hist_n (spec_rule h c) i l_init (run_n (snd t) (init_state (fst t)) xs) = [].
Proof.
  intros h c xs i Hp t Hc. apply andb_true_iff in Hp. destruct Hp as [P1 P2].
  assert (E : forall hist ls j, law_hist_n (model_rule (fst t) (snd t)) j ls hist = law_hist_n (spec_rule h c) j ls hist).
  { induction hist as [|[x ob] r IH]; intros ls j; [reflexivity|]. cbn [law_hist_n].
    rewrite IH, (law_step_n_ext _ _ (class_tables_rule h c)), (law_next_n_ext _ _ (class_tables_rule h c)). reflexivity. }
  rewrite <- E. apply run_n_law; auto. apply Inv_init; auto.
Qed.

(* the checker's re-labelled codes are empty exactly when the law is *)
Lemma law_tag_n_nil : forall mr sr h i ls, law_tag_n mr sr i ls h = [] <-> law_hist_n mr i ls h = [].
Proof.
  intros mr sr. induction h as [|[x ob] r IH]; intros i ls; [simpl; tauto|].
  cbn [law_tag_n law_hist_n]. destruct (law_step_n mr ls x ob) as [|z l] eqn:E.
  - simpl. apply IH.
  - split; intro H; exfalso.
    + destruct (rule_eqb (mr (nop_name x)) (sr (nop_name x))); simpl in H; discriminate.
    + simpl in H. discriminate.
Qed.
