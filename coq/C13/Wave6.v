(* C13 — sixth wave: wildcards whose stem is a Python keyword (C13-w1), copies of an object (C13-w3). *)
From Coq Require Import ZArith List Bool Lia.
From TV Require Import Common.Harness C13.Model C13.Law C13.Corr C13.CorrC C13.Proofs.
Import ListNotations.
Open Scope Z_scope.

(* ---------- C13-w1 ---------- *)
(* a class-body name ending in '_' declares a wildcard, whatever its stem *)
Lemma trailing_underscore_declares_a_wildcard : forall ct pt n p, ends_us n = true ->
  own_step (ct, pt) (n, p) = (ct, aset (removelast n) p pt).
Proof. intros ct pt n p H. unfold own_step. rewrite H. reflexivity. Qed.

(* ---------- C13-w3 ---------- *)
Lemma restore_itd : forall pt st s, s_itd (fst (restore pt s st)) = s_itd s.
Proof.
  intros pt. induction st as [|[n v] r IH]; intros s; [reflexivity|].
  cbn [restore]. pose proof (step_itd_access pt s (OSet n v) eq_refl) as H.
  destruct (step pt s (OSet n v)) as [s' ob]. cbn [fst] in H.
  destruct (o_out ob); cbn [fst]; try (rewrite IH; exact H); exact H.
Qed.

(* the copy has no instance traits: every name of it is governed by the class-level rule *)
Lemma copy_has_no_instance_traits : forall ct0 pt ctd a b s2' st cp,
  clone ct0 pt (ctd, a, b) = (s2', Done, st, cp) -> fst (snd s2') = [].
Proof.
  intros ct0 pt ctd a b s2' st cp. unfold clone.
  destruct (read_state pt (mkState ctd (fst a) (snd a)) (clone_names ct0 (mkState ctd (fst a) (snd a)))) as [sa' st'] eqn:E1.
  pose proof (restore_itd pt st' (mkState (s_ctd sa') [] [])) as H.
  destruct (restore pt (mkState (s_ctd sa') [] []) st') as [sb' e] eqn:E2. cbn [fst s_itd] in H.
  destruct e as [x|]; intro E; inversion E; subst. cbn [snd fst]. exact H.
Qed.

(* a refused copy leaves the second instance as it was *)
Lemma refused_copy_is_dropped : forall ct0 pt ctd a b s2' x st cp,
  clone ct0 pt (ctd, a, b) = (s2', Raise x, st, cp) -> snd s2' = b.
Proof.
  intros ct0 pt ctd a b s2' x st cp. unfold clone.
  destruct (read_state pt (mkState ctd (fst a) (snd a)) (clone_names ct0 (mkState ctd (fst a) (snd a)))) as [sa' st'].
  destruct (restore pt (mkState (s_ctd sa') [] []) st') as [sb' e].
  destruct e as [y|]; intro E; inversion E; subst. reflexivity.
Qed.

(* the copy is refused exactly when one of the assignments of the state is refused by the copy's rules *)
Lemma restore_refusal : forall pt st s s' e, restore pt s st = (s', Some e) ->
  exists n v s1, In (n, v) st /\ o_out (snd (step pt s1 (OSet n v))) = Raise e.
Proof.
  intros pt. induction st as [|[n v] r IH]; intros s s' e H; [discriminate|].
  cbn [restore] in H. destruct (step pt s (OSet n v)) as [s1 ob] eqn:E.
  destruct (o_out ob) as [x| |x] eqn:Eo.
  - destruct (IH _ _ _ H) as (n' & v' & s2 & Hin & Ho). exists n', v', s2. split; [right; exact Hin|exact Ho].
  - destruct (IH _ _ _ H) as (n' & v' & s2 & Hin & Ho). exists n', v', s2. split; [right; exact Hin|exact Ho].
  - inversion H; subst. exists n, v, s. split; [left; reflexivity|]. rewrite E. exact Eo.
Qed.
