(* C13 — property theorems (fourth and fifth wave; fourth: state round trip of a trait definition, on_trait_change
   listeners attached and detached, access through a delegating attribute); same conventions as Props.v. *)
From Coq Require Import ZArith List Bool Lia.
From TV Require Import Common.Harness C13.Model C13.Law C13.Corr C13.CorrN C13.CorrT C13.Proofs C13.MapProofs C13.ClassOpProofs C13.Wave4 C13.Wave5.
Import ListNotations.
Open Scope Z_scope.

(* ---- C13-u1: a definition that went through __getstate__/__setstate__ (copy, deepcopy, pickle) ---- *)
Theorem round_tripped_definition_is_the_same_definition : forall p, round_trip p = p.
Proof. exact round_trip_id. Qed.
Print Assumptions round_tripped_definition_is_the_same_definition.

Theorem add_trait_of_a_round_tripped_definition_governs_like_the_original :
  forall pt s n p, step pt s (OAdd n (round_trip p)) = step pt s (OAdd n p).
Proof. exact round_trip_add. Qed.
Print Assumptions add_trait_of_a_round_tripped_definition_governs_like_the_original.

Theorem add_class_trait_of_a_round_tripped_definition_governs_like_the_original :
  forall h T k n p, add_class h T k n (round_trip p) = add_class h T k n p.
Proof. exact round_trip_add_class. Qed.
Print Assumptions add_class_trait_of_a_round_tripped_definition_governs_like_the_original.

Theorem round_tripped_readonly_is_still_write_once :
  forall pt s n v w,
    assoc n (s_itd s) = Some (round_trip (PReadOnly VUndef)) -> assoc n (s_od s) = Some w -> Z.eqb w VUndef = false ->
    o_out (snd (step pt s (OSet n v))) = Raise TraitError /\ o_out (snd (step pt s (ODel n))) = Raise TraitError /\
    assoc n (s_od (fst (step pt s (OSet n v)))) = Some w.
Proof. exact round_trip_readonly_write_once. Qed.
Print Assumptions round_tripped_readonly_is_still_write_once.

(* ---- C13-u3: access through a delegating attribute (DelegatesTo, modify semantics, one link) ---- *)
Theorem access_through_a_delegating_attribute_is_the_delegates_access :
  forall pt s a t v,
    step pt s (via_get a t) = step pt s (OGet t) /\
    step pt s (via_set a t v) = step pt s (OSet t v) /\
    step pt s (via_del a t) = step pt s (ODel t).
Proof. exact via_is_the_delegates_access. Qed.
Print Assumptions access_through_a_delegating_attribute_is_the_delegates_access.

Theorem write_through_delegation_is_governed_by_the_delegates_rule :
  forall ct pt s ls a t v, Inv ct pt s ls -> gov ct pt s t = RPol PDisallow ->
    o_out (snd (step pt s (via_set a t v))) = Raise TraitError /\
    assoc t (s_od (fst (step pt s (via_set a t v)))) = assoc t (s_od s) /\
    (assoc t (s_od s) = None -> o_out (snd (step pt s (via_get a t))) = Raise AttributeError).
Proof. exact via_strict_rejected. Qed.
Print Assumptions write_through_delegation_is_governed_by_the_delegates_rule.

(* the demo of C13-u3 on the model: strict class, s = Int, t_ = Str; writes through delegating
   attributes d, e, f to s, h (undeclared) and tn (wildcard): the history is covered by the main
   theorem law_holds_on_every_history (it is a clean history of the delegate) *)
Example delegated_writes_nontrivial :
  let t := class_tables [mkClass [([115], PTyped VInt 1); ([116; 95], PTyped VStr 102)] [1%nat]] 3 in
  let ds := [via_set [100] [115] 3; OGet [115]; via_set [101] [104] 9; OGet [104]; via_set [102] [116; 110] 5;
             via_set [102] [116; 110] 101; OGet [116; 110]] in
  plain_class [mkClass [([115], PTyped VInt 1); ([116; 95], PTyped VStr 102)] [1%nat]] 3 = true /\
  clean_run (snd t) (init_state (fst t)) ds = true /\
  map (fun x => o_out (snd x)) (run (snd t) (init_state (fst t)) ds) =
  [Done; Val 3; Raise TraitError; Raise AttributeError; Raise TraitError; Done; Val 101].
Proof. vm_compute. repeat split; reflexivity. Qed.

(* ---- C13-u2: on_trait_change(handler, name) and its removal are policy-neutral ---- *)
Theorem detaching_a_listener_changes_nothing :
  forall pt s n, fst (step_n pt s (NUnlisten n)) = s.
Proof. exact unlisten_changes_nothing. Qed.
Print Assumptions detaching_a_listener_changes_nothing.

Theorem attaching_a_listener_keeps_an_added_instance_trait :
  forall pt s n p, assoc n (s_itd s) = Some p ->
    fst (step_n pt s (NListen n)) = s /\ o_out (snd (step_n pt s (NListen n))) = Done.
Proof. exact listen_keeps_instance_trait. Qed.
Print Assumptions attaching_a_listener_keeps_an_added_instance_trait.

Theorem attaching_a_listener_clones_the_class_trait :
  forall pt s n p, assoc n (s_itd s) = None -> assoc n (s_ctd s) = Some p ->
    fst (step_n pt s (NListen n)) = mkState (s_ctd s) (aset n p (s_itd s)) (s_od s).
Proof. exact listen_clones_class_trait. Qed.
Print Assumptions attaching_a_listener_clones_the_class_trait.

Theorem listening_changes_the_governing_rule_of_no_name :
  forall mr ls n m, governing mr (listen_next mr ls n) m = governing mr ls m.
Proof. exact listen_next_neutral. Qed.
Print Assumptions listening_changes_the_governing_rule_of_no_name.

Theorem detaching_keeps_the_instance_traits_of_the_law :
  forall mr ls n ob, law_next_n mr ls (NUnlisten n) ob = ls.
Proof. exact unlisten_keeps_bookkeeping. Qed.
Print Assumptions detaching_keeps_the_instance_traits_of_the_law.

(* inductively: every class without Map/List declarations, every history of get / set / del /
   add_trait / remove_trait / Listen / Unlisten on one object; [nclean_run]: finding 1, Map/List
   add_trait, and listening to a __x__ name are excluded *)
Theorem law_holds_on_every_history_with_listeners_attached_and_detached :
  forall h c xs i,
    plain_class h c = true ->
    let t := class_tables h c in
    nclean_run (snd t) (init_state (fst t)) xs = true ->
    law_hist_n (spec_rule h c) i l_init (run_n (snd t) (init_state (fst t)) xs) = [].
Proof. exact law_listen_histories. Qed.
Print Assumptions law_holds_on_every_history_with_listeners_attached_and_detached.

Theorem listen_step_preserves_the_invariant :
  forall ct0 pt s ls x, Inv ct0 pt s ls -> nclean s x = true ->
    law_step_n (model_rule ct0 pt) ls x (snd (step_n pt s x)) = [] /\
    Inv ct0 pt (fst (step_n pt s x)) (law_next_n (model_rule ct0 pt) ls x (snd (step_n pt s x))).
Proof. exact step_n_ok. Qed.
Print Assumptions listen_step_preserves_the_invariant.

Theorem listener_case_law_codes_relabelling_is_faithful :
  forall mr sr h i ls, law_tag_n mr sr i ls h = [] <-> law_hist_n mr i ls h = [].
Proof. exact law_tag_n_nil. Qed.
Print Assumptions listener_case_law_codes_relabelling_is_faithful.

(* Non-vacuity (the demo of C13-u2 and more): strict class with ab = Int(7), b_ = Any; a copied
   ReadOnly added to c, assigned, listener attached and detached: still write-once; listener on the
   class trait ab (clone: remove_trait then reports an instance trait), on an undeclared name *)
Example listen_history_nontrivial :
  let t := class_tables [mkClass [([97; 98], PTyped VInt 7); ([98; 95], PAny 5)] [1%nat]] 3 in
  let xs := [NOp (OAdd [99] (round_trip (PReadOnly VUndef))); NOp (OSet [99] 1); NListen [99]; NUnlisten [99];
             NOp (OSet [99] 2); NOp (OGet [99]);
             NListen [97; 98]; NOp (OGet [97; 98]); NOp (OSet [97; 98] 5); NUnlisten [97; 98]; NOp (OSet [97; 98] 101);
             NOp (ORem [97; 98]); NOp (OGet [97; 98]);
             NListen [122; 122]; NOp (OSet [122; 122] 1); NUnlisten [113]; NOp (ORem [122; 122]); NOp (ORem [122; 122]);
             NOp (ORem [99]); NOp (OSet [99] 1)] in
  nclean_run (snd t) (init_state (fst t)) xs = true /\
  map (fun x => o_out (snd x)) (run_n (snd t) (init_state (fst t)) xs) =
  [Done; Done; Done; Done; Raise TraitError; Val 1; Done; Val 7; Done; Done; Raise TraitError; Val 1; Val 7; Done;
   Raise TraitError; Done; Val 1; Val 0; Val 1; Raise TraitError].
Proof. vm_compute. split; reflexivity. Qed.

(* ================================================================== *)
(* Fifth wave. *)

(* ---- C13-v1: the ABC variants of the root classes are classes like any other: ABCHasTraits declares
   nothing over HasTraits, ABCHasStrictTraits declares _ = Disallow over it; their rule is the rule
   of HasTraits / HasStrictTraits for every name (so strict_class_default_is_disallow applies) ---- *)
Theorem abc_strict_class_is_governed_like_the_strict_class :
  forall n, spec_rule abc_classes 4 n = spec_rule [] 1 n.
Proof. exact abc_strict_rule. Qed.
Print Assumptions abc_strict_class_is_governed_like_the_strict_class.

Theorem abc_plain_class_is_governed_like_the_plain_class :
  forall n, spec_rule abc_classes 3 n = spec_rule [] 0 n.
Proof. exact abc_plain_rule. Qed.
Print Assumptions abc_plain_class_is_governed_like_the_plain_class.

(* a subclass of ABCHasStrictTraits: an undeclared (misspelled) name is refused, a declared one typed *)
Example abc_strict_subclass_nontrivial :
  let h := abc_classes ++ [mkClass [([97; 98], PTyped VInt 7)] [4%nat]] in
  let t := class_tables h 5 in
  let ops := [OSet [98; 97] 101; OGet [98; 97]; OSet [97; 98] 5; OGet [97; 98]; OSet [97; 98] 101; OSet [95; 120] 1] in
  plain_class h 5 = true /\ clean_run (snd t) (init_state (fst t)) ops = true /\
  map (fun x => o_out (snd x)) (run (snd t) (init_state (fst t)) ops) =
  [Raise TraitError; Raise AttributeError; Done; Val 5; Raise TraitError; Raise TraitError].
Proof. vm_compute. repeat split; reflexivity. Qed.

(* ---- C13-v2: a class-body default value for an inherited trait keeps the trait's kind ---- *)
Theorem class_body_default_keeps_readonly : forall d v, redefault (PReadOnly d) v = PReadOnly v.
Proof. exact redefault_keeps_readonly. Qed.
Print Assumptions class_body_default_keeps_readonly.

Theorem class_body_default_keeps_the_validator : forall k d v, redefault (PTyped k d) v = PTyped k v.
Proof. exact redefault_keeps_validator. Qed.
Print Assumptions class_body_default_keeps_the_validator.

Theorem redefaulted_readonly_is_never_assignable :
  forall pt s n d v w,
    assoc n (s_itd s) = None -> assoc n (s_ctd s) = Some (redefault (PReadOnly d) v) -> Z.eqb v VUndef = false ->
    o_out (snd (step pt s (OSet n w))) = Raise TraitError.
Proof. exact redefault_readonly_rejects. Qed.
Print Assumptions redefaulted_readonly_is_never_assignable.

(* the demo of C13-v2: A.x = ReadOnly, B.x = Int(7), C(A, B): x = 5 *)
Example class_body_default_nontrivial :
  let h := [mkClass [([120], PReadOnly VUndef)] [0%nat]; mkClass [([120], PTyped VInt 7)] [0%nat];
            mkClass [([120], redefault (PReadOnly VUndef) 5)] [3%nat; 4%nat]] in
  let t := class_tables h 5 in
  let ops := [OGet [120]; OSet [120] 1; OGet [120]; ODel [120]] in
  plain_class h 5 = true /\ clean_run (snd t) (init_state (fst t)) ops = true /\
  map (fun x => o_out (snd x)) (run (snd t) (init_state (fst t)) ops) =
  [Val 5; Raise TraitError; Val 5; Raise TraitError].
Proof. vm_compute. repeat split; reflexivity. Qed.

(* ---- C13-v3: names a class owns through a List declaration are definitions for add_class_trait ---- *)
Theorem owned_name_is_an_existing_definition_for_add_class_trait :
  forall ct pt m p, ends_us m = false -> amem m ct = true ->
    add_class1 false (ct, pt) m p = None /\ add_class1 true (ct, pt) m p = Some (ct, pt).
Proof. exact owned_name_blocks_add_class_trait. Qed.
Print Assumptions owned_name_is_an_existing_definition_for_add_class_trait.

Theorem list_declaration_owns_its_items_name :
  forall n, ends_us n = false -> amem (n ++ items_suffix) (fst (own_tables [(n, PList)])) = true.
Proof. exact list_declaration_owns_items. Qed.
Print Assumptions list_declaration_owns_its_items_name.

(* the demo of C13-v3 on the model: class 3 plain, class 4(3) declares ab = List: add_class_trait of
   ab_items on class 3 leaves class 4 alone, on class 4 it raises *)
Example owned_items_name_nontrivial :
  let hh := roots ++ [mkClass [] [0%nat]; mkClass [([97; 98], PList)] [3%nat]] in
  let n := [97; 98] ++ items_suffix in
  let r1 := add_class hh (tables hh) 3 n (PTyped VInt 7) in
  snd r1 = Done /\ tabs_nth (fst r1) 4 = tabs_nth (tables hh) 4 /\
  snd (add_class hh (fst r1) 4 n (PTyped VInt 7)) = Raise TraitError /\
  assoc n (fst (tabs_nth (fst r1) 4)) = Some (PEvent (Some VNoneOnly)) /\
  assoc n (fst (tabs_nth (fst r1) 3)) = Some (PTyped VInt 7).
Proof. vm_compute. repeat split; reflexivity. Qed.
