(* C13 — property theorems only.  Each is closed by [exact] of a lemma of Proofs.v and
   followed by Print Assumptions.

   Vocabulary (Proofs.v): [model_rule ct pt] is the class-level rule an object implements
   whose class has __class_traits__ = ct and the sorted __prefix_traits__ = pt;
   [gov ct pt s n] is the rule governing name n in object state s (instance trait first);
   [Inv ct pt s ls] is the invariant of all states reached by histories that avoid the
   listed finding ([clean_run]: no add_trait of a value-less policy over a value already in
   obj.__dict__) and use plain traits only ([plain_class], [clean_run]: no mapped trait, i.e.
   no Map whose shadow attribute name_ is written behind the scenes), see
   [reachable_states_satisfy_invariant].  Mapped traits are modelled (Model.step: add_trait
   installs the shadow trait, Map.post_setattr assigns name_, remove_trait removes both), checked
   against the implementation by the correspondence and the law, and covered by the direct
   theorems [add_mapped_trait_installs_shadow], [remove_mapped_trait_clears_derived_name],
   [remove_trait_restores_class_rule_for_derived_names] at the end. *)
From Coq Require Import ZArith List Bool Lia.
From TV Require Import Common.Harness C13.Model C13.Law C13.Corr C13.Proofs C13.MapProofs C13.ListenerProofs C13.ClassOpProofs C13.ListenerInd C13.ClassOpInd C13.ClassOpSub C13.MapInterleave C13.ClassOpDag C13.ClassOpSubRun C13.ClassOpGlobal C13.ClassOpChain C13.ListLife C13.ListenerInd2 C13.ClassOpTie.
Import ListNotations.
Open Scope Z_scope.

(* The whole law holds at every step of every history of get / set / del / add_trait /
   remove_trait, for every class hierarchy (any depth, any base lists, any declarations),
   every class of it and all names — with the class-level rule computed DECLARATIVELY
   (own, then the direct bases in order, each with what it inherited; longest matching
   wildcard) and the model running the sorted tables of update_traits_class_dict with its
   caching.  [spec_rule] reads "inherited" as the code does; the law that is evaluated on
   the implementation uses [mro_rule] ("inherited" along the MRO): see the next theorems. *)
Theorem law_holds_on_every_history :
  forall (h : list classdef) (c : nat) (ops : list op) (i : Z),
    plain_class h c = true ->
    clean_run (snd (class_tables h c)) (init_state (fst (class_tables h c))) ops = true ->
    law_hist (spec_rule h c) i l_init
             (run (snd (class_tables h c)) (init_state (fst (class_tables h c))) ops) = [].
Proof. exact law_all_histories. Qed.
Print Assumptions law_holds_on_every_history.

(* The law as evaluated on the implementation ("inherited" = along the C3 method resolution
   order): it holds wherever the two readings of "inherited" give the same rule ... *)
Theorem law_holds_under_mro_reading :
  forall (h : list classdef) (c : nat) (ops : list op) (i : Z),
    (forall n, mro_rule h c n = spec_rule h c n) ->
    plain_class h c = true ->
    clean_run (snd (class_tables h c)) (init_state (fst (class_tables h c))) ops = true ->
    law_hist (mro_rule h c) i l_init
             (run (snd (class_tables h c)) (init_state (fst (class_tables h c))) ops) = [].
Proof. exact law_all_histories_mro. Qed.
Print Assumptions law_holds_under_mro_reading.

(* ... which is the case for every class of every single-inheritance hierarchy (any depth) *)
Theorem mro_and_base_order_agree_on_single_inheritance :
  forall (h : list classdef) (c : nat) (n : name),
    single h = true -> (c < length (roots ++ h))%nat -> mro_rule h c n = spec_rule h c n.
Proof. exact mro_spec_single. Qed.
Print Assumptions mro_and_base_order_agree_on_single_inheritance.

Theorem law_holds_on_single_inheritance_hierarchies :
  forall (h : list classdef) (c : nat) (ops : list op) (i : Z),
    single h = true -> (c < length (roots ++ h))%nat ->
    plain_class h c = true ->
    clean_run (snd (class_tables h c)) (init_state (fst (class_tables h c))) ops = true ->
    law_hist (mro_rule h c) i l_init
             (run (snd (class_tables h c)) (init_state (fst (class_tables h c))) ops) = [].
Proof. exact law_single_inheritance. Qed.
Print Assumptions law_holds_on_single_inheritance_hierarchies.

(* ... and fails in diamonds (listed finding): class A(HasTraits): pass;
   class K(A, HasStrictTraits): pass; K().ab = 5 is accepted *)
Theorem inheritance_not_by_mro_refuted : exists h c ops,
  clean_run (snd (class_tables h c)) (init_state (fst (class_tables h c))) ops = true /\
  law_hist (mro_rule h c) 0 l_init
           (run (snd (class_tables h c)) (init_state (fst (class_tables h c))) ops) <> [].
Proof. exact mro_refutes. Qed.
Print Assumptions inheritance_not_by_mro_refuted.

(* the checker's [law_codes] only re-labels failures: it is empty exactly when [law_hist] is *)
Theorem law_codes_relabelling_is_faithful :
  forall mr sr h i ls, law_tag mr sr i ls h = [] <-> law_hist mr i ls h = [].
Proof. exact law_tag_nil. Qed.
Print Assumptions law_codes_relabelling_is_faithful.

(* ... and the hypothesis [clean_run] cannot be dropped: o.ab = 5; o.add_trait('ab', Event()); o.ab *)
Theorem law_without_clean_hypothesis_refuted : exists ops,
  law_hist (spec_rule [mkClass [] [0%nat]] 3) 0 l_init
    (run (snd (class_tables [mkClass [] [0%nat]] 3)) (init_state (fst (class_tables [mkClass [] [0%nat]] 3))) ops)
  <> [].
Proof. exact stale_value_refutes. Qed.
Print Assumptions law_without_clean_hypothesis_refuted.

(* instance trait, else class trait (own or inherited), else __x__ case, else the wildcard
   with the longest matching prefix: the built tables agree with the declarative rule *)
Theorem resolve_order :
  forall (h : list classdef) (c : nat) (n : name),
    model_rule (fst (class_tables h c)) (snd (class_tables h c)) n = spec_rule h c n.
Proof. exact class_tables_rule. Qed.
Print Assumptions resolve_order.

(* the sorted-by-length lemma: in prefix_list.sort(key=len, reverse=True) the first
   matching prefix is a matching prefix of maximal length, for every list of wildcards *)
Theorem first_match_is_longest :
  forall (n : name) (l : ptab) (q : name) (p : policy),
    first_match n (sort_len l) = Some (q, p) ->
    In (q, p) l /\ is_prefix q n = true /\
    forall q' p', In (q', p') l -> is_prefix q' n = true -> (length q' <= length q)%nat.
Proof. exact first_match_sort_longest. Qed.
Print Assumptions first_match_is_longest.

(* the law's own wildcard choice is what the property says: a matching prefix of maximal
   length (the earliest declaration among equals), or none matches *)
Theorem best_is_longest_match :
  forall (n : name) (l : ptab),
    match best n l with
    | Some (q, p) => assoc q l = Some p /\ is_prefix q n = true /\
                     forall q' p', In (q', p') l -> is_prefix q' n = true -> (length q' <= length q)%nat
    | None => forall q' p', In (q', p') l -> is_prefix q' n = false
    end.
Proof. exact best_spec. Qed.
Print Assumptions best_is_longest_match.

Theorem reachable_states_satisfy_invariant :
  forall (ct : ctab) (pt : ptab) (ops : list op) (s : state) (ls : lstate),
    Inv ct pt s ls -> clean_run pt s ops = true -> exists ls', Inv ct pt (final_state pt s ops) ls'.
Proof. exact final_Inv. Qed.
Print Assumptions reachable_states_satisfy_invariant.

Theorem fresh_object_satisfies_invariant :
  forall ct pt, plain_tab ct = true -> plain_tab pt = true -> Inv ct pt (init_state ct) l_init.
Proof. exact Inv_init. Qed.
Print Assumptions fresh_object_satisfies_invariant.

(* a name governed by Disallow (the class default of strict classes) cannot be read, written or deleted *)
Theorem strict_undeclared_rejected :
  forall ct pt s ls n v, Inv ct pt s ls -> gov ct pt s n = RPol PDisallow ->
    (assoc n (s_od s) = None -> o_out (snd (step pt s (OGet n))) = Raise AttributeError) /\
    o_out (snd (step pt s (OSet n v))) = Raise TraitError /\
    o_out (snd (step pt s (ODel n))) = Raise TraitError /\
    assoc n (s_od (fst (step pt s (OSet n v)))) = assoc n (s_od s).
Proof. exact disallow_rejects. Qed.
Print Assumptions strict_undeclared_rejected.

Theorem strict_class_default_is_disallow :
  forall n, name_eqb n_trait_added n = false -> name_eqb n_trait_modified n = false ->
    dunder n = false -> is_prefix n_traits_cache_ n = false ->
    spec_rule [] 1 n = RPol PDisallow.
Proof. exact strict_default. Qed.
Print Assumptions strict_class_default_is_disallow.

Theorem plain_class_default_is_python :
  forall n, name_eqb n_trait_added n = false -> name_eqb n_trait_modified n = false ->
    dunder n = false -> is_prefix n_traits_cache_ n = false ->
    spec_rule [] 0 n = RPol PPython.
Proof. exact plain_default. Qed.
Print Assumptions plain_class_default_is_python.

(* ReadOnly: the first assignment defines the value, is read back, and every later
   assignment or delete is rejected and leaves the value *)
Theorem readonly_exactly_one_defining_assignment :
  forall ct pt s ls n v w, Inv ct pt s ls -> gov ct pt s n = RPol (PReadOnly VUndef) ->
    defined (assoc n (s_od s)) = false -> v <> VUndef ->
    let s1 := fst (step pt s (OSet n v)) in
    o_out (snd (step pt s (OSet n v))) = Done /\
    o_out (snd (step pt s1 (OGet n))) = Val v /\
    o_out (snd (step pt s1 (OSet n w))) = Raise TraitError /\
    o_out (snd (step pt s1 (ODel n))) = Raise TraitError /\
    assoc n (s_od (fst (step pt s1 (OSet n w)))) = Some v.
Proof. exact readonly_once. Qed.
Print Assumptions readonly_exactly_one_defining_assignment.

Theorem constant_never_changes :
  forall ct pt s ls n c v, Inv ct pt s ls -> gov ct pt s n = RPol (PConstant c) ->
    (assoc n (s_od s) = None -> o_out (snd (step pt s (OGet n))) = Val c) /\
    o_out (snd (step pt s (OSet n v))) = Raise TraitError /\
    o_out (snd (step pt s (ODel n))) = Raise TraitError /\
    assoc n (s_od (fst (step pt s (OSet n v)))) = assoc n (s_od s) /\
    assoc n (s_od (fst (step pt s (ODel n)))) = assoc n (s_od s).
Proof. exact constant_fixed. Qed.
Print Assumptions constant_never_changes.

Theorem event_write_only :
  forall ct pt s ls n v, Inv ct pt s ls -> gov ct pt s n = RPol (PEvent None) ->
    o_out (snd (step pt s (OSet n v))) = Done /\
    (assoc n (s_od s) = None -> o_out (snd (step pt s (OGet n))) = Raise AttributeError) /\
    assoc n (s_od (fst (step pt s (OSet n v)))) = assoc n (s_od s).
Proof. exact event_wo. Qed.
Print Assumptions event_write_only.

(* a typed trait (Int, Str, CInt, ... any validator [VFun f]) accepts exactly what its own
   validator accepts and stores the validated value *)
Theorem typed_names_validate :
  forall ct pt s ls n k d v, Inv ct pt s ls -> gov ct pt s n = RPol (PTyped k d) -> v <> VUndef ->
    let s1 := fst (step pt s (OSet n v)) in
    match validate k v with
    | Some w => o_out (snd (step pt s (OSet n v))) = Done /\ o_out (snd (step pt s1 (OGet n))) = Val w
    | None => o_out (snd (step pt s (OSet n v))) = Raise TraitError /\ assoc n (s_od s1) = assoc n (s_od s)
    end.
Proof. exact typed_validates. Qed.
Print Assumptions typed_names_validate.

Theorem readonly_with_default_never_assignable :
  forall ct pt s ls n d v, Inv ct pt s ls -> gov ct pt s n = RPol (PReadOnly d) -> d <> VUndef ->
    (assoc n (s_od s) = None -> o_out (snd (step pt s (OGet n))) = Val d) /\
    o_out (snd (step pt s (OSet n v))) = Raise TraitError /\
    o_out (snd (step pt s (ODel n))) = Raise TraitError /\
    assoc n (s_od (fst (step pt s (OSet n v)))) = assoc n (s_od s).
Proof. exact readonly_default_fixed. Qed.
Print Assumptions readonly_with_default_never_assignable.

Theorem typed_event_write_only :
  forall ct pt s ls n k v, Inv ct pt s ls -> gov ct pt s n = RPol (PEvent (Some k)) ->
    o_out (snd (step pt s (OSet n v))) = (match validate k v with Some _ => Done | None => Raise TraitError end) /\
    (assoc n (s_od s) = None -> o_out (snd (step pt s (OGet n))) = Raise AttributeError) /\
    assoc n (s_od (fst (step pt s (OSet n v)))) = assoc n (s_od s).
Proof. exact event_typed. Qed.
Print Assumptions typed_event_write_only.

(* in reachable states nothing is stored under Disallow / Constant / Event, so the
   side conditions [assoc n (s_od s) = None] above always hold there *)
Theorem nothing_stored_under_valueless_policy :
  forall ct pt s ls n, Inv ct pt s ls -> storing (gov ct pt s n) = false -> assoc n (s_od s) = None.
Proof. exact nothing_stored. Qed.
Print Assumptions nothing_stored_under_valueless_policy.

Theorem remove_trait_restores_class_rule :
  forall ct pt s ls n, Inv ct pt s ls ->
    let s1 := fst (step pt s (ORem n)) in
    gov ct pt s1 n = model_rule ct pt n /\
    (forall m, m <> n -> gov ct pt s1 m = gov ct pt s m) /\
    (assoc n (s_itd s) <> None -> assoc n (s_od s1) = None /\ o_out (snd (step pt s (ORem n))) = Val 1) /\
    exists ls1, Inv ct pt s1 ls1.
Proof. exact remove_restores. Qed.
Print Assumptions remove_trait_restores_class_rule.

Theorem add_trait_governs :
  forall ct pt s n p, gov ct pt (fst (step pt s (OAdd n p))) n = RPol p.
Proof. exact add_governs. Qed.
Print Assumptions add_trait_governs.

Theorem access_never_changes_the_governing_trait :
  forall ct pt s o m, is_access o = true -> gov ct pt (fst (step pt s o)) m = gov ct pt s m.
Proof. exact gov_access_stable. Qed.
Print Assumptions access_never_changes_the_governing_trait.

(* HasPrivateTraits: names starting with '_' are untyped (Any, default None), all others rejected *)
Theorem private_names_untyped :
  forall n, name_eqb n_trait_added n = false -> name_eqb n_trait_modified n = false ->
    dunder n = false -> is_prefix n_traits_cache_ n = false ->
    spec_rule [] 2 n = if is_prefix [US] n then RPol (PAny VNone) else RPol PDisallow.
Proof. exact private_default. Qed.
Print Assumptions private_names_untyped.

Theorem untyped_names_accept_any_value :
  forall ct pt s ls n v d, Inv ct pt s ls ->
    (gov ct pt s n = RPol (PAny d) \/ gov ct pt s n = RPol PPython \/ gov ct pt s n = RDunder) ->
    let s1 := fst (step pt s (OSet n v)) in
    o_out (snd (step pt s (OSet n v))) = Done /\ o_out (snd (step pt s1 (OGet n))) = Val v.
Proof. exact untyped_accepts. Qed.
Print Assumptions untyped_names_accept_any_value.

(* Two instances of one class share the class dictionary with its cached resolutions and
   nothing else: after any (clean) history on a first instance, every history on a fresh
   second instance still satisfies the law. *)
Theorem second_instance_shares_only_the_cache :
  forall (h : list classdef) (c : nat) (pre ops : list op) (i : Z),
    plain_class h c = true ->
    let t := class_tables h c in
    clean_run (snd t) (init_state (fst t)) pre = true ->
    let s2 := mkState (s_ctd (final_state (snd t) (init_state (fst t)) pre)) [] [] in
    clean_run (snd t) s2 ops = true ->
    law_hist (spec_rule h c) i l_init (run (snd t) s2 ops) = [].
Proof. exact law_second_instance. Qed.
Print Assumptions second_instance_shares_only_the_cache.

Theorem second_instance_tables :
  forall h c pre, (c < length (tables h))%nat ->
    tabs_nth (staged_tables h c pre []) c =
    (s_ctd (final_state (snd (tabs_nth (tables h) c)) (init_state (fst (tabs_nth (tables h) c))) pre),
     snd (tabs_nth (tables h) c)).
Proof. exact staged_same_class. Qed.
Print Assumptions second_instance_tables.

(* classes created before any instance is used get the plain tables (the case the main theorem covers) *)
Theorem classes_created_before_use_are_plain :
  forall h1 k h2, staged_tables h1 k [] h2 = tables (h1 ++ h2).
Proof. exact staged_no_pre. Qed.
Print Assumptions classes_created_before_use_are_plain.

(* ... and a class created AFTER an instance of its base was used violates the law (listed finding):
   class A(HasTraits): a_ = Int;  A().ab = 1;  class B(A): a_ = Str;  B().ab = "s1" *)
Theorem late_class_inherits_cache_refuted : exists h1 k pre h2 c ops,
  let t := tabs_nth (staged_tables (roots ++ h1) k pre h2) c in
  clean_run (snd t) (init_state (fst t)) ops = true /\
  law_hist (spec_rule (h1 ++ h2) c) 0 l_init (run (snd t) (init_state (fst t)) ops) <> [].
Proof. exact late_class_refutes. Qed.
Print Assumptions late_class_inherits_cache_refuted.

(* Two instances of one class with their operations interleaved in any order: each instance
   obeys the law on its own — instance traits and stored values of one never govern the
   other, the shared class dictionary (with the cached resolutions) never changes a rule. *)
Theorem two_interleaved_instances_obey_the_law :
  forall (h : list classdef) (c : nat) (ops : list (bool * op)) (i : Z),
    plain_class h c = true ->
    clean_run2 (snd (class_tables h c)) (init_state2 (fst (class_tables h c))) ops = true ->
    law_hist2 (spec_rule h c) i l_init l_init
              (run2 (snd (class_tables h c)) (init_state2 (fst (class_tables h c))) ops) = [].
Proof. exact law_two_instances. Qed.
Print Assumptions two_interleaved_instances_obey_the_law.

Theorem two_instance_run_extends_the_single_run :
  forall pt ops ctd a b,
    map (fun x => (snd (fst x), snd x)) (run2 pt (ctd, a, b) (map (pair false) ops)) = run pt (st_of ctd a) ops.
Proof. exact run2_single. Qed.
Print Assumptions two_instance_run_extends_the_single_run.

Theorem law_codes_relabelling_is_faithful_for_two_instances :
  forall mr sr h i la lb, law_tag2 mr sr i la lb h = [] <-> law_hist2 mr i la lb h = [].
Proof. exact law_tag2_nil. Qed.
Print Assumptions law_codes_relabelling_is_faithful_for_two_instances.

(* ---- mapped traits (Map): statements about Model.step in every state, no invariant ---- *)
Theorem add_mapped_trait_installs_shadow :
  forall pt s n m d,
    let s' := fst (step pt s (OAdd n (PMap m d))) in
    assoc n (s_itd s') = Some (PMap m d) /\ assoc (n ++ [US]) (s_itd s') = Some (PShadow m) /\
    s_od s' = s_od s.
Proof. exact add_mapped_installs. Qed.
Print Assumptions add_mapped_trait_installs_shadow.

(* remove_trait(name) of a mapped instance trait removes the trait, the shadow trait of name_,
   the value and the shadow value (the seeded change C13-m3 leaves the shadow value behind) *)
Theorem remove_mapped_trait_clears_derived_name :
  forall pt s n m d,
    assoc n (s_itd s) = Some (PMap m d) ->
    (assoc (n ++ [US]) (s_itd s) <> None \/ amem (n ++ [US]) (s_ctd s) = true) ->
    let s' := fst (step pt s (ORem n)) in
    o_out (snd (step pt s (ORem n))) = Val 1 /\
    assoc n (s_itd s') = None /\ assoc (n ++ [US]) (s_itd s') = None /\
    assoc n (s_od s') = None /\ assoc (n ++ [US]) (s_od s') = None.
Proof. exact remove_mapped_clears. Qed.
Print Assumptions remove_mapped_trait_clears_derived_name.

(* ... hence name and name_ are governed by the class-level rule again and nothing stale is stored *)
Theorem remove_trait_restores_class_rule_for_derived_names :
  forall ct pt s n m d,
    assoc n (s_itd s) = Some (PMap m d) ->
    (assoc (n ++ [US]) (s_itd s) <> None \/ amem (n ++ [US]) (s_ctd s) = true) ->
    let s' := fst (step pt s (ORem n)) in
    gov ct pt s' n = model_rule ct pt n /\ gov ct pt s' (n ++ [US]) = model_rule ct pt (n ++ [US]) /\
    assoc n (s_od s') = None /\ assoc (n ++ [US]) (s_od s') = None.
Proof. exact remove_mapped_restores_class_rule. Qed.
Print Assumptions remove_trait_restores_class_rule_for_derived_names.

(* List traits (has_items): the event trait of name_items is installed by add_trait and removed,
   with the trait and its value, by remove_trait *)
Theorem add_list_trait_installs_items_event :
  forall pt s n,
    let s' := fst (step pt s (OAdd n PList)) in
    assoc n (s_itd s') = Some PList /\
    assoc (n ++ items_suffix) (s_itd s') = Some (PEvent (Some VNoneOnly)) /\ s_od s' = s_od s.
Proof. exact add_list_installs. Qed.
Print Assumptions add_list_trait_installs_items_event.

Theorem remove_list_trait_clears_items_event :
  forall pt s n,
    assoc n (s_itd s) = Some PList ->
    let s' := fst (step pt s (ORem n)) in
    o_out (snd (step pt s (ORem n))) = Val 1 /\
    assoc n (s_itd s') = None /\ assoc (n ++ items_suffix) (s_itd s') = None /\ assoc n (s_od s') = None.
Proof. exact remove_list_clears. Qed.
Print Assumptions remove_list_trait_clears_items_event.

(* ---- the law on histories WITH a mapped trait (MapProofs.v) ----
   [pair_op n o]: o is a get / set / del of name n or of its shadow name n_;
   [Agree s ls]: the law's bookkeeping (instance traits, stored values) agrees with the object. *)

(* From ANY object state whose bookkeeping agrees, under ANY class-level rule and class tables:
   add_trait(n, Map(m, default d)) (d a key of m) followed by any history of get / set / del on n
   and n_, with or without a final remove_trait(n), satisfies the whole law (Map.post_setattr's
   write of n_, materialised defaults, the shadow's mapped default, clause 93 on removal). *)
Theorem law_holds_on_the_life_of_a_mapped_trait :
  forall (crule : name -> rule) pt n m d wd, zassoc d m = Some wd ->
  forall ops s ls i, Agree s ls -> forallb (pair_op n) ops = true ->
    law_hist crule i ls (run pt s (OAdd n (PMap m d) :: ops)) = [] /\
    law_hist crule i ls (run pt s (OAdd n (PMap m d) :: ops ++ [ORem n])) = [].
Proof. exact mapped_life. Qed.
Print Assumptions law_holds_on_the_life_of_a_mapped_trait.

(* every single get / set / del on n or n_ while the pair is installed: the law's step check
   passes, the pair stays, the bookkeeping agrees again *)
Theorem mapped_pair_step_obeys_the_law :
  forall (crule : name -> rule) pt n m d wd, zassoc d m = Some wd ->
  forall s ls o, Pair n m d s -> Agree s ls -> pair_op n o = true -> Good crule pt n m d s ls o.
Proof. exact pair_step. Qed.
Print Assumptions mapped_pair_step_obeys_the_law.

(* a fresh object of any class (hence either reading of "inherited", any hierarchy) *)
Theorem law_holds_on_mapped_trait_of_a_fresh_object :
  forall (crule : name -> rule) ct pt n m d wd ops i,
    zassoc d m = Some wd -> forallb (pair_op n) ops = true ->
    law_hist crule i l_init (run pt (init_state ct) (OAdd n (PMap m d) :: ops)) = [] /\
    law_hist crule i l_init (run pt (init_state ct) (OAdd n (PMap m d) :: ops ++ [ORem n])) = [].
Proof. exact mapped_life_fresh. Qed.
Print Assumptions law_holds_on_mapped_trait_of_a_fresh_object.

(* second main theorem: every class without Map/List declarations, any clean history on plain
   traits, THEN the life of a mapped instance trait *)
Theorem law_holds_on_histories_with_mapped_traits :
  forall (h : list classdef) (c : nat) (pre : list op) n m d wd (ops : list op) (i : Z),
    plain_class h c = true ->
    let t := class_tables h c in
    clean_run (snd t) (init_state (fst t)) pre = true ->
    zassoc d m = Some wd -> forallb (pair_op n) ops = true ->
    law_hist (spec_rule h c) i l_init
             (run (snd t) (init_state (fst t)) (pre ++ OAdd n (PMap m d) :: ops)) = [] /\
    law_hist (spec_rule h c) i l_init
             (run (snd t) (init_state (fst t)) (pre ++ OAdd n (PMap m d) :: ops ++ [ORem n])) = [].
Proof. exact plain_then_mapped_life_spec. Qed.
Print Assumptions law_holds_on_histories_with_mapped_traits.

(* third form: plain phases ([SPlain ops], clean) and complete lives of mapped instance traits
   ([SMap n m d ops] = add_trait(n, Map(m, d)); get/set/del on n, n_; remove_trait(n)) alternate in
   any number and order, possibly followed by one more life that is not finished; [segs_ok] is the
   boolean hypothesis (each plain phase clean in the state it starts from, each default a key,
   each life touching only its own two names) *)
Theorem law_holds_on_alternating_plain_and_mapped_phases :
  forall (h : list classdef) (c : nat) (gs : list seg) (i : Z),
    plain_class h c = true ->
    let t := class_tables h c in
    segs_ok (snd t) (init_state (fst t)) gs = true ->
    law_hist (spec_rule h c) i l_init (run (snd t) (init_state (fst t)) (flat_map seg_ops gs)) = [] /\
    forall n m d wd ops, zassoc d m = Some wd -> forallb (pair_op n) ops = true ->
      law_hist (spec_rule h c) i l_init
               (run (snd t) (init_state (fst t)) (flat_map seg_ops gs ++ OAdd n (PMap m d) :: ops)) = [].
Proof. exact law_alternating. Qed.
Print Assumptions law_holds_on_alternating_plain_and_mapped_phases.

(* the step behind it: after remove_trait the object satisfies the plain-trait invariant again *)
Theorem plain_invariant_holds_again_after_remove_trait :
  forall ct pt n m d s0 ls0 s ls, Inv ct pt s0 ls0 -> During n m d s0 s -> Agree s ls ->
    Inv ct pt (fst (step pt s (ORem n))) (law_next (model_rule ct pt) ls (ORem n) (snd (step pt s (ORem n)))).
Proof. exact Inv_after_life. Qed.
Print Assumptions plain_invariant_holds_again_after_remove_trait.

Example alternating_phases_nontrivial :
  let t := class_tables [mkClass [([97; 95], PTyped VInt 7)] [1%nat]] 3 in
  segs_ok (snd t) (init_state (fst t))
    [ SPlain [OSet [97; 98; 95] 5; OAdd [98] (PAny 5); OSet [98] 6];
      SMap [97; 98] [(1, 11); (2, 12)] 1 [OGet [97; 98; 95]; OSet [97; 98] 2; OGet [97; 98; 95]; OSet [97; 98] 5];
      SPlain [OGet [97; 98; 95]; OSet [97; 98; 95] 3; OGet [98]; ORem [98]; OGet [98]];
      SMap [98] [(2, 3); (6, 5)] 6 [OGet [98; 95]; ODel [98]; OSet [98; 95] 9; OGet [98]] ] = true.
Proof. vm_compute. reflexivity. Qed.

(* Non-vacuity of the second main theorem: strict class with a wildcard covering ab_; a plain
   prefix; add_trait("ab", Map({1: 11, 2: 12})); reads, assignments (valid, invalid, to the shadow),
   deletes; remove_trait *)
Example mapped_theorem_nontrivial :
  let t := class_tables [mkClass [([97; 95], PTyped VInt 7)] [1%nat]] 3 in
  let pre := [OSet [97; 98; 95] 5; OGet [98]; OAdd [98] (PAny 5); OSet [98] 6] in
  let ops := [OGet [97; 98; 95]; OGet [97; 98]; OSet [97; 98] 2; OGet [97; 98; 95]; OSet [97; 98] 5;
              OSet [97; 98; 95] 9; OSet [97; 98] 2; ODel [97; 98]; ODel [97; 98; 95]; OGet [97; 98; 95]] in
  plain_class [mkClass [([97; 95], PTyped VInt 7)] [1%nat]] 3 = true /\
  clean_run (snd t) (init_state (fst t)) pre = true /\
  forallb (pair_op [97; 98]) ops = true /\
  map (fun p => o_out (snd p))
      (run (snd t) (init_state (fst t)) (pre ++ OAdd [97; 98] (PMap [(1, 11); (2, 12)] 1) :: ops ++ [ORem [97; 98]])) =
  [Done; Raise AttributeError; Done; Done;
   Done; Val 5; Val 1; Done; Val 12; Raise TraitError; Done; Done; Done; Done; Val 11; Val 1].
Proof. vm_compute. repeat split; reflexivity. Qed.

(* on plain traits Model.step is the plain look-up + handlers the invariant proofs reason about *)
Theorem model_step_on_plain_traits :
  forall ct pt s ls o, Inv ct pt s ls -> clean_step s o = true -> step pt s o = step_p pt s o.
Proof. exact step_plain_eq. Qed.
Print Assumptions model_step_on_plain_traits.

(* Non-vacuity: a hierarchy with overlapping wildcards in two bases under a strict and a
   private root; a clean history with an instance trait shadowing and being removed, a
   ReadOnly defined once, a Constant, an Event; outcomes of every class occur. *)
Definition ex_h : list classdef :=
  [ mkClass [([97; 95], PTyped VInt 7); ([97; 98; 95], PEvent None)] [1%nat];              (* 3: a_ = Int, ab_ = Event; strict *)
    mkClass [([97; 95], PTyped VStr 102); ([98], PConstant 3)] [2%nat];                (* 4: a_ = Str, b = Constant; private *)
    mkClass [([98; 98], PReadOnly VUndef)] [3%nat; 4%nat] ].                                  (* 5(3,4): bb = ReadOnly *)
Definition ex_ops : list op :=
  [ OSet [97; 97] 5; OSet [97; 97] 101; OGet [97; 98; 98]; OSet [97; 98; 98] 1; OGet [98]; OSet [98] 4;
    OSet [98; 98] 1; OSet [98; 98] 2; OGet [98; 98]; OGet [99]; OSet [99] 1; OSet [95; 99] 101; OGet [95; 99];
    OAdd [99] (PAny 5); OSet [99] 6; OGet [99]; ORem [99]; OGet [99] ].
Example history_nontrivial :
  let t := class_tables ex_h 5 in
  plain_class ex_h 5 = true /\
  clean_run (snd t) (init_state (fst t)) ex_ops = true /\
  map (fun p => o_out (snd p)) (run (snd t) (init_state (fst t)) ex_ops) =
  [ Done; Raise TraitError; Raise AttributeError; Done; Val 3; Raise TraitError;
    Done; Raise TraitError; Val 1; Raise AttributeError; Raise TraitError; Done; Val 101;
    Done; Done; Val 6; Val 1; Raise AttributeError ].
Proof. vm_compute. repeat split; reflexivity. Qed.

(* Non-vacuity for mapped traits: strict class; add_trait("ab", Map({1: 11, 2: 12})), read, assign,
   remove_trait: ab_ reads 11, 12, then AttributeError again (the demo of seeded change C13-m3) *)
Example mapped_history :
  let t := class_tables [mkClass [] [1%nat]] 3 in
  map (fun p => o_out (snd p))
      (run (snd t) (init_state (fst t))
           [OGet [97; 98; 95]; OAdd [97; 98] (PMap [(1, 11); (2, 12)] 1); OGet [97; 98]; OGet [97; 98; 95];
            OSet [97; 98] 2; OGet [97; 98; 95]; OSet [97; 98] 5; ORem [97; 98]; OGet [97; 98; 95]; OSet [97; 98; 95] 1]) =
  [Raise AttributeError; Done; Val 1; Val 11; Done; Val 12; Raise TraitError; Val 1;
   Raise AttributeError; Raise TraitError].
Proof. vm_compute. reflexivity. Qed.


(* ---- a trait_added listener that declares traits lazily (Model.step_l; seeded change C13-n2) ---- *)

(* without a listener, for names it does not cover, and for names already known to the object or
   cached in its class, step_l is step: all theorems above apply unchanged *)
Theorem step_l_without_listener_is_step : forall pt s o, step_l [] pt s o = step pt s o.
Proof. exact step_l_nil. Qed.
Print Assumptions step_l_without_listener_is_step.

Theorem listener_not_called_for_known_names :
  forall lst pt s o,
    amem (op_name o) (s_itd s) || amem (op_name o) (s_ctd s) = true -> step_l lst pt s o = step pt s o.
Proof. exact step_l_known. Qed.
Print Assumptions listener_not_called_for_known_names.

(* The instance trait a trait_added listener installs on the first touch of an undeclared name
   governs that very access: the first assignment IS the assignment under the listener's trait
   (in the state with the resolved trait cached and the listener's trait installed) ... *)
Theorem trait_added_listener_trait_governs_first_access :
  forall lst pt s n lp, listener lst n = Some lp ->
    assoc n (s_itd s) = None -> assoc n (s_ctd s) = None ->
    forall v p s', prefix_trait pt s n true = inl (p, s') ->
      step_l lst pt s (OSet n v) = setattr_m pt (after_listener n lp s') n lp v.
Proof. exact first_set. Qed.
Print Assumptions trait_added_listener_trait_governs_first_access.

(* ... so an invalid first write is rejected by the typed trait the listener installs, *)
Theorem first_write_of_invalid_value_is_rejected :
  forall lst pt s n lp, listener lst n = Some lp ->
    assoc n (s_itd s) = None -> assoc n (s_ctd s) = None ->
    forall k d v p s', lp = PTyped k d -> prefix_trait pt s n true = inl (p, s') ->
      v <> VUndef -> validate k v = None ->
      o_out (snd (step_l lst pt s (OSet n v))) = Raise TraitError /\
      assoc n (s_itd (fst (step_l lst pt s (OSet n v)))) = Some lp /\
      assoc n (s_od (fst (step_l lst pt s (OSet n v)))) = assoc n (s_od s).
Proof. exact first_write_invalid_rejected. Qed.
Print Assumptions first_write_of_invalid_value_is_rejected.

(* a Constant installed by the listener is not overwritten by the first write, *)
Theorem first_write_to_listener_constant_is_rejected :
  forall lst pt s n lp, listener lst n = Some lp ->
    assoc n (s_itd s) = None -> assoc n (s_ctd s) = None ->
    forall c v p s', lp = PConstant c -> prefix_trait pt s n true = inl (p, s') ->
      o_out (snd (step_l lst pt s (OSet n v))) = Raise TraitError /\
      assoc n (s_od (fst (step_l lst pt s (OSet n v)))) = assoc n (s_od s).
Proof. exact first_write_to_constant_rejected. Qed.
Print Assumptions first_write_to_listener_constant_is_rejected.

(* and a first read yields the listener trait's default / constant *)
Theorem first_read_yields_listener_default :
  forall lst pt s n lp, listener lst n = Some lp ->
    assoc n (s_itd s) = None -> assoc n (s_ctd s) = None ->
    forall p s', assoc n (s_od s) = None -> prefix_trait pt s n false = inl (p, s') ->
      (forall k d, lp = PTyped k d -> o_out (snd (step_l lst pt s (OGet n))) = Val d) /\
      (forall c, lp = PConstant c -> o_out (snd (step_l lst pt s (OGet n))) = Val c).
Proof. exact first_read_is_listener_default. Qed.
Print Assumptions first_read_yields_listener_default.

(* the demo of C13-n2 on the model: class LazySchema(HasTraits), 'n_*' -> Int(7), 'k_*' -> Constant(42) *)
Example lazy_schema_demo :
  let t := class_tables [mkClass [] [0%nat]] 3 in
  let lst := [([110; 95], PTyped VInt 7); ([107; 95], PConstant 42)] in
  map (fun p => o_out (snd p))
      (run_l lst (snd t) (init_state (fst t))
             [OSet [110; 95; 98] 101; OGet [110; 95; 98]; OSet [107; 95; 99] 1; OGet [107; 95; 99];
              OGet [110; 95; 100]; OSet [119] 101; OGet [119]]) =
  [Raise TraitError; Val 7; Raise TraitError; Val 42; Val 7; Done; Val 101].
Proof. vm_compute. reflexivity. Qed.


(* ---- add_class_trait: declarations added at run time (Model.add_class; seeded change C13-t2) ---- *)

(* After ANY sequence of wildcards added at run time (each one appended and the list re-sorted,
   has_traits.py l.1163-1170), in any order — specific then general or general then specific —
   the prefix list is sorted longest first and the first match is the longest matching wildcard
   of ALL declarations, those of the class body and those added later. *)
Theorem runtime_wildcards_keep_longest_first :
  forall (adds : list (name * policy)) (pt : ptab),
    Sorted.StronglySorted len_ge pt ->
    let pt' := fold_left add_wild adds pt in
    Sorted.StronglySorted len_ge pt' /\ tab_eq pt' (pt ++ adds) /\
    forall n, wild (first_match n pt') = wild (best n (pt ++ adds)).
Proof. exact runtime_wildcards_sorted. Qed.
Print Assumptions runtime_wildcards_keep_longest_first.

Theorem add_class_trait_wildcard_is_append_and_sort :
  forall ct pt n p, ends_us n = true -> amem (removelast n) pt = false ->
    add_class1 false (ct, pt) n p = Some (ct, add_wild pt (removelast n, p)) /\
    add_class1 true (ct, pt) n p = Some (ct, add_wild pt (removelast n, p)).
Proof. exact add_class1_wildcard. Qed.
Print Assumptions add_class_trait_wildcard_is_append_and_sort.

Theorem add_class_trait_keeps_existing_definitions :
  forall ct pt n p,
    (if ends_us n then amem (removelast n) pt else amem n ct) = true ->
    add_class1 false (ct, pt) n p = None /\ add_class1 true (ct, pt) n p = Some (ct, pt).
Proof. exact add_class1_existing. Qed.
Print Assumptions add_class_trait_keeps_existing_definitions.

(* the demo of C13-t2 on the model: class A(HasTraits); class B(A); instances of both;
   A.add_class_trait("cab_", Int(7)) then A.add_class_trait("c_", Str("2")): cabx is an Int on both *)
Example runtime_wildcards_demo :
  let h := roots ++ [mkClass [] [0%nat]; mkClass [] [3%nat]] in
  map (fun p => o_out (snd p))
      (run_t h [3%nat; 4%nat] (tables h, [([], []); ([], [])])
         [CorrT.TClass 3 [99; 97; 98; 95] (PTyped VInt 7); CorrT.TClass 3 [99; 95] (PTyped VStr 102);
          CorrT.TObj 0 (OGet [99; 97; 98; 120]); CorrT.TObj 0 (OSet [99; 97; 98; 120] 101);
          CorrT.TObj 0 (OGet [99; 120]); CorrT.TObj 1 (OSet [99; 97; 98; 121] 101);
          CorrT.TObj 1 (OGet [99; 97; 98; 121]); CorrT.TClass 3 [99; 95] PDisallow]) =
  [Done; Done; Val 7; Raise TraitError; Val 102; Raise TraitError; Val 7; Raise TraitError].
Proof. vm_compute. reflexivity. Qed.


(* ==== depth round: inductive theorems for what was "direct theorems + correspondence" ==== *)

(* The law on EVERY history of a class with a trait_added listener (Model.step_l), by induction:
   every hierarchy and class without Map/List declarations, every listener table of plain traits
   (prefix -> policy), every history of get / set / del / add_trait / remove_trait on one object.
   [law_hist_l] is the law the checker evaluates for listener classes (CorrL.law_tag_l without the
   re-labelling, [listener_law_codes_relabelling_is_faithful]); [run_lk] records after each step
   the instance trait of the name as the driver does.  Hypothesis [lclean_run]: the first listed
   finding excluded (no value-less trait — added by add_trait or by the listener — over a value
   already stored), no Map/List add_trait, and an add_trait whose trait the listener replaces is
   either the same trait or distinguishable from it by the observation (handler class, default). *)
Theorem law_holds_on_every_listener_history :
  forall (h : list classdef) (c : nat) (lst : list (name * policy)) (ops : list op) (i : Z),
    plain_class h c = true ->
    (forall n lp, listener lst n = Some lp -> plainp lp = true) ->
    let t := class_tables h c in
    lclean_run (snd t) lst (init_state (fst t)) ops = true ->
    law_hist_l lst (spec_rule h c) i l_init (run_lk lst (snd t) (init_state (fst t)) ops) = [].
Proof. exact law_listener_histories. Qed.
Print Assumptions law_holds_on_every_listener_history.

Theorem listener_law_codes_relabelling_is_faithful :
  forall lst mr sr h i la lb,
    C13.CorrL.law_tag_l lst mr sr i la lb (map (fun x => (false, fst (fst x), snd (fst x), snd x)) h) = [] <->
    law_hist_l lst mr i la h = [].
Proof. exact law_tag_l_single. Qed.
Print Assumptions listener_law_codes_relabelling_is_faithful.

(* Non-vacuity: strict class with a wildcard; listener n_* -> Int(7), k_* -> Constant(42), e_* -> Event;
   first touches by invalid write, write to the Constant, read, delete, add_trait (replaced by the
   listener's trait), later accesses, remove_trait and a second first touch *)
Example listener_history_nontrivial :
  let t := class_tables [mkClass [([97; 95], PTyped VStr 102)] [1%nat]] 3 in
  let lst := [([110; 95], PTyped VInt 7); ([107; 95], PConstant 42); ([101; 95], PEvent None)] in
  let ops := [OSet [110; 95; 98] 101; OGet [110; 95; 98]; OSet [107; 95; 99] 1; OGet [107; 95; 99]; OGet [110; 95; 100];
              ODel [110; 95; 101]; OAdd [110; 95; 102] (PTyped VStr 102); OSet [110; 95; 102] 101; OSet [110; 95; 102] 5;
              OSet [101; 95; 97] 3; OGet [101; 95; 97]; ORem [110; 95; 98]; OGet [110; 95; 98]; OSet [97; 98] 101; OGet [122]] in
  lclean_run (snd t) lst (init_state (fst t)) ops = true /\
  map (fun x => o_out (snd (fst x))) (run_lk lst (snd t) (init_state (fst t)) ops) =
  [Raise TraitError; Val 7; Raise TraitError; Val 42; Val 7; Done; Done; Raise TraitError; Done;
   Done; Raise AttributeError; Val 1; Raise AttributeError; Done; Raise AttributeError].
Proof. vm_compute. split; reflexivity. Qed.


(* add_class_trait, inductively.  ANY class of ANY hierarchy (hh = pre ++ cd :: post, k = its
   position; ancestors arbitrary, multiple inheritance included), tables without Map/List;
   ANY sequence of add_class_trait(name, trait) calls on that class — accepted or rejected
   (already defined), explicit names and wildcards in any order, plain traits — [class_phase];
   then EVERY clean history on a fresh instance: the law holds with the class-level rule computed
   from the hierarchy WITH the accepted run-time declarations appended to the class body
   ([snd (class_phase ...)], the checker's CorrT.add_decl: [runtime_declarations_bookkeeping]).
   Behind it: [add_class_trait_is_a_declaration] — one accepted call keeps the class's tables in
   agreement (dictionaries equal, prefix list sorted longest first) with the declarative tables
   of the class body extended by that declaration. *)
Theorem law_holds_after_runtime_declarations :
  forall pre cd post adds ops i,
    let hh := pre ++ cd :: post in
    let k := length pre in
    plain_t (tabs_nth (tables hh) k) = true ->
    forallb (fun e => plainp (snd e)) adds = true ->
    let ph := class_phase hh k (tables hh) hh adds in
    let t := tabs_nth (fst ph) k in
    clean_run (snd t) (init_state (fst t)) ops = true ->
    law_hist (class_rule (vis_nth (visible (snd ph)) k)) i l_init (run (snd t) (init_state (fst t)) ops) = [].
Proof. exact class_ops_then_history. Qed.
Print Assumptions law_holds_after_runtime_declarations.

(* the same for the runs the checker evaluates (CorrT.step_t on the tables of all classes) *)
Theorem law_holds_on_class_operation_runs :
  forall pre cd post adds ops i,
    let hh := pre ++ cd :: post in
    let k := length pre in
    plain_t (tabs_nth (tables hh) k) = true ->
    forallb (fun e => plainp (snd e)) adds = true ->
    let t := tabs_nth (fst (class_phase hh k (tables hh) hh adds)) k in
    clean_run (snd t) (init_state (fst t)) ops = true ->
    law_hist_ta [k] hh i [l_init]
      (run_t hh [k] (tables hh, [([], [])])
             (map (fun e => C13.CorrT.TClass k (fst e) (snd e)) adds ++ map (C13.CorrT.TObj 0) ops)) = [].
Proof. exact class_ops_run. Qed.
Print Assumptions law_holds_on_class_operation_runs.

Theorem add_class_trait_is_a_declaration :
  forall V cd t n p t', plainp p = true ->
    Agr t (vis_class V cd) -> add_class1 false t n p = Some t' ->
    Agr t' (vis_class V (mkClass (c_decls cd ++ [(n, p)]) (c_bases cd))).
Proof. exact Agr_add. Qed.
Print Assumptions add_class_trait_is_a_declaration.

Theorem runtime_declarations_bookkeeping :
  forall h k n p, (3 <= k)%nat -> app_decl (roots ++ h) k (n, p) = roots ++ C13.CorrT.add_decl h k n p.
Proof. exact app_decl_roots. Qed.
Print Assumptions runtime_declarations_bookkeeping.

(* the two cached-name findings: when the name was touched (resolved, cached) BEFORE the matching
   add_class_trait the law fails on the model too — which is why the theorem above has the class
   operations before the first use of the instance *)
Theorem runtime_wildcard_after_use_refuted :
  let hh := roots ++ [mkClass [] [0%nat]] in
  law_hist_ta [3%nat] hh 0 [l_init]
    (run_t hh [3%nat] (tables hh, [([], [])])
       [C13.CorrT.TObj 0 (OGet n_cax); C13.CorrT.TClass 3 [99; 95] (PTyped VInt 7); C13.CorrT.TObj 0 (OGet n_cax)]) <> [].
Proof. exact cached_wildcard_refutes. Qed.
Print Assumptions runtime_wildcard_after_use_refuted.

Theorem runtime_class_trait_after_use_refuted :
  let hh := roots ++ [mkClass [] [0%nat]; mkClass [] [3%nat]] in
  law_hist_ta [4%nat] hh 0 [l_init]
    (run_t hh [4%nat] (tables hh, [([], [])])
       [C13.CorrT.TObj 0 (OGet n_zz); C13.CorrT.TClass 3 n_zz (PTyped VStr 102); C13.CorrT.TObj 0 (OGet n_zz)]) <> [].
Proof. exact cached_class_trait_refutes. Qed.
Print Assumptions runtime_class_trait_after_use_refuted.

(* Non-vacuity: strict class B(A) in a hierarchy with a sibling; on B: cab_ = Int accepted, c_ = Str
   accepted, c_ again rejected, explicit cq = ReadOnly accepted, a wildcard declared in the body rejected;
   then a history: cabx is an Int, cx a Str, cq write-once, cz still rejected by the strict default *)
Example runtime_declarations_nontrivial :
  let pre := roots ++ [mkClass [([100; 95], PEvent None)] [1%nat]] in
  let cd := mkClass [([101; 95], PAny 5)] [3%nat] in
  let post := [mkClass [] [3%nat]] in
  let adds := [([99; 97; 98; 95], PTyped VInt 7); ([99; 95], PTyped VStr 102); ([99; 95], PDisallow);
               ([99; 113], PReadOnly VUndef); ([101; 95], PDisallow)] in
  let hh := pre ++ cd :: post in
  let ph := class_phase hh 4 (tables hh) hh adds in
  let t := tabs_nth (fst ph) 4 in
  let ops := [OGet [99; 97; 98; 120]; OSet [99; 97; 98; 120] 101; OGet [99; 120]; OSet [99; 113] 1; OSet [99; 113] 2;
              OGet [122]; OSet [100; 120] 1; OGet [101; 120]] in
  plain_t (tabs_nth (tables hh) 4) = true /\
  clean_run (snd t) (init_state (fst t)) ops = true /\
  map (fun e => length (c_decls e)) (snd ph) = [3; 1; 2; 1; 4; 0]%nat /\
  map (fun x => o_out (snd x)) (run (snd t) (init_state (fst t)) ops) =
  [Val 7; Raise TraitError; Val 102; Done; Raise TraitError; Raise AttributeError; Done; Val 5].
Proof. vm_compute. repeat split; reflexivity. Qed.


(* add_class_trait on the object's own class INTERLEAVED with the object's operations, any order and
   number ([orun]: the object and the prefix list of its class; [law_hist_o]: the law with the
   class-level rule recomputed from the hierarchy after every accepted call).  Hypothesis
   [oclean_run] (boolean, evaluated along the run): finding 1, Map/List traits, and the cached-name
   finding are excluded — an accepted run-time wildcard must not match a name already cached in the
   class dictionary or stored in the object unless that name is declared, governed by an instance
   trait, or a __x__ name; an accepted explicit name must not already hold a value unless its trait
   stores values.  ([runtime_wildcard_after_use_refuted] shows the exclusion is needed.) *)
Theorem law_holds_on_interleaved_class_operations :
  forall pre cd post xs i,
    let hh := pre ++ cd :: post in
    let k := length pre in
    let t := tabs_nth (tables hh) k in
    plain_t t = true ->
    oclean_run k (init_state (fst t), snd t) hh xs = true ->
    law_hist_o k hh i l_init (orun (init_state (fst t), snd t) xs) = [].
Proof. exact interleaved_class_ops. Qed.
Print Assumptions law_holds_on_interleaved_class_operations.

(* Non-vacuity: HasTraits-derived class with a declared wildcard; use; add a longer and a shorter wildcard;
   use names matching both / one; add an explicit write-once name; a rejected repetition; a late
   wildcard for names not touched so far; uses in between *)
Example interleaved_class_operations_nontrivial :
  let hh := roots ++ [mkClass [([100; 95], PTyped VInt 7)] [0%nat]] in
  let t := tabs_nth (tables hh) 3 in
  let xs := [OObj (OSet [122] 1); OObj (OGet [100; 120]); OCls [99; 97; 98; 95] (PTyped VInt 7);
             OCls [99; 95] (PTyped VStr 102); OObj (OGet [99; 97; 98; 120]); OObj (OSet [99; 97; 98; 121] 101);
             OObj (OGet [99; 120]); OCls [99; 113] (PReadOnly VUndef); OObj (OSet [99; 113] 1); OObj (OSet [99; 113] 2);
             OCls [99; 95] PDisallow; OObj (OGet [122]); OCls [101; 95] (PEvent None); OObj (OGet [101; 120])] in
  plain_t t = true /\
  oclean_run 3 (init_state (fst t), snd t) hh xs = true /\
  map (fun x => o_out (snd x)) (orun (init_state (fst t), snd t) xs) =
  [Done; Val 7; Done; Done; Val 7; Raise TraitError; Val 102; Done; Done; Raise TraitError; Raise TraitError;
   Val 1; Done; Raise AttributeError].
Proof. vm_compute. repeat split; reflexivity. Qed.

(* ... and the same for the runs the checker evaluates (CorrT.step_t on the tables of all classes) *)
Theorem law_holds_on_interleaved_class_operation_runs :
  forall pre cd post xs i,
    let hh := pre ++ cd :: post in
    let k := length pre in
    let t := tabs_nth (tables hh) k in
    plain_t t = true ->
    oclean_run k (init_state (fst t), snd t) hh xs = true ->
    law_hist_ta [k] hh i [l_init] (run_t hh [k] (tables hh, [([], [])]) (map (top_of k) xs)) = [].
Proof. exact interleaved_class_ops_run. Qed.
Print Assumptions law_holds_on_interleaved_class_operation_runs.

(* Subclasses.  [Ext v v' n p]: the declarative tables v' are v with the declaration (n -> p) added
   if absent (explicit name or wildcard).  An accepted add_class_trait extends the declarative
   tables of the class itself; the extension is inherited through the body of every class that has
   that class as its single base; and _add_class_trait(is_subclass=True) keeps a subclass's model
   tables in agreement with the extended declarative tables. *)
Theorem accepted_add_class_trait_extends_the_class :
  forall V cd n p, plainp p = true ->
    (if ends_us n then amem (removelast n) (snd (vis_class V cd)) else amem n (fst (vis_class V cd))) = false ->
    Ext (vis_class V cd) (vis_class V (mkClass (c_decls cd ++ [(n, p)]) (c_bases cd))) n p.
Proof. exact Ext_own. Qed.
Print Assumptions accepted_add_class_trait_extends_the_class.

Theorem runtime_declaration_is_inherited_by_single_base_subclass :
  forall V V' cd b n p, c_bases cd = [b] ->
    Ext (vis_nth V b) (vis_nth V' b) n p -> assoc [] (snd (vis_nth V b)) <> None ->
    Ext (vis_class V cd) (vis_class V' cd) n p.
Proof. exact Ext_inherit. Qed.
Print Assumptions runtime_declaration_is_inherited_by_single_base_subclass.

Theorem add_class_trait_on_subclass_agrees_with_inherited_declaration :
  forall t v v' n p t', plainp p = true ->
    Agr t v -> Ext v v' n p -> add_class1 true t n p = Some t' -> Agr t' v'.
Proof. exact Agr_add_sub. Qed.
Print Assumptions add_class_trait_on_subclass_agrees_with_inherited_declaration.

(* ... and the hierarchy-level theorem.  [Path hh k j]: class j is reached from class k through
   classes that each have exactly one base (any hierarchy around them).  Any sequence of
   add_class_trait calls on the BASE class k (accepted or rejected, explicit names and wildcards),
   then every clean history on a fresh instance of the SUBCLASS j: the law holds with the rule of j
   computed from the hierarchy with the accepted declarations appended to the body of k, i.e.
   inherited by j unless j or a class in between defines the name itself. *)
Theorem law_holds_for_subclass_instances_after_runtime_declarations :
  forall hh k j adds ops i,
    Path hh k j -> j <> k ->
    plain_t (tabs_nth (tables hh) k) = true -> plain_t (tabs_nth (tables hh) j) = true ->
    forallb (fun e => plainp (snd e)) adds = true ->
    let ph := class_phase hh k (tables hh) hh adds in
    let t := tabs_nth (fst ph) j in
    clean_run (snd t) (init_state (fst t)) ops = true ->
    law_hist (class_rule (vis_nth (visible (snd ph)) j)) i l_init (run (snd t) (init_state (fst t)) ops) = [].
Proof. exact subclass_runtime_declarations. Qed.
Print Assumptions law_holds_for_subclass_instances_after_runtime_declarations.

Theorem runtime_declaration_reaches_the_whole_single_base_path :
  forall hh k n p, (k < length hh)%nat -> plainp p = true ->
    (if ends_us n then amem (removelast n) (snd (vis_nth (visible hh) k)) else amem n (fst (vis_nth (visible hh) k))) = false ->
    forall j, Path hh k j -> Ext (vis_nth (visible hh) j) (vis_nth (visible (app_decl hh k (n, p))) j) n p.
Proof. exact Ext_path. Qed.
Print Assumptions runtime_declaration_reaches_the_whole_single_base_path.

(* Non-vacuity (the second half of the C13-t2 demo, one level deeper): Base(HasStrictTraits) declares
   tr_ = ReadOnly; Derived(Base); Leaf(Derived) declares z = Any(5).  On Base at run time: t_ = Int (accepted),
   tr_ = Disallow (rejected), tq = Constant(3) (accepted), z = Event (accepted on Base, kept out of Leaf).
   On a Leaf instance: trx is still write-once, tc is an Int, tq the constant, z Leaf's own, w rejected. *)
Example subclass_runtime_declarations_nontrivial :
  let hh := roots ++ [mkClass [([116; 114; 95], PReadOnly VUndef)] [1%nat]; mkClass [] [3%nat]; mkClass [([122], PAny 5)] [4%nat]] in
  let adds := [([116; 95], PTyped VInt 7); ([116; 114; 95], PDisallow); ([116; 113], PConstant 3); ([122], PEvent None)] in
  let ph := class_phase hh 3 (tables hh) hh adds in
  let t := tabs_nth (fst ph) 5 in
  let ops := [OSet [116; 114; 120] 101; OSet [116; 114; 120] 102; OGet [116; 114; 120]; OGet [116; 99]; OSet [116; 99] 101;
              OGet [116; 113]; OGet [122]; OGet [119]] in
  Path hh 3 5 /\
  plain_t (tabs_nth (tables hh) 3) = true /\ plain_t (tabs_nth (tables hh) 5) = true /\
  clean_run (snd t) (init_state (fst t)) ops = true /\
  map (fun e => length (c_decls e)) (snd ph) = [3; 1; 2; 4; 0; 1]%nat /\
  map (fun x => o_out (snd x)) (run (snd t) (init_state (fst t)) ops) =
  [Done; Raise TraitError; Val 101; Val 7; Raise TraitError; Val 3; Val 5; Raise AttributeError].
Proof.
  split.
  - apply (PS _ _ 4%nat 5%nat); [apply (PS _ _ 3%nat 4%nat); [constructor| | |]| | |]; simpl; try lia; reflexivity.
  - vm_compute. repeat split; reflexivity.
Qed.

(* ------------------------------------------------------------------ *)
(* Depth round, item 3: the life of a mapped trait interleaved with operations on other names
   (coq/C13/MapInterleave.v).  The hypothesis is one boolean over the run, [iclean]: outside a
   life any clean operation, or add_trait(n, Map(m, d)) with d a key of m, which opens a life;
   inside the life of n: remove_trait(n) closes it, get/set/del of n and n_ are unrestricted,
   and every other operation (get, set, del, add_trait of a plain trait, remove_trait) must be
   clean and on a name k "far" from the pair: k, k_ and (when k ends in _) k without its last
   character are all different from n and n_.  Lives may follow each other in any number, each
   with its own n, m, d. *)

Theorem law_holds_on_mapped_lives_interleaved_with_other_names :
  forall (h : list classdef) (c : nat) (os : list op) (i : Z),
    plain_class h c = true ->
    let t := class_tables h c in
    iclean (snd t) None (init_state (fst t)) os = true ->
    law_hist (spec_rule h c) i l_init (run (snd t) (init_state (fst t)) os) = [].
Proof. exact interleaved_lives_spec. Qed.
Print Assumptions law_holds_on_mapped_lives_interleaved_with_other_names.

(* the same under the MRO reading the checker uses, for single-inheritance hierarchies *)
Theorem law_holds_on_interleaved_mapped_lives_under_mro_reading :
  forall (h : list classdef) (c : nat) (os : list op) (i : Z),
    single h = true -> (c < length (roots ++ h))%nat ->
    plain_class h c = true ->
    let t := class_tables h c in
    iclean (snd t) None (init_state (fst t)) os = true ->
    law_hist (mro_rule h c) i l_init (run (snd t) (init_state (fst t)) os) = [].
Proof. exact interleaved_lives_single. Qed.
Print Assumptions law_holds_on_interleaved_mapped_lives_under_mro_reading.

(* the general form: from any state of the invariant (outside a life: the plain invariant; inside
   the life of n: the plain invariant of the object with n and n_ erased, the pair installed, the
   law's bookkeeping in agreement) *)
Theorem law_holds_on_interleaved_mapped_lives_from_any_invariant_state :
  forall ct0 pt (os : list op) (md : life) s ls (i : Z),
    KI ct0 pt md s ls -> iclean pt md s os = true ->
    law_hist (model_rule ct0 pt) i ls (run pt s os) = [].
Proof. exact interleaved_lives. Qed.
Print Assumptions law_holds_on_interleaved_mapped_lives_from_any_invariant_state.

(* the hypothesis is a generalisation: every clean history on plain traits satisfies it *)
Theorem clean_histories_are_interleaved_histories :
  forall pt os s, clean_run pt s os = true -> iclean pt None s os = true.
Proof. exact iclean_clean_run. Qed.
Print Assumptions clean_histories_are_interleaved_histories.

(* the step lemma that is new: during the life of n, a clean operation on a far name passes the
   law's step check and preserves the in-life invariant *)
Theorem far_operation_during_a_mapped_life_obeys_the_law :
  forall ct0 pt n m d s ls o,
    K ct0 pt n m d s ls -> far n (op_name o) = true -> clean_step s o = true ->
    law_step (model_rule ct0 pt) ls o (snd (step pt s o)) = [] /\
    K ct0 pt n m d (fst (step pt s o)) (law_next (model_rule ct0 pt) ls o (snd (step pt s o))).
Proof. exact K_far. Qed.
Print Assumptions far_operation_during_a_mapped_life_obeys_the_law.

(* and the reason: on a far name whose traits are plain the model's step commutes with erasing
   the pair from the object, and so does the law's bookkeeping *)
Theorem far_step_commutes_with_erasing_the_pair :
  forall n pt s o,
    far n (op_name o) = true -> plain_at pt s (op_name o) ->
    (forall k q, o = OAdd k q -> plainp q = true) ->
    step pt (MapInterleave.erase n s) o = (MapInterleave.erase n (fst (step pt s o)), snd (step pt s o)).
Proof. exact step_far. Qed.
Print Assumptions far_step_commutes_with_erasing_the_pair.

Theorem far_law_update_commutes_with_erasing_the_pair :
  forall n (crule : name -> rule) ls o ob,
    far n (op_name o) = true ->
    (forall k q, o = OAdd k q -> plainp q = true) ->
    (forall p, found_trait crule ls (op_name o) = Some p -> plainp p = true) ->
    lerase n (law_next crule ls o ob) = law_next crule (lerase n ls) o ob.
Proof. exact law_next_far. Qed.
Print Assumptions far_law_update_commutes_with_erasing_the_pair.

(* opening and closing a life between states of the two invariants *)
Theorem add_trait_of_a_mapped_trait_opens_a_life :
  forall ct0 pt n m d s ls, Inv ct0 pt s ls ->
    law_step (model_rule ct0 pt) ls (OAdd n (PMap m d)) (snd (step pt s (OAdd n (PMap m d)))) = [] /\
    K ct0 pt n m d (fst (step pt s (OAdd n (PMap m d))))
      (law_next (model_rule ct0 pt) ls (OAdd n (PMap m d)) (snd (step pt s (OAdd n (PMap m d))))).
Proof. exact K_start. Qed.
Print Assumptions add_trait_of_a_mapped_trait_opens_a_life.

Theorem remove_trait_closes_a_life_into_the_plain_invariant :
  forall ct0 pt n m d s ls, K ct0 pt n m d s ls ->
    law_step (model_rule ct0 pt) ls (ORem n) (snd (step pt s (ORem n))) = [] /\
    Inv ct0 pt (fst (step pt s (ORem n))) (law_next (model_rule ct0 pt) ls (ORem n) (snd (step pt s (ORem n)))).
Proof. exact K_end. Qed.
Print Assumptions remove_trait_closes_a_life_into_the_plain_invariant.

(* Non-vacuity: strict class with the wildcard a_; during the life of "ab" (Map({1: 11, 2: 12}))
   the object gets add_trait("c"), writes, reads and deletes of "c", add_trait("d", Int),
   remove_trait("c"); then remove_trait("ab"); then a life of "c" during which "ab" is used.
   None of the earlier mapped-trait theorems covers this history. *)
Example interleaved_lives_nontrivial :
  let t := class_tables [mkClass [([97; 95], PTyped VInt 7)] [1%nat]] 3 in
  let os := [OSet [99] 4; OAdd [99] (PAny 5); OSet [99] 6;
             OAdd [97; 98] (PMap [(1, 11); (2, 12)] 1);
             OGet [97; 98; 95]; OSet [99] 7; OSet [97; 98] 2; OAdd [100] (PTyped VInt 0);
             OGet [100]; OSet [100] 101; ODel [99]; OGet [97; 98; 95]; OGet [99; 95]; ORem [99]; OGet [99];
             OSet [97; 98] 5; OSet [97; 98; 95] 9; ODel [97; 98];
             ORem [97; 98];
             OGet [97; 98]; OSet [97; 98; 95] 3;
             OAdd [99] (PMap [(2, 3); (6, 5)] 6);
             OSet [97; 98] 1; OGet [99; 95]; OGet [97; 98; 95]; OSet [99] 2; ODel [100]; OGet [99; 95];
             ORem [99]; OGet [99]] in
  iclean (snd t) None (init_state (fst t)) os = true /\
  length (run (snd t) (init_state (fst t)) os) = 30%nat.
Proof. vm_compute. split; reflexivity. Qed.

(* ------------------------------------------------------------------ *)
(* Depth round, item 2 continued: add_class_trait on a base class and instances of subclasses
   with SEVERAL bases (multiple inheritance, diamonds, mixins; coq/C13/ClassOpDag.v).
   [Reach hh k n j]: class j descends from class k; every base of every class on the way either
   descends from k in the same manner or has no ancestor k at all ([Unaff]); and at every class on
   the way the name n is new (absent from the class's declarative pair), or defined in the class's
   own body, or the class has exactly one base (so single-inheritance chains always qualify).  [phase_ok] asks this for each ACCEPTED call, in the hierarchy as declared so far. *)

Theorem law_holds_for_multiple_inheritance_subclass_instances_after_runtime_declarations :
  forall hh k j adds ops i,
    (k < j)%nat -> (j < length hh)%nat ->
    phase_ok hh k j (tables hh) hh adds ->
    plain_t (tabs_nth (tables hh) k) = true -> plain_t (tabs_nth (tables hh) j) = true ->
    forallb (fun e => plainp (snd e)) adds = true ->
    let ph := class_phase hh k (tables hh) hh adds in
    let t := tabs_nth (fst ph) j in
    clean_run (snd t) (init_state (fst t)) ops = true ->
    law_hist (class_rule (vis_nth (visible (snd ph)) j)) i l_init (run (snd t) (init_state (fst t)) ops) = [].
Proof. exact dag_runtime_declarations. Qed.
Print Assumptions law_holds_for_multiple_inheritance_subclass_instances_after_runtime_declarations.

(* the declarative side: one class with any number of bases ... *)
Theorem runtime_declaration_is_inherited_through_several_bases :
  forall V V' cd n p,
    (forall b, In b (c_bases cd) -> Ext (vis_nth V b) (vis_nth V' b) n p \/ vis_nth V b = vis_nth V' b) ->
    (exists b, In b (c_bases cd) /\ Ext (vis_nth V b) (vis_nth V' b) n p) ->
    vis_has (vis_class V cd) n = false \/ own_has cd n = true ->
    Ext (vis_class V cd) (vis_class V' cd) n p.
Proof. exact Ext_multi. Qed.
Print Assumptions runtime_declaration_is_inherited_through_several_bases.

(* ... the whole set of descendants ... *)
Theorem runtime_declaration_reaches_every_descendant :
  forall hh k n p, (k < length hh)%nat -> plainp p = true ->
    (if ends_us n then amem (removelast n) (snd (vis_nth (visible hh) k)) else amem n (fst (vis_nth (visible hh) k))) = false ->
    forall j, Reach hh k n j -> Ext (vis_nth (visible hh) j) (vis_nth (visible (app_decl hh k (n, p))) j) n p.
Proof. exact Ext_reach. Qed.
Print Assumptions runtime_declaration_reaches_every_descendant.

(* ... and the classes that do not descend from k keep their declarative pair *)
Theorem runtime_declaration_leaves_unrelated_classes_alone :
  forall hh k d, (k < length hh)%nat ->
    forall j, Unaff hh k j -> vis_nth (visible (app_decl hh k d)) j = vis_nth (visible hh) j.
Proof. exact unaff_vis. Qed.
Print Assumptions runtime_declaration_leaves_unrelated_classes_alone.

(* the model side: the recursion over __subclasses__ visits every such descendant *)
Theorem add_class_trait_visits_every_descendant :
  forall hh0 hh k n,
    (forall i, i <> k -> c_bases (nth i hh dcls) = c_bases (nth i hh0 dcls)) ->
    forall j, Reach hh k n j -> j <> k -> forall f, (j - k <= f)%nat -> is_desc hh0 f j k = true.
Proof. exact desc_reach. Qed.
Print Assumptions add_class_trait_visits_every_descendant.

(* the name condition is necessary for the base-order reading (and the MRO reading sides with the
   implementation on the witness) *)
Theorem diamond_with_name_on_another_route_refuted :
  exists hh k j adds ops,
    (k < j)%nat /\ (j < length hh)%nat /\
    plain_t (tabs_nth (tables hh) k) = true /\ plain_t (tabs_nth (tables hh) j) = true /\
    forallb (fun e => plainp (snd e)) adds = true /\
    let ph := class_phase hh k (tables hh) hh adds in
    let t := tabs_nth (fst ph) j in
    clean_run (snd t) (init_state (fst t)) ops = true /\
    law_hist (class_rule (vis_nth (visible (snd ph)) j)) 0 l_init (run (snd t) (init_state (fst t)) ops) <> [] /\
    law_hist (mro_rule (skipn 3 (snd ph)) j) 0 l_init (run (snd t) (init_state (fst t)) ops) = [].
Proof. exact dag_condition_needed. Qed.
Print Assumptions diamond_with_name_on_another_route_refuted.

(* Non-vacuity: Base(HasStrictTraits) declares tr_ = ReadOnly; L(Base); R(Base) declares z = Any(5);
   M(HasTraits) declares m = Any(9); D(L, M, R) declares z = Any(6).  On Base at run time: t_ = Int
   (accepted, new to D), tr_ = Disallow (rejected), tq = Constant(3) (accepted, new to D), z = Event
   (accepted on Base; D defines z itself).  On a D instance: trx write-once, tc an Int, tq the
   constant, z D's own, m from the mixin, w rejected. *)
Example multiple_inheritance_runtime_declarations_nontrivial :
  let hh := roots ++ [mkClass [([116; 114; 95], PReadOnly VUndef)] [1%nat]; mkClass [] [3%nat];
                      mkClass [([122], PAny 5)] [3%nat]; mkClass [([109], PAny 9)] [0%nat];
                      mkClass [([122], PAny 6)] [4%nat; 6%nat; 5%nat]] in
  let adds := [([116; 95], PTyped VInt 7); ([116; 114; 95], PDisallow); ([116; 113], PConstant 3); ([122], PEvent None)] in
  let ph := class_phase hh 3 (tables hh) hh adds in
  let t := tabs_nth (fst ph) 7 in
  let ops := [OSet [116; 114; 120] 101; OSet [116; 114; 120] 102; OGet [116; 114; 120]; OGet [116; 99]; OSet [116; 99] 101;
              OGet [116; 113]; OGet [122]; OGet [109]; OGet [119]] in
  phase_ok hh 3 7 (tables hh) hh adds /\
  plain_t (tabs_nth (tables hh) 3) = true /\ plain_t (tabs_nth (tables hh) 7) = true /\
  clean_run (snd t) (init_state (fst t)) ops = true /\
  map (fun e => length (c_decls e)) (snd ph) = [3; 1; 2; 4; 0; 1; 1; 1]%nat /\
  map (fun x => o_out (snd x)) (run (snd t) (init_state (fst t)) ops) =
  [Done; Raise TraitError; Val 101; Val 7; Raise TraitError; Val 3; Val 6; Val 9; Raise AttributeError].
Proof.
  split.
  - vm_compute. split; [|split; [|split; [|exact I]]]; reach.
  - vm_compute. repeat split; reflexivity.
Qed.

(* ------------------------------------------------------------------ *)
(* Depth round, item 2 continued: add_class_trait calls on a BASE class k interleaved, in any order
   and number, with the operations of a live instance of a SUBCLASS j (single or multiple
   inheritance; coq/C13/ClassOpSubRun.v).  [sstep] is Model.add_class seen from classes k and j
   (first theorem).  [sok] asks, step by step: an object operation is clean; a class call has a
   plain trait and, if accepted on k, (a) finds j reachable for its name ([Reach], as above) and
   (b) does not meet the cached-name findings on the object ([sub_clean]: a wildcard must not match a
   name already resolved or stored unless declared / governed by an instance trait / __x__; an
   explicit name must not be a merely cached resolution of j, nor have a value stored under it
   unless its trait stores). *)

Theorem subclass_step_is_the_model_add_class :
  forall hh T k j n p T' out,
    (k < length T)%nat -> (j < length T)%nat -> j <> k -> is_desc hh (length hh) j k = true ->
    add_class hh T k n p = (T', out) ->
    let s := mkState (fst (tabs_nth T j)) [] [] in
    let r := sstep (s, snd (tabs_nth T j)) (tabs_nth T k) (OCls n p) in
    o_out (snd r) = out /\ snd (fst r) = tabs_nth T' k /\
    (s_ctd (fst (fst (fst r))), snd (fst (fst r))) = tabs_nth T' j.
Proof. exact sstep_is_add_class. Qed.
Print Assumptions subclass_step_is_the_model_add_class.

Theorem law_holds_on_base_class_operations_interleaved_with_subclass_instance :
  forall hh k j xs i,
    (k < j)%nat -> (j < length hh)%nat ->
    let tk := tabs_nth (tables hh) k in
    let tj := tabs_nth (tables hh) j in
    plain_t tj = true ->
    sok k j (init_state (fst tj), snd tj) tk hh xs ->
    law_hist_s k j hh i l_init (srun (init_state (fst tj), snd tj) tk xs) = [].
Proof. exact interleaved_base_class_ops. Qed.
Print Assumptions law_holds_on_base_class_operations_interleaved_with_subclass_instance.

(* the step behind it: an inherited run-time declaration arriving on the class of a live object *)
Theorem inherited_runtime_declaration_on_a_live_object :
  forall ct0 pt s ls v v' n p,
    Inv ct0 pt s ls -> Agr (ct0, pt) v -> Ext v v' n p -> plainp p = true ->
    sub_clean (fst v) s pt n p = true ->
    exists ct0', Agr (ct0', snd (sub_add s pt n p)) v' /\
                 Inv ct0' (snd (sub_add s pt n p)) (fst (sub_add s pt n p)) ls.
Proof. exact sub_step_ok. Qed.
Print Assumptions inherited_runtime_declaration_on_a_live_object.

(* Non-vacuity: the diamond of the previous example; on Base at run time, between the operations of
   a D instance: t_ = Int (accepted), tr_ = Disallow (rejected), tq = Constant(3), z = Event. *)
Example base_class_operations_interleaved_nontrivial :
  let hh := roots ++ [mkClass [([116; 114; 95], PReadOnly VUndef)] [1%nat]; mkClass [] [3%nat];
                      mkClass [([122], PAny 5)] [3%nat]; mkClass [([109], PAny 9)] [0%nat];
                      mkClass [([122], PAny 6)] [4%nat; 6%nat; 5%nat]] in
  let xs := [OObj (OGet [119]); OCls [116; 95] (PTyped VInt 7); OObj (OGet [116; 99]); OObj (OSet [116; 114; 120] 101);
             OCls [116; 114; 95] PDisallow; OObj (OSet [116; 114; 120] 102); OObj (OGet [116; 114; 120]);
             OCls [116; 113] (PConstant 3); OObj (OGet [116; 113]); OObj (OSet [116; 99] 101);
             OCls [122] (PEvent None); OObj (OGet [122]); OObj (OGet [109]); OObj (OGet [119])] in
  let tk := tabs_nth (tables hh) 3 in
  let tj := tabs_nth (tables hh) 7 in
  sok 3 7 (init_state (fst tj), snd tj) tk hh xs /\
  plain_t tj = true /\
  map (fun x => o_out (snd x)) (srun (init_state (fst tj), snd tj) tk xs) =
  [Raise AttributeError; Done; Val 7; Done; Raise TraitError; Raise TraitError; Val 101; Done; Val 3;
   Raise TraitError; Done; Val 6; Val 9; Raise AttributeError].
Proof.
  split.
  - vm_compute.
    repeat match goal with |- _ /\ _ => split | |- true = true => reflexivity | |- True => exact I | |- Reach _ _ _ _ => reach end.
  - vm_compute. repeat split; reflexivity.
Qed.

(* the same for the runs the checker evaluates (CorrT.step_t on the tables of all classes, one
   object of class j, class calls on class k) *)
Theorem checker_runs_with_base_class_calls_are_subclass_runs :
  forall hh0 k j, j <> k -> is_desc hh0 (length hh0) j k = true ->
  forall xs T itd od H i ls, (k < length T)%nat -> (j < length T)%nat ->
    law_hist_ta [j] H i [ls] (run_t hh0 [j] (T, [(itd, od)]) (map (top_of k) xs)) =
    law_hist_s k j H i ls (srun (mkState (fst (tabs_nth T j)) itd od, snd (tabs_nth T j)) (tabs_nth T k) xs).
Proof. exact run_t_srun. Qed.
Print Assumptions checker_runs_with_base_class_calls_are_subclass_runs.

Theorem law_holds_on_base_class_operation_runs_with_subclass_instance :
  forall hh k j xs i,
    (k < j)%nat -> (j < length hh)%nat -> is_desc hh (length hh) j k = true ->
    let tk := tabs_nth (tables hh) k in
    let tj := tabs_nth (tables hh) j in
    plain_t tj = true ->
    sok k j (init_state (fst tj), snd tj) tk hh xs ->
    law_hist_ta [j] hh i [l_init] (run_t hh [j] (tables hh, [([], [])]) (map (top_of k) xs)) = [].
Proof. exact interleaved_base_class_ops_run. Qed.
Print Assumptions law_holds_on_base_class_operation_runs_with_subclass_instance.

Example diamond_subclass_is_a_descendant :
  let hh := roots ++ [mkClass [([116; 114; 95], PReadOnly VUndef)] [1%nat]; mkClass [] [3%nat];
                      mkClass [([122], PAny 5)] [3%nat]; mkClass [([109], PAny 9)] [0%nat];
                      mkClass [([122], PAny 6)] [4%nat; 6%nat; 5%nat]] in
  is_desc hh (length hh) 7 3 = true /\ is_desc hh (length hh) 6 3 = false.
Proof. vm_compute. split; reflexivity. Qed.

(* ------------------------------------------------------------------ *)
(* Depth round, item 2, general form (coq/C13/ClassOpGlobal.v): the runs the checker evaluates for
   add_class_trait — CorrT.step_t on the tables of ALL classes, any number of live objects of any
   classes, object operations and add_class_trait calls on ANY classes in any order.  One global
   invariant [GI] (every class: its tables agree with the declarative pair of the hierarchy as
   declared so far and satisfy the cache invariant; every object: the plain invariant against the
   tables of its class).  [tok] asks, step by step ([tclean]): an object operation is clean; a
   class call has a plain trait and, if accepted on class k, for every other class c: c is a
   descendant the model visits and [Reach] holds, or c is not and [Unaff] holds; and neither the
   classes reached nor the live objects of those classes meet the cached-name findings / finding 1
   ([sub_clean]). *)

Theorem law_holds_on_runs_with_class_operations_on_any_classes_and_objects :
  forall hh objs ts i,
    (forall c, (c < length hh)%nat -> plain_t (tabs_nth (tables hh) c) = true) ->
    (forall j, (j < length objs)%nat -> (nth j objs O < length hh)%nat) ->
    tok hh objs (tables hh, map (fun _ => ([], [])) objs) hh ts ->
    law_hist_ta objs hh i (map (fun _ => l_init) objs)
                (run_t hh objs (tables hh, map (fun _ => ([], [])) objs) ts) = [].
Proof. exact global_law. Qed.
Print Assumptions law_holds_on_runs_with_class_operations_on_any_classes_and_objects.

Theorem law_holds_on_runs_from_any_state_of_the_global_invariant :
  forall hh0 objs ts T insts lss H C0 i,
    GI hh0 objs T insts lss H C0 -> tok hh0 objs (T, insts) H ts ->
    law_hist_ta objs H i lss (run_t hh0 objs (T, insts) ts) = [].
Proof. exact global_run_law. Qed.
Print Assumptions law_holds_on_runs_from_any_state_of_the_global_invariant.

(* the two steps *)
Theorem object_step_preserves_the_global_invariant :
  forall hh0 objs T insts lss H C0 i o,
    GI hh0 objs T insts lss H C0 -> (i < length objs)%nat ->
    clean_step (ostate T (nth i objs O) (nth i insts ([], []))) o = true ->
    let c := nth i objs O in
    let rl := class_rule (vis_nth (visible H) c) in
    let r := C13.CorrT.step_t hh0 objs (T, insts) (C13.CorrT.TObj i o) in
    law_step rl (nth i lss l_init) o (snd r) = [] /\
    GI hh0 objs (fst (fst r)) (snd (fst r)) (C13.CorrT.upd lss i (law_next rl (nth i lss l_init) o (snd r))) H C0.
Proof. exact gi_obj_step. Qed.
Print Assumptions object_step_preserves_the_global_invariant.

Theorem class_step_preserves_the_global_invariant :
  forall hh0 objs T insts lss H C0 k n p,
    GI hh0 objs T insts lss H C0 -> tclean hh0 objs T insts H (C13.CorrT.TClass k n p) ->
    let r := C13.CorrT.step_t hh0 objs (T, insts) (C13.CorrT.TClass k n p) in
    exists C0', GI hh0 objs (fst (fst r)) (snd (fst r)) lss
                   (match o_out (snd r) with Done => app_decl H k (n, p) | _ => H end) C0'.
Proof. exact gi_cls_step. Qed.
Print Assumptions class_step_preserves_the_global_invariant.

(* Non-vacuity, in the shape the generator produces: A(HasStrictTraits) declares tr_ = ReadOnly;
   B(A); C(B) declares z = Any(5); live objects a, c, b.  Calls: A.t_ = Int; B.q = Any(8);
   A.tr_ = Disallow (rejected); A.z = Event (new to B, C keeps its own); interleaved with reads
   and writes on the three objects. *)
Example runs_with_class_operations_nontrivial :
  let hh := roots ++ [mkClass [([116; 114; 95], PReadOnly VUndef)] [1%nat]; mkClass [] [3%nat]; mkClass [([122], PAny 5)] [4%nat]] in
  let objs := [3%nat; 5%nat; 4%nat] in
  let ts := [C13.CorrT.TClass 3 [116; 95] (PTyped VInt 7); C13.CorrT.TObj 1 (OGet [116; 99]);
             C13.CorrT.TObj 2 (OSet [116; 99] 101);
             C13.CorrT.TClass 4 [113] (PAny 8); C13.CorrT.TObj 0 (OGet [113]); C13.CorrT.TObj 1 (OGet [113]);
             C13.CorrT.TClass 3 [116; 114; 95] PDisallow;
             C13.CorrT.TClass 3 [122] (PEvent None); C13.CorrT.TObj 1 (OGet [122]); C13.CorrT.TObj 2 (OGet [122]);
             C13.CorrT.TObj 0 (OSet [116; 114; 120] 101); C13.CorrT.TObj 0 (OSet [116; 114; 120] 102)] in
  tok hh objs (tables hh, map (fun _ => ([], [])) objs) hh ts /\
  forallb plain_t (tables hh) = true /\
  map (fun x => o_out (snd x)) (run_t hh objs (tables hh, map (fun _ => ([], [])) objs) ts) =
  [Done; Val 7; Raise TraitError; Done; Raise AttributeError; Val 8; Raise TraitError; Done;
   Val 5; Raise AttributeError; Done; Raise TraitError].
Proof.
  split.
  - apply tok_of_tokb_fresh; vm_compute; reflexivity.
  - vm_compute. split; reflexivity.
Qed.

(* ------------------------------------------------------------------ *)
(* ... and for single-inheritance hierarchies (every class at most one base, declared before it:
   the shape the generator produces; coq/C13/ClassOpChain.v) the reachability hypotheses hold by
   themselves, so the hypothesis is ONE BOOLEAN over the run ([tokb]): object operations clean,
   traits plain, and for each accepted call the classes reached and their live objects do not
   meet the cached-name findings / finding 1 ([sub_clean]). *)

Theorem law_holds_on_single_inheritance_runs_with_class_operations :
  forall hh objs ts i,
    chainb hh = true ->
    forallb plain_t (tables hh) = true ->
    forallb (fun c => Nat.ltb c (length hh)) objs = true ->
    tokb hh objs (tables hh, map (fun _ => ([], [])) objs) hh ts = true ->
    law_hist_ta objs hh i (map (fun _ => l_init) objs)
                (run_t hh objs (tables hh, map (fun _ => ([], [])) objs) ts) = [].
Proof. exact chain_law. Qed.
Print Assumptions law_holds_on_single_inheritance_runs_with_class_operations.

Theorem single_inheritance_classes_are_reached_or_unaffected :
  forall hh0 H k n,
    chain hh0 -> length H = length hh0 ->
    (forall i, c_bases (nth i H dcls) = c_bases (nth i hh0 dcls)) ->
    forall c, (c < length hh0)%nat -> forall f, (c < f)%nat ->
      (is_desc hh0 f c k = true -> Reach H k n c) /\
      (is_desc hh0 f c k = false -> c <> k -> Unaff H k c).
Proof. exact chain_classes. Qed.
Print Assumptions single_inheritance_classes_are_reached_or_unaffected.

Theorem boolean_step_hypothesis_implies_the_general_one :
  forall hh0 objs T insts lss H C0 t,
    chain hh0 -> GI hh0 objs T insts lss H C0 ->
    tcleanb hh0 objs T insts H t = true -> tclean hh0 objs T insts H t.
Proof. exact tcleanb_tclean. Qed.
Print Assumptions boolean_step_hypothesis_implies_the_general_one.

Theorem boolean_run_hypothesis_implies_the_general_one :
  forall hh objs ts,
    chainb hh = true ->
    forallb plain_t (tables hh) = true ->
    forallb (fun c => Nat.ltb c (length hh)) objs = true ->
    tokb hh objs (tables hh, map (fun _ => ([], [])) objs) hh ts = true ->
    tok hh objs (tables hh, map (fun _ => ([], [])) objs) hh ts.
Proof. exact tok_of_tokb_fresh. Qed.
Print Assumptions boolean_run_hypothesis_implies_the_general_one.

(* Non-vacuity: the hierarchy and objects of the previous example, a longer run (also C.w =
   Constant(3) on the leaf class) *)
Example single_inheritance_runs_nontrivial :
  let hh := roots ++ [mkClass [([116; 114; 95], PReadOnly VUndef)] [1%nat]; mkClass [] [3%nat]; mkClass [([122], PAny 5)] [4%nat]] in
  let objs := [3%nat; 5%nat; 4%nat] in
  let ts := [C13.CorrT.TClass 3 [116; 95] (PTyped VInt 7); C13.CorrT.TObj 0 (OGet [116; 99]); C13.CorrT.TObj 1 (OGet [116; 99]);
             C13.CorrT.TObj 2 (OSet [116; 99] 101);
             C13.CorrT.TClass 4 [113] (PAny 8); C13.CorrT.TObj 0 (OGet [113]); C13.CorrT.TObj 1 (OGet [113]); C13.CorrT.TObj 2 (OGet [113]);
             C13.CorrT.TClass 3 [116; 114; 95] PDisallow;
             C13.CorrT.TClass 5 [119] (PConstant 3); C13.CorrT.TObj 1 (OGet [119]); C13.CorrT.TObj 2 (OGet [119]);
             C13.CorrT.TClass 3 [122] (PEvent None); C13.CorrT.TObj 1 (OGet [122]); C13.CorrT.TObj 2 (OGet [122]);
             C13.CorrT.TObj 0 (OSet [116; 114; 120] 101); C13.CorrT.TObj 0 (OSet [116; 114; 120] 102)] in
  chainb hh = true /\ forallb plain_t (tables hh) = true /\
  forallb (fun c => Nat.ltb c (length hh)) objs = true /\
  tokb hh objs (tables hh, map (fun _ => ([], [])) objs) hh ts = true /\
  map (fun x => o_out (snd x)) (run_t hh objs (tables hh, map (fun _ => ([], [])) objs) ts) =
  [Done; Val 7; Val 7; Raise TraitError; Done; Raise AttributeError; Val 8; Val 8; Raise TraitError; Done;
   Val 3; Raise AttributeError; Done; Val 5; Raise AttributeError; Done; Raise TraitError].
Proof. vm_compute. repeat split; reflexivity. Qed.

(* ------------------------------------------------------------------ *)
(* Depth round, extra: the law on the life of a List instance trait (coq/C13/ListLife.v) — until
   now only the install/remove theorems above.  [lpair_op n o]: o is a get / set / del of n or of
   n_items; [LPair]: List at n, its items event at n_items, nothing stored under n_items. *)

Theorem list_pair_step_obeys_the_law :
  forall (crule : name -> rule) pt n s ls o,
    LPair n s -> Agree s ls -> lpair_op n o = true ->
    law_step crule ls o (snd (step pt s o)) = [] /\ LPair n (fst (step pt s o)) /\
    Agree (fst (step pt s o)) (law_next crule ls o (snd (step pt s o))).
Proof. exact lpair_step. Qed.
Print Assumptions list_pair_step_obeys_the_law.

(* from any state whose bookkeeping agrees, under any class-level rule and any class tables:
   add_trait(n, List(Int)), any history on n and n_items, with or without remove_trait(n) *)
Theorem law_holds_on_the_life_of_a_list_trait :
  forall (crule : name -> rule) pt n ops s ls i,
    Agree s ls -> assoc (n ++ items_suffix) (s_od s) = None -> forallb (lpair_op n) ops = true ->
    law_hist crule i ls (run pt s (OAdd n PList :: ops)) = [] /\
    law_hist crule i ls (run pt s (OAdd n PList :: ops ++ [ORem n])) = [].
Proof. exact list_life. Qed.
Print Assumptions law_holds_on_the_life_of_a_list_trait.

Theorem law_holds_on_list_trait_of_a_fresh_object :
  forall (crule : name -> rule) ct pt n ops i,
    forallb (lpair_op n) ops = true ->
    law_hist crule i l_init (run pt (init_state ct) (OAdd n PList :: ops)) = [] /\
    law_hist crule i l_init (run pt (init_state ct) (OAdd n PList :: ops ++ [ORem n])) = [].
Proof. exact list_life_fresh. Qed.
Print Assumptions law_holds_on_list_trait_of_a_fresh_object.

(* every class without Map/List declarations, any clean history on plain traits, then the life *)
Theorem law_holds_on_histories_with_list_traits :
  forall h c pre n ops i,
    plain_class h c = true ->
    let t := class_tables h c in
    clean_run (snd t) (init_state (fst t)) pre = true ->
    amem (n ++ items_suffix) (s_od (final_state (snd t) (init_state (fst t)) pre)) = false ->
    forallb (lpair_op n) ops = true ->
    law_hist (spec_rule h c) i l_init (run (snd t) (init_state (fst t)) (pre ++ OAdd n PList :: ops)) = [] /\
    law_hist (spec_rule h c) i l_init (run (snd t) (init_state (fst t)) (pre ++ OAdd n PList :: ops ++ [ORem n])) = [].
Proof. exact plain_then_list_life_spec. Qed.
Print Assumptions law_holds_on_histories_with_list_traits.

(* any access that changes __dict__ at its own name only keeps the law's bookkeeping in agreement *)
Theorem access_keeps_the_bookkeeping_in_agreement :
  forall (crule : name -> rule) pt s ls o,
    Agree s ls -> is_access o = true ->
    (forall a, name_eqb (op_name o) a = false -> assoc a (s_od (fst (step pt s o))) = assoc a (s_od s)) ->
    Agree (fst (step pt s o)) (law_next crule ls o (snd (step pt s o))).
Proof. exact access_agree. Qed.
Print Assumptions access_keeps_the_bookkeeping_in_agreement.

(* the hypothesis on n_items is needed (finding 1 under the installed sub-trait) *)
Theorem stale_value_under_items_event_refuted :
  exists (crule : name -> rule) ct pt n ops,
    forallb (lpair_op n) ops = true /\
    law_hist crule 0 l_init (run pt (init_state ct) (OSet (n ++ items_suffix) 5 :: OAdd n PList :: ops)) <> [].
Proof. exact stale_items_value_refutes. Qed.
Print Assumptions stale_value_under_items_event_refuted.

(* Non-vacuity: strict class with the wildcard a_ = Int; a plain prefix; add_trait("ab", List(Int));
   reads (empty list), rejected and Undefined assignments, the items event (read refused, None
   accepted, 5 rejected), deletes; remove_trait; afterwards both names are the wildcard's again *)
Example list_life_nontrivial :
  let t := class_tables [mkClass [([97; 95], PTyped VInt 7)] [1%nat]] 3 in
  let pre := [OSet [97; 98; 95] 5; OGet [98]; OAdd [98] (PAny 5); OSet [98] 6] in
  let ni := [97; 98] ++ items_suffix in
  let ops := [OGet [97; 98]; OSet [97; 98] 5; OGet ni; OSet ni 200; OSet ni 5; OSet [97; 98] 201; OGet [97; 98];
              ODel [97; 98]; ODel ni; OGet [97; 98]] in
  plain_class [mkClass [([97; 95], PTyped VInt 7)] [1%nat]] 3 = true /\
  clean_run (snd t) (init_state (fst t)) pre = true /\
  amem ni (s_od (final_state (snd t) (init_state (fst t)) pre)) = false /\
  forallb (lpair_op [97; 98]) ops = true /\
  map (fun x => o_out (snd x))
      (run (snd t) (init_state (fst t)) (pre ++ OAdd [97; 98] PList :: ops ++ [ORem [97; 98]; OGet [97; 98]; OGet ni])) =
  [Done; Raise AttributeError; Done; Done; Done; Val 300; Raise TraitError; Raise AttributeError; Done;
   Raise TraitError; Done; Val 201; Done; Done; Val 300; Val 1; Val 7; Val 7].
Proof. vm_compute. repeat split; reflexivity. Qed.

(* ------------------------------------------------------------------ *)
(* Depth round, item 1 continued: TWO instances of a class with a trait_added listener, every
   interleaving of their histories (Model.step2_l, the runs CorrL evaluates; coq/C13/ListenerInd2.v).
   The instances share the class dictionary only: a name resolved by the first touch of one
   instance is a known name for the other, whose listener is not called for it. *)
Theorem law_holds_on_two_instance_listener_histories :
  forall h c lst ops i,
    plain_class h c = true ->
    (forall n lp, listener lst n = Some lp -> plainp lp = true) ->
    let t := class_tables h c in
    lclean_run2 (snd t) lst (init_state2 (fst t)) ops = true ->
    law_hist2_l lst (spec_rule h c) i l_init l_init (run2_lk lst (snd t) (init_state2 (fst t)) ops) = [].
Proof. exact law_listener_two_instances. Qed.
Print Assumptions law_holds_on_two_instance_listener_histories.

(* the checker's law codes for listener classes (CorrL.law_tag_l, any two-instance history) are
   empty exactly when the un-relabelled law is *)
Theorem two_instance_listener_law_codes_relabelling_is_faithful :
  forall lst mr sr h i la lb,
    C13.CorrL.law_tag_l lst mr sr i la lb h = [] <-> law_hist2_l lst mr i la lb h = [].
Proof. exact law_tag_l_nil. Qed.
Print Assumptions two_instance_listener_law_codes_relabelling_is_faithful.

(* Non-vacuity: the class and listener of listener_history_nontrivial, two instances: the second
   instance finds n_b already resolved (strict class: refused) while the first reads the listener's
   Int; add_trait replaced by the listener; remove_trait on the instance that has no trait *)
Example two_instance_listener_history_nontrivial :
  let t := class_tables [mkClass [([97; 95], PTyped VStr 102)] [1%nat]] 3 in
  let lst := [([110; 95], PTyped VInt 7); ([107; 95], PConstant 42); ([101; 95], PEvent None)] in
  let ops := [(false, OSet [110; 95; 98] 101); (true, OGet [110; 95; 98]); (true, OSet [110; 95; 98] 5); (false, OGet [110; 95; 98]);
              (true, OSet [107; 95; 99] 1); (false, OGet [107; 95; 99]); (false, OAdd [110; 95; 102] (PTyped VStr 102));
              (true, OSet [110; 95; 102] 101); (false, OSet [110; 95; 102] 101); (true, ORem [110; 95; 98]); (true, OGet [110; 95; 98]);
              (false, OGet [122])] in
  lclean_run2 (snd t) lst (init_state2 (fst t)) ops = true /\
  map (fun x => o_out (snd (fst x))) (run2_lk lst (snd t) (init_state2 (fst t)) ops) =
  [Raise TraitError; Raise AttributeError; Raise TraitError; Val 7; Raise TraitError; Raise AttributeError; Done;
   Raise TraitError; Raise TraitError; Val 0; Raise AttributeError; Raise AttributeError].
Proof. vm_compute. split; reflexivity. Qed.

(* ------------------------------------------------------------------ *)
(* Depth round, item 2, in the checker's own terms (coq/C13/ClassOpTie.v): CorrT.law_codes — the
   function ./check evaluates on the implementation's observations (mro_rule on the user classes,
   CorrT.add_decl, re-labelling) — returns no code on the MODEL's runs: single-inheritance user
   classes h, any number of fresh objects of any classes, object operations and add_class_trait
   calls on any user classes, in any order, under the boolean [tokb]. *)
Theorem checker_law_codes_vanish_on_model_runs_with_class_operations :
  forall h objs ts,
    single h = true -> chainb (roots ++ h) = true ->
    forallb plain_t (tables (roots ++ h)) = true ->
    forallb (fun c => Nat.ltb c (length (roots ++ h))) objs = true ->
    forallb (fun t => match t with C13.CorrT.TClass k _ _ => Nat.leb 3 k | _ => true end) ts = true ->
    tokb (roots ++ h) objs (tables (roots ++ h), map (fun _ => ([], [])) objs) (roots ++ h) ts = true ->
    C13.CorrT.law_codes (h, objs, run_t (roots ++ h) objs (tables (roots ++ h), map (fun _ => ([], [])) objs) ts) = [].
Proof. exact checker_law_codes_on_model_runs. Qed.
Print Assumptions checker_law_codes_vanish_on_model_runs_with_class_operations.

(* on any history (model's or implementation's): the checker's codes are empty exactly when the
   declarative law with the declarations appended is *)
Theorem checker_class_operation_law_is_the_declarative_law_on_single_inheritance :
  forall hist objs h i lss,
    single h = true -> forallb (fun k => Nat.ltb k (length (roots ++ h))) objs = true ->
    user_calls hist = true ->
    C13.CorrT.law_tag_t objs h i lss hist = [] <-> law_hist_ta objs (roots ++ h) i lss hist = [].
Proof. exact law_tag_t_ta. Qed.
Print Assumptions checker_class_operation_law_is_the_declarative_law_on_single_inheritance.

Example checker_law_codes_nontrivial :
  let h := [mkClass [([116; 114; 95], PReadOnly VUndef)] [1%nat]; mkClass [] [3%nat]; mkClass [([122], PAny 5)] [4%nat]] in
  let objs := [3%nat; 5%nat; 4%nat] in
  let ts := [C13.CorrT.TClass 3 [116; 95] (PTyped VInt 7); C13.CorrT.TObj 1 (OGet [116; 99]);
             C13.CorrT.TObj 2 (OSet [116; 99] 101);
             C13.CorrT.TClass 4 [113] (PAny 8); C13.CorrT.TObj 0 (OGet [113]); C13.CorrT.TObj 1 (OGet [113]);
             C13.CorrT.TClass 3 [116; 114; 95] PDisallow;
             C13.CorrT.TClass 3 [122] (PEvent None); C13.CorrT.TObj 1 (OGet [122]); C13.CorrT.TObj 2 (OGet [122]);
             C13.CorrT.TObj 0 (OSet [116; 114; 120] 101); C13.CorrT.TObj 0 (OSet [116; 114; 120] 102)] in
  single h = true /\ chainb (roots ++ h) = true /\ forallb plain_t (tables (roots ++ h)) = true /\
  forallb (fun c => Nat.ltb c (length (roots ++ h))) objs = true /\
  forallb (fun t => match t with C13.CorrT.TClass k _ _ => Nat.leb 3 k | _ => true end) ts = true /\
  tokb (roots ++ h) objs (tables (roots ++ h), map (fun _ => ([], [])) objs) (roots ++ h) ts = true.
Proof. vm_compute. repeat split; reflexivity. Qed.
