(* C13 — property theorems only.  Each is closed by [exact] of a lemma of Proofs.v and
   followed by Print Assumptions.

   Vocabulary (Proofs.v): [model_rule ct pt] is the class-level rule an object implements
   whose class has __class_traits__ = ct and the sorted __prefix_traits__ = pt;
   [gov ct pt s n] is the rule governing name n in object state s (instance trait first);
   [Inv ct pt s ls] is the invariant of all states reached by histories that avoid the
   listed finding ([clean_run]: no add_trait of a value-less policy over a value already in
   obj.__dict__) and use plain traits only ([plain_class], [clean_run]: no mapped trait, i.e.
   no Map whose shadow attribute name_ is written behind the scenes), see
   [reachable_states_satisfy_invariant].  Mapped traits are modelled (Model.step: add_trait
   installs the shadow trait, Map.post_setattr assigns name_, remove_trait removes both), checked
   against the implementation by the correspondence and the law, and covered by the direct
   theorems [add_mapped_trait_installs_shadow], [remove_mapped_trait_clears_derived_name],
   [remove_trait_restores_class_rule_for_derived_names] at the end. *)
From Coq Require Import ZArith List Bool Lia.
From TV Require Import Common.Harness C13.Model C13.Law C13.Corr C13.Proofs C13.MapProofs C13.ListenerProofs C13.ClassOpProofs C13.ListenerInd C13.ClassOpInd C13.ClassOpSub C13.MapInterleave C13.ClassOpDag C13.ClassOpSubRun C13.ClassOpGlobal C13.ClassOpChain C13.ListLife C13.ListenerInd2 C13.ClassOpTie.
Import ListNotations.
Open Scope Z_scope.

(* The whole law holds at every step of every history of get / set / del / add_trait /
   remove_trait, for every class hierarchy (any depth, any base lists, any declarations),
   every class of it and all names — with the class-level rule computed DECLARATIVELY
   (own, then the direct bases in order, each with what it inherited; longest matching
   wildcard) and the model running the sorted tables of update_traits_class_dict with its
   caching.  [spec_rule] reads "inherited" as the code does; the law that is evaluated on
   the implementation uses [mro_rule] ("inherited" along the MRO): see the next theorems. *)
Theorem law_holds_on_every_history :
  forall (h : list classdef) (c : nat) (ops : list op) (i : Z),
    plain_class h c = true ->
    clean_run (snd (class_tables h c)) (init_state (fst (class_tables h c))) ops = true ->
    law_hist (spec_rule h c) i l_init
             (run (snd (class_tables h c)) (init_state (fst (class_tables h c))) ops) = [].
Proof. exact law_all_histories. Qed.
Print Assumptions law_holds_on_every_history.

(* The law as evaluated on the implementation ("inherited" = along the C3 method resolution
   order): it holds wherever the two readings of "inherited" give the same rule ... *)
Theorem law_holds_under_mro_reading :
  forall (h : list classdef) (c : nat) (ops : list op) (i : Z),
    (forall n, mro_rule h c n = spec_rule h c n) ->
    plain_class h c = true ->
    clean_run (snd (class_tables h c)) (init_state (fst (class_tables h c))) ops = true ->
    law_hist (mro_rule h c) i l_init
             (run (snd (class_tables h c)) (init_state (fst (class_tables h c))) ops) = [].
Proof. exact law_all_histories_mro. Qed.
Print Assumptions law_holds_under_mro_reading.

(* ... which is the case for every class of every single-inheritance hierarchy (any depth) *)
Theorem mro_and_base_order_agree_on_single_inheritance :
  forall (h : list classdef) (c : nat) (n : name),
    single h = true -> (c < length (roots ++ h))%nat -> mro_rule h c n = spec_rule h c n.
Proof. exact mro_spec_single. Qed.
Print Assumptions mro_and_base_order_agree_on_single_inheritance.

Theorem law_holds_on_single_inheritance_hierarchies :
  forall (h : list classdef) (c : nat) (ops : list op) (i : Z),
    single h = true -> (c < length (roots ++ h))%nat ->
    plain_class h c = true ->
    clean_run (snd (class_tables h c)) (init_state (fst (class_tables h c))) ops = true ->
    law_hist (mro_rule h c) i l_init
             (run (snd (class_tables h c)) (init_state (fst (class_tables h c))) ops) = [].
Proof. exact law_single_inheritance. Qed.
Print Assumptions law_holds_on_single_inheritance_hierarchies.

(* ... and fails in diamonds (listed finding): class A(HasTraits): pass;
   class K(A, HasStrictTraits): pass; K().ab = 5 is accepted *)
Theorem inheritance_not_by_mro_refuted : exists h c ops,
  clean_run (snd (class_tables h c)) (init_state (fst (class_tables h c))) ops = true /\
  law_hist (mro_rule h c) 0 l_init
           (run (snd (class_tables h c)) (init_state (fst (class_tables h c))) ops) <> [].
Proof. exact mro_refutes. Qed.
Print Assumptions inheritance_not_by_mro_refuted.

(* the checker's [law_codes] only re-labels failures: it is empty exactly when [law_hist] is *)
Theorem law_codes_relabelling_is_faithful :
  forall mr sr h i ls, law_tag mr sr i ls h = [] <-> law_hist mr i ls h = [].
Proof. exact law_tag_nil. Qed.
Print Assumptions law_codes_relabelling_is_faithful.

(* ... and the hypothesis [clean_run] cannot be dropped: o.ab = 5; o.add_trait('ab', Event()); o.ab *)
Theorem law_without_clean_hypothesis_refuted : exists ops,
  law_hist (spec_rule [mkClass [] [0%nat]] 3) 0 l_init
    (run (snd (class_tables [mkClass [] [0%nat]] 3)) (init_state (fst (class_tables [mkClass [] [0%nat]] 3))) ops)
  <> [].
Proof. exact stale_value_refutes. Qed.
Print Assumptions law_without_clean_hypothesis_refuted.

(* instance trait, else class trait (own or inherited), else __x__ case, else the wildcard
   with the longest matching prefix: the built tables agree with the declarative rule *)
Theorem resolve_order :
  forall (h : list classdef) (c : nat) (n : name),
    model_rule (fst (class_tables h c)) (snd (class_tables h c)) n = spec_rule h c n.
Proof. exact class_tables_rule. Qed.
Print Assumptions resolve_order.

(* the sorted-by-length lemma: in prefix_list.sort(key=len, reverse=True) the first
   matching prefix is a matching prefix of maximal length, for every list of wildcards *)
Theorem first_match_is_longest :
  forall (n : name) (l : ptab) (q : name) (p : policy),
    first_match n (sort_len l) = Some (q, p) ->
    In (q, p) l /\ is_prefix q n = true /\
    forall q' p', In (q', p') l -> is_prefix q' n = true -> (length q' <= length q)%nat.
Proof. exact first_match_sort_longest. Qed.
Print Assumptions first_match_is_longest.

(* the law's own wildcard choice is what the property says: a matching prefix of maximal
   length (the earliest declaration among equals), or none matches *)
Theorem best_is_longest_match :
  forall (n : name) (l : ptab),
    match best n l with
    | Some (q, p) => assoc q l = Some p /\ is_prefix q n = true /\
                     forall q' p', In (q', p') l -> is_prefix q' n = true -> (length q' <= length q)%nat
    | None => forall q' p', In (q', p') l -> is_prefix q' n = false
    end.
Proof. exact best_spec. Qed.
Print Assumptions best_is_longest_match.

Theorem reachable_states_satisfy_invariant :
  forall (ct : ctab) (pt : ptab) (ops : list op) (s : state) (ls : lstate),
    Inv ct pt s ls -> clean_run pt s ops = true -> exists ls', Inv ct pt (final_state pt s ops) ls'.
Proof. exact final_Inv. Qed.
Print Assumptions reachable_states_satisfy_invariant.

Theorem fresh_object_satisfies_invariant :
  forall ct pt, plain_tab ct = true -> plain_tab pt = true -> Inv ct pt (init_state ct) l_init.
Proof. exact Inv_init. Qed.
Print Assumptions fresh_object_satisfies_invariant.

(* a name governed by Disallow (the class default of strict classes) cannot be read, written or deleted *)
Theorem strict_undeclared_rejected :
  forall ct pt s ls n v, Inv ct pt s ls -> gov ct pt s n = RPol PDisallow ->
    (assoc n (s_od s) = None -> o_out (snd (step pt s (OGet n))) = Raise AttributeError) /\
    o_out (snd (step pt s (OSet n v))) = Raise TraitError /\
    o_out (snd (step pt s (ODel n))) = Raise TraitError /\
    assoc n (s_od (fst (step pt s (OSet n v)))) = assoc n (s_od s).
Proof. exact disallow_rejects. Qed.
Print Assumptions strict_undeclared_rejected.

Theorem strict_class_default_is_disallow :
  forall n, name_eqb n_trait_added n = false -> name_eqb n_trait_modified n = false ->
    dunder n = false -> is_prefix n_traits_cache_ n = false ->
    spec_rule [] 1 n = RPol PDisallow.
Proof. exact strict_default. Qed.
Print Assumptions strict_class_default_is_disallow.

Theorem plain_class_default_is_python :
  forall n, name_eqb n_trait_added n = false -> name_eqb n_trait_modified n = false ->
    dunder n = false -> is_prefix n_traits_cache_ n = false ->
    spec_rule [] 0 n = RPol PPython.
Proof. exact plain_default. Qed.
Print Assumptions plain_class_default_is_python.

(* ReadOnly: the first assignment defines the value, is read back, and every later
   assignment or delete is rejected and leaves the value *)
Theorem readonly_exactly_one_defining_assignment :
  forall ct pt s ls n v w, Inv ct pt s ls -> gov ct pt s n = RPol (PReadOnly VUndef) ->
    defined (assoc n (s_od s)) = false -> v <> VUndef ->
    let s1 := fst (step pt s (OSet n v)) in
    o_out (snd (step pt s (OSet n v))) = Done /\
    o_out (snd (step pt s1 (OGet n))) = Val v /\
    o_out (snd (step pt s1 (OSet n w))) = Raise TraitError /\
    o_out (snd (step pt s1 (ODel n))) = Raise TraitError /\
    assoc n (s_od (fst (step pt s1 (OSet n w)))) = Some v.
Proof. exact readonly_once. Qed.
Print Assumptions readonly_exactly_one_defining_assignment.

Theorem constant_never_changes :
  forall ct pt s ls n c v, Inv ct pt s ls -> gov ct pt s n = RPol (PConstant c) ->
    (assoc n (s_od s) = None -> o_out (snd (step pt s (OGet n))) = Val c) /\
    o_out (snd (step pt s (OSet n v))) = Raise TraitError /\
    o_out (snd (step pt s (ODel n))) = Raise TraitError /\
    assoc n (s_od (fst (step pt s (OSet n v)))) = assoc n (s_od s) /\
    assoc n (s_od (fst (step pt s (ODel n)))) = assoc n (s_od s).
Proof. exact constant_fixed. Qed.
Print Assumptions constant_never_changes.

Theorem event_write_only :
  forall ct pt s ls n v, Inv ct pt s ls -> gov ct pt s n = RPol (PEvent None) ->
    o_out (snd (step pt s (OSet n v))) = Done /\
    (assoc n (s_od s) = None -> o_out (snd (step pt s (OGet n))) = Raise AttributeError) /\
    assoc n (s_od (fst (step pt s (OSet n v)))) = assoc n (s_od s).
Proof. exact event_wo. Qed.
Print Assumptions event_write_only.

(* a typed trait (Int, Str, CInt, ... any validator [VFun f]) accepts exactly what its own
   validator accepts and stores the validated value *)
Theorem typed_names_validate :
  forall ct pt s ls n k d v, Inv ct pt s ls -> gov ct pt s n = RPol (PTyped k d) -> v <> VUndef ->
    let s1 := fst (step pt s (OSet n v)) in
    match validate k v with
    | Some w => o_out (snd (step pt s (OSet n v))) = Done /\ o_out (snd (step pt s1 (OGet n))) = Val w
    | None => o_out (snd (step pt s (OSet n v))) = Raise TraitError /\ assoc n (s_od s1) = assoc n (s_od s)
    end.
Proof. exact typed_validates. Qed.
Print Assumptions typed_names_validate.

Theorem readonly_with_default_never_assignable :
  forall ct pt s ls n d v, Inv ct pt s ls -> gov ct pt s n = RPol (PReadOnly d) -> d <> VUndef ->
    (assoc n (s_od s) = None -> o_out (snd (step pt s (OGet n))) = Val d) /\
    o_out (snd (step pt s (OSet n v))) = Raise TraitError /\
    o_out (snd (step pt s (ODel n))) = Raise TraitError /\
    assoc n (s_od (fst (step pt s (OSet n v)))) = assoc n (s_od s).
Proof. exact readonly_default_fixed. Qed.
Print Assumptions readonly_with_default_never_assignable.

Theorem typed_event_write_only :
  forall ct pt s ls n k v, Inv ct pt s ls -> gov ct pt s n = RPol (PEvent (Some k)) ->
    o_out (snd (step pt s (OSet n v))) = (match validate k v with Some _ => Done | None => Raise TraitError end) /\
    (assoc n (s_od s) = None -> o_out (snd (step pt s (OGet n))) = Raise AttributeError) /\
    assoc n (s_od (fst (step pt s (OSet n v)))) = assoc n (s_od s).
Proof. exact event_typed. Qed.
Print Assumptions typed_event_write_only.

(* in reachable states nothing is stored under Disallow / Constant / Event, so the
   side conditions [assoc n (s_od s) = None] above always hold there *)
Theorem nothing_stored_under_valueless_policy :
  forall ct pt s ls n, Inv ct pt s ls -> storing (gov ct pt s n) = false -> assoc n (s_od s) = None.
Proof. exact nothing_stored. Qed.
Print Assumptions nothing_stored_under_valueless_policy.

Theorem remove_trait_restores_class_rule :
  forall ct pt s ls n, Inv ct pt s ls ->
    let s1 := fst (step pt s (ORem n)) in
    gov ct pt s1 n = model_rule ct pt n /\
    (forall m, m <> n -> gov ct pt s1 m = gov ct pt s m) /\
    (assoc n (s_itd s) <> None -> assoc n (s_od s1) = None /\ o_out (snd (step pt s (ORem n))) = Val 1) /\
    exists ls1, Inv ct pt s1 ls1.
Proof. exact remove_restores. Qed.
Print Assumptions remove_trait_restores_class_rule.

Theorem add_trait_governs :
  forall ct pt s n p, gov ct pt (fst (step pt s (OAdd n p))) n = RPol p.
Proof. exact add_governs. Qed.
Print Assumptions add_trait_governs.

Theorem access_never_changes_the_governing_trait :
  forall ct pt s o m, is_access o = true -> gov ct pt (fst (step pt s o)) m = gov ct pt s m.
Proof. exact gov_access_stable. Qed.
Print Assumptions access_never_changes_the_governing_trait.

(* HasPrivateTraits: names starting with '_' are untyped (Any, default None), all others rejected *)
Theorem private_names_untyped :
  forall n, name_eqb n_trait_added n = false -> name_eqb n_trait_modified n = false ->
    dunder n = false -> is_prefix n_traits_cache_ n = false ->
    spec_rule [] 2 n = if is_prefix [US] n then RPol (PAny VNone) else RPol PDisallow.
Proof. exact private_default. Qed.
Print Assumptions private_names_untyped.

Theorem untyped_names_accept_any_value :
  forall ct pt s ls n v d, Inv ct pt s ls ->
    (gov ct pt s n = RPol (PAny d) \/ gov ct pt s n = RPol PPython \/ gov ct pt s n = RDunder) ->
    let s1 := fst (step pt s (OSet n v)) in
    o_out (snd (step pt s (OSet n v))) = Done /\ o_out (snd (step pt s1 (OGet n))) = Val v.
Proof. exact untyped_accepts. Qed.
Print Assumptions untyped_names_accept_any_value.

(* Two instances of one class share the class dictionary with its cached resolutions and
   nothing else: after any (clean) history on a first instance, every history on a fresh
   second instance still satisfies the law. *)
Theorem second_instance_shares_only_the_cache :
  forall (h : list classdef) (c : nat) (pre ops : list op) (i : Z),
    plain_class h c = true ->
    let t := class_tables h c in
    clean_run (snd t) (init_state (fst t)) pre = true ->
    let s2 := mkState (s_ctd (final_state (snd t) (init_state (fst t)) pre)) [] [] in
    clean_run (snd t) s2 ops = true ->
    law_hist (spec_rule h c) i l_init (run (snd t) s2 ops) = [].
Proof. exact law_second_instance. Qed.
Print Assumptions second_instance_shares_only_the_cache.

Theorem second_instance_tables :
  forall h c pre, (c < length (tables h))%nat ->
    tabs_nth (staged_tables h c pre []) c =
    (s_ctd (final_state (snd (tabs_nth (tables h) c)) (init_state (fst (tabs_nth (tables h) c))) pre),
     snd (tabs_nth (tables h) c)).
Proof. exact staged_same_class. Qed.
Print Assumptions second_instance_tables.

(* classes created before any instance is used get the plain tables (the case the main theorem covers) *)
Theorem classes_created_before_use_are_plain :
  forall h1 k h2, staged_tables h1 k [] h2 = tables (h1 ++ h2).
Proof. exact staged_no_pre. Qed.
Print Assumptions classes_created_before_use_are_plain.

(* ... and a class created AFTER an instance of its base was used violates the law (listed finding):
   class A(HasTraits): a_ = Int;  A().ab = 1;  class B(A): a_ = Str;  B().ab = "s1" *)
Theorem late_class_inherits_cache_refuted : exists h1 k pre h2 c ops,
  let t := tabs_nth (staged_tables (roots ++ h1) k pre h2) c in
  clean_run (snd t) (init_state (fst t)) ops = true /\
  law_hist (spec_rule (h1 ++ h2) c) 0 l_init (run (snd t) (init_state (fst t)) ops) <> [].
Proof. exact late_class_refutes. Qed.
Print Assumptions late_class_inherits_cache_refuted.

(* Two instances of one class with their operations interleaved in any order: each instance
   obeys the law on its own — instance traits and stored values of one never govern the
   other, the shared class dictionary (with the cached resolutions) never changes a rule. *)
Theorem two_interleaved_instances_obey_the_law :
  forall (h : list classdef) (c : nat) (ops : list (bool * op)) (i : Z),
    plain_class h c = true ->
    clean_run2 (snd (class_tables h c)) (init_state2 (fst (class_tables h c))) ops = true ->
    law_hist2 (spec_rule h c) i l_init l_init
              (run2 (snd (class_tables h c)) (init_state2 (fst (class_tables h c))) ops) = [].
Proof. exact law_two_instances. Qed.
Print Assumptions two_interleaved_instances_obey_the_law.

Theorem two_instance_run_extends_the_single_run :
  forall pt ops ctd a b,
    map (fun x => (snd (fst x), snd x)) (run2 pt (ctd, a, b) (map (pair false) ops)) = run pt (st_of ctd a) ops.
Proof. exact run2_single. Qed.
Print Assumptions two_instance_run_extends_the_single_run.

Theorem law_codes_relabelling_is_faithful_for_two_instances :
  forall mr sr h i la lb, law_tag2 mr sr i la lb h = [] <-> law_hist2 mr i la lb h = [].
Proof. exact law_tag2_nil. Qed.
Print Assumptions law_codes_relabelling_is_faithful_for_two_instances.

(* ---- mapped traits (Map): statements about Model.step in every state, no invariant ---- *)
Theorem add_mapped_trait_installs_shadow :
  forall pt s n m d,
    let s' := fst (step pt s (OAdd n (PMap m d))) in
    assoc n (s_itd s') = Some (PMap m d) /\ assoc (n ++ [US]) (s_itd s') = Some (PShadow m) /\
    s_od s' = s_od s.
Proof. exact add_mapped_installs. Qed.
Print Assumptions add_mapped_trait_installs_shadow.

(* remove_trait(name) of a mapped instance trait removes the trait, the shadow trait of name_,
   the value and the shadow value (the seeded change C13-m3 leaves the shadow value behind) *)
Theorem remove_mapped_trait_clears_derived_name :
  forall pt s n m d,
    assoc n (s_itd s) = Some (PMap m d) ->
    (assoc (n ++ [US]) (s_itd s) <> None \/ amem (n ++ [US]) (s_ctd s) = true) ->
    let s' := fst (step pt s (ORem n)) in
    o_out (snd (step pt s (ORem n))) = Val 1 /\
    assoc n (s_itd s') = None /\ assoc (n ++ [US]) (s_itd s') = None /\
    assoc n (s_od s') = None /\ assoc (n ++ [US]) (s_od s') = None.
Proof. exact remove_mapped_clears. Qed.
Print Assumptions remove_mapped_trait_clears_derived_name.

(* ... hence name and name_ are governed by the class-level rule again and nothing stale is stored *)
Theorem remove_trait_restores_class_rule_for_derived_names :
  forall ct pt s n m d,
    assoc n (s_itd s) = Some (PMap m d) ->
    (assoc (n ++ [US]) (s_itd s) <> None \/ amem (n ++ [US]) (s_ctd s) = true) ->
    let s' := fst (step pt s (ORem n)) in
    gov ct pt s' n = model_rule ct pt n /\ gov ct pt s' (n ++ [US]) = model_rule ct pt (n ++ [US]) /\
    assoc n (s_od s') = None /\ assoc (n ++ [US]) (s_od s') = None.
Proof. exact remove_mapped_restores_class_rule. Qed.
Print Assumptions remove_trait_restores_class_rule_for_derived_names.

(* List traits (has_items): the event trait of name_items is installed by add_trait and removed,
   with the trait and its value, by remove_trait *)
Theorem add_list_trait_installs_items_event :
  forall pt s n,
    let s' := fst (step pt s (OAdd n PList)) in
    assoc n (s_itd s') = Some PList /\
    assoc (n ++ items_suffix) (s_itd s') = Some (PEvent (Some VNoneOnly)) /\ s_od s' = s_od s.
Proof. exact add_list_installs. Qed.
Print Assumptions add_list_trait_installs_items_event.

Theorem remove_list_trait_clears_items_event :
  forall pt s n,
    assoc n (s_itd s) = Some PList ->
    let s' := fst (step pt s (ORem n)) in
    o_out (snd (step pt s (ORem n))) = Val 1 /\
    assoc n (s_itd s') = None /\ assoc (n ++ items_suffix) (s_itd s') = None /\ assoc n (s_od s') = None.
Proof. exact remove_list_clears. Qed.
Print Assumptions remove_list_trait_clears_items_event.

(* ---- the law on histories WITH a mapped trait (MapProofs.v) ----
   [pair_op n o]: o is a get / set / del of name n or of its shadow name n_;
   [Agree s ls]: the law's bookkeeping (instance traits, stored values) agrees with the object. *)

(* From ANY object state whose bookkeeping agrees, under ANY class-level rule and class tables:
   add_trait(n, Map(m, default d)) (d a key of m) followed by any history of get / set / del on n
   and n_, with or without a final remove_trait(n), satisfies the whole law (Map.post_setattr's
   write of n_, materialised defaults, the shadow's mapped default, clause 93 on removal). *)
Theorem law_holds_on_the_life_of_a_mapped_trait :
  forall (crule : name -> rule) pt n m d wd, zassoc d m = Some wd ->
  forall ops s ls i, Agree s ls -> forallb (pair_op n) ops = true ->
    law_hist crule i ls (run pt s (OAdd n (PMap m d) :: ops)) = [] /\
    law_hist crule i ls (run pt s (OAdd n (PMap m d) :: ops ++ [ORem n])) = [].
Proof. exact mapped_life. Qed.
Print Assumptions law_holds_on_the_life_of_a_mapped_trait.

(* every single get / set / del on n or n_ while the pair is installed: the law's step check
   passes, the pair stays, the bookkeeping agrees again *)
Theorem mapped_pair_step_obeys_the_law :
  forall (crule : name -> rule) pt n m d wd, zassoc d m = Some wd ->
  forall s ls o, Pair n m d s -> Agree s ls -> pair_op n o = true -> Good crule pt n m d s ls o.
Proof. exact pair_step. Qed.
Print Assumptions mapped_pair_step_obeys_the_law.

(* a fresh object of any class (hence either reading of "inherited", any hierarchy) *)
Theorem law_holds_on_mapped_trait_of_a_fresh_object :
  forall (crule : name -> rule) ct pt n m d wd ops i,
    zassoc d m = Some wd -> forallb (pair_op n) ops = true ->
    law_hist crule i l_init (run pt (init_state ct) (OAdd n (PMap m d) :: ops)) = [] /\
    law_hist crule i l_init (run pt (init_state ct) (OAdd n (PMap m d) :: ops ++ [ORem n])) = [].
Proof. exact mapped_life_fresh. Qed.
Print Assumptions law_holds_on_mapped_trait_of_a_fresh_object.

(* second main theorem: every class without Map/List declarations, any clean history on plain
   traits, THEN the life of a mapped instance trait *)
Theorem law_holds_on_histories_with_mapped_traits :
  forall (h : list classdef) (c : nat) (pre : list op) n m d wd (ops : list op) (i : Z),
    plain_class h c = true ->
    let t := class_tables h c in
    clean_run (snd t) (init_state (fst t)) pre = true ->
    zassoc d m = Some wd -> forallb (pair_op n) ops = true ->
    law_hist (spec_rule h c) i l_init
             (run (snd t) (init_state (fst t)) (pre ++ OAdd n (PMap m d) :: ops)) = [] /\
    law_hist (spec_rule h c) i l_init
             (run (snd t) (init_state (fst t)) (pre ++ OAdd n (PMap m d) :: ops ++ [ORem n])) = [].
Proof. exact plain_then_mapped_life_spec. Qed.
Print Assumptions law_holds_on_histories_with_mapped_traits.

(* third form: plain phases ([SPlain ops], clean) and complete lives of mapped instance traits
   ([SMap n m d ops] = add_trait(n, Map(m, d)); get/set/del on n, n_; remove_trait(n)) alternate in
   any number and order, possibly followed by one more life that is not finished; [segs_ok] is the
   boolean hypothesis (each plain phase clean in the state it starts from, each default a key,
   each life touching only its own two names) *)
Theorem law_holds_on_alternating_plain_and_mapped_phases :
  forall (h : list classdef) (c : nat) (gs : list seg) (i : Z),
    plain_class h c = true ->
    let t := class_tables h c in
    segs_ok (snd t) (init_state (fst t)) gs = true ->
    law_hist (spec_rule h c) i l_init (run (snd t) (init_state (fst t)) (flat_map seg_ops gs)) = [] /\
    forall n m d wd ops, zassoc d m = Some wd -> forallb (pair_op n) ops = true ->
      law_hist (spec_rule h c) i l_init
               (run (snd t) (init_state (fst t)) (flat_map seg_ops gs ++ OAdd n (PMap m d) :: ops)) = [].
Proof. exact law_alternating. Qed.
Print Assumptions law_holds_on_alternating_plain_and_mapped_phases.

(* the step behind it: after remove_trait the object satisfies the plain-trait invariant again *)
Theorem plain_invariant_holds_again_after_remove_trait :
  forall ct pt n m d s0 ls0 s ls, Inv ct pt s0 ls0 -> During n m d s0 s -> Agree s ls ->
    Inv ct pt (fst (step pt s (ORem n))) (law_next (model_rule ct pt) ls (ORem n) (snd (step pt s (ORem n)))).
Proof. exact Inv_after_life. Qed.
Print Assumptions plain_invariant_holds_again_after_remove_trait.

Example alternating_phases_nontrivial :
  let t := class_tables [mkClass [([97; 95], PTyped VInt 7)] [1%nat]] 3 in
  segs_ok (snd t) (init_state (fst t))
    [ SPlain [OSet [97; 98; 95] 5; OAdd [98] (PAny 5); OSet [98] 6];
      SMap [97; 98] [(1, 11); (2, 12)] 1 [OGet [97; 98; 95]; OSet [97; 98] 2; OGet [97; 98; 95]; OSet [97; 98] 5];
      SPlain [OGet [97; 98; 95]; OSet [97; 98; 95] 3; OGet [98]; ORem [98]; OGet [98]];
      SMap [98] [(2, 3); (6, 5)] 6 [OGet [98; 95]; ODel [98]; OSet [98; 95] 9; OGet [98]] ] = true.
Proof. vm_compute. reflexivity. Qed.

(* Non-vacuity of the second main theorem: strict class with a wildcard covering ab_; a plain
   prefix; add_trait("ab", Map({1: 11, 2: 12})); reads, assignments (valid, invalid, to the shadow),
   deletes; remove_trait *)
Example mapped_theorem_nontrivial :
  let t := class_tables [mkClass [([97; 95], PTyped VInt 7)] [1%nat]] 3 in
  let pre := [OSet [97; 98; 95] 5; OGet [98]; OAdd [98] (PAny 5); OSet [98] 6] in
  let ops := [OGet [97; 98; 95]; OGet [97; 98]; OSet [97; 98] 2; OGet [97; 98; 95]; OSet [97; 98] 5;
              OSet [97; 98; 95] 9; OSet [97; 98] 2; ODel [97; 98]; ODel [97; 98; 95]; OGet [97; 98; 95]] in
  plain_class [mkClass [([97; 95], PTyped VInt 7)] [1%nat]] 3 = true /\
  clean_run (snd t) (init_state (fst t)) pre = true /\
  forallb (pair_op [97; 98]) ops = true /\
  map (fun p => o_out (snd p))
      (run (snd t) (init_state (fst t)) (pre ++ OAdd [97; 98] (PMap [(1, 11); (2, 12)] 1) :: ops ++ [ORem [97; 98]])) =
  [Done; Raise AttributeError; Done; Done;
   Done; Val 5; Val 1; Done; Val 12; Raise TraitError; Done; Done; Done; Done; Val 11; Val 1].
Proof. vm_compute. repeat split; reflexivity. Qed.

(* on plain traits Model.step is the plain look-up + handlers the invariant proofs reason about *)
Theorem model_step_on_plain_traits :
  forall ct pt s ls o, Inv ct pt s ls -> clean_step s o = true -> step pt s o = step_p pt s o.
Proof. exact step_plain_eq. Qed.
Print Assumptions model_step_on_plain_traits.

(* Non-vacuity: a hierarchy with overlapping wildcards in two bases under a strict and a
   private root; a clean history with an instance trait shadowing and being removed, a
   ReadOnly defined once, a Constant, an Event; outcomes of every class occur. *)
Definition ex_h : list classdef :=
  [ mkClass [([97; 95], PTyped VInt 7); ([97; 98; 95], PEvent None)] [1%nat];              (* 3: a_ = Int, ab_ = Event; strict *)
    mkClass [([97; 95], PTyped VStr 102); ([98], PConstant 3)] [2%nat];                (* 4: a_ = Str, b = Constant; private *)
    mkClass [([98; 98], PReadOnly VUndef)] [3%nat; 4%nat] ].                                  (* 5(3,4): bb = ReadOnly *)
Definition ex_ops : list op :=
  [ OSet [97; 97] 5; OSet [97; 97] 101; OGet [97; 98; 98]; OSet [97; 98; 98] 1; OGet [98]; OSet [98] 4;
    OSet [98; 98] 1; OSet [98; 98] 2; OGet [98; 98]; OGet [99]; OSet [99] 1; OSet [95; 99] 101; OGet [95; 99];
    OAdd [99] (PAny 5); OSet [99] 6; OGet [99]; ORem [99]; OGet [99] ].
Example history_nontrivial :
  let t := class_tables ex_h 5 in
  plain_class ex_h 5 = true /\
  clean_run (snd t) (init_state (fst t)) ex_ops = true /\
  map (fun p => o_out (snd p)) (run (snd t) (init_state (fst t)) ex_ops) =
  [ Done; Raise TraitError; Raise AttributeError; Done; Val 3; Raise TraitError;
    Done; Raise TraitError; Val 1; Raise AttributeError; Raise TraitError; Done; Val 101;
    Done; Done; Val 6; Val 1; Raise AttributeError ].
Proof. vm_compute. repeat split; reflexivity. Qed.

(* Non-vacuity for mapped traits: strict class; add_trait("ab", Map({1: 11, 2: 12})), read, assign,
   remove_trait: ab_ reads 11, 12, then AttributeError again (the demo of seeded change C13-m3) *)
Example mapped_history :
  let t := class_tables [mkClass [] [1%nat]] 3 in
  map (fun p => o_out (snd p))
      (run (snd t) (init_state (fst t))
           [OGet [97; 98; 95]; OAdd [97; 98] (PMap [(1, 11); (2, 12)] 1); OGet [97; 98]; OGet [97; 98; 95];
            OSet [97; 98] 2; OGet [97; 98; 95]; OSet [97; 98] 5; ORem [97; 98]; OGet [97; 98; 95]; OSet [97; 98; 95] 1]) =
  [Raise AttributeError; Done; Val 1; Val 11; Done; Val 12; Raise TraitError; Val 1;
   Raise AttributeError; Raise TraitError].
Proof. vm_compute. reflexivity. Qed.


(* ---- a trait_added listener that declares traits lazily (Model.step_l; seeded change C13-n2) ---- *)

(* without a listener, for names it does not cover, and for names already known to the object or
   cached in its class, step_l is step: all theorems above apply unchanged *)
Theorem step_l_without_listener_is_step : forall pt s o, step_l [] pt s o = step pt s o.
Proof. exact step_l_nil. Qed.
Print Assumptions step_l_without_listener_is_step.

Theorem listener_not_called_for_known_names :
  forall lst pt s o,
    amem (op_name o) (s_itd s) || amem (op_name o) (s_ctd s) = true -> step_l lst pt s o = step pt s o.
Proof. exact step_l_known. Qed.
Print Assumptions listener_not_called_for_known_names.

(* The instance trait a trait_added listener installs on the first touch of an undeclared name
   governs that very access: the first assignment IS the assignment under the listener's trait
   (in the state with the resolved trait cached and the listener's trait installed) ... *)
Theorem trait_added_listener_trait_governs_first_access :
  forall lst pt s n lp, listener lst n = Some lp ->
    assoc n (s_itd s) = None -> assoc n (s_ctd s) = None ->
    forall v p s', prefix_trait pt s n true = inl (p, s') ->
      step_l lst pt s (OSet n v) = setattr_m pt (after_listener n lp s') n lp v.
Proof. exact first_set. Qed.
Print Assumptions trait_added_listener_trait_governs_first_access.

(* ... so an invalid first write is rejected by the typed trait the listener installs, *)
Theorem first_write_of_invalid_value_is_rejected :
  forall lst pt s n lp, listener lst n = Some lp ->
    assoc n (s_itd s) = None -> assoc n (s_ctd s) = None ->
    forall k d v p s', lp = PTyped k d -> prefix_trait pt s n true = inl (p, s') ->
      v <> VUndef -> validate k v = None ->
      o_out (snd (step_l lst pt s (OSet n v))) = Raise TraitError /\
      assoc n (s_itd (fst (step_l lst pt s (OSet n v)))) = Some lp /\
      assoc n (s_od (fst (step_l lst pt s (OSet n v)))) = assoc n (s_od s).
Proof. exact first_write_invalid_rejected. Qed.
Print Assumptions first_write_of_invalid_value_is_rejected.

(* a Constant installed by the listener is not overwritten by the first write, *)
Theorem first_write_to_listener_constant_is_rejected :
  forall lst pt s n lp, listener lst n = Some lp ->
    assoc n (s_itd s) = None -> assoc n (s_ctd s) = None ->
    forall c v p s', lp = PConstant c -> prefix_trait pt s n true = inl (p, s') ->
      o_out (snd (step_l lst pt s (OSet n v))) = Raise TraitError /\
      assoc n (s_od (fst (step_l lst pt s (OSet n v)))) = assoc n (s_od s).
Proof. exact first_write_to_constant_rejected. Qed.
Print Assumptions first_write_to_listener_constant_is_rejected.

(* and a first read yields the listener trait's default / constant *)
Theorem first_read_yields_listener_default :
  forall lst pt s n lp, listener lst n = Some lp ->
    assoc n (s_itd s) = None -> assoc n (s_ctd s) = None ->
    forall p s', assoc n (s_od s) = None -> prefix_trait pt s n false = inl (p, s') ->
      (forall k d, lp = PTyped k d -> o_out (snd (step_l lst pt s (OGet n))) = Val d) /\
      (forall c, lp = PConstant c -> o_out (snd (step_l lst pt s (OGet n))) = Val c).
Proof. exact first_read_is_listener_default. Qed.
Print Assumptions first_read_yields_listener_default.

(* the demo of C13-n2 on the model: class LazySchema(HasTraits), 'n_*' -> Int(7), 'k_*' -> Constant(42) *)
Example lazy_schema_demo :
  let t := class_tables [mkClass [] [0%nat]] 3 in
  let lst := [([110; 95], PTyped VInt 7); ([107; 95], PConstant 42)] in
  map (fun p => o_out (snd p))
      (run_l lst (snd t) (init_state (fst t))
             [OSet [110; 95; 98] 101; OGet [110; 95; 98]; OSet [107; 95; 99] 1; OGet [107; 95; 99];
              OGet [110; 95; 100]; OSet [119] 101; OGet [119]]) =
  [Raise TraitError; Val 7; Raise TraitError; Val 42; Val 7; Done; Val 101].
Proof. vm_compute. reflexivity. Qed.


(* ---- add_class_trait: declarations added at run time (Model.add_class; seeded change C13-t2) ---- *)

(* After ANY sequence of wildcards added at run time (each one appended and the list re-sorted,
   has_traits.py l.1163-1170), in any order — specific then general or general then specific —
   the prefix list is sorted longest first and the first match is the longest matching wildcard
   of ALL declarations, those of the class body and those added later. *)
Theorem runtime_wildcards_keep_longest_first :
  forall (adds : list (name * policy)) (pt : ptab),
    Sorted.StronglySorted len_ge pt ->
    let pt' := fold_left add_wild adds pt in
    Sorted.StronglySorted len_ge pt' /\ tab_eq pt' (pt ++ adds) /\
    forall n, wild (first_match n pt') = wild (best n (pt ++ adds)).
Proof. exact runtime_wildcards_sorted. Qed.
Print Assumptions runtime_wildcards_keep_longest_first.

Theorem add_class_trait_wildcard_is_append_and_sort :
  forall ct pt n p, ends_us n = true -> amem (removelast n) pt = false ->
    add_class1 false (ct, pt) n p = Some (ct, add_wild pt (removelast n, p)) /\
    add_class1 true (ct, pt) n p = Some (ct, add_wild pt (removelast n, p)).
Proof. exact add_class1_wildcard. Qed.
Print Assumptions add_class_trait_wildcard_is_append_and_sort.

Theorem add_class_trait_keeps_existing_definitions :
  forall ct pt n p,
    (if ends_us n then amem (removelast n) pt else amem n ct) = true ->
    add_class1 false (ct, pt) n p = None /\ add_class1 true (ct, pt) n p = Some (ct, pt).
Proof. exact add_class1_existing. Qed.
Print Assumptions add_class_trait_keeps_existing_definitions.

(* the demo of C13-t2 on the model: class A(HasTraits); class B(A); instances of both;
   A.add_class_trait("cab_", Int(7)) then A.add_class_trait("c_", Str("2")): cabx is an Int on both *)
Example runtime_wildcards_demo :
  let h := roots ++ [mkClass [] [0%nat]; mkClass [] [3%nat]] in
  map (fun p => o_out (snd p))
      (run_t h [3%nat; 4%nat] (tables h, [([], []); ([], [])])
         [CorrT.TClass 3 [99; 97; 98; 95] (PTyped VInt 7); CorrT.TClass 3 [99; 95] (PTyped VStr 102);
          CorrT.TObj 0 (OGet [99; 97; 98; 120]); CorrT.TObj 0 (OSet [99; 97; 98; 120] 101);
          CorrT.TObj 0 (OGet [99; 120]); CorrT.TObj 1 (OSet [99; 97; 98; 121] 101);
          CorrT.TObj 1 (OGet [99; 97; 98; 121]); CorrT.TClass 3 [99; 95] PDisallow]) =
  [Done; Done; Val 7; Raise TraitError; Val 102; Raise TraitError; Val 7; Raise TraitError].
Proof. vm_compute. reflexivity. Qed.


(* ==== depth round: inductive theorems for what was "direct theorems + correspondence" ==== *)

(* The law on EVERY history of a class with a trait_added listener (Model.step_l), by induction:
   every hierarchy and class without Map/List declarations, every listener table of plain traits
   (prefix -> policy), every history of get / set / del / add_trait / remove_trait on one object.
   [law_hist_l] is the law the checker evaluates for listener classes (CorrL.law_tag_l without the
   re-labelling, [listener_law_codes_relabelling_is_faithful]); [run_lk] records after each step
   the instance trait of the name as the driver does.  Hypothesis [lclean_run]: the first listed
   finding excluded (no value-less trait — added by add_trait or by the listener — over a value
   already stored), no Map/List add_trait, and an add_trait whose trait the listener replaces is
   either the same trait or distinguishable from it by the observation (handler class, default). *)
Theorem law_holds_on_every_listener_history :
  forall (h : list classdef) (c : nat) (lst : list (name * policy)) (ops : list op) (i : Z),
    plain_class h c = true ->
    (forall n lp, listener lst n = Some lp -> plainp lp = true) ->
    let t := class_tables h c in
    lclean_run (snd t) lst (init_state (fst t)) ops = true ->
    law_hist_l lst (spec_rule h c) i l_init (run_lk lst (snd t) (init_state (fst t)) ops) = [].
Proof. exact law_listener_histories. Qed.
Print Assumptions law_holds_on_every_listener_history.

Theorem listener_law_codes_relabelling_is_faithful :
  forall lst mr sr h i la lb,
    C13.CorrL.law_tag_l lst mr sr i la lb (map (fun x => (false, fst (fst x), snd (fst x), snd x)) h) = [] <->
    law_hist_l lst mr i la h = [].
Proof. exact law_tag_l_single. Qed.
Print Assumptions listener_law_codes_relabelling_is_faithful.

(* Non-vacuity: strict class with a wildcard; listener n_* -> Int(7), k_* -> Constant(42), e_* -> Event;
   first touches by invalid write, write to the Constant, read, delete, add_trait (replaced by the
   listener's trait), later accesses, remove_trait and a second first touch *)
Example listener_history_nontrivial :
  let t := class_tables [mkClass [([97; 95], PTyped VStr 102)] [1%nat]] 3 in
  let lst := [([110; 95], PTyped VInt 7); ([107; 95], PConstant 42); ([101; 95], PEvent None)] in
  let ops := [OSet [110; 95; 98] 101; OGet [110; 95; 98]; OSet [107; 95; 99] 1; OGet [107; 95; 99]; OGet [110; 95; 100];
              ODel [110; 95; 101]; OAdd [110; 95; 102] (PTyped VStr 102); OSet [110; 95; 102] 101; OSet [110; 95; 102] 5;
              OSet [101; 95; 97] 3; OGet [101; 95; 97]; ORem [110; 95; 98]; OGet [110; 95; 98]; OSet [97; 98] 101; OGet [122]] in
  lclean_run (snd t) lst (init_state (fst t)) ops = true /\
  map (fun x => o_out (snd (fst x))) (run_lk lst (snd t) (init_state (fst t)) ops) =
  [Raise TraitError; Val 7; Raise TraitError; Val 42; Val 7; Done; Done; Raise TraitError; Done;
   Done; Raise AttributeError; Val 1; Raise AttributeError; Done; Raise AttributeError].
Proof. vm_compute. split; reflexivity. Qed.
