(* C13 — the property as a boolean checker on ONE observed history of one object.
   It never mentions [Model.step], [Model.build_class], [Model.sort_len] or
   [Model.first_match] (it shares only the data types, the dictionary functions and
   [own_tables], the split of a class body into exact and wildcard declarations): the
   governing rule of a name is computed here directly from the class hierarchy as the
   property words it —
     the instance trait of that name if one was added (and not removed),
     else the class trait of that name, own before inherited,
     else (names __x__: Python-reserved, see below)
     else the wildcard trait with the LONGEST matching prefix among all wildcard
          declarations of the class and the classes it inherits from (nearest first on
          equal prefixes); the "class default" is the wildcard entry the root classes declare
          ("" -> Python in HasTraits, "" -> Disallow in HasStrictTraits,
           "_" -> untyped Any and "" -> Disallow in HasPrivateTraits; DESIGN §6a) —
   and the outcome demanded by the governing policy is compared with the observation.
   "Inherited" has two readings here: [mro_rule] follows the C3 method resolution order
   (what inheritance means in Python; this is the rule Corr.law_codes evaluates), and
   [spec_rule] takes the direct bases in order, each with everything it inherited (what
   update_traits_class_dict does).  They coincide except in diamonds.

   Clause codes: 10 * kind + k with
     kind 0 Python, 1 Any, 2 Disallow, 3 ReadOnly, 4 Constant, 5 Event, 6 Typed,
          7 __x__ name, 8 no rule, 9 add_trait / remove_trait
     k = 1 outcome class (value / done / AttributeError / TraitError) is not the policy's
     k = 2 the value read is not the one the policy determines (stored value, default, constant)
     k = 3 what is stored for the name afterwards is not what the policy determines
           (ReadOnly: defined by exactly the first assignment; Constant/Disallow/Event: nothing
            changes; a rejected assignment changes nothing; an accepted one is what is read next)
     (Corr.law_tag re-labels a failure on a name whose two class-level rules differ as 99)

   Reading for names of the form __x__ without a declared trait: the code maps them on
   purpose to an untyped attribute for writes and to AttributeError for reads that find
   nothing; the law demands the write/delete to succeed and a stored value to be read back,
   and is silent on a read that finds nothing stored. *)
From Coq Require Import ZArith List Bool.
From TV Require Import Common.Harness C13.Model.
Import ListNotations.
Open Scope Z_scope.

Inductive rule := RPol (p : policy) | RDunder | RNone.

(* ----- what a class shows: declarations in resolution order, nothing removed, nothing sorted ----- *)
Definition vis_nth (vis : list (ctab * ptab)) (b : nat) : ctab * ptab := nth b vis ([], []).

Definition vis_class (vis : list (ctab * ptab)) (cd : classdef) : ctab * ptab :=
  let own := own_tables (c_decls cd) in
  let ct := fst own ++ flat_map (fun b => fst (vis_nth vis b)) (c_bases cd) in
  let pt := snd own ++ flat_map (fun b => snd (vis_nth vis b)) (c_bases cd) in
  (ct, if amem [] pt then pt else pt ++ [([], PPython)]).

Definition visible_from (vis : list (ctab * ptab)) (h : list classdef) : list (ctab * ptab) :=
  fold_left (fun t cd => t ++ [vis_class t cd]) h vis.
Definition visible (h : list classdef) : list (ctab * ptab) := visible_from [] h.

(* the wildcard with the longest matching prefix; the earliest declaration among equals *)
Fixpoint best (n : name) (l : ptab) : option (name * policy) :=
  match l with
  | [] => None
  | (q, p) :: r =>
      let b := best n r in
      if is_prefix q n then
        match b with
        | Some (q', _) => if Nat.ltb (length q) (length q') then b else Some (q, p)
        | None => Some (q, p)
        end
      else b
  end.

Definition class_rule (v : ctab * ptab) (n : name) : rule :=
  match assoc n (fst v) with
  | Some p => RPol p
  | None => if dunder n then RDunder
            else match best n (snd v) with Some (_, p) => RPol p | None => RNone end
  end.

(* the same with "inherited" read as the code does: the direct bases in order, each with all it
   inherited (depth first); differs from [mro_rule] below only in diamonds *)
Definition spec_rule (h : list classdef) (c : nat) : name -> rule :=
  class_rule (vis_nth (visible (roots ++ h)) c).

(* ----- "inherited" as Python means it: along the method resolution order (C3) ----- *)
Definition heads_ok (c : nat) (seqs : list (list nat)) : bool :=
  forallb (fun s => match s with [] => true | _ :: t => negb (existsb (Nat.eqb c) t) end) seqs.
Fixpoint find_cand (cands seqs : list (list nat)) : option nat :=
  match cands with
  | [] => None
  | [] :: r => find_cand r seqs
  | (c :: _) :: r => if heads_ok c seqs then Some c else find_cand r seqs
  end.
Definition drop_head (c : nat) (s : list nat) : list nat :=
  match s with x :: t => if Nat.eqb x c then t else s | [] => [] end.
Fixpoint c3_merge (fuel : nat) (seqs : list (list nat)) : list nat :=
  match fuel with
  | O => []
  | S f =>
      match find_cand seqs seqs with
      | Some c => c :: c3_merge f (map (drop_head c) seqs)
      | None => []          (* all sequences empty — or no linearisation: Python refuses such a class *)
      end
  end.
Definition mro_class (mros : list (list nat)) (k : nat) (cd : classdef) : list nat :=
  match c_bases cd with
  | [] => [k]
  | [b] => k :: nth b mros []                       (* C3 with one base: L[k] = k :: L[b] *)
  | bs => let seqs := map (fun b => nth b mros []) bs ++ [bs] in
          k :: c3_merge (S (length (concat seqs))) seqs
  end.
Definition mros_from (mros : list (list nat)) (h : list classdef) : list (list nat) :=
  fold_left (fun m cd => m ++ [mro_class m (length m) cd]) h mros.
Definition mros (h : list classdef) : list (list nat) := mros_from [] h.

(* declarations in MRO order; the class default "" -> Python closes the list if no class declares "" *)
Definition mro_vis (h : list classdef) (c : nat) : ctab * ptab :=
  let own := fun i => own_tables (c_decls (nth i h (mkClass [] []))) in
  let m := nth c (mros h) [] in
  let ct := flat_map (fun i => fst (own i)) m in
  let pt := flat_map (fun i => snd (own i)) m in
  (ct, if amem [] pt then pt else pt ++ [([], PPython)]).

(* THE class-level rule of the law: class number c of the hierarchy roots ++ h *)
Definition mro_rule (h : list classdef) (c : nat) : name -> rule :=
  class_rule (mro_vis (roots ++ h) c).

(* ----- what the governing policy demands ----- *)
Inductive want := WVal (v : Z) | WDone | WRaise (e : exn) | WFree.

Definition kind_code (g : rule) : Z :=
  match g with
  | RPol PPython => 0 | RPol (PAny _) => 1 | RPol PDisallow => 2 | RPol (PReadOnly _) => 3
  | RPol (PConstant _) => 4 | RPol (PEvent _) => 5 | RPol (PTyped _ _) | RPol (PMap _ _) | RPol PList => 6
  | RPol (PShadow _) => 1
  | RDunder => 7 | RNone => 8
  end.

Definition is_none (x : option Z) : bool := match x with None => true | Some _ => false end.
Definition defined (sb : option Z) : bool :=
  match sb with Some w => negb (Z.eqb w VUndef) | None => false end.

(* outcome demanded, and what must be stored for the name afterwards (None = no demand) *)
Definition demand (g : rule) (sb : option Z) (o : op) : want * option (option Z) :=
  match o with
  | OGet _ =>
      (match g with
       | RPol PPython => match sb with Some v => WVal v | None => WRaise AttributeError end
       | RPol (PAny d) | RPol (PTyped _ d) | RPol (PReadOnly d) =>
           match sb with Some v => WVal v | None => WVal d end      (* ReadOnly: d = Undefined until defined *)
       | RPol PList => match sb with Some v => WVal v | None => WVal VEmptyList end
       | RPol PDisallow | RPol (PEvent _) => WRaise AttributeError
       | RPol (PConstant c) => WVal c
       | RDunder => match sb with Some v => WVal v | None => WFree end
       | RNone | RPol (PMap _ _) | RPol (PShadow _) => WFree      (* mapped traits: [demand_m] *)
       end, None)
  | OSet _ v =>
      match g with
      | RPol PPython | RPol (PAny _) | RDunder => (WDone, Some (Some v))
      | RPol (PTyped k _) =>
          (* the trait's own validator decides; the Undefined marker is stored unvalidated (setattr_trait) *)
          if Z.eqb v VUndef then (WDone, Some (Some v))
          else match validate k v with
               | Some w => (WDone, Some (Some w))
               | None => (WRaise TraitError, Some sb)
               end
      | RPol PDisallow | RPol (PConstant _) => (WRaise TraitError, Some sb)
      | RPol PList =>                        (* typed List(Int): no atom of the universe is a list *)
          if Z.eqb v VUndef then (WDone, Some (Some v)) else (WRaise TraitError, Some sb)
      | RPol (PEvent None) => (WDone, Some sb)
      | RPol (PEvent (Some k)) =>            (* an event with a value type fires only for valid values *)
          match validate k v with Some _ => (WDone, Some sb) | None => (WRaise TraitError, Some sb) end
      | RPol (PReadOnly d) =>
          (* a given default (d <> Undefined) is the defining value: nothing may be assigned *)
          if negb (Z.eqb d VUndef) || defined sb then (WRaise TraitError, Some sb) else (WDone, Some (Some v))
      | RNone | RPol (PMap _ _) | RPol (PShadow _) => (WFree, None)
      end
  | ODel _ =>
      match g with
      | RPol PPython => match sb with Some _ => (WDone, Some None) | None => (WRaise AttributeError, Some None) end
      | RPol (PAny _) | RPol (PTyped _ _) | RPol PList | RDunder => (WDone, Some None)
      | RPol PDisallow | RPol (PConstant _) | RPol (PReadOnly _) => (WRaise TraitError, Some sb)
      | RPol (PEvent _) => (WDone, Some sb)
      | RNone | RPol (PMap _ _) | RPol (PShadow _) => (WFree, None)
      end
  | OAdd _ _ => (WDone, None)
  | ORem _ => (WFree, None)
  end.

Definition exn_eqb (a b : exn) : bool :=
  match a, b with
  | AttributeError, AttributeError | TraitError, TraitError | TypeError, TypeError
  | OtherError, OtherError => true
  | _, _ => false
  end.

Definition class_ok (w : want) (o : outcome) : bool :=
  match w, o with
  | WFree, _ => true
  | WVal _, Val _ => true
  | WDone, Done => true
  | WRaise e, Raise e' => exn_eqb e e'
  | _, _ => false
  end.
Definition value_ok (w : want) (o : outcome) : bool :=
  match w, o with WVal v, Val v' => Z.eqb v v' | _, _ => true end.
Definition stored_ok (w : option (option Z)) (st : option Z) : bool :=
  match w with None => true | Some x => opt_eqb Z.eqb x st end.

Section Law.
  Variable crule : name -> rule.          (* the class-level rule *)

  Record lstate := mkL { l_itd : list (name * policy); l_od : list (name * Z) }.

  Definition governing (ls : lstate) (n : name) : rule :=
    match assoc n (l_itd ls) with Some p => RPol p | None => crule n end.

  (* Mapped traits (Map): the name itself behaves like a typed trait whose validator is "key of
     the map"; its shadow name_ is untyped and, while nothing is stored for it, reads as the mapped
     value of the name.  These demands are made in the normal configuration only (the shadow name
     governed by the shadow trait that add_trait / the class body installed); when the user put
     another trait on the shadow name the assignment Map.post_setattr makes to it may fail and the
     law is silent (WFree). *)
  Definition demand_m (ls : lstate) (g : rule) (sb : option Z) (o : op) : want * option (option Z) :=
    let n := op_name o in
    match g with
    | RPol (PMap m d) =>
        match governing ls (n ++ [US]), o with
        | RPol (PShadow _), OGet _ => (match sb with Some v => WVal v | None => WVal d end, None)
        | RPol (PShadow _), OSet _ v =>
            if Z.eqb v VUndef then (WFree, None)
            else match zassoc v m with
                 | Some _ => (WDone, Some (Some v))
                 | None => (WRaise TraitError, Some sb)
                 end
        | _, ODel _ => (WDone, Some None)
        | _, _ => (WFree, None)
        end
    | RPol (PShadow m) =>
        match o with
        | OGet _ =>
            (match sb with
             | Some v => WVal v
             | None =>
                 let b := removelast n in
                 match governing ls b with
                 | RPol (PMap _ d) =>
                     match zassoc (match assoc b (l_od ls) with Some x => x | None => d end) m with
                     | Some w => WVal w
                     | None => WFree
                     end
                 | _ => WFree
                 end
             end, None)
        | OSet _ v => (WDone, Some (Some v))
        | ODel _ => (WDone, Some None)
        | _ => (WFree, None)
        end
    | _ => demand g sb o
    end.

  (* the trait remove_trait(name) finds: the instance trait, else a declared class trait *)
  Definition found_trait (ls : lstate) (n : name) : option policy :=
    match assoc n (l_itd ls) with
    | Some p => Some p
    | None => match crule n with RPol p => Some p | _ => None end
    end.

  Definition law_step (ls : lstate) (o : op) (ob : obs) : list Z :=
    let n := op_name o in
    let g := governing ls n in
    let sb := assoc n (l_od ls) in
    match o with
    | ORem _ =>   (* returns whether an instance trait was removed; nothing of the removed instance
                     trait stays behind: neither its value nor (mapped trait) its shadow value *)
        chk 91 (match o_out ob with Val _ => true | _ => false end)
        ++ chk 92 (value_ok (WVal (if amem n (l_itd ls) then 1 else 0)) (o_out ob))
        ++ chk 93 (match assoc n (l_itd ls) with
                   | Some p => is_none (o_stored ob)
                               && match mapped_of p with Some _ => is_none (o_shadow ob) | None => true end
                   | None => true
                   end)
    | OAdd _ _ => chk 91 (class_ok WDone (o_out ob))
    | _ =>
        let '(w, ws) := demand_m ls g sb o in
        let k := 10 * kind_code g in
        chk (k + 1) (class_ok w (o_out ob))
        ++ chk (k + 2) (value_ok w (o_out ob))
        ++ chk (k + 3) (stored_ok ws (o_stored ob))
    end.

  (* the instance traits follow the successful add_trait / remove_trait calls; what is
     stored for a name is taken from the observation *)
  Definition resync (m : name) (v : option Z) (od : list (name * Z)) : list (name * Z) :=
    match v with Some x => aset m x od | None => adel m od end.

  (* a trait comes and goes together with its sub-traits (name_ of a Map, name_items of a List) *)
  Definition law_next (ls : lstate) (o : op) (ob : obs) : lstate :=
    let n := op_name o in
    let itd := match o, o_out ob with
               | OAdd _ p, Done =>
                   aset n p (fold_left (fun t e => aset (fst e) (snd e) t) (subs n p) (l_itd ls))
               | ORem _, Val _ =>
                   adel n (match found_trait ls n with
                           | Some p => fold_left (fun t k => adel k t) (map fst (subs n p)) (l_itd ls)
                           | None => l_itd ls
                           end)
               | _, _ => l_itd ls
               end in
    let od1 := resync n (o_stored ob) (l_od ls) in
    let od2 := resync (n ++ [US]) (o_shadow ob) od1 in
    let od3 := if ends_us n then resync (removelast n) (o_base ob) od2 else od2 in
    (* removing a List trait removes its name_items trait together with whatever was stored there
       (not part of the observation of remove_trait(name)) *)
    mkL itd (match o, o_out ob, found_trait ls n with
             | ORem _, Val _, Some PList => adel (n ++ items_suffix) od3
             | _, _, _ => od3
             end).

  Fixpoint law_hist (i : Z) (ls : lstate) (h : list (op * obs)) : list Z :=
    match h with
    | [] => []
    | (o, ob) :: r => map (fun c => 100 * i + c) (law_step ls o ob) ++ law_hist (i + 1) (law_next ls o ob) r
    end.
End Law.

Definition l_init : lstate := mkL [] [].

(* two instances of one class: each is judged on its own (instance traits and stored values
   of one never count for the other); [w] = true selects the second instance *)
Fixpoint law_hist2 (crule : name -> rule) (i : Z) (la lb : lstate) (h : list (bool * op * obs)) : list Z :=
  match h with
  | [] => []
  | (w, o, ob) :: r =>
      let me := if w then lb else la in
      map (fun c => 100 * i + c) (law_step crule me o ob)
      ++ law_hist2 crule (i + 1) (if w then la else law_next crule me o ob) (if w then law_next crule me o ob else lb) r
  end.
