(* C13 — the law on the life of a List instance trait: add_trait(n, List(Int)) installs the trait
   and the event trait of n_items; any history of reads, writes and deletes of n and n_items;
   remove_trait(n). *)
From Coq Require Import ZArith List Bool Lia.
From TV Require Import Common.Harness C13.Model C13.Law C13.Corr C13.Proofs C13.MapProofs C13.MapInterleave.
Import ListNotations.
Open Scope Z_scope.

(* an access that leaves the instance traits alone and changes __dict__ at its own name only keeps
   the law's bookkeeping in agreement (any traits) *)
Lemma access_agree : forall (crule : name -> rule) pt s ls o,
  Agree s ls -> is_access o = true ->
  (forall a, name_eqb (op_name o) a = false -> assoc a (s_od (fst (step pt s o))) = assoc a (s_od s)) ->
  Agree (fst (step pt s o)) (law_next crule ls o (snd (step pt s o))).
Proof.
  intros crule pt s ls o [Ai Ao] Ha Fr.
  pose proof (step_itd_access pt s o Ha) as Hi.
  destruct (step_out pt s o) as (s2 & x & E). rewrite E in *. unfold out in Hi, Fr. cbn [fst snd] in Hi, Fr.
  unfold Agree, law_next, out. cbn [l_itd l_od fst snd o_out o_stored o_shadow o_base].
  split.
  - rewrite Hi. destruct o; try discriminate Ha; exact Ai.
  - intro a.
    pose proof (agree_od_k (l_od ls) (s_od s) (s_od s2) (op_name o) Ao Fr a) as G. cbv zeta in G.
    destruct o; try discriminate Ha; exact G.
Qed.

Section LL.
  Variable crule : name -> rule.
  Variable pt : ptab.
  Variable n : name.
  Notation ni := (n ++ items_suffix).

  (* the List trait and its items event are installed; nothing is stored under n_items *)
  Definition LPair (s : state) : Prop :=
    assoc n (s_itd s) = Some PList /\ assoc ni (s_itd s) = Some (PEvent (Some VNoneOnly)) /\
    assoc ni (s_od s) = None.
  Definition lpair_op (o : op) : bool :=
    is_access o && (name_eqb (op_name o) n || name_eqb (op_name o) ni).

  Lemma nni : name_eqb n ni = false /\ name_eqb ni n = false.
  Proof. apply name_app_neq2. discriminate. Qed.

  Lemma gov_l : forall s ls, LPair s -> Agree s ls -> governing crule ls n = RPol PList.
  Proof. intros s ls [H _] [A _]. unfold governing. rewrite A, H. reflexivity. Qed.
  Lemma gov_li : forall s ls, LPair s -> Agree s ls -> governing crule ls ni = RPol (PEvent (Some VNoneOnly)).
  Proof. intros s ls (_ & H & _) [A _]. unfold governing. rewrite A, H. reflexivity. Qed.

  Definition LGood (s : state) (ls : lstate) (o : op) : Prop :=
    law_step crule ls o (snd (step pt s o)) = [] /\
    (forall a, name_eqb (op_name o) a = false -> assoc a (s_od (fst (step pt s o))) = assoc a (s_od s)) /\
    (op_name o = ni -> assoc ni (s_od (fst (step pt s o))) = None).

  Lemma l_get_n : forall s ls, LPair s -> Agree s ls -> LGood s ls (OGet n).
  Proof.
    intros s ls HP HA. pose proof HP as (P1 & P2 & P3). pose proof HA as [Ai Ao]. destruct nni as [N1 N2].
    unfold LGood. cbn [op_name].
    assert (LS : forall ob, law_step crule ls (OGet n) ob =
                 let '(w, ws) := demand (RPol PList) (assoc n (s_od s)) (OGet n) in
                 chk (10 * 6 + 1) (class_ok w (o_out ob)) ++ chk (10 * 6 + 2) (value_ok w (o_out ob))
                 ++ chk (10 * 6 + 3) (stored_ok ws (o_stored ob))).
    { intro ob. unfold law_step. cbn [op_name]. rewrite (gov_l s ls HP HA), Ao. reflexivity. }
    simpl step. unfold get_with. destruct (assoc n (s_od s)) as [v|] eqn:Eo.
    - split; [|split].
      + rewrite LS. cbn. rewrite Z.eqb_refl. reflexivity.
      + intros a _. reflexivity.
      + intro E. apply (f_equal (@length Z)) in E. rewrite app_length in E. simpl in E. lia.
    - rewrite P1. split; [|split].
      + rewrite LS. cbn. reflexivity.
      + intros a Ha. cbn. rewrite assoc_aset, Ha. reflexivity.
      + intro E. apply (f_equal (@length Z)) in E. rewrite app_length in E. simpl in E. lia.
  Qed.

  Lemma n_not_ni : n = ni -> False.
  Proof. intro E. apply (f_equal (@length Z)) in E. rewrite app_length in E. simpl in E. lia. Qed.

  Lemma LS_l : forall s ls o ob, LPair s -> Agree s ls -> is_access o = true -> op_name o = n ->
    law_step crule ls o ob =
    let '(w, ws) := demand (RPol PList) (assoc n (s_od s)) o in
    chk (10 * 6 + 1) (class_ok w (o_out ob)) ++ chk (10 * 6 + 2) (value_ok w (o_out ob))
    ++ chk (10 * 6 + 3) (stored_ok ws (o_stored ob)).
  Proof.
    intros s ls o ob HP HA Ha Hn. pose proof HA as [Ai Ao]. unfold law_step. rewrite Hn, (gov_l s ls HP HA), Ao.
    destruct o; try discriminate Ha; reflexivity.
  Qed.
  Lemma LS_li : forall s ls o ob, LPair s -> Agree s ls -> is_access o = true -> op_name o = ni ->
    law_step crule ls o ob =
    let '(w, ws) := demand (RPol (PEvent (Some VNoneOnly))) None o in
    chk (10 * 5 + 1) (class_ok w (o_out ob)) ++ chk (10 * 5 + 2) (value_ok w (o_out ob))
    ++ chk (10 * 5 + 3) (stored_ok ws (o_stored ob)).
  Proof.
    intros s ls o ob HP HA Ha Hn. pose proof HA as [Ai Ao]. pose proof HP as (_ & _ & P3).
    unfold law_step. rewrite Hn, (gov_li s ls HP HA), Ao, P3.
    destruct o; try discriminate Ha; reflexivity.
  Qed.

  Lemma l_set_n : forall s ls v, LPair s -> Agree s ls -> LGood s ls (OSet n v).
  Proof.
    intros s ls v HP HA. pose proof HP as (P1 & P2 & P3). unfold LGood. cbn [op_name].
    simpl step. unfold lookup_set. rewrite P1. cbn [setattr_m setattr].
    destruct (Z.eqb v VUndef) eqn:Ev.
    - split; [|split].
      + rewrite (LS_l s ls (OSet n v) _ HP HA eq_refl eq_refl). cbn. rewrite Ev. cbn.
        rewrite assoc_aset, name_eqb_refl. cbn. rewrite Z.eqb_refl. reflexivity.
      + intros a Ha. cbn. rewrite assoc_aset, Ha. reflexivity.
      + intro E. destruct (n_not_ni E).
    - split; [|split].
      + rewrite (LS_l s ls (OSet n v) _ HP HA eq_refl eq_refl). cbn. rewrite Ev. cbn.
        destruct (assoc n (s_od s)); cbn; rewrite ?Z.eqb_refl; reflexivity.
      + intros a _. reflexivity.
      + intro E. destruct (n_not_ni E).
  Qed.

  Lemma l_del_n : forall s ls, LPair s -> Agree s ls -> LGood s ls (ODel n).
  Proof.
    intros s ls HP HA. pose proof HP as (P1 & P2 & P3). unfold LGood. cbn [op_name].
    simpl step. unfold lookup_set. rewrite P1. cbn [delattr].
    split; [|split].
    - rewrite (LS_l s ls (ODel n) _ HP HA eq_refl eq_refl). cbn. rewrite assoc_adel, name_eqb_refl. reflexivity.
    - intros a Ha. cbn. rewrite assoc_adel, Ha. reflexivity.
    - intro E. destruct (n_not_ni E).
  Qed.

  Lemma l_get_i : forall s ls, LPair s -> Agree s ls -> LGood s ls (OGet ni).
  Proof.
    intros s ls HP HA. pose proof HP as (P1 & P2 & P3). unfold LGood. cbn [op_name].
    simpl step. unfold get_with. rewrite P3, P2. cbn [getattr_m getattr0 getattr].
    split; [|split].
    - rewrite (LS_li s ls (OGet ni) _ HP HA eq_refl eq_refl). cbn. rewrite ?P3. reflexivity.
    - intros a _. reflexivity.
    - intros _. exact P3.
  Qed.

  Lemma l_set_i : forall s ls v, LPair s -> Agree s ls -> LGood s ls (OSet ni v).
  Proof.
    intros s ls v HP HA. pose proof HP as (P1 & P2 & P3). unfold LGood. cbn [op_name].
    simpl step. unfold lookup_set. rewrite P2. cbn [setattr_m setattr].
    destruct (validate VNoneOnly v) eqn:Ev.
    - split; [|split].
      + rewrite (LS_li s ls (OSet ni v) _ HP HA eq_refl eq_refl). cbn [demand]. rewrite Ev. cbn. rewrite ?P3. reflexivity.
      + intros a _. reflexivity.
      + intros _. exact P3.
    - split; [|split].
      + rewrite (LS_li s ls (OSet ni v) _ HP HA eq_refl eq_refl). cbn [demand]. rewrite Ev. cbn. rewrite ?P3. reflexivity.
      + intros a _. reflexivity.
      + intros _. exact P3.
  Qed.

  Lemma l_del_i : forall s ls, LPair s -> Agree s ls -> LGood s ls (ODel ni).
  Proof.
    intros s ls HP HA. pose proof HP as (P1 & P2 & P3). unfold LGood. cbn [op_name].
    simpl step. unfold lookup_set. rewrite P2. cbn [delattr].
    split; [|split].
    - rewrite (LS_li s ls (ODel ni) _ HP HA eq_refl eq_refl). cbn. rewrite ?P3. reflexivity.
    - intros a _. reflexivity.
    - intros _. exact P3.
  Qed.

  (* every get / set / del of n or n_items during the life *)
  Lemma lpair_step : forall s ls o, LPair s -> Agree s ls -> lpair_op o = true ->
    law_step crule ls o (snd (step pt s o)) = [] /\ LPair (fst (step pt s o)) /\ Agree (fst (step pt s o)) (law_next crule ls o (snd (step pt s o))).
  Proof.
    intros s ls o HP HA Ho. unfold lpair_op in Ho. apply andb_true_iff in Ho. destruct Ho as [Ha Hn].
    assert (G : LGood s ls o).
    { apply orb_true_iff in Hn. destruct Hn as [Hn|Hn]; apply name_eqb_eq in Hn;
        destruct o as [k|k v|k|k q|k]; try discriminate Ha; cbn [op_name] in Hn; subst k.
      - apply l_get_n; auto.
      - apply l_set_n; auto.
      - apply l_del_n; auto.
      - apply l_get_i; auto.
      - apply l_set_i; auto.
      - apply l_del_i; auto. }
    destruct G as (G1 & G2 & G3). split; [exact G1|]. split.
    - pose proof HP as (P1 & P2 & P3). unfold LPair. rewrite (step_itd_access pt s o Ha).
      split; [exact P1|]. split; [exact P2|].
      destruct (name_eqb (op_name o) ni) eqn:E.
      + apply name_eqb_eq in E. apply G3. exact E.
      + rewrite (G2 ni E). exact P3.
    - apply access_agree; assumption.
  Qed.

  Lemma lpair_histories : forall ops s ls i, LPair s -> Agree s ls -> forallb lpair_op ops = true ->
    law_hist crule i ls (run pt s ops) = [].
  Proof.
    induction ops as [|o r IH]; intros s ls i HP HA Hf; simpl; auto.
    simpl in Hf. apply andb_true_iff in Hf. destruct Hf as [Ho Hr].
    destruct (lpair_step s ls o HP HA Ho) as (A & B & C).
    destruct (step pt s o) as [s' ob]. simpl in *. rewrite A. simpl. apply IH; auto.
  Qed.

  (* add_trait(n, List(Int)) when nothing is stored under n_items *)
  Lemma l_add : forall s ls, Agree s ls -> assoc ni (s_od s) = None ->
    law_step crule ls (OAdd n PList) (snd (step pt s (OAdd n PList))) = [] /\
    LPair (fst (step pt s (OAdd n PList))) /\
    Agree (fst (step pt s (OAdd n PList))) (law_next crule ls (OAdd n PList) (snd (step pt s (OAdd n PList)))).
  Proof.
    intros s ls [Ai Ao] Hni. destruct (add_list_installs pt s n) as (A & B & C).
    split; [reflexivity|]. split; [split; [exact A|split; [exact B|rewrite C; exact Hni]]|].
    unfold Agree, law_next. simpl step. unfold out.
    cbn [fst snd o_out o_stored o_shadow o_base l_itd l_od op_name s_itd s_od].
    split.
    - simpl. rewrite Ai. reflexivity.
    - intro a. apply (agree_od_k (l_od ls) (s_od s) (s_od s) n Ao (fun b _ => eq_refl) a).
  Qed.

  (* remove_trait(n): returns True, the trait, its items event and the value are gone *)
  Lemma l_rem : forall s ls, LPair s -> Agree s ls ->
    law_step crule ls (ORem n) (snd (step pt s (ORem n))) = [] /\
    Agree (fst (step pt s (ORem n))) (law_next crule ls (ORem n) (snd (step pt s (ORem n)))).
  Proof.
    intros s ls HP HA. pose proof HP as (P1 & P2 & P3). pose proof HA as [Ai Ao]. destruct nni as [N1 N2].
    assert (E : step pt s (ORem n) =
                out (mkState (s_ctd s) (adel n (adel ni (s_itd s))) (adel n (adel ni (s_od s)))) n (Val 1)).
    { assert (A1 : assoc n (adel ni (s_itd s)) = Some PList) by (rewrite assoc_adel, N2; exact P1).
      unfold step. rewrite P1. cbn [subs map fst fold_left].
      assert (R1 : rem1 s ni = mkState (s_ctd s) (adel ni (s_itd s)) (adel ni (s_od s))) by (unfold rem1; rewrite P2; reflexivity).
      rewrite R1. unfold rem1, amem. cbn [s_itd s_ctd s_od]. rewrite A1. reflexivity. }
    rewrite E. unfold out. cbn [fst snd].
    split.
    - unfold law_step. cbn [op_name o_out o_stored o_shadow s_od]. unfold amem. rewrite Ai, P1. cbn.
      rewrite assoc_adel, name_eqb_refl. reflexivity.
    - unfold Agree, law_next. cbn [op_name o_out o_stored o_shadow o_base l_itd l_od s_itd s_od].
      unfold found_trait. rewrite Ai, P1. cbn [subs map fst fold_left]. split; [reflexivity|].
      intro a. rewrite assoc_adel.
      assert (Fr : forall b, name_eqb n b = false -> assoc b (adel n (adel ni (s_od s))) = assoc b (s_od s)).
      { intros b Hb. rewrite !assoc_adel, Hb. destruct (name_eqb ni b) eqn:Eb; [|reflexivity].
        apply name_eqb_eq in Eb. subst b. symmetry. exact P3. }
      pose proof (agree_od_k (l_od ls) (s_od s) (adel n (adel ni (s_od s))) n Ao Fr a) as G. cbv zeta in G.
      destruct (name_eqb ni a) eqn:Ea.
      + apply name_eqb_eq in Ea. subst a. rewrite !assoc_adel, N1, name_eqb_refl. reflexivity.
      + exact G.
  Qed.

  Lemma lpair_histories_rem : forall ops s ls i, LPair s -> Agree s ls -> forallb lpair_op ops = true ->
    law_hist crule i ls (run pt s (ops ++ [ORem n])) = [].
  Proof.
    induction ops as [|o r IH]; intros s ls i HP HA Hf.
    - destruct (l_rem s ls HP HA) as [A _]. cbn [app run].
      destruct (step pt s (ORem n)) as [s' ob]. cbn [law_hist snd fst run] in *. rewrite A. reflexivity.
    - simpl in Hf. apply andb_true_iff in Hf. destruct Hf as [Ho Hr].
      destruct (lpair_step s ls o HP HA Ho) as (A & B & C). simpl.
      destruct (step pt s o) as [s' ob]. simpl in *. rewrite A. simpl. apply IH; auto.
  Qed.

  (* the whole life of a List instance trait, from any state whose bookkeeping agrees and that has
     nothing stored under n_items (a stale value there is finding 1 again) *)
  Lemma list_life : forall ops s ls i, Agree s ls -> assoc ni (s_od s) = None -> forallb lpair_op ops = true ->
    law_hist crule i ls (run pt s (OAdd n PList :: ops)) = [] /\
    law_hist crule i ls (run pt s (OAdd n PList :: ops ++ [ORem n])) = [].
  Proof.
    intros ops s ls i HA Hni Hf. destruct (l_add s ls HA Hni) as (A & B & C).
    cbn [run app]. destruct (step pt s (OAdd n PList)) as [s' ob].
    cbn [law_hist snd fst] in *. rewrite A. cbn [map app].
    split; [apply lpair_histories|apply lpair_histories_rem]; auto.
  Qed.
End LL.

(* a fresh object of any class of any hierarchy, either reading of "inherited" *)
Lemma list_life_fresh : forall (crule : name -> rule) ct pt n ops i,
  forallb (lpair_op n) ops = true ->
  law_hist crule i l_init (run pt (init_state ct) (OAdd n PList :: ops)) = [] /\
  law_hist crule i l_init (run pt (init_state ct) (OAdd n PList :: ops ++ [ORem n])) = [].
Proof. intros. apply list_life; auto using Agree_init. Qed.

(* after any clean history on plain traits *)
Lemma plain_then_list_life : forall ct0 pt pre n ops i,
  plain_tab ct0 = true -> plain_tab pt = true ->
  clean_run pt (init_state ct0) pre = true ->
  amem (n ++ items_suffix) (s_od (final_state pt (init_state ct0) pre)) = false ->
  forallb (lpair_op n) ops = true ->
  law_hist (model_rule ct0 pt) i l_init (run pt (init_state ct0) (pre ++ OAdd n PList :: ops)) = [] /\
  law_hist (model_rule ct0 pt) i l_init (run pt (init_state ct0) (pre ++ OAdd n PList :: ops ++ [ORem n])) = [].
Proof.
  intros ct0 pt pre n ops i P1 P2 Hc Hni Hf.
  pose proof (Inv_init ct0 pt P1 P2) as HI0.
  pose proof (run_law_inv ct0 pt pre _ _ i HI0 Hc) as Hpre.
  pose proof (run_Inv_final ct0 pt pre _ _ HI0 Hc) as HIf.
  pose proof (Inv_Agree _ _ _ _ HIf) as HA.
  assert (Hn : assoc (n ++ items_suffix) (s_od (final_state pt (init_state ct0) pre)) = None)
    by (unfold amem in Hni; destruct (assoc _ _); [discriminate|reflexivity]).
  destruct (list_life (model_rule ct0 pt) pt n ops _ _
              (i + Z.of_nat (length (run pt (init_state ct0) pre))) HA Hn Hf) as [A B].
  rewrite !run_app, !law_hist_app, Hpre. split; [exact A|exact B].
Qed.

Lemma plain_then_list_life_spec : forall h c pre n ops i,
  plain_class h c = true ->
  let t := class_tables h c in
  clean_run (snd t) (init_state (fst t)) pre = true ->
  amem (n ++ items_suffix) (s_od (final_state (snd t) (init_state (fst t)) pre)) = false ->
  forallb (lpair_op n) ops = true ->
  law_hist (spec_rule h c) i l_init (run (snd t) (init_state (fst t)) (pre ++ OAdd n PList :: ops)) = [] /\
  law_hist (spec_rule h c) i l_init (run (snd t) (init_state (fst t)) (pre ++ OAdd n PList :: ops ++ [ORem n])) = [].
Proof.
  intros h c pre n ops i Hp t Hc Hni Hf. apply andb_true_iff in Hp. destruct Hp as [P1 P2].
  rewrite <- !(law_hist_ext _ _ (class_tables_rule h c)).
  apply (plain_then_list_life (fst t) (snd t) pre n ops i); auto.
Qed.

(* the hypothesis on n_items is needed: a value stored there before add_trait is read back through
   the installed event trait (finding 1 again) *)
Lemma stale_items_value_refutes : exists (crule : name -> rule) ct pt n ops,
  forallb (lpair_op n) ops = true /\
  law_hist crule 0 l_init (run pt (init_state ct) (OSet (n ++ items_suffix) 5 :: OAdd n PList :: ops)) <> [].
Proof.
  exists (model_rule (fst (class_tables [] 0)) (snd (class_tables [] 0))),
         (fst (class_tables [] 0)), (snd (class_tables [] 0)), [97; 98], [OGet ([97; 98] ++ items_suffix)].
  vm_compute. split; [reflexivity|discriminate].
Qed.
