(* C13 — the global class-operation theorem for single-inheritance hierarchies (the shape the
   generator produces): the reachability hypotheses hold by themselves, the remaining hypothesis
   is one boolean over the run. *)
From Coq Require Import ZArith List Bool Lia Sorted.
From TV Require Import Common.Harness C13.Model C13.Law C13.Corr C13.CorrT C13.Proofs C13.MapProofs C13.ClassOpProofs C13.ClassOpInd C13.ClassOpSub C13.ClassOpDag C13.ClassOpSubRun C13.ClassOpGlobal.
Import ListNotations.
Open Scope Z_scope.

(* every class has at most one base, declared before it *)
Definition chain (hh : list classdef) : Prop :=
  forall j, (j < length hh)%nat ->
    c_bases (nth j hh dcls) = [] \/ exists b, c_bases (nth j hh dcls) = [b] /\ (b < j)%nat.
Definition chainb (hh : list classdef) : bool :=
  forallb (fun j => match c_bases (nth j hh dcls) with [] => true | [b] => Nat.ltb b j | _ => false end)
          (seq 0 (length hh)).
Lemma chainb_chain : forall hh, chainb hh = true -> chain hh.
Proof.
  intros hh H j Hj. unfold chainb in H. rewrite forallb_forall in H.
  specialize (H j ltac:(apply in_seq; lia)). destruct (c_bases (nth j hh dcls)) as [|b [|b' r]]; auto; [|discriminate].
  right. exists b. split; [reflexivity|]. apply Nat.ltb_lt. exact H.
Qed.

Lemma Reach_ge : forall hh k n j, Reach hh k n j -> (k <= j)%nat.
Proof. intros hh k n j H. inversion H; lia. Qed.

Lemma chain_classes : forall hh0 H k n,
  chain hh0 -> length H = length hh0 ->
  (forall i, c_bases (nth i H dcls) = c_bases (nth i hh0 dcls)) ->
  forall c, (c < length hh0)%nat -> forall f, (c < f)%nat ->
    (is_desc hh0 f c k = true -> Reach H k n c) /\
    (is_desc hh0 f c k = false -> c <> k -> Unaff H k c).
Proof.
  intros hh0 H k n Hch HL Hb c. induction c as [c IH] using lt_wf_ind. intros Hc f Hf.
  destruct f as [|f']; [lia|]. cbn [is_desc]. fold dcls.
  destruct (Hch c Hc) as [E|[b [E Hbc]]]; rewrite E; cbn [existsb].
  - split; [discriminate|]. intros _ Hne.
    apply U_S; [exact Hne|lia|]. intros b Hin. rewrite Hb, E in Hin. contradiction.
  - rewrite orb_false_r.
    assert (Hbl : (b < length hh0)%nat) by lia.
    destruct (IH b Hbc Hbl f' ltac:(lia)) as [I1 I2].
    split.
    + intro Hd. apply orb_true_iff in Hd.
      assert (HRb : Reach H k n b).
      { destruct Hd as [Hd|Hd]; [apply Nat.eqb_eq in Hd; subst b; apply R0|apply I1; exact Hd]. }
      pose proof (Reach_ge _ _ _ _ HRb) as Hge.
      apply RS; [lia|lia| | |].
      * intros b' Hin. rewrite Hb, E in Hin. destruct Hin as [<-|[]]. split; [exact Hbc|left; exact HRb].
      * exists b. split; [rewrite Hb, E; left; reflexivity|exact HRb].
      * right. right. exists b. rewrite Hb, E. reflexivity.
    + intros Hd Hne. apply orb_false_iff in Hd. destruct Hd as [Hd1 Hd2]. apply Nat.eqb_neq in Hd1.
      apply U_S; [exact Hne|lia|]. intros b' Hin. rewrite Hb, E in Hin. destruct Hin as [<-|[]].
      split; [exact Hbc|]. apply I2; assumption.
Qed.

(* the boolean hypothesis on one step *)
Definition tcleanb (hh0 : list classdef) (objs : list nat) (T : list (ctab * ptab)) (insts : list inst)
                   (H : list classdef) (t : top) : bool :=
  match t with
  | TObj i o => Nat.ltb i (length objs) && clean_step (ostate T (nth i objs O) (nth i insts ([], []))) o
  | TClass k n p =>
      Nat.ltb k (length T) && plainp p &&
      match add_class1 false (tabs_nth T k) n p with
      | None => true
      | Some _ =>
          forallb (fun c => negb (affected hh0 k c) ||
                            sub_clean (fst (vis_nth (visible H) c)) (ghost (tabs_nth T c)) (snd (tabs_nth T c)) n p)
                  (seq 0 (length T)) &&
          forallb (fun i => negb (affected hh0 k (nth i objs O)) ||
                            sub_clean (fst (vis_nth (visible H) (nth i objs O)))
                                      (ostate T (nth i objs O) (nth i insts ([], []))) (snd (tabs_nth T (nth i objs O))) n p)
                  (seq 0 (length objs))
      end
  end.

Fixpoint tokb (hh0 : list classdef) (objs : list nat) (st : tstate) (H : list classdef) (ts : list top) : bool :=
  match ts with
  | [] => true
  | t :: r =>
      tcleanb hh0 objs (fst st) (snd st) H t &&
      tokb hh0 objs (fst (step_t hh0 objs st t)) (next_Ht H t (snd (step_t hh0 objs st t))) r
  end.

Lemma tcleanb_tclean : forall hh0 objs T insts lss H C0 t,
  chain hh0 -> GI hh0 objs T insts lss H C0 ->
  tcleanb hh0 objs T insts H t = true -> tclean hh0 objs T insts H t.
Proof.
  intros hh0 objs T insts lss H C0 t Hch G Hc. destruct t as [i o|k n p]; cbn [tcleanb tclean] in *.
  - apply andb_true_iff in Hc. destruct Hc as [H1 H2]. apply Nat.ltb_lt in H1. auto.
  - apply andb_true_iff in Hc. destruct Hc as [Hc H3]. apply andb_true_iff in Hc. destruct Hc as [H1 H2].
    apply Nat.ltb_lt in H1. split; [exact H1|]. split; [exact H2|].
    destruct (add_class1 false (tabs_nth T k) n p); [|exact I].
    apply andb_true_iff in H3. destruct H3 as [F1 F2]. rewrite forallb_forall in F1, F2.
    pose proof (g_lenT _ _ _ _ _ _ _ G) as LT. pose proof (g_lenH _ _ _ _ _ _ _ G) as LH.
    split; [|split].
    + intros c Hc Hne. rewrite LT in Hc.
      destruct (chain_classes hh0 H k n Hch LH (g_bases _ _ _ _ _ _ _ G) c Hc (length hh0) Hc) as [A B].
      split; [exact A|intro Hd; apply B; assumption].
    + intros c Hc Ha. specialize (F1 c ltac:(apply in_seq; lia)). rewrite Ha in F1. exact F1.
    + intros i Hi Ha. specialize (F2 i ltac:(apply in_seq; lia)). rewrite Ha in F2. exact F2.
Qed.

Lemma tokb_tok : forall hh0 objs ts T insts lss H C0,
  chain hh0 -> GI hh0 objs T insts lss H C0 -> tokb hh0 objs (T, insts) H ts = true ->
  tok hh0 objs (T, insts) H ts.
Proof.
  intros hh0 objs ts T insts lss H C0 Hch. revert T insts lss H C0.
  induction ts as [|t r IH]; intros T insts lss H C0 G Hok; [exact I|].
  cbn [tokb fst snd] in Hok. apply andb_true_iff in Hok. destruct Hok as [Hc Hr].
  pose proof (tcleanb_tclean hh0 objs T insts lss H C0 t Hch G Hc) as Hcl.
  cbn [tok fst snd]. split; [exact Hcl|].
  destruct t as [j o|k n p].
  - destruct Hcl as [Hj Hcs].
    destruct (gi_obj_step hh0 objs T insts lss H C0 j o G Hj Hcs) as [_ G'].
    destruct (step_t hh0 objs (T, insts) (TObj j o)) as [[T' insts'] ob] eqn:E. cbn [fst snd next_Ht] in *.
    apply (IH T' insts' _ H C0 G' Hr).
  - destruct (gi_cls_step hh0 objs T insts lss H C0 k n p G Hcl) as [C0' G'].
    destruct (step_t hh0 objs (T, insts) (TClass k n p)) as [[T' insts'] ob] eqn:E. cbn [fst snd next_Ht] in *.
    apply (IH T' insts' lss _ C0' G' Hr).
Qed.

Lemma chain_run_law : forall hh0 objs ts T insts lss H C0 i,
  chain hh0 -> GI hh0 objs T insts lss H C0 -> tokb hh0 objs (T, insts) H ts = true ->
  law_hist_ta objs H i lss (run_t hh0 objs (T, insts) ts) = [].
Proof.
  intros hh0 objs ts T insts lss H C0 i Hch G Hok.
  apply (global_run_law hh0 objs ts T insts lss H C0 i G).
  apply (tokb_tok hh0 objs ts T insts lss H C0 Hch G Hok).
Qed.

Lemma GI_init : forall hh objs,
  (forall c, (c < length hh)%nat -> plain_t (tabs_nth (tables hh) c) = true) ->
  (forall j, (j < length objs)%nat -> (nth j objs O < length hh)%nat) ->
  GI hh objs (tables hh) (map (fun _ => ([], [])) objs) (map (fun _ => l_init) objs) hh
     (fun c => fst (tabs_nth (tables hh) c)).
Proof.
  intros hh objs HP Ho.
  destruct (agree_all hh) as [_ HA].
  assert (II : forall c, (c < length hh)%nat ->
            Inv (fst (tabs_nth (tables hh) c)) (snd (tabs_nth (tables hh) c)) (init_state (fst (tabs_nth (tables hh) c))) l_init).
  { intros c Hc. pose proof (HP c Hc) as P. unfold plain_t in P. apply andb_true_iff in P. destruct P as [P1 P2].
    apply Inv_init; auto. }
  constructor.
  - apply tables_length.
  - reflexivity.
  - reflexivity.
  - apply map_length.
  - apply map_length.
  - intros j Hj. rewrite tables_length. apply Ho. exact Hj.
  - intros c Hc. rewrite tables_length in Hc. split.
    + cbn [snd]. rewrite <- surjective_pairing. apply (HA c).
    + apply (II c Hc).
  - intros j Hj. rewrite nth_const_map.
    replace (nth j (map (fun _ : nat => l_init) objs) l_init) with l_init by (symmetry; apply nth_const_map).
    apply (II _ (Ho j Hj)).
Qed.

(* every single-inheritance hierarchy with plain tables, any number of fresh objects of any of its
   classes, any history of object operations and add_class_trait calls on any classes: one boolean
   hypothesis over the run *)
Lemma chain_law : forall hh objs ts i,
  chainb hh = true ->
  forallb plain_t (tables hh) = true ->
  forallb (fun c => Nat.ltb c (length hh)) objs = true ->
  tokb hh objs (tables hh, map (fun _ => ([], [])) objs) hh ts = true ->
  law_hist_ta objs hh i (map (fun _ => l_init) objs)
              (run_t hh objs (tables hh, map (fun _ => ([], [])) objs) ts) = [].
Proof.
  intros hh objs ts i Hch HP Ho Hok.
  apply (chain_run_law hh objs ts _ _ _ hh (fun c => fst (tabs_nth (tables hh) c)) i (chainb_chain hh Hch)); [|exact Hok].
  apply GI_init.
  - intros c Hc. rewrite forallb_forall in HP. apply HP. unfold tabs_nth. apply nth_In. rewrite tables_length. exact Hc.
  - intros j Hj. rewrite forallb_forall in Ho. apply Nat.ltb_lt. apply Ho. apply nth_In. exact Hj.
Qed.

(* the stepwise hypothesis of the general theorem follows from the boolean one *)
Lemma tok_of_tokb_fresh : forall hh objs ts,
  chainb hh = true ->
  forallb plain_t (tables hh) = true ->
  forallb (fun c => Nat.ltb c (length hh)) objs = true ->
  tokb hh objs (tables hh, map (fun _ => ([], [])) objs) hh ts = true ->
  tok hh objs (tables hh, map (fun _ => ([], [])) objs) hh ts.
Proof.
  intros hh objs ts Hch HP Ho Hok.
  apply (tokb_tok hh objs ts _ _ (map (fun _ => l_init) objs) hh (fun c => fst (tabs_nth (tables hh) c)) (chainb_chain hh Hch)); [|exact Hok].
  apply GI_init.
  - intros c Hc. rewrite forallb_forall in HP. apply HP. unfold tabs_nth. apply nth_In. rewrite tables_length. exact Hc.
  - intros j Hj. rewrite forallb_forall in Ho. apply Nat.ltb_lt. apply Ho. apply nth_In. exact Hj.
Qed.
