(* C13 — add_class_trait on a base class and instances of its subclasses: along a path of
   single-base classes the run-time declaration is an inherited declaration. *)
From Coq Require Import ZArith List Bool Lia Sorted.
From TV Require Import Common.Harness C13.Model C13.Law C13.Corr C13.Proofs C13.MapProofs C13.ClassOpProofs C13.ClassOpInd.
Import ListNotations.
Open Scope Z_scope.

Definition dcls : classdef := mkClass [] [].

(* hh = firstn j hh ++ nth j hh :: skipn (S j) hh *)
Lemma split_at : forall (hh : list classdef) j, (j < length hh)%nat ->
  hh = firstn j hh ++ nth j hh dcls :: skipn (S j) hh /\ length (firstn j hh) = j.
Proof.
  induction hh as [|c r IH]; intros j H; simpl in H; [lia|].
  destruct j; simpl; [auto|]. destruct (IH j) as [E L]; [lia|]. split; [f_equal; exact E|f_equal; exact L].
Qed.

(* the declarative pair of class j only depends on the classes before it *)
Lemma visible_app_keeps : forall a b i, (i < length a)%nat ->
  vis_nth (visible (a ++ b)) i = vis_nth (visible a) i.
Proof.
  intros a b i H. unfold vis_nth, visible, visible_from. rewrite fold_left_app.
  fold (visible_from (fold_left (fun t c => t ++ [vis_class t c]) a []) b).
  apply visible_from_keeps. fold (visible_from [] a). rewrite visible_from_length. simpl. exact H.
Qed.

Lemma visible_nth : forall hh j, (j < length hh)%nat ->
  vis_nth (visible hh) j = vis_class (visible (firstn j hh)) (nth j hh dcls).
Proof.
  intros hh j H. destruct (split_at hh j H) as [E L].
  pose proof (visible_at (firstn j hh) (nth j hh dcls) (skipn (S j) hh)) as V. rewrite <- E, L in V. exact V.
Qed.

Lemma vis_class_closed : forall V cd, assoc [] (snd (vis_class V cd)) <> None.
Proof.
  intros V cd. unfold vis_class. cbn [snd]. unfold amem.
  destruct (assoc [] (snd (own_tables (c_decls cd)) ++ flat_map (fun b => snd (vis_nth V b)) (c_bases cd))) eqn:E.
  - rewrite E. discriminate.
  - rewrite assoc_app, E. simpl. discriminate.
Qed.

(* the hierarchy with a declaration appended to class k: all other classes are as before *)
Lemma app_decl_nth : forall hh k d j, j <> k -> nth j (app_decl hh k d) dcls = nth j hh dcls.
Proof.
  intros hh k d j Hj. unfold app_decl. destruct (nth_error hh k) as [cd|]; auto.
  generalize (mkClass (c_decls cd ++ [d]) (c_bases cd)).
  revert k j Hj. induction hh as [|c r IH]; intros k j Hj x; simpl; auto.
  destruct k; destruct j; simpl; auto; try lia.
Qed.
Lemma app_decl_length : forall hh k d, length (app_decl hh k d) = length hh.
Proof.
  intros hh k d. unfold app_decl. destruct (nth_error hh k) as [cd|]; auto.
  generalize (mkClass (c_decls cd ++ [d]) (c_bases cd)). revert k.
  induction hh as [|c r IH]; intros k x; simpl; auto. destruct k; simpl; auto.
Qed.
Lemma app_decl_firstn : forall hh k d j, (j <= k)%nat -> firstn j (app_decl hh k d) = firstn j hh.
Proof.
  intros hh k d j Hj. unfold app_decl. destruct (nth_error hh k) as [cd|]; auto.
  generalize (mkClass (c_decls cd ++ [d]) (c_bases cd)). revert k j Hj.
  induction hh as [|c r IH]; intros k j Hj x; simpl; [destruct j; reflexivity|].
  destruct k; destruct j; simpl; auto; try lia. f_equal. apply IH. lia.
Qed.

(* a path of single-base classes from class k down to class j *)
Inductive Path (hh : list classdef) (k : nat) : nat -> Prop :=
| P0 : Path hh k k
| PS : forall b j, Path hh k b -> (b < j)%nat -> (j < length hh)%nat -> c_bases (nth j hh dcls) = [b] -> Path hh k j.

Lemma Path_ge : forall hh k j, Path hh k j -> (k <= j)%nat.
Proof. induction 1; lia. Qed.

Section Sub.
  Variable hh : list classdef.
  Variable k : nat.
  Variable n : name.
  Variable p : policy.
  Hypothesis Hk : (k < length hh)%nat.
  Hypothesis Hp : plainp p = true.
  (* the call is accepted on class k: the name / prefix is not defined there *)
  Hypothesis Habs :
    (if ends_us n then amem (removelast n) (snd (vis_nth (visible hh) k)) else amem n (fst (vis_nth (visible hh) k))) = false.
  Notation hh' := (app_decl hh k (n, p)).

  Lemma Ext_path : forall j, Path hh k j -> Ext (vis_nth (visible hh) j) (vis_nth (visible hh') j) n p.
  Proof.
    induction 1 as [|b j HP IH Hb Hj Hbases].
    - (* class k itself *)
      rewrite (visible_nth hh k Hk), (visible_nth hh' k) by (rewrite app_decl_length; exact Hk).
      rewrite app_decl_firstn by lia.
      assert (E : nth k hh' dcls = mkClass (c_decls (nth k hh dcls) ++ [(n, p)]) (c_bases (nth k hh dcls))).
      { destruct (split_at hh k Hk) as [E L].
        pose proof (app_decl_at (firstn k hh) (nth k hh dcls) (skipn (S k) hh) (n, p)) as A.
        rewrite <- E, L in A. rewrite A. rewrite app_nth2 by lia. rewrite L, Nat.sub_diag. reflexivity. }
      rewrite E. apply Ext_own; auto. rewrite <- (visible_nth hh k Hk). exact Habs.
    - pose proof (Path_ge _ _ _ HP) as Hge.
      rewrite (visible_nth hh j Hj), (visible_nth hh' j) by (rewrite app_decl_length; exact Hj).
      rewrite (app_decl_nth hh k (n, p) j) by lia.
      apply (Ext_inherit _ _ _ b n p Hbases).
      + (* the base's pair inside the prefixes *)
        destruct (split_at hh j Hj) as [E L]. destruct (split_at hh' j) as [E' L']; [rewrite app_decl_length; exact Hj|].
        rewrite <- (visible_app_keeps (firstn j hh) (nth j hh dcls :: skipn (S j) hh) b) by lia.
        rewrite <- (visible_app_keeps (firstn j hh') (nth j hh' dcls :: skipn (S j) hh') b) by lia.
        rewrite <- E, <- E'. exact IH.
      + destruct (split_at hh j Hj) as [E L].
        rewrite <- (visible_app_keeps (firstn j hh) (nth j hh dcls :: skipn (S j) hh) b) by lia.
        rewrite <- E. rewrite (visible_nth hh b) by lia. apply vis_class_closed.
  Qed.
End Sub.

(* ---- the model: add_class reaches the classes on the path ---- *)
Lemma desc_path : forall hh k j, Path hh k j -> j <> k ->
  forall f, (j - k <= f)%nat -> is_desc hh f j k = true.
Proof.
  induction 1 as [|b j HP IH Hb Hj Hbases]; intros Hne f Hf; [congruence|].
  pose proof (Path_ge _ _ _ HP) as Hge.
  destruct f as [|f']; [lia|]. cbn [is_desc]. fold dcls. rewrite Hbases. cbn [existsb].
  destruct (Nat.eqb b k) eqn:E; [reflexivity|]. apply Nat.eqb_neq in E.
  rewrite IH by (auto; lia). reflexivity.
Qed.

Lemma add_class_sub_at : forall hh T k n p T' j, Path hh k j -> j <> k -> (j < length T)%nat ->
  length T = length hh -> add_class hh T k n p = (T', Done) ->
  add_class1 true (tabs_nth T j) n p = Some (tabs_nth T' j).
Proof.
  intros hh T k n p T' j HP Hne Hj HL H. unfold add_class in H.
  destruct (add_class1 false (tabs_nth T k) n p) as [tk|]; inversion H; subst; clear H.
  unfold tabs_nth at 2.
  rewrite map_idx_nth with (d := (@nil (name * policy), @nil (name * policy))) by exact Hj.
  cbn [Nat.add]. rewrite (proj2 (Nat.eqb_neq j k) Hne).
  rewrite (desc_path hh k j HP Hne) by (pose proof (Path_ge _ _ _ HP); lia).
  unfold tabs_nth.
  match goal with
  | |- add_class1 true ?A n p = Some (match add_class1 true ?B n p with Some x => x | None => ?C end) =>
      change B with A; change C with A; generalize A
  end.
  intros [ct pt]. unfold add_class1.
  destruct (ends_us n); [destruct (amem (removelast n) pt)|destruct (amem n ct)]; reflexivity.
Qed.

Lemma Path_app_decl : forall hh k d j, Path hh k j -> Path (app_decl hh k d) k j.
Proof.
  induction 1 as [|b j HP IH Hb Hj Hbases]; [constructor|].
  pose proof (Path_ge _ _ _ HP) as Hge.
  apply (PS _ _ b j); auto; [rewrite app_decl_length; exact Hj|].
  rewrite app_decl_nth by lia. exact Hbases.
Qed.

(* class k inside the hierarchy before and after the declaration *)
Lemma vis_app_decl_k : forall hh k d, (k < length hh)%nat ->
  vis_nth (visible hh) k = vis_class (visible (firstn k hh)) (nth k hh dcls) /\
  vis_nth (visible (app_decl hh k d)) k =
    vis_class (visible (firstn k hh)) (mkClass (c_decls (nth k hh dcls) ++ [d]) (c_bases (nth k hh dcls))).
Proof.
  intros hh k d Hk. split; [apply visible_nth; exact Hk|].
  rewrite (visible_nth (app_decl hh k d) k) by (rewrite app_decl_length; exact Hk).
  rewrite app_decl_firstn by lia. f_equal.
  destruct (split_at hh k Hk) as [E L].
  pose proof (app_decl_at (firstn k hh) (nth k hh dcls) (skipn (S k) hh) d) as A.
  rewrite <- E, L in A. rewrite A. rewrite app_nth2 by lia. rewrite L, Nat.sub_diag. reflexivity.
Qed.

(* the phase of add_class_trait calls on class k, seen from class k and from class j on a path *)
Lemma sub_phase_inv : forall hh0 k j adds T H,
  Path H k j -> j <> k -> length T = length hh0 -> length H = length hh0 ->
  (forall i, Path H k i -> Path hh0 k i) ->
  Agr (tabs_nth T k) (vis_nth (visible H) k) -> Agr (tabs_nth T j) (vis_nth (visible H) j) ->
  plain_t (tabs_nth T k) = true -> plain_t (tabs_nth T j) = true ->
  forallb (fun e => plainp (snd e)) adds = true ->
  let ph := class_phase hh0 k T H adds in
  Agr (tabs_nth (fst ph) j) (vis_nth (visible (snd ph)) j) /\ plain_t (tabs_nth (fst ph) j) = true.
Proof.
  intros hh0 k j. induction adds as [|[n p] r IH]; intros T H HP Hne HLT HLH Hsub Ak Aj Pk Pj Hf; [simpl; auto|].
  simpl in Hf. apply andb_true_iff in Hf. destruct Hf as [Hp Hr]. cbn [class_phase].
  pose proof (Path_ge _ _ _ HP) as Hge.
  assert (Hj : (j < length H)%nat) by (inversion HP; subst; [congruence|assumption]).
  assert (Hk : (k < length H)%nat) by lia.
  destruct (add_class hh0 T k n p) as [T' out] eqn:E.
  destruct (add_class_at hh0 T k n p T' out ltac:(lia) E) as [HL Hc].
  destruct (add_class1 false (tabs_nth T k) n p) as [tk|] eqn:E1.
  - destruct Hc as [-> Htk].
    (* accepted on k: absent in the declarative pair of k *)
    assert (Habs : (if ends_us n then amem (removelast n) (snd (vis_nth (visible H) k))
                    else amem n (fst (vis_nth (visible H) k))) = false).
    { destruct Ak as (A & B & _). destruct (tabs_nth T k) as [ct pt]. cbn [fst snd] in *.
      unfold add_class1 in E1. unfold amem in *. destruct (ends_us n).
      - rewrite <- (B (removelast n)). destruct (assoc (removelast n) pt); [discriminate|reflexivity].
      - rewrite <- (A n). destruct (assoc n ct); [discriminate|reflexivity]. }
    destruct (vis_app_decl_k H k (n, p) Hk) as [V1 V2].
    apply IH; auto.
    + apply Path_app_decl. exact HP.
    + lia.
    + rewrite app_decl_length. exact HLH.
    + intros i Hi. apply Hsub. clear -Hi. induction Hi as [|b i' HPi IHi Hb Hi' Hbs]; [constructor|].
      pose proof (Path_ge _ _ _ HPi). apply (PS _ _ b i'); auto.
      * rewrite app_decl_length in Hi'. exact Hi'.
      * rewrite app_decl_nth in Hbs by lia. exact Hbs.
    + rewrite Htk, V2. rewrite V1 in Ak. apply (Agr_add _ _ _ n p tk Hp Ak E1).
    + pose proof (add_class_sub_at hh0 T k n p T' j (Hsub _ HP) Hne ltac:(lia) HLT E) as Es.
      apply (Agr_add_sub _ _ _ n p _ Hp Aj (Ext_path H k n p Hk Hp Habs j HP) Es).
    + rewrite Htk. apply (plain_add_class1 false _ n p tk Pk Hp E1).
    + pose proof (add_class_sub_at hh0 T k n p T' j (Hsub _ HP) Hne ltac:(lia) HLT E) as Es.
      apply (plain_add_class1 true _ n p _ Pj Hp Es).
  - destruct Hc as [-> ->]. apply IH; auto.
Qed.

(* add_class_trait calls on a base class k (any number, accepted or rejected, explicit names and
   wildcards), then every clean history on a fresh instance of a subclass j reached from k by a path
   of single-base classes: the law holds with the rule of j computed from the hierarchy with the
   accepted run-time declarations appended to the body of k (inherited by j) *)
Lemma subclass_runtime_declarations : forall hh k j adds ops i,
  Path hh k j -> j <> k ->
  plain_t (tabs_nth (tables hh) k) = true -> plain_t (tabs_nth (tables hh) j) = true ->
  forallb (fun e => plainp (snd e)) adds = true ->
  let ph := class_phase hh k (tables hh) hh adds in
  let t := tabs_nth (fst ph) j in
  clean_run (snd t) (init_state (fst t)) ops = true ->
  law_hist (class_rule (vis_nth (visible (snd ph)) j)) i l_init (run (snd t) (init_state (fst t)) ops) = [].
Proof.
  intros hh k j adds ops i HP Hne Pk Pj Hf ph t Hc. subst t ph.
  destruct (agree_all hh) as [_ HA].
  destruct (sub_phase_inv hh k j adds (tables hh) hh HP Hne (tables_length hh) eq_refl (fun i H => H)
              (HA k) (HA j) Pk Pj Hf) as [(A & B & S) Pl].
  unfold plain_t in Pl. apply andb_true_iff in Pl. destruct Pl as [P1 P2].
  rewrite <- (law_hist_ext (model_rule _ _) _ (fun m => agree_rule _ _ m A B S)).
  apply run_law; auto.
Qed.
