(* C13 — add_class_trait on a base class and instances of subclasses with several bases
   (multiple inheritance, diamonds): the run-time declaration is an inherited declaration wherever
   the name is new to the subclass or defined in the subclass's own body. *)
From Coq Require Import ZArith List Bool Lia Sorted.
From TV Require Import Common.Harness C13.Model C13.Law C13.Corr C13.Proofs C13.MapProofs C13.ClassOpProofs C13.ClassOpInd C13.ClassOpSub.
Import ListNotations.
Open Scope Z_scope.

(* ---- concatenated base tables ---- *)
Section Cat.
  Variable n : name.
  Variable p : policy.
  Variables f f' : nat -> list (name * policy).

  Lemma cat_other : forall bs m, name_eqb n m = false ->
    (forall b, In b bs -> ExtD (f b) (f' b) n p \/ f b = f' b) ->
    assoc m (flat_map f' bs) = assoc m (flat_map f bs).
  Proof.
    induction bs as [|a r IH]; intros m Hm H; [reflexivity|].
    cbn [flat_map]. rewrite !assoc_app. rewrite (IH m Hm) by (intros b Hb; apply H; right; exact Hb).
    destruct (H a (or_introl eq_refl)) as [E|E].
    - rewrite (E m), Hm. destruct (assoc m (f a)); reflexivity.
    - rewrite E. reflexivity.
  Qed.

  Lemma cat_eq : forall bs, (forall b, In b bs -> tab_eq (f b) (f' b)) -> tab_eq (flat_map f bs) (flat_map f' bs).
  Proof.
    induction bs as [|a r IH]; intros H m; [reflexivity|].
    cbn [flat_map]. rewrite !assoc_app, (H a (or_introl eq_refl) m).
    rewrite (IH (fun b Hb => H b (or_intror Hb)) m). reflexivity.
  Qed.

  Lemma cat_new : forall bs, assoc n (flat_map f bs) = None ->
    (forall b, In b bs -> ExtD (f b) (f' b) n p \/ f b = f' b) ->
    (exists b, In b bs /\ ExtD (f b) (f' b) n p) ->
    assoc n (flat_map f' bs) = Some p.
  Proof.
    induction bs as [|a r IH]; intros Hn H [b [Hb He]]; [contradiction|].
    cbn [flat_map] in *. rewrite assoc_app in Hn. rewrite assoc_app.
    destruct (assoc n (f a)) eqn:Ea; [discriminate|].
    assert (X : ExtD (f a) (f' a) n p -> assoc n (f' a) = Some p).
    { intro E. rewrite (E n), Ea, name_eqb_refl. reflexivity. }
    destruct Hb as [<-|Hb]; [rewrite (X He); reflexivity|].
    destruct (H a (or_introl eq_refl)) as [E|E]; [rewrite (X E); reflexivity|].
    rewrite <- E, Ea. apply IH; [exact Hn|intros c Hc; apply H; right; exact Hc|exists b; split; assumption].
  Qed.
End Cat.

Definition own_has (cd : classdef) (n : name) : bool :=
  if ends_us n then amem (removelast n) (snd (own_tables (c_decls cd))) else amem n (fst (own_tables (c_decls cd))).
Definition vis_has (v : ctab * ptab) (n : name) : bool :=
  if ends_us n then amem (removelast n) (snd v) else amem n (fst v).

(* a class with any number of bases: each base either receives the declaration (Ext) or is untouched;
   at least one receives it; the name is new to the class or defined in its own body *)
Lemma Ext_multi : forall V V' cd n p,
  (forall b, In b (c_bases cd) -> Ext (vis_nth V b) (vis_nth V' b) n p \/ vis_nth V b = vis_nth V' b) ->
  (exists b, In b (c_bases cd) /\ Ext (vis_nth V b) (vis_nth V' b) n p) ->
  vis_has (vis_class V cd) n = false \/ own_has cd n = true ->
  Ext (vis_class V cd) (vis_class V' cd) n p.
Proof.
  intros V V' cd n p Hall Hex Hc. unfold Ext, vis_has, own_has, vis_class in *.
  destruct (own_tables (c_decls cd)) as [O W]. cbn [fst snd] in *.
  change (fun L : ptab => if amem [] L then L else L ++ [([], PPython)]) with close in *.
  destruct (ends_us n).
  - (* a wildcard *)
    set (q := removelast n) in *.
    assert (HR : forall b, In b (c_bases cd) ->
                  ExtD (snd (vis_nth V b)) (snd (vis_nth V' b)) q p \/ snd (vis_nth V b) = snd (vis_nth V' b)).
    { intros b Hb. destruct (Hall b Hb) as [[_ E]|E]; [left; exact E|right; rewrite E; reflexivity]. }
    split.
    + assert (Tq : tab_eq (flat_map (fun b => fst (vis_nth V b)) (c_bases cd)) (flat_map (fun b => fst (vis_nth V' b)) (c_bases cd))).
      { apply (cat_eq (fun b => fst (vis_nth V b)) (fun b => fst (vis_nth V' b))).
        intros b Hb. destruct (Hall b Hb) as [[E _]|E]; [exact E|rewrite E; intro; reflexivity]. }
      intro m. rewrite !assoc_app, (Tq m). reflexivity.
    + intro m.
      transitivity (match assoc m (W ++ flat_map (fun b => snd (vis_nth V' b)) (c_bases cd)) with
                    | Some v => Some v | None => assoc m [([], PPython)] end);
        [exact (assoc_close _ m)|].
      assert (Cl : forall x, assoc x (if amem [] (W ++ flat_map (fun b => snd (vis_nth V b)) (c_bases cd))
                            then W ++ flat_map (fun b => snd (vis_nth V b)) (c_bases cd)
                            else (W ++ flat_map (fun b => snd (vis_nth V b)) (c_bases cd)) ++ [([], PPython)]) =
                   match assoc x (W ++ flat_map (fun b => snd (vis_nth V b)) (c_bases cd)) with
                   | Some v => Some v | None => assoc x [([], PPython)] end)
        by (intro x; exact (assoc_close _ x)).
      rewrite (Cl m), !assoc_app.
      destruct (name_eqb q m) eqn:E.
      * apply name_eqb_eq in E. subst m. destruct Hc as [Hc|Hc].
        -- unfold amem in Hc.
           match type of Hc with match ?X with _ => _ end = false =>
             assert (Hq : X = None) by (destruct X; [discriminate|reflexivity]) end.
           pose proof (eq_trans (eq_sym (Cl q)) Hq) as Hq'. clear Hc Hq. rename Hq' into Hc.
           rewrite assoc_app in Hc.
           destruct (assoc q W) eqn:Ew; [discriminate|].
           destruct (assoc q (flat_map (fun b => snd (vis_nth V b)) (c_bases cd))) eqn:Ef; [discriminate|].
           destruct (assoc q [([], PPython)]) eqn:Eq; [discriminate|].
           rewrite (cat_new q p _ _ _ Ef HR). { reflexivity. }
           destruct Hex as [b [Hb [_ E]]]. exists b. auto.
        -- unfold amem in Hc. destruct (assoc q W); [reflexivity|discriminate].
      * rewrite (cat_other q p _ _ _ m E HR).
        destruct (assoc m W); auto.
        destruct (assoc m (flat_map (fun b => snd (vis_nth V b)) (c_bases cd))); auto.
        destruct (assoc m [([], PPython)]); reflexivity.
  - (* an explicit name *)
    assert (HR : forall b, In b (c_bases cd) ->
                  ExtD (fst (vis_nth V b)) (fst (vis_nth V' b)) n p \/ fst (vis_nth V b) = fst (vis_nth V' b)).
    { intros b Hb. destruct (Hall b Hb) as [[E _]|E]; [left; exact E|right; rewrite E; reflexivity]. }
    split.
    + intro m. rewrite !assoc_app. destruct (name_eqb n m) eqn:E.
      * apply name_eqb_eq in E. subst m. destruct Hc as [Hc|Hc].
        -- unfold amem in Hc. rewrite assoc_app in Hc. destruct (assoc n O) eqn:Eo; [discriminate|].
           destruct (assoc n (flat_map (fun b => fst (vis_nth V b)) (c_bases cd))) eqn:Ef; [discriminate|].
           rewrite (cat_new n p _ _ _ Ef HR). { reflexivity. }
           destruct Hex as [b [Hb [E _]]]. exists b. auto.
        -- unfold amem in Hc. destruct (assoc n O); [reflexivity|discriminate].
      * rewrite (cat_other n p _ _ _ m E HR).
        destruct (assoc m O); auto.
        destruct (assoc m (flat_map (fun b => fst (vis_nth V b)) (c_bases cd))); reflexivity.
    + assert (Te : tab_eq (W ++ flat_map (fun b => snd (vis_nth V b)) (c_bases cd))
                          (W ++ flat_map (fun b => snd (vis_nth V' b)) (c_bases cd))).
      { assert (Tq : tab_eq (flat_map (fun b => snd (vis_nth V b)) (c_bases cd)) (flat_map (fun b => snd (vis_nth V' b)) (c_bases cd))).
        { apply (cat_eq (fun b => snd (vis_nth V b)) (fun b => snd (vis_nth V' b))).
          intros b Hb. destruct (Hall b Hb) as [[_ E]|E]; [exact E|rewrite E; intro; reflexivity]. }
        intro m. rewrite !assoc_app, (Tq m). reflexivity. }
      intro m.
      transitivity (match assoc m (W ++ flat_map (fun b => snd (vis_nth V b)) (c_bases cd)) with
                    | Some v => Some v | None => assoc m [([], PPython)] end);
        [exact (assoc_close _ m)|].
      symmetry.
      transitivity (match assoc m (W ++ flat_map (fun b => snd (vis_nth V' b)) (c_bases cd)) with
                    | Some v => Some v | None => assoc m [([], PPython)] end);
        [exact (assoc_close _ m)|].
      rewrite (Te m). reflexivity.
Qed.

(* ---- the hierarchy ---- *)
Lemma flat_map_ext_in : forall {A B} (f g : A -> list B) l, (forall a, In a l -> f a = g a) -> flat_map f l = flat_map g l.
Proof.
  induction l as [|a r IH]; intro H; [reflexivity|]. cbn [flat_map].
  rewrite (H a (or_introl eq_refl)), IH; [reflexivity|]. intros b Hb. apply H. right. exact Hb.
Qed.

Lemma vis_class_ext : forall V V' cd, (forall b, In b (c_bases cd) -> vis_nth V b = vis_nth V' b) ->
  vis_class V cd = vis_class V' cd.
Proof.
  intros V V' cd H. unfold vis_class.
  rewrite (flat_map_ext_in (fun b => fst (vis_nth V b)) (fun b => fst (vis_nth V' b)) (c_bases cd))
    by (intros b Hb; rewrite (H b Hb); reflexivity).
  rewrite (flat_map_ext_in (fun b => snd (vis_nth V b)) (fun b => snd (vis_nth V' b)) (c_bases cd))
    by (intros b Hb; rewrite (H b Hb); reflexivity).
  reflexivity.
Qed.

Lemma vis_firstn : forall hh j b, (j < length hh)%nat -> (b < j)%nat ->
  vis_nth (visible (firstn j hh)) b = vis_nth (visible hh) b.
Proof.
  intros hh j b Hj Hb. destruct (split_at hh j Hj) as [E L].
  rewrite E at 2. symmetry. apply visible_app_keeps. lia.
Qed.

(* class j does not descend from class k: all its ancestors are other classes *)
Inductive Unaff (hh : list classdef) (k : nat) : nat -> Prop :=
| U_lt : forall j, (j < k)%nat -> Unaff hh k j
| U_S : forall j, j <> k -> (j < length hh)%nat ->
    (forall b, In b (c_bases (nth j hh dcls)) -> (b < j)%nat /\ Unaff hh k b) -> Unaff hh k j.

Lemma unaff_vis : forall hh k d, (k < length hh)%nat ->
  forall j, Unaff hh k j -> vis_nth (visible (app_decl hh k d)) j = vis_nth (visible hh) j.
Proof.
  intros hh k d Hk j. induction j as [j IH] using lt_wf_ind. intro HU.
  assert (Hj : (j < length hh)%nat) by (inversion HU; lia).
  assert (Hne : j <> k) by (inversion HU; lia).
  rewrite (visible_nth hh j Hj), (visible_nth (app_decl hh k d) j) by (rewrite app_decl_length; exact Hj).
  rewrite (app_decl_nth hh k d j Hne).
  inversion HU as [j' Hlt|j' _ _ Hb]; subst j'.
  - rewrite app_decl_firstn by lia. reflexivity.
  - apply vis_class_ext. intros b Hin. destruct (Hb b Hin) as [Hlt HUb].
    rewrite (vis_firstn hh j b Hj Hlt).
    rewrite (vis_firstn (app_decl hh k d) j b) by (rewrite ?app_decl_length; assumption).
    apply IH; assumption.
Qed.

(* class j descends from class k, possibly through several bases and along several routes; at every
   class on the way the name is new, or defined in the class's own body, or the class has one base *)
Inductive Reach (hh : list classdef) (k : nat) (n : name) : nat -> Prop :=
| R0 : Reach hh k n k
| RS : forall j, (k < j)%nat -> (j < length hh)%nat ->
    (forall b, In b (c_bases (nth j hh dcls)) -> (b < j)%nat /\ (Reach hh k n b \/ Unaff hh k b)) ->
    (exists b, In b (c_bases (nth j hh dcls)) /\ Reach hh k n b) ->
    vis_has (vis_nth (visible hh) j) n = false \/ own_has (nth j hh dcls) n = true \/
    (exists b, c_bases (nth j hh dcls) = [b]) ->
    Reach hh k n j.

Section Dag.
  Variable hh : list classdef.
  Variable k : nat.
  Variable n : name.
  Variable p : policy.
  Hypothesis Hk : (k < length hh)%nat.
  Hypothesis Hp : plainp p = true.
  Hypothesis Habs :
    (if ends_us n then amem (removelast n) (snd (vis_nth (visible hh) k)) else amem n (fst (vis_nth (visible hh) k))) = false.
  Notation hh' := (app_decl hh k (n, p)).

  Lemma Ext_reach : forall j, Reach hh k n j -> Ext (vis_nth (visible hh) j) (vis_nth (visible hh') j) n p.
  Proof.
    intro j. induction j as [j IH] using lt_wf_ind. intro HR.
    inversion HR as [|j' Hlt Hj Hb Hex Hc]; [subst j; apply (Ext_path hh k n p Hk Hp Habs k (P0 _ _))|subst j'].
    assert (Hne : j <> k) by lia.
    rewrite (visible_nth hh j Hj) in Hc.
    rewrite (visible_nth hh j Hj), (visible_nth hh' j) by (rewrite app_decl_length; exact Hj).
    rewrite (app_decl_nth hh k (n, p) j Hne).
    assert (Hc' : (vis_has (vis_class (visible (firstn j hh)) (nth j hh dcls)) n = false \/ own_has (nth j hh dcls) n = true) \/
                  (exists b, c_bases (nth j hh dcls) = [b])) by tauto.
    clear Hc. destruct Hc' as [Hc|[b0 Hb0]].
    2:{ (* a single base: inherited whatever the name *)
      destruct Hex as [b [Hin Hr]]. rewrite Hb0 in Hin. destruct Hin as [<-|[]].
      destruct (Hb b0 ltac:(rewrite Hb0; left; reflexivity)) as [Hbl _].
      apply (Ext_inherit _ _ _ b0 n p Hb0).
      - rewrite (vis_firstn hh j b0 Hj Hbl).
        rewrite (vis_firstn hh' j b0) by (rewrite ?app_decl_length; assumption).
        apply IH; assumption.
      - rewrite (vis_firstn hh j b0 Hj Hbl). rewrite (visible_nth hh b0) by lia. apply vis_class_closed. }
    apply Ext_multi; [| |exact Hc].
    - intros b Hin. destruct (Hb b Hin) as [Hbl [Hr|Hu]].
      + left. rewrite (vis_firstn hh j b Hj Hbl).
        rewrite (vis_firstn hh' j b) by (rewrite ?app_decl_length; assumption).
        apply IH; assumption.
      + right. rewrite (vis_firstn hh j b Hj Hbl).
        rewrite (vis_firstn hh' j b) by (rewrite ?app_decl_length; assumption).
        symmetry. apply unaff_vis; assumption.
    - destruct Hex as [b [Hin Hr]]. exists b. split; [exact Hin|]. destruct (Hb b Hin) as [Hbl _].
      rewrite (vis_firstn hh j b Hj Hbl).
      rewrite (vis_firstn hh' j b) by (rewrite ?app_decl_length; assumption).
      apply IH; assumption.
  Qed.
End Dag.

(* ---- the model: add_class reaches every descendant ---- *)
Lemma desc_reach : forall hh0 hh k n,
  (forall i, i <> k -> c_bases (nth i hh dcls) = c_bases (nth i hh0 dcls)) ->
  forall j, Reach hh k n j -> j <> k -> forall f, (j - k <= f)%nat -> is_desc hh0 f j k = true.
Proof.
  intros hh0 hh k n Hbs j. induction j as [j IH] using lt_wf_ind. intros HR Hne f Hf.
  inversion HR as [|j' Hlt Hj Hb Hex Hc]; [congruence|subst j'].
  destruct f as [|f']; [lia|]. cbn [is_desc]. fold dcls. rewrite <- (Hbs j Hne).
  apply existsb_exists. destruct Hex as [b [Hin Hr]]. exists b. split; [exact Hin|].
  destruct (Hb b Hin) as [Hbl _].
  destruct (Nat.eqb b k) eqn:E; [reflexivity|]. apply Nat.eqb_neq in E. cbn [orb].
  apply IH; auto. inversion Hr; lia.
Qed.

Lemma add_class_desc_at : forall hh T k n p T' j, is_desc hh (length hh) j k = true -> j <> k -> (j < length T)%nat ->
  add_class hh T k n p = (T', Done) ->
  add_class1 true (tabs_nth T j) n p = Some (tabs_nth T' j).
Proof.
  intros hh T k n p T' j HD Hne Hj H. unfold add_class in H.
  destruct (add_class1 false (tabs_nth T k) n p) as [tk|]; inversion H; subst; clear H.
  unfold tabs_nth at 2.
  rewrite map_idx_nth with (d := (@nil (name * policy), @nil (name * policy))) by exact Hj.
  cbn [Nat.add]. rewrite (proj2 (Nat.eqb_neq j k) Hne).
  rewrite HD.
  unfold tabs_nth.
  match goal with
  | |- add_class1 true ?A n p = Some (match add_class1 true ?B n p with Some x => x | None => ?C end) =>
      change B with A; change C with A; generalize A
  end.
  intros [ct pt]. unfold add_class1.
  destruct (ends_us n); [destruct (amem (removelast n) pt)|destruct (amem n ct)]; reflexivity.
Qed.

(* the hypothesis on the calls: each accepted one finds the subclass reachable for its name in the
   hierarchy as declared so far *)
Fixpoint phase_ok (hh0 : list classdef) (k j : nat) (T : list (ctab * ptab)) (H : list classdef)
                  (adds : list (name * policy)) : Prop :=
  match adds with
  | [] => True
  | (n, p) :: r =>
      match snd (add_class hh0 T k n p) with
      | Done => Reach H k n j /\ phase_ok hh0 k j (fst (add_class hh0 T k n p)) (app_decl H k (n, p)) r
      | _ => phase_ok hh0 k j (fst (add_class hh0 T k n p)) H r
      end
  end.

Lemma dag_phase_inv : forall hh0 k j adds T H,
  phase_ok hh0 k j T H adds ->
  (k < j)%nat -> (j < length hh0)%nat -> length T = length hh0 -> length H = length hh0 ->
  (forall i, i <> k -> c_bases (nth i H dcls) = c_bases (nth i hh0 dcls)) ->
  Agr (tabs_nth T k) (vis_nth (visible H) k) -> Agr (tabs_nth T j) (vis_nth (visible H) j) ->
  plain_t (tabs_nth T k) = true -> plain_t (tabs_nth T j) = true ->
  forallb (fun e => plainp (snd e)) adds = true ->
  let ph := class_phase hh0 k T H adds in
  Agr (tabs_nth (fst ph) j) (vis_nth (visible (snd ph)) j) /\ plain_t (tabs_nth (fst ph) j) = true.
Proof.
  intros hh0 k j. induction adds as [|[n p] r IH]; intros T H Hok Hkj Hj HLT HLH Hbs Ak Aj Pk Pj Hf; [simpl; auto|].
  simpl in Hf. apply andb_true_iff in Hf. destruct Hf as [Hp Hr]. cbn [class_phase]. cbn [phase_ok] in Hok.
  assert (Hne : j <> k) by lia.
  assert (Hk : (k < length H)%nat) by lia.
  destruct (add_class hh0 T k n p) as [T' out] eqn:E. cbn [fst snd] in Hok.
  destruct (add_class_at hh0 T k n p T' out ltac:(lia) E) as [HL Hc].
  destruct (add_class1 false (tabs_nth T k) n p) as [tk|] eqn:E1.
  - destruct Hc as [-> Htk]. destruct Hok as [HR Hok].
    assert (Habs : (if ends_us n then amem (removelast n) (snd (vis_nth (visible H) k))
                    else amem n (fst (vis_nth (visible H) k))) = false).
    { destruct Ak as (A & B & _). destruct (tabs_nth T k) as [ct pt]. cbn [fst snd] in *.
      unfold add_class1 in E1. unfold amem in *. destruct (ends_us n).
      - rewrite <- (B (removelast n)). destruct (assoc (removelast n) pt); [discriminate|reflexivity].
      - rewrite <- (A n). destruct (assoc n ct); [discriminate|reflexivity]. }
    destruct (vis_app_decl_k H k (n, p) Hk) as [V1 V2].
    apply IH; auto.
    + lia.
    + rewrite app_decl_length. exact HLH.
    + intros i Hi. rewrite app_decl_nth by exact Hi. apply Hbs. exact Hi.
    + rewrite Htk, V2. rewrite V1 in Ak. apply (Agr_add _ _ _ n p tk Hp Ak E1).
    + assert (HD : is_desc hh0 (length hh0) j k = true)
        by (apply (desc_reach hh0 H k n Hbs j HR Hne); lia).
      pose proof (add_class_desc_at hh0 T k n p T' j HD Hne ltac:(lia) E) as Es.
      apply (Agr_add_sub _ _ _ n p _ Hp Aj (Ext_reach H k n p Hk Hp Habs j HR) Es).
    + rewrite Htk. apply (plain_add_class1 false _ n p tk Pk Hp E1).
    + assert (HD : is_desc hh0 (length hh0) j k = true)
        by (apply (desc_reach hh0 H k n Hbs j HR Hne); lia).
      pose proof (add_class_desc_at hh0 T k n p T' j HD Hne ltac:(lia) E) as Es.
      apply (plain_add_class1 true _ n p _ Pj Hp Es).
  - destruct Hc as [-> ->]. apply IH; auto.
Qed.

(* add_class_trait calls on a base class k (any number, accepted or rejected, explicit names and
   wildcards), then every clean history on a fresh instance of a subclass j that descends from k
   through any number of bases and routes (multiple inheritance, diamonds): the law holds with the
   rule of j computed from the hierarchy with the accepted run-time declarations appended to the
   body of k *)
Lemma dag_runtime_declarations : forall hh k j adds ops i,
  (k < j)%nat -> (j < length hh)%nat ->
  phase_ok hh k j (tables hh) hh adds ->
  plain_t (tabs_nth (tables hh) k) = true -> plain_t (tabs_nth (tables hh) j) = true ->
  forallb (fun e => plainp (snd e)) adds = true ->
  let ph := class_phase hh k (tables hh) hh adds in
  let t := tabs_nth (fst ph) j in
  clean_run (snd t) (init_state (fst t)) ops = true ->
  law_hist (class_rule (vis_nth (visible (snd ph)) j)) i l_init (run (snd t) (init_state (fst t)) ops) = [].
Proof.
  intros hh k j adds ops i Hkj Hj Hok Pk Pj Hf ph t Hc. subst t ph.
  destruct (agree_all hh) as [_ HA].
  destruct (dag_phase_inv hh k j adds (tables hh) hh Hok Hkj Hj (tables_length hh) eq_refl (fun i _ => eq_refl)
              (HA k) (HA j) Pk Pj Hf) as [(A & B & S) Pl].
  unfold plain_t in Pl. apply andb_true_iff in Pl. destruct Pl as [P1 P2].
  rewrite <- (law_hist_ext (model_rule _ _) _ (fun m => agree_rule _ _ m A B S)).
  apply run_law; auto.
Qed.

(* the name condition cannot be dropped for this (base-order) reading of "inherited": a diamond
   D(L, R) over Base where R declares z; add_class_trait("z") on Base reaches L but D keeps R's z,
   while a declaration in the body of Base would reach D through L first.  (Under the MRO reading
   R's z governs D and the implementation's answer is the expected one.) *)
Lemma dag_condition_needed : exists hh k j adds ops,
  (k < j)%nat /\ (j < length hh)%nat /\
  plain_t (tabs_nth (tables hh) k) = true /\ plain_t (tabs_nth (tables hh) j) = true /\
  forallb (fun e => plainp (snd e)) adds = true /\
  let ph := class_phase hh k (tables hh) hh adds in
  let t := tabs_nth (fst ph) j in
  clean_run (snd t) (init_state (fst t)) ops = true /\
  law_hist (class_rule (vis_nth (visible (snd ph)) j)) 0 l_init (run (snd t) (init_state (fst t)) ops) <> [] /\
  law_hist (mro_rule (skipn 3 (snd ph)) j) 0 l_init (run (snd t) (init_state (fst t)) ops) = [].
Proof.
  exists (roots ++ [mkClass [] [1%nat]; mkClass [] [3%nat]; mkClass [([122], PAny 5)] [3%nat]; mkClass [] [4%nat; 5%nat]]).
  exists 3%nat, 6%nat, [([122], PAny 8)], [OGet [122]].
  vm_compute. repeat split; try lia; try reflexivity. discriminate.
Qed.

(* tactics for concrete hierarchies *)
Ltac unaff :=
  first [ solve [apply U_lt; lia]
        | apply U_S; [lia | simpl; lia |
            let b := fresh "b" in let Hin := fresh "Hin" in
            intros b Hin; vm_compute in Hin;
            repeat (destruct Hin as [<-|Hin]; [split; [lia|unaff]|]); contradiction] ].

Ltac reach :=
  first [ solve [apply R0]
        | apply RS; [lia | simpl; lia
            | let b := fresh "b" in let Hin := fresh "Hin" in
              intros b Hin; vm_compute in Hin;
              repeat (destruct Hin as [<-|Hin]; [split; [lia|first [left; solve [reach] | right; solve [unaff]]]|]); contradiction
            | eexists; split; [vm_compute; left; reflexivity|reach]
            | vm_compute; eauto ] ].
