(* C13 — the runs the checker evaluates for add_class_trait (CorrT.step_t): any number of live
   objects of any classes, object operations and add_class_trait calls on any classes, in any
   order.  One global invariant over the tables of all classes. *)
From Coq Require Import ZArith List Bool Lia Sorted.
From TV Require Import Common.Harness C13.Model C13.Law C13.Corr C13.CorrT C13.Proofs C13.MapProofs C13.ClassOpProofs C13.ClassOpInd C13.ClassOpSub C13.ClassOpDag C13.ClassOpSubRun.
Import ListNotations.
Open Scope Z_scope.

Lemma upd_length : forall {A} (l : list A) i x, length (upd l i x) = length l.
Proof. induction l as [|y r IH]; intros [|i] x; simpl; auto. Qed.
Lemma nth_upd_same : forall {A} (l : list A) i x d, (i < length l)%nat -> nth i (upd l i x) d = x.
Proof. induction l as [|y r IH]; intros [|i] x d H; simpl in *; try lia; auto; try (apply IH; lia). Qed.
Lemma nth_upd_other : forall {A} (l : list A) i j x d, i <> j -> nth j (upd l i x) d = nth j l d.
Proof.
  induction l as [|y r IH]; intros [|i] [|j] x d H; simpl; auto; try congruence; try (apply IH; congruence).
Qed.

Lemma app_decl_bases : forall hh k d i, c_bases (nth i (app_decl hh k d) dcls) = c_bases (nth i hh dcls).
Proof.
  intros hh k d i. destruct (Nat.eq_dec i k) as [->|Hne]; [|rewrite app_decl_nth by exact Hne; reflexivity].
  unfold app_decl. destruct (nth_error hh k) as [cd|] eqn:E; [|reflexivity].
  assert (Hk : (k < length hh)%nat) by (apply nth_error_Some; congruence).
  rewrite nth_upd_same by exact Hk. rewrite (nth_error_nth hh k dcls E). reflexivity.
Qed.

Lemma add_class1_true_some : forall t n p, exists t', add_class1 true t n p = Some t'.
Proof.
  intros [ct pt] n p. unfold add_class1.
  destruct (ends_us n); [destruct (amem (removelast n) pt)|destruct (amem n ct)]; eauto.
Qed.
Lemma add_class1_false_true : forall t n p t', add_class1 false t n p = Some t' -> add_class1 true t n p = Some t'.
Proof.
  intros [ct pt] n p t'. unfold add_class1.
  destruct (ends_us n); [destruct (amem (removelast n) pt)|destruct (amem n ct)]; auto; discriminate.
Qed.

Lemma sub_add_eq : forall s pt n p t', add_class1 true (s_ctd s, pt) n p = Some t' ->
  sub_add s pt n p = (mkState (fst t') (s_itd s) (s_od s), snd t').
Proof. intros s pt n p t' H. unfold sub_add. rewrite H. reflexivity. Qed.

(* the declared dictionary after an inherited run-time declaration *)
Definition new_ct0 (ct0 ctd : ctab) (n : name) (p : policy) : ctab :=
  if ends_us n then ct0 else if amem n ctd then ct0 else aset n p ct0.

Lemma sub_step_ok' : forall ct0 pt s ls v v' n p,
  Inv ct0 pt s ls -> Agr (ct0, pt) v -> Ext v v' n p -> plainp p = true ->
  sub_clean (fst v) s pt n p = true ->
  Agr (new_ct0 ct0 (s_ctd s) n p, snd (sub_add s pt n p)) v' /\
  Inv (new_ct0 ct0 (s_ctd s) n p) (snd (sub_add s pt n p)) (fst (sub_add s pt n p)) ls.
Proof.
  intros ct0 pt s ls v v' n p HI HA HE Hp Hc.
  pose proof HA as (A & B & S). cbn [fst snd] in A, B, S.
  unfold sub_clean in Hc. unfold new_ct0, sub_add, add_class1.
  destruct (ends_us n) eqn:Eu.
  - destruct (amem (removelast n) pt) eqn:Em.
    + cbn [fst snd]. split.
      * apply (Agr_add_sub (ct0, pt) v v' n p (ct0, pt) Hp HA HE). unfold add_class1. rewrite Eu, Em. reflexivity.
      * replace (mkState (s_ctd s) (s_itd s) (s_od s)) with s by (destruct s; reflexivity). exact HI.
    + cbn [fst snd]. simpl in Hc. apply andb_true_iff in Hc. destruct Hc as [Hc1 Hc2].
      split.
      * apply (Agr_add_sub (ct0, pt) v v' n p _ Hp HA HE). unfold add_class1. rewrite Eu, Em. reflexivity.
      * replace (mkState (s_ctd s) (s_itd s) (s_od s)) with s by (destruct s; reflexivity).
        apply (Inv_add_wild ct0 pt s ls (removelast n) p HI S Hp).
        -- rewrite forallb_forall in Hc1. apply forallb_forall. intros e He.
           rewrite (wcond_ext _ _ _ _ A). apply Hc1. exact He.
        -- rewrite forallb_forall in Hc2. apply forallb_forall. intros e He.
           rewrite (wcond_ext _ _ _ _ A). apply Hc2. exact He.
  - destruct (amem n (s_ctd s)) eqn:Em.
    + cbn [fst snd]. split.
      * apply (Agr_add_sub (ct0, pt) v v' n p (ct0, pt) Hp HA HE). unfold add_class1. rewrite Eu.
        unfold amem in *. rewrite (A n). destruct (assoc n (fst v)); [reflexivity|discriminate].
      * replace (mkState (s_ctd s) (s_itd s) (s_od s)) with s by (destruct s; reflexivity). exact HI.
    + cbn [fst snd].
      assert (Hn0 : assoc n (s_ctd s) = None) by (unfold amem in Em; destruct (assoc n (s_ctd s)); [discriminate|reflexivity]).
      assert (Hn1 : amem n ct0 = false).
      { unfold amem. destruct (assoc n ct0) eqn:E0; auto. rewrite (inv_c1 _ _ _ _ HI _ _ E0) in Hn0. discriminate. }
      split.
      * apply (Agr_add_sub (ct0, pt) v v' n p _ Hp HA HE). unfold add_class1. rewrite Eu, Hn1. reflexivity.
      * apply (Inv_add_explicit ct0 pt s ls n p HI Hn0 Hp Hc).
Qed.

(* ---- the global invariant ---- *)
Definition ghost (t : ctab * ptab) : state := mkState (fst t) [] [].
Definition ostate (T : list (ctab * ptab)) (c : nat) (x : inst) : state := mkState (fst (tabs_nth T c)) (fst x) (snd x).
Definition affected (hh0 : list classdef) (k c : nat) : bool := Nat.eqb c k || is_desc hh0 (length hh0) c k.

Record GI (hh0 : list classdef) (objs : list nat) (T : list (ctab * ptab)) (insts : list inst)
          (lss : list lstate) (H : list classdef) (C0 : nat -> ctab) : Prop := mkGI {
  g_lenT : length T = length hh0;
  g_lenH : length H = length hh0;
  g_bases : forall i, c_bases (nth i H dcls) = c_bases (nth i hh0 dcls);
  g_lenI : length insts = length objs;
  g_lenL : length lss = length objs;
  g_objs : forall i, (i < length objs)%nat -> (nth i objs O < length T)%nat;
  g_cls : forall c, (c < length T)%nat ->
            Agr (C0 c, snd (tabs_nth T c)) (vis_nth (visible H) c) /\
            Inv (C0 c) (snd (tabs_nth T c)) (ghost (tabs_nth T c)) l_init;
  g_obj : forall i, (i < length objs)%nat ->
            Inv (C0 (nth i objs O)) (snd (tabs_nth T (nth i objs O)))
                (ostate T (nth i objs O) (nth i insts ([], []))) (nth i lss l_init)
}.

(* the hypothesis on one step *)
Definition tclean (hh0 : list classdef) (objs : list nat) (T : list (ctab * ptab)) (insts : list inst)
                  (H : list classdef) (t : top) : Prop :=
  match t with
  | TObj i o => (i < length objs)%nat /\ clean_step (ostate T (nth i objs O) (nth i insts ([], []))) o = true
  | TClass k n p =>
      (k < length T)%nat /\ plainp p = true /\
      match add_class1 false (tabs_nth T k) n p with
      | None => True
      | Some _ =>
          (forall c, (c < length T)%nat -> c <> k ->
             (is_desc hh0 (length hh0) c k = true -> Reach H k n c) /\
             (is_desc hh0 (length hh0) c k = false -> Unaff H k c)) /\
          (forall c, (c < length T)%nat -> affected hh0 k c = true ->
             sub_clean (fst (vis_nth (visible H) c)) (ghost (tabs_nth T c)) (snd (tabs_nth T c)) n p = true) /\
          (forall i, (i < length objs)%nat -> affected hh0 k (nth i objs O) = true ->
             sub_clean (fst (vis_nth (visible H) (nth i objs O)))
                       (ostate T (nth i objs O) (nth i insts ([], []))) (snd (tabs_nth T (nth i objs O))) n p = true)
      end
  end.

(* ---- an object operation ---- *)
Lemma gi_obj_step : forall hh0 objs T insts lss H C0 i o,
  GI hh0 objs T insts lss H C0 -> (i < length objs)%nat ->
  clean_step (ostate T (nth i objs O) (nth i insts ([], []))) o = true ->
  let c := nth i objs O in
  let rl := class_rule (vis_nth (visible H) c) in
  let r := step_t hh0 objs (T, insts) (TObj i o) in
  law_step rl (nth i lss l_init) o (snd r) = [] /\
  GI hh0 objs (fst (fst r)) (snd (fst r)) (upd lss i (law_next rl (nth i lss l_init) o (snd r))) H C0.
Proof.
  intros hh0 objs T insts lss H C0 i o G Hi Hc c rl r. subst r. cbn [step_t]. fold c.
  pose proof (g_objs _ _ _ _ _ _ _ G i Hi) as HcT. fold c in HcT.
  destruct (g_cls _ _ _ _ _ _ _ G c HcT) as [HA HG].
  pose proof (g_obj _ _ _ _ _ _ _ G i Hi) as HI. fold c in HI.
  pose proof HA as (A & B & S). cbn [fst snd] in A, B, S.
  assert (RL : forall m, model_rule (C0 c) (snd (tabs_nth T c)) m = rl m)
    by (intro m; apply (agree_rule (C0 c, snd (tabs_nth T c)) _ m A B S)).
  destruct (step_ok (C0 c) (snd (tabs_nth T c)) _ _ o HI Hc) as [Hl Hn].
  unfold ostate in Hl, Hn, HI.
  destruct (step (snd (tabs_nth T c)) (mkState (fst (tabs_nth T c)) (fst (nth i insts ([], []))) (snd (nth i insts ([], [])))) o)
    as [s' ob] eqn:E. cbn [fst snd] in *.
  rewrite <- (law_step_ext _ _ RL), <- (law_next_ext _ _ RL). split; [exact Hl|].
  assert (Tc : tabs_nth (set_ctab T c (s_ctd s')) c = (s_ctd s', snd (tabs_nth T c))) by (apply set_ctab_nth; exact HcT).
  assert (To : forall c', c' <> c -> tabs_nth (set_ctab T c (s_ctd s')) c' = tabs_nth T c')
    by (intros c' Hne; apply set_ctab_other; congruence).
  constructor.
  - rewrite set_ctab_length by exact HcT. apply (g_lenT _ _ _ _ _ _ _ G).
  - apply (g_lenH _ _ _ _ _ _ _ G).
  - apply (g_bases _ _ _ _ _ _ _ G).
  - rewrite upd_length. apply (g_lenI _ _ _ _ _ _ _ G).
  - rewrite upd_length. apply (g_lenL _ _ _ _ _ _ _ G).
  - intros j Hj. rewrite set_ctab_length by exact HcT. apply (g_objs _ _ _ _ _ _ _ G j Hj).
  - intros c' Hc'. rewrite set_ctab_length in Hc' by exact HcT.
    destruct (Nat.eq_dec c' c) as [->|Hne].
    + rewrite Tc. cbn [fst snd]. split; [exact HA|].
      apply (Inv_other (C0 c) (snd (tabs_nth T c)) s' _ (fst (tabs_nth T c)) ([], []) l_init Hn HG).
    + rewrite (To c' Hne). apply (g_cls _ _ _ _ _ _ _ G c' Hc').
  - intros j Hj. set (cj := nth j objs O).
    destruct (Nat.eq_dec j i) as [->|Hji].
    + subst cj. fold c. rewrite nth_upd_same by (rewrite (g_lenI _ _ _ _ _ _ _ G); exact Hi).
      rewrite nth_upd_same by (rewrite (g_lenL _ _ _ _ _ _ _ G); exact Hi).
      unfold ostate. rewrite Tc. cbn [fst snd]. destruct s'; exact Hn.
    + rewrite nth_upd_other by congruence. rewrite nth_upd_other by congruence.
      pose proof (g_obj _ _ _ _ _ _ _ G j Hj) as HJ. fold cj in HJ.
      destruct (Nat.eq_dec cj c) as [Ec|Hne].
      * rewrite Ec in *. unfold ostate in *. rewrite Tc. cbn [fst snd].
        apply (Inv_other (C0 c) (snd (tabs_nth T c)) s' _ (fst (tabs_nth T c)) (nth j insts ([], [])) _ Hn HJ).
      * unfold ostate in *. rewrite (To cj Hne). exact HJ.
Qed.

(* ---- an add_class_trait call ---- *)
Lemma add_class_all_at : forall hh T k n p T' c, (c < length T)%nat -> add_class hh T k n p = (T', Done) ->
  if affected hh k c then add_class1 true (tabs_nth T c) n p = Some (tabs_nth T' c)
  else tabs_nth T' c = tabs_nth T c.
Proof.
  intros hh T k n p T' c Hc H. unfold add_class in H.
  destruct (add_class1 false (tabs_nth T k) n p) as [tk|] eqn:E1; inversion H; subst; clear H.
  assert (X : tabs_nth (map_idx (fun (j : nat) (t : ctab * ptab) =>
                 if Nat.eqb j k then tk
                 else if is_desc hh (length hh) j k
                      then match add_class1 true t n p with Some x => x | None => t end
                      else t) 0 T) c =
              (if Nat.eqb c k then tk
               else if is_desc hh (length hh) c k
                    then match add_class1 true (tabs_nth T c) n p with Some x => x | None => tabs_nth T c end
                    else tabs_nth T c)).
  { unfold tabs_nth. rewrite map_idx_nth with (d := (@nil (name * policy), @nil (name * policy))) by exact Hc.
    reflexivity. }
  rewrite X. clear X. unfold affected. destruct (Nat.eqb c k) eqn:Ek; cbn [orb].
  - apply Nat.eqb_eq in Ek. subst c. apply add_class1_false_true. exact E1.
  - destruct (is_desc hh (length hh) c k); [|reflexivity].
    destruct (add_class1_true_some (tabs_nth T c) n p) as [t' Et]. rewrite Et. reflexivity.
Qed.

Definition C0_next (hh0 : list classdef) (T : list (ctab * ptab)) (k : nat) (n : name) (p : policy)
                   (C0 : nat -> ctab) : nat -> ctab :=
  fun c => if affected hh0 k c then new_ct0 (C0 c) (fst (tabs_nth T c)) n p else C0 c.

Lemma gi_cls_step : forall hh0 objs T insts lss H C0 k n p,
  GI hh0 objs T insts lss H C0 -> tclean hh0 objs T insts H (TClass k n p) ->
  let r := step_t hh0 objs (T, insts) (TClass k n p) in
  exists C0', GI hh0 objs (fst (fst r)) (snd (fst r)) lss
                 (match o_out (snd r) with Done => app_decl H k (n, p) | _ => H end) C0'.
Proof.
  intros hh0 objs T insts lss H C0 k n p G (Hk & Hp & Hcl) r. subst r. cbn [step_t].
  destruct (add_class hh0 T k n p) as [T' out] eqn:E. cbn [fst snd o_out].
  destruct (add_class_at hh0 T k n p T' out Hk E) as [HL Hc].
  destruct (add_class1 false (tabs_nth T k) n p) as [tk|] eqn:E1.
  2:{ destruct Hc as [-> ->]. exists C0. exact G. }
  destruct Hc as [-> Htk]. destruct Hcl as (Hreach & Hgh & Hob).
  exists (C0_next hh0 T k n p C0).
  assert (HkH : (k < length H)%nat) by (rewrite (g_lenH _ _ _ _ _ _ _ G), <- (g_lenT _ _ _ _ _ _ _ G); exact Hk).
  destruct (g_cls _ _ _ _ _ _ _ G k Hk) as [Ak Gk].
  assert (Habs : (if ends_us n then amem (removelast n) (snd (vis_nth (visible H) k))
                  else amem n (fst (vis_nth (visible H) k))) = false).
  { destruct Ak as (A' & B' & _). cbn [fst snd] in A', B'.
    pose proof (inv_c1 _ _ _ _ Gk) as C1. unfold ghost in C1. cbn [s_ctd] in C1.
    destruct (tabs_nth T k) as [ct ptk]. cbn [fst snd] in *.
    unfold add_class1 in E1. unfold amem in *. destruct (ends_us n).
    - rewrite <- (B' (removelast n)). destruct (assoc (removelast n) ptk); [discriminate|reflexivity].
    - rewrite <- (A' n). destruct (assoc n (C0 k)) as [x|] eqn:E0; [|reflexivity].
      rewrite (C1 _ _ E0) in E1. discriminate. }
  assert (HR : forall c, (c < length T)%nat -> affected hh0 k c = true -> Reach H k n c).
  { intros c Hc Ha. unfold affected in Ha. destruct (Nat.eqb c k) eqn:Ek.
    - apply Nat.eqb_eq in Ek. subst c. apply R0.
    - apply Nat.eqb_neq in Ek. cbn [orb] in Ha. apply (proj1 (Hreach c Hc Ek) Ha). }
  assert (HU : forall c, (c < length T)%nat -> affected hh0 k c = false ->
               vis_nth (visible (app_decl H k (n, p))) c = vis_nth (visible H) c).
  { intros c Hc Ha. unfold affected in Ha. apply orb_false_iff in Ha. destruct Ha as [Ek Hd].
    apply Nat.eqb_neq in Ek. apply unaff_vis; [exact HkH|]. apply (proj2 (Hreach c Hc Ek) Hd). }
  (* one class or object of an affected class *)
  assert (STEP : forall c s ls, (c < length T)%nat -> affected hh0 k c = true ->
            s_ctd s = fst (tabs_nth T c) ->
            Inv (C0 c) (snd (tabs_nth T c)) s ls ->
            sub_clean (fst (vis_nth (visible H) c)) s (snd (tabs_nth T c)) n p = true ->
            Agr (C0_next hh0 T k n p C0 c, snd (tabs_nth T' c)) (vis_nth (visible (app_decl H k (n, p))) c) /\
            Inv (C0_next hh0 T k n p C0 c) (snd (tabs_nth T' c))
                (mkState (fst (tabs_nth T' c)) (s_itd s) (s_od s)) ls).
  { intros c s ls Hc Ha Hs HI Hcn.
    pose proof (add_class_all_at hh0 T k n p T' c Hc E) as AT. rewrite Ha in AT.
    destruct (g_cls _ _ _ _ _ _ _ G c Hc) as [HA _].
    pose proof (Ext_reach H k n p HkH Hp Habs c (HR c Hc Ha)) as HE.
    destruct (sub_step_ok' (C0 c) (snd (tabs_nth T c)) s ls _ _ n p HI HA HE Hp Hcn) as [A2 I2].
    assert (AT' : add_class1 true (s_ctd s, snd (tabs_nth T c)) n p = Some (tabs_nth T' c))
      by (rewrite Hs; destruct (tabs_nth T c); exact AT).
    rewrite (sub_add_eq s _ n p _ AT') in A2, I2. cbn [fst snd] in A2, I2.
    unfold C0_next. rewrite Ha, <- Hs. split; assumption. }
  constructor.
  - rewrite HL. apply (g_lenT _ _ _ _ _ _ _ G).
  - rewrite app_decl_length. apply (g_lenH _ _ _ _ _ _ _ G).
  - intro i. rewrite app_decl_bases. apply (g_bases _ _ _ _ _ _ _ G).
  - apply (g_lenI _ _ _ _ _ _ _ G).
  - apply (g_lenL _ _ _ _ _ _ _ G).
  - intros i Hi. rewrite HL. apply (g_objs _ _ _ _ _ _ _ G i Hi).
  - intros c Hc. rewrite HL in Hc. destruct (g_cls _ _ _ _ _ _ _ G c Hc) as [HA HG].
    destruct (affected hh0 k c) eqn:Ea.
    + apply (STEP c (ghost (tabs_nth T c)) l_init Hc Ea eq_refl HG (Hgh c Hc Ea)).
    + pose proof (add_class_all_at hh0 T k n p T' c Hc E) as AT. rewrite Ea in AT.
      unfold C0_next. rewrite Ea, AT, (HU c Hc Ea). split; assumption.
  - intros i Hi. pose proof (g_objs _ _ _ _ _ _ _ G i Hi) as Hc. set (c := nth i objs O) in *.
    pose proof (g_obj _ _ _ _ _ _ _ G i Hi) as HI. fold c in HI.
    destruct (affected hh0 k c) eqn:Ea.
    + destruct (STEP c (ostate T c (nth i insts ([], []))) (nth i lss l_init) Hc Ea eq_refl HI (Hob i Hi Ea)) as [_ I2]. exact I2.
    + pose proof (add_class_all_at hh0 T k n p T' c Hc E) as AT. rewrite Ea in AT.
      unfold C0_next, ostate in *. rewrite Ea, AT. exact HI.
Qed.

(* ---- runs ---- *)
Definition next_Ht (H : list classdef) (t : top) (ob : obs) : list classdef :=
  match t, o_out ob with TClass k n p, Done => app_decl H k (n, p) | _, _ => H end.

Fixpoint tok (hh0 : list classdef) (objs : list nat) (st : tstate) (H : list classdef) (ts : list top) : Prop :=
  match ts with
  | [] => True
  | t :: r =>
      tclean hh0 objs (fst st) (snd st) H t /\
      tok hh0 objs (fst (step_t hh0 objs st t)) (next_Ht H t (snd (step_t hh0 objs st t))) r
  end.

Lemma global_run_law : forall hh0 objs ts T insts lss H C0 i,
  GI hh0 objs T insts lss H C0 -> tok hh0 objs (T, insts) H ts ->
  law_hist_ta objs H i lss (run_t hh0 objs (T, insts) ts) = [].
Proof.
  intros hh0 objs. induction ts as [|t r IH]; intros T insts lss H C0 i G Hok; [reflexivity|].
  cbn [tok fst snd] in Hok. destruct Hok as [Hc Hr].
  destruct t as [j o|k n p].
  - destruct Hc as [Hj Hc].
    destruct (gi_obj_step hh0 objs T insts lss H C0 j o G Hj Hc) as [Hl G'].
    cbn [run_t]. destruct (step_t hh0 objs (T, insts) (TObj j o)) as [[T' insts'] ob] eqn:E.
    cbn [fst snd law_hist_ta next_Ht] in *. rewrite Hl. cbn [map app].
    apply (IH T' insts' _ H C0 _ G' Hr).
  - destruct (gi_cls_step hh0 objs T insts lss H C0 k n p G Hc) as [C0' G'].
    cbn [run_t]. destruct (step_t hh0 objs (T, insts) (TClass k n p)) as [[T' insts'] ob] eqn:E.
    cbn [fst snd law_hist_ta next_Ht] in *.
    apply (IH T' insts' lss _ C0' _ G' Hr).
Qed.

Lemma nth_const_map : forall {A B} (l : list A) (x : B) i, nth i (map (fun _ => x) l) x = x.
Proof. induction l as [|a r IH]; intros x [|i]; simpl; auto. Qed.

(* every hierarchy with plain tables, any number of fresh objects of any of its classes, any
   history of object operations and add_class_trait calls on any classes *)
Lemma global_law : forall hh objs ts i,
  (forall c, (c < length hh)%nat -> plain_t (tabs_nth (tables hh) c) = true) ->
  (forall j, (j < length objs)%nat -> (nth j objs O < length hh)%nat) ->
  tok hh objs (tables hh, map (fun _ => ([], [])) objs) hh ts ->
  law_hist_ta objs hh i (map (fun _ => l_init) objs)
              (run_t hh objs (tables hh, map (fun _ => ([], [])) objs) ts) = [].
Proof.
  intros hh objs ts i HP Ho Hok.
  apply (global_run_law hh objs ts _ _ _ hh (fun c => fst (tabs_nth (tables hh) c)) i); [|exact Hok].
  destruct (agree_all hh) as [_ HA].
  assert (II : forall c, (c < length hh)%nat ->
            Inv (fst (tabs_nth (tables hh) c)) (snd (tabs_nth (tables hh) c)) (init_state (fst (tabs_nth (tables hh) c))) l_init).
  { intros c Hc. pose proof (HP c Hc) as P. unfold plain_t in P. apply andb_true_iff in P. destruct P as [P1 P2].
    apply Inv_init; auto. }
  constructor.
  - apply tables_length.
  - reflexivity.
  - reflexivity.
  - apply map_length.
  - apply map_length.
  - intros j Hj. rewrite tables_length. apply Ho. exact Hj.
  - intros c Hc. rewrite tables_length in Hc. split.
    + cbn [snd]. rewrite <- surjective_pairing. apply (HA c).
    + apply (II c Hc).
  - intros j Hj. rewrite nth_const_map.
    replace (nth j (map (fun _ : nat => l_init) objs) l_init) with l_init by (symmetry; apply nth_const_map).
    apply (II _ (Ho j Hj)).
Qed.

(* tactics for concrete runs (after vm_compute): enumerate the classes / objects of a bounded
   quantifier *)
Ltac gfin :=
  intros;
  try match goal with X : ?a = ?a -> False |- _ => exfalso; apply X; reflexivity end;
  try discriminate; try reflexivity;
  try (split; let E := fresh "E" in intro E; try discriminate E; first [reach | unaff]).
Ltac genum :=
  let c := fresh "c" in let Hc := fresh "Hc" in
  intros c Hc; do 8 (destruct c as [|c]; [vm_compute; gfin|]); exfalso; vm_compute in Hc; lia.
Ltac gtok :=
  vm_compute;
  repeat match goal with
  | |- _ /\ _ => split
  | |- True => exact I
  | |- true = true => reflexivity
  | |- (_ <= _)%nat => lia
  | |- (_ < _)%nat => lia
  | |- forall _, _ => genum
  end.
